"""Regenerates /verif/MANIFEST.json from the table below and validates it (run with python3-vt for
the jsonschema check; plain python3 skips validation)."""
import json, os, sys
ROOT = os.path.dirname(os.path.dirname(os.path.abspath(__file__)))

NOTE_COMMON = ("Trusted: Lean 4.33 kernel; axioms per theorem subset of {propext, Classical.choice, Quot.sound} "
               "(printed into the evidence on every run, no native_decide, no sorry, no added axiom); the hand-written "
               "model is tied to /repo's working tree by the correspondence suite of the same run (exact-rational "
               "inputs, real TF code in-process vs the native Lean driver). Modelled, not verified: float rounding, "
               "TF kernels and tensor plumbing, Keras scheduling. ")

# property -> (technique, level text, design section, extra note)
CLAIMED = {
    "C02": ("Lean 4 theorems on an executable model of lattice_lib hypercube/simplex evaluation (hat/ramp Abel summation, "
            "tensor-product induction, sorted-walk induction) + differential correspondence of Lattice(...) and the lattice_lib "
            "functions vs the native Lean driver + independent numpy reference oracle",
            "Theorems (Props/C02.lean), all ranks/shapes/kernels/points: every code path of compute_interpolation_weights / "
            "batch_outer_operation is the row-major outer product of hat weights and the hypercube output equals iterated 1-D "
            "interpolation; vertex reproduction, convex weights, range bound, cell chord formula on closed cells, explicit Lipschitz "
            "bound and uniform epsilon-delta continuity across cells and simplex regions (Props/C02Lip.lean, C02_T6_*), "
            "all-pairs monotonicity along a monotone kernel axis, Edgeworth effect-monotonicity. Simplex: convex weights, sorted "
            "permutation, flat-index bridge (evalSimplex = walk over multi-indices, no out-of-bounds gather), agreement with "
            "hypercube on vertices and axis-parallel edges, tie-independence, range, and ALL-PAIRS monotonicity across ordering "
            "regions and cells (C02_T4_simplex_mono).",
            "4/C02", "Props/C02Accepted.lean restates the headline theorems for configurations accepted by the constructor model "
            "(sizes non-empty and >= 2 follow from acceptance); int32 cast range and float behaviour are outside the model. "),
    "C03": ("Lean 4 theorems on a model of the premade_lib builder decision logic (buildSpec: config -> layer graph) + abstract "
            "composite of arbitrary layer functions with exactly the per-layer properties (composition of monotone maps, weighted "
            "averages) + invariant over histories of arbitrary updates each followed by the constraints, instantiated with "
            "C01/C02/C04-C07/C20 + structural correspondence (walk of the real Keras graph of tfl.premade.* and hand-assembled "
            "stacks vs buildSpec through the native driver) + hostile real histories (random assignment x{1,10,100}, all-negative, "
            "SGD/Adam lr 50 via GradientTape and model.fit, set_weights on a fresh model) + pairwise monotonicity / bounds oracle",
            "Theorems (Props/C03.lean), all configs buildSpec accepts (calibrated linear / lattice, explicit, random and RTL "
            "ensembles, all-vertices / KFL, +/- output calibration, any feature mix / sizes / units), all histories of arbitrary "
            "updates from any start, all inputs: T1 every constraint establishes its invariant from any input (per layer kind: "
            "PWL, categorical, Lattice class A, KFL, Linear), T2 a constrained feature reaches the output only through monotone "
            "layers (structural lemma for all four graph shapes incl. the RTL structure for every pair of shuffles) hence the model "
            "is monotone in it for all pairs of non-missing points, T3 output within [output_min, output_max] incl. missing values.",
            "4/C03", "PARTIAL (C03_partial vs the unrestricted `def C03_full`): hypotheses = recorded findings, each with a "
            "counter-witness theorem: F-C03-a normalised Linear with all weights <= 0 (Nondegenerate), F-C03-b categorical pairs "
            "violated right after construction (history non-empty or no pairs), F-C03-d non-lowercase monotonicity strings in RTL "
            "ensembles and F-C03-e tuple-valued category pairs (SpelledCanonically); F-C03-c (fixed b13cb79) has a theorem on the "
            "fixed rule and a counter-witness on the old-rule variant. Layers are abstract functions with the per-layer "
            "properties: lattice blocks use C01 class A (no trapezoid trusts) + C02 hypercube (simplex all-pairs monotonicity is "
            "C02's open `def`), oracle-covered otherwise; that Keras re-applies constraints after every optimizer step is "
            "runtime behaviour exercised by the SGD/Adam/fit histories, not proved. "),
    "C11": ("AST translator -> literal Lean table -> decide +kernel obligations + generic round-trip theorem; exact correspondence "
            "of stored values via the driver; differential oracle on real from_config / Keras JSON / save-load at k in {0,1,5} steps",
            "Theorems (Props/C11.lean): a generic theorem (roundtrip) proves that any class whose get_config keys equal its "
            "constructor parameters, each read through an idempotent normaliser, round-trips through from_config to an equal "
            "config; its premises are RE-PROVED ON EVERY RUN over a table extracted from the current source of all 39 classes "
            "(table_rows_ok; the four premade models are the only exceptions: F-C11-d); the utils canonicalisers are idempotent and "
            "tuple/list-insensitive; seed-derived structures are functions of the config.",
            "4/C11", "PARTIAL: Keras composites (initializers.get/serialize, regularizer lists, nested configs) are idempotence "
            "hypotheses exercised on the real objects; h5/.keras/SavedModel machinery and crash points during save are runtime "
            "only; findings F-C11-d..h listed. "),
    "C16": ("small-domain cross-product translator -> pooled mixed-radix Lean table -> decide +kernel; stage-spec lemmas by "
            "inversion of the Except monad; real-layer exercise oracle keyed (layer, stage, exception, predicate)",
            "Theorems (Props/C16.lean): every verify_hyperparameters, the constructor checks around them and the canonicalisers "
            "are modelled as Raw -> Except Err Cfg; agreement with the REAL constructors is proved over 32 772 tabulated rows "
            "regenerated from /repo on every run (accept_*) and checked through the driver on ~2e5 more (thorough); accepted "
            "configurations have every index in range and every guard the projection models need (verifyLattice_cfgWF gives "
            "C01's CfgWF; PWL piece lengths > 0; ...); synonymous spellings canonicalise equally.",
            "4/C16", "`accepted => projection/evaluation total and finite` is proved per layer: acceptance yields every guard the "
            "projection/evaluation models need (CfgWF for C01, sizes != [], scalings != 0, lengths > 0, buckets >= 1, integer indices, acyclic "
            "categorical and linear pair sets via kahnAcyclic sound+complete) and the C02/C04/C06 *Accepted corollaries use them; not one "
            "single statement. Float32 representability of accepted hyperparameters is outside the rational model (pinned finding F-C16-v); "
            "remaining findings F-C16-f,h,m; 30 C16 defects fixed in /repo (known_findings.json `fixed`). "),
    "C04": ("Lean 4 theorems on an executable model of pwl_calibration_lib.project_all_constraints (Dykstra loop with last_change, "
            "finalisation, squeeze) + differential correspondence (PWLCalibrationConstraints, layer wiring, private stages) + oracle",
            "Theorems (Props/C04.lean), all kernels/sizes/positive spacings/iteration counts: result monotone exactly, within "
            "bounds in every configuration, convex/concave exactly with monotonicity or without bounds, feasible => unchanged, "
            "imputed missing output in bounds; the finalisation establishes these from ANY input; clamps are hit exactly at BOTH "
            "ends for iterations >= 1 without convexity (clamp_hit: Dykstra far-end invariant + mirror argument for decreasing); "
            "iterations = 0 is known finding F-C04-b with a counter-witness theorem; the driver op is proved to compute projectAll.",
            "4/C04", "clamp with convexity and convexity+bounds without monotonicity are the property's tolerated relaxations; "
            "Props/C04Accepted.lean derives the positivity of the piece lengths from acceptance (constraint class and layer). "),
    "C05": ("Lean 4 theorems (induction over piece lists: sum of clipped ramps = convex combination of cumulative sums) on an "
            "executable model of compute_interpolation_weights / PWLCalibration.call / CategoricalCalibration.call + differential "
            "correspondence of the real Keras layers + np.interp oracle",
            "Theorems (Props/C05.lean), all keypoint vectors/kernels/weights/inputs: output = PWL interpolation through the reported "
            "keypoints (value at nodes, linear between, constant outside, equal ends when cyclic), missing path, learned keypoints "
            "strictly ordered between the fixed ends for any positive weights summing to one, monotone/bounded outputs => "
            "monotone/bounded function, category lookup.",
            "4/C05", "softmax abstracted as arbitrary positive weights summing to 1; float32 softmax underflow is known finding F-C05-a. "),
    "C07": ("Lean 4 theorems on an executable model of KFL evaluation and kernel/scale constraints (histories as op lists) + "
            "differential correspondence on the real layer under random constraint histories + pairwise-monotonicity/bounds oracle",
            "Theorems (Props/C07.lean), all sizes/dims/terms/monotonicity subsets/bound modes: any interleaving of kernel and scale "
            "constraints (or finalize_constraints) from any finite kernel and scale yields outputs monotone in every increasing "
            "input and within bounds on the stated domain; old guard counter-witness (fixed F-C07-a).",
            "4/C07", "the dims-th root is an arbitrary factor r with r >= 1 and r^dims >= largest product (checked by the driver on "
            "the code's float32 factor); float32 layer, tolerance 1e-4. "),
    "C09": ("Lean 4 theorems on an explicit multi-unit model (units as trailing axis; index-set lemma + slice commutation for "
            "every strict stage, the Dykstra schedule and the whole LatticeConstraints.__call__; per-column lemmas for "
            "PWL/Linear/KFL) + exact-rational correspondence of the multi-unit model + real-vs-real differential (per-unit, unit "
            "permutation, row/batch) with x1/x100/x0.01 column magnitudes",
            "Theorems (Props/C09.lean), all configurations/unit counts/kernels: every multi-unit reduction and reshape named by the "
            "anchors acts on unit u exactly as the one-unit model of C01/C04/C06/C07 acts on the unit-u slice (finalize_per_unit, "
            "dykstra_per_unit, lattice_constraint_per_unit, pwl/linear/kfl per-unit lemmas); unit permutations follow. Row "
            "independence is structural in the model and established on the code by the real-vs-real tie for every layer kind, CDF, "
            "the functional forms, ParallelCombination, Aggregation, RTL and premade models.",
            "4/C09", "categorical, convexity stages and forward passes have no explicit-axis model: covered by the real-vs-real tie. "),
    "C10": ("Lean 4 theorems on executable initialiser models (linspace/valley/peak profiles, min/max of the outer sum, BFS "
            "level-order invariant for random-monotonic, reuse of C07 premises and C01/C12 fixpoint/acceptance lemmas) + "
            "exact-rational correspondence with recorded random draws + oracle on freshly built layers",
            "Theorems (Props/C10.lean), every size/rank/bound and every permutation/sample (hence every seed): lattice linear init "
            "is linear along monotone dims, valley/peak along unimodal dims, constant along the others with min = init_min, max = "
            "init_max; random-monotonic init is non-decreasing along every axis and in range; PWL initialisers (equal heights / "
            "slopes, decreasing); KFL init meets C07's premises; monotonicity+bounds-only constraint leaves the init unchanged and "
            "the C12 assert model accepts it.",
            "4/C10", "initial weights of layers outside the statement's list are known findings: F-C03-b (categorical pairs), "
            "F-C10-a/b/c (one-sided categorical bound, all-joint-unimodal lattice, Linear random_uniform), F-C10-d (lattice "
            "initialisers ignore trusts/dominances, so assert_constraints fails right after construction). "),
    "C14": ("Lean 4 theorems (sum/product exchange via C02's multilinear interpolant; list inductions on cumsum/diffs; row-major "
            "reshape arithmetic) on executable models reusing Kfl/LatticeEval/PwlEval + paired differential of the REAL callables + "
            "correspondence vs the native driver",
            "Theorems (Props/C14.lean), all sizes/terms/kernels/points and arbitrary softmax/sigmoid: KFL = Lattice on the dense "
            "kernel; pwl_calibration_fn = PWLCalibration on the derived keypoints/weights (fixed and learned_interior, missing, "
            "cyclic); cdf_fn = CDF.call for 'mean'/'none' with the sparsity gather explicit; ParallelCombination column-wise, "
            "Aggregation = per-example ragged mean, RTL = gather into its lattices.",
            "4/C14", "float32 paths compared at rtol 1e-4..1e-5; sigmoid CDF cases are real-vs-real only. "),
    "C15": ("Lean 4 theorems for ANY positive softmax-like / monotone [0,1] sigmoid-like function (reduction to C05 through C14), "
            "exact relu6 CDF model, geometric mean over the reals (Mathlib exp/log) + correspondence and clause-by-clause oracle "
            "on real pwl_calibration_fn / cdf_fn / CDF",
            "Theorems (Props/C15.lean): pwl_calibration_fn within [output_min, output_max] at every input, all-pairs monotone when "
            "increasing, exact clamp ends, cyclic ends, missing path, output_param_size bookkeeping for every mode, None interior "
            "parameters accepted; CDF / cdf_fn outputs in [0,1], geometric mean in [eps, 1+eps], monotone in every input for "
            "non-negative scaling; NonNeg constraint proved sufficient.",
            "4/C15", "input_min < input_max, >= 1 keypoint and sparsity_factor >= 1 now follow from acceptance (fixed F-C15-d/e, F-C14-a; "
            "C15_T2_*_int, C15_T3_bad_sparsity_rejected); float32 softmax underflow is F-C15-b; input_dim = 0 -> NaN (mean over an empty "
            "axis) is the pinned finding F-C15-f. "),
    "C12": ("Lean 4 iff-theorems (reduce_min/max <-> forall) on executable models of every assert_constraints + accept/reject "
            "differential on LP-generated feasible / single-violation / exact-threshold kernels",
            "Theorems (Props/C12.lean): accepts = true <-> every covered constraint has slack >= -eps, for categorical, linear "
            "(incl. order-2 norm without sqrt), PWL, all seven asserted lattice kinds incl. the trailing unit axis, KFL monotonicity "
            "and bounds (kfl_iff).",
            "4/C12", "multi-unit Linear/PWL/categorical/KFL are judged column-wise in the harness; coverage gaps of the real asserts "
            "(unimodality, KFL non-negativity, PWL convexity) are reported in evidence notes, not as violations. "),
    "C13": ("Lean 4 theorems over index-function tensors (reindexing by nodup bijection, List.Perm, induction) on code-shaped models "
            "of the regularizers + differential correspondence + numpy oracle of the documented formulas",
            "Theorems (Props/C13.lean), all shapes/units/amounts/kernels: lattice Laplacian/torsion (transpose, reshape, slices) "
            "equal the documented sums; PWL Laplacian/Hessian/wrinkle equal the l1/l2 norms of 1st/2nd/3rd differences incl. cyclic "
            "wrap-around; non-negativity, linearity in amounts, all vanishing sets; per-unit form for every units >= 1 "
            "(laplacian_per_unit, torsion_per_unit, pwl_*_per_unit): the multi-unit regularizer is the sum over units of the "
            "single-unit regularizer of each unit's slice / column.",
            "4/C13", "the per-unit `sum over units` form is proved (amounts with no entry on the units axis: scalars, lists of one "
            "entry per lattice dimension) and additionally evaluated by the driver on every case. "),
    "C17": ("Lean 4 theorems on executable models of _get_rtl_structure / random ensemble / pair cover / Crystals (randomness as "
            "explicit permutations) + differential correspondence with replayed permutations + oracle",
            "Theorems (Props/C17.lean), all sizes and ALL permutations/draws: RTL exact rank, every input used, usage counts differ "
            "by <= 1, monotone wiring and output label; random ensemble (rank, no repeats, coverage, conditional on success); "
            "(incl. totality under the code's preconditions); all-pairs cover complete with sizes <= rank; Crystals end to end "
            "(allocation assert, add list, greedy placement to exact rank, swap invariance: crystals_structure).",
            "4/C17", "zero-score (or float-absorbed-score) features are known finding F-C17-a (counter-witness theorem); a CONSTANT prefitting "
            "kernel makes the real score normalisation 0/0 (F-C17-b: found by the un-patched `crystals_real` stream; the scores are inputs "
            "of the Lean model, so that step is covered by the stream only); an RTL layer without inputs is outside the quantifier (model "
            "and code both refuse: rtl_no_inputs_raises); `no repeated feature inside a final "
            "Crystals lattice` is not claimed by the property and not proved (no counter-example in 2e5 real runs). "),
    "C18": ("Lean 4 theorems on an executable model of compute_keypoints / _weighted_quantile (half-even rounding with explicit "
            "tie directions) + differential correspondence on exact dyadic samples + oracle",
            "Theorems (Props/C18.lean), all samples/weights/tie directions: nearest-rank indices strictly increasing in range; "
            "unweighted and weighted quantiles end to end (k strictly increasing keypoints from the clipped sample, ends = "
            "extremes / clip bounds), repair loop spec, uniform mode, count clause.",
            "4/C18", "degenerate inputs (all-zero weights with k>2, all-default sample in uniform mode) are known findings F-C18-c/d; "
            "np.linspace/np.interp float ties are an explicit rounding-direction argument. "),
    "C19": ("Lean 4 theorems on the model of custom_reduce_prod's grad_fn + GradientTape correspondence with planted exact zeros + "
            "Jacobian oracle",
            "Theorems (Props/C19.lean): for every list and index and every zero pattern the gradient factor equals the product of "
            "the other entries and is the exact difference quotient of the product; the hypercube and simplex Lattice outputs, "
            "the PWLCalibration output and the categorical output of the REAL evaluation models are dot(weights(x), kernel) with "
            "kernel-independent weights (non-negative, summing to one for Lattice; one-hot for categorical), with exact "
            "difference quotients in every kernel entry.",
            "4/C19", "Props/C19Deriv.lean adds Mathlib's analytic form: HasDerivAt per coordinate / HasFDerivAt for the whole gradient "
            "of the plain real product = gradFactors (every zero pattern), and HasDerivAt of every kernel entry = interpolation "
            "weight for hypercube, simplex, PWL and categorical outputs, also for ANY continuous real extension of the rational "
            "model; TF autodiff itself is exercised by the GradientTape correspondence. "),
    "C20": ("Lean 4 theorems (structural induction on dot/clip) on the model of Linear.call + differential correspondence of the "
            "real float64 layer + consequence oracles on constrained kernels",
            "Theorems (Props/C20.lean), all kernels/bounds/inputs: output = bias + sum k_i*clip(x_i); clip monotone and in bounds; "
            "k_i >= 0 (<= 0) => non-decreasing (non-increasing) in x_i for all pairs; monotonic dominance per unit step, range "
            "dominance across full ranges, weighted average for norm-1 non-negative weights; composition with C06's constraint theorems.",
            "4/C20", "monotonic dominance needs the four compared inputs unclipped. "),
    "C01": ("Lean 4 theorems on an executable model of lattice_lib.finalize_constraints / project_by_dykstra / "
            "LatticeConstraints.__call__ + differential correspondence (finalize_constraints, LatticeConstraints, "
            "Lattice.finalize_constraints) + oracle",
            "Theorems (Props/C01.lean): for every rank, size vector, monotonicity set, bounds and EVERY input kernel (arbitrary "
            "Dykstra output, any iteration count), finalize+clip returns a kernel monotone along every monotone axis, meeting "
            "every Edgeworth and trapezoid inequality and the bounds, for every accepted configuration in the class H_trap "
            "(C01_strict_mixed_class: any Edgeworth trusts of either direction, any trapezoid trusts matching or not, "
            "trapezoid conditional axes free and pairwise distinct when Edgeworth trusts are present, or rank 2); classes "
            "A (Edgeworth only), B (trapezoid only, shared conditionals allowed), C1 are separate theorems; all transported to "
            "the executable table model by per-step locality (finalizeT_agree, C01_exec_*). Outside H_trap the property is "
            "false on the current tree: counter-witness theorem C01_counter_witness = known finding F-C01-a.",
            "4/C01", "C01_full (all configurations) stays a `def : Prop`: with Edgeworth trusts present a monotone trapezoid "
            "conditional axis in rank >= 3 is F-C01-a and shared conditional axes are the documented exception; the Dykstra "
            "part of feasible=>unchanged is C08's theorem. "),
    "C08": ("Lean 4 model of project_by_dykstra (all group projections + schedule) + differential correspondence per family and "
            "combined + fixpoint / convergence / QP-nearest-point oracle (scipy SLSQP)",
            "Theorems (Props/C08.lean): feasible/fixed kernels are returned unchanged by the Dykstra loop with all "
            "roll-back tensors zero for EVERY iteration count (dykstra_fixpoint, monoGroup_fix); the telescoping invariant "
            "w - sum(last_change) holds along every pass for ANY group maps; every stencil map (pair, 2x2 square, both triangles, "
            "range quadruple and corner) lands in its half-space, fixes it and satisfies the variational inequality, i.e. is the "
            "exact Euclidean projection; on the EXECUTABLE table loop: every group map is local, a kernel feasible for all "
            "configured families (FeasibleD) is returned unchanged for every iteration count (projectByDykstraT_feasible), "
            "re-projection is idempotent on fixed points, telescoping invariant, table loop = function loop on the box. "
            "CONVERGENCE (Boyle-Dykstra) is PROVED: Lemmas/DykstraConv.lean (abstract theorem in a finite-dimensional real inner "
            "product space for maps that land in closed sets and satisfy the variational inequality), DykstraConvBox.lean "
            "(rational model loop = restriction of the real one), DykstraConvStencil.lean + Props/C08.lean: every group map of "
            "monotonicity, unimodality, Edgeworth, trapezoid, monotonic dominance, joint monotonicity and JOINT UNIMODALITY "
            "(Model: juStencil / hyperplaneGroup, one group per (vertex, offsets) hyperplane in the real loop's order; "
            "Lemmas/JointUnimod.lean juStencil_ok, Lemmas/DykstraConvHyper.lean hyperplaneGroup_lands/_fix/_vi, hsP_* for any "
            "coefficient vector a != 0) IS the Euclidean projection onto its feasible set (key_lands, key_vi); dykstra_cfg_converges / projectByDykstraT_cfg_converges: for "
            "every such configuration and every kernel the iterates (function-level and executable table loop) converge to the "
            "Euclidean-nearest feasible kernel, the violation tends to 0. ", "4/C08", "PARTIAL: range dominance is outside the convergence theorem (the property does not claim a nearest-point limit for it; its corner map is proved NOT to be a Euclidean projection, rangeDom_corner_not_projection) and is tested against scipy SLSQP / violation -> 0 each run; the RATE of convergence (how many iterations the strict layer constraint needs) and the PWL iterative projection's limit are covered by the oracle here and by C04's model. "),
    "C06": ("Lean 4 theorems on an executable model of linear_lib.project / categorical project / "
            "internal_utils partial-order projection + differential correspondence against the real constraints",
            "Theorems (Props/C06.lean): categorical pairs+bounds+fixpoint; Linear sign clip, monotonic-dominance and range-dominance stages establish every pair and keep signs (non-zero scalings), normalisation keeps all and gives unit 1-norm, feasible=>unchanged; for every weight "
            "vector and every ACYCLIC pair set: the modelled _topological_sort is proved to return a valid order for "
            "acyclic graphs with the code's fuel (Lemmas/TopoSort.lean: DFS invariants, topoSort_valid, "
            "topoSort_some_of_nonempty; *_acyclic corollaries).",
            "4/C06", "Props/C06Accepted.lean: for configurations accepted by the constructor model the hypotheses `all scalings != 0`, "
            "`Acyclic`, `dominance dimensions monotone` are theorems (after fixes 44c9e89, 2ef7ec2, 1f0b06a, 66006cc in /repo). "),
}
PENDING_REASON = "check not built yet in this round (design in DESIGN.md section 4); will be claimed when its model, theorems and correspondence exist"


def fix_commits():
  """Unguarded `fix:` commits in /repo on top of the pinned snapshot (hash + subject)."""
  import subprocess
  try:
    out = subprocess.check_output(["git", "-C", "/repo", "log", "--reverse", "--format=%h %s", "fad4c36..HEAD"]).decode()
    return [l for l in out.strip().split("\n") if l]
  except Exception:
    return []


def main():
  props = [json.loads(l)["id"] for l in open(os.path.join(ROOT, "properties.jsonl"))]
  checks, na = [], []
  for p in props:
    if p in CLAIMED:
      tech, text, ref, extra = CLAIMED[p]
      checks.append({
          "property_id": p,
          "quick_cmd": "./check %s --tier quick" % p,
          "thorough_cmd": "./check %s --tier thorough" % p,
          "evidence_file": "evidence/%s.json" % p,
          "replay_cmd_template": "./check %s --replay {path}" % p,
          "engine": "lean-model+correspondence",
          "level_claimed": {"category": "proof", "text": text, "design_ref": "DESIGN.md " + ref},
          "level_note": NOTE_COMMON + extra,
          "technique": tech,
      })
    else:
      na.append({"property_id": p, "reason": PENDING_REASON})
  m = {
      "version": 1,
      "setup_cmd": "cd lean && lake build",
      "hooks": {
          "guard": "TENSORFLOW_LATTICE_VERIF",
          "enable": "no hooks are needed: every check drives public entry points of tensorflow_lattice imported from /repo in-process (the guard name is reserved)",
          "baseline_off_cmd": "cd /repo && /venv/bin/python -m pytest -ra -q -p no:cacheprovider --timeout=900 --continue-on-collection-errors",
          "source_commits": fix_commits(),
          "add_only": True,
      },
      "engines": [{
          "name": "lean-model+correspondence", "path": "lean/ + harness/",
          "serves_properties": sorted(CLAIMED),
          "kind_free_text": "Lean 4 executable model with machine-checked property theorems (lake project lean/, native line-protocol driver) tied to /repo by a differential correspondence harness (harness/, /venv/bin/python, real TF code in-process)",
      }],
      "checks": checks,
      "not_applicable": na,
      "notes": "See DESIGN.md. ./check <id> --tier quick|thorough ; exit 0 clean, 1 VIOLATION, 2 infrastructure.",
  }
  try:
    sys.path.insert(0, ROOT)
    from harness.manifest_extra import patch  # optional
    patch(m)
  except ImportError:
    pass
  json.dump(m, open(os.path.join(ROOT, "MANIFEST.json"), "w"), indent=1)
  try:
    import jsonschema
    jsonschema.validate(m, json.load(open("/root/.vp/MANIFEST.schema.json")))
    print("MANIFEST.json valid;", len(checks), "checks,", len(na), "not_applicable")
  except ImportError:
    print("MANIFEST.json written (jsonschema not available: not validated)")


if __name__ == "__main__":
  main()
