"""Regenerates /verif/MANIFEST.json from the table below and validates it (run with python3-vt for
the jsonschema check; plain python3 skips validation)."""
import json, os, sys
ROOT = os.path.dirname(os.path.dirname(os.path.abspath(__file__)))

NOTE_COMMON = ("Trusted: Lean 4.33 kernel; axioms per theorem subset of {propext, Classical.choice, Quot.sound} "
               "(printed into the evidence on every run, no native_decide, no sorry, no added axiom); the hand-written "
               "model is tied to /repo's working tree by the correspondence suite of the same run (exact-rational "
               "inputs, real TF code in-process vs the native Lean driver). Modelled, not verified: float rounding, "
               "TF kernels and tensor plumbing, Keras scheduling. ")

# property -> (technique, level text, design section, extra note)
CLAIMED = {
    "C02": ("Lean 4 theorems on an executable model of lattice_lib hypercube/simplex evaluation (hat/ramp Abel summation, "
            "tensor-product induction, sorted-walk induction) + differential correspondence of Lattice(...) and the "
            "lattice_lib functions vs the native Lean driver + independent numpy reference oracle",
            "Theorems (Props/C02.lean, C02Cell, C02Trust, C02Lip, C02Accepted, C02Outside), all ranks/shapes/kernels and all "
            "in-range or clipped points: every code path of compute_interpolation_weights / batch_outer_operation is the "
            "row-major outer product of hat weights and the hypercube output equals iterated 1-D interpolation; vertex "
            "reproduction, convex weights supported on the 2^rank corners of the cell containing the point "
            "(C02_T2_cell_corners, C02_T2_weights_vanish_off_cell), range bound, cell formula, explicit Lipschitz bound and "
            "uniform epsilon-delta continuity across cells and simplex regions (C02_T6_*), all-pairs monotonicity along a "
            "monotone kernel axis, Edgeworth effect for arbitrary distinct axes and both trust directions "
            "(C02_T5_edgeworth_axes, C02_T5_edgeworth_axes_neg). Simplex: convex weights, flat-index bridge (no out-of-bounds"
            " gather), output over the rank+1 chain vertices of the same cell (C02_T3_simplex_cell_vertices), agreement with "
            "hypercube on vertices and axis-parallel edges, tie-independence, range, ALL-PAIRS monotonicity across ordering "
            "regions and cells (C02_T4_simplex_mono). Props/C02Accepted.lean restates the headline theorems for "
            "configurations accepted by the constructor model.",
            "4/C02",
            "Explicit exclusion: clip_inputs=False with a coordinate out of range has no containing cell and is outside the "
            "property; Props/C02Outside.lean proves by counter-witness (*_needs_defined, outside_forms_differ) that the "
            "hypothesis `Defined` cannot be dropped, the class is generated and compared model-vs-real. int32 cast range and "
            "float behaviour are outside the model. "),
    "C03": ("Lean 4 theorems on a model of the premade_lib builder decision logic (buildSpec: config -> layer graph) + "
            "abstract composite of arbitrary layer functions with exactly the per-layer properties (composition of monotone "
            "maps, weighted averages) + invariant over histories of arbitrary updates each followed by the constraints, "
            "instantiated with C01/C02/C04-C07/C20 + structural correspondence (walk of the real Keras graph of tfl.premade.*"
            " and hand-assembled stacks vs buildSpec through the native driver) + hostile real histories (random assignment "
            "x{1,10,100}, all-negative, SGD/Adam lr 50 via GradientTape and model.fit, set_weights on a fresh model) + "
            "pairwise monotonicity / bounds oracle",
            "Theorems (Props/C03.lean, C03System.lean, C03Init.lean): T1 every constraint establishes its invariant from any input, T2 in "
            "every graph buildSpec returns a constrained feature reaches the output only through monotone layers (all four "
            "shapes incl. RTL for every pair of shuffles), T3 output bounds incl. missing values. C03System instantiates the "
            "abstract System for EVERY layer graph (systemOf): the step relation is the models of the real constraint objects"
            " (PWL, categorical, strict Lattice finalisation + clip on the executable table model, KFL in any order, Linear "
            "with dominances and L1 normalisation), obligations establishes_all / sound_all / init_sound_all proved from C01 "
            "(class H_trap), C02 (hypercube and simplex), C04, C05, C06, C07, C20. C03_systemOf: for every config with "
            "buildSpec ok, layersAccept and trapClass, every initial state InitInv and every history of arbitrary updates "
            "each followed by the constraints, the CONCRETE composite forward g (realise g P w) is monotone in every "
            "constrained feature for all pairs of non-missing points and, under Nondegenerate, within the output bounds at "
            "every input incl. missing; C03_systemOf_any_start (after one step from ANY weights), C03_feasible_weights "
            "(weights as data), shape corollaries C03_calibrated_linear / _lattice / C03_ensemble_explicit / _rtl. "
            "C03Init: InitInv is DERIVED from C10's initializer models: per layer kind the initializer premade_lib passes "
            "gives the component of InitInv (pwl_fresh_feas, cat_fresh_init, lat_fresh_feas, rtl_fresh_feas, kfl_fresh_feas, "
            "lin_fresh_ok, out_fresh_feas), fresh_initInv for the freshly built state fresh g P D (buildSpec_shape proves the"
            " shape facts), C03_from_fresh_model / C03_from_fresh_model_config (ranges as _output_range computes them): every"
            " accepted spec, every history starting at the INITIALIZED state, no hypothesis on the initial weights; "
            "C03_fresh_model_itself (n = 0).",
            "4/C03",
            "PARTIAL (`def C03_full` stays false): hypotheses beyond acceptance are exactly the recorded exclusions: "
            "trapClass (H_trap of C01; its complement contains F-C01-a, pinned for C03 too), Nondegenerate (F-C03-a), history"
            " non-empty or no categorical pairs (F-C03-b), RtlDraws (shuffles are permutations). layersAccept refuses a "
            "duplicated identical Edgeworth trust (accepted by the real check; not generated). Hypotheses of "
            "C03_from_fresh_model(_config) that remain: InitRange / OutInitOk (the user's output_initialization inside "
            "[output_min, output_max], ascending under output calibration; outside lies the pinned known finding F-C03-g: "
            "out_of_range_init_violates, descending_output_initialization_violates, reproduced on the real code and generated "
            "on every run by the stream fresh_output_init, whose controls inside the bounds must hold) and FreshOk "
            "(facts about the draws; LinWF of the all-vertices blocks' axis lists, which layersAccept does not carry: proved "
            "from acceptance when no feature is unimodal, latWF_of_config); middle lattices of aggregate-function models are "
            "not covered; softmax rows and KFL root factors are data of the step relation;"
            " the numeric tie pm.forward compares the composite with the real model after every history; that Keras "
            "re-applies constraints after every optimizer step is runtime behaviour exercised by the histories. "),
    "C11": ("AST translator -> literal Lean table -> decide +kernel obligations + generic round-trip theorem; exact "
            "correspondence of stored values via the driver; differential oracle on real from_config / Keras JSON / save-load"
            " at k in {0,1,5} steps",
            "Theorems (Props/C11.lean, C11Seed.lean, C11Rebuild.lean): a generic theorem (roundtrip) proves that any class "
            "whose get_config keys equal its constructor parameters, each read through an idempotent normaliser, round-trips "
            "through from_config to an equal config; its premises are RE-PROVED ON EVERY RUN over a table extracted from the "
            "current source of all 39 classes (table_rows_ok; the four premade models are the only exceptions: F-C11-d; the "
            "eight _Config rows are derived from the AST of the real base class); the utils canonicalisers are idempotent and"
            " tuple/list-insensitive. Seed-derived structure: with an integer stored random_seed the RTL structure is a "
            "function of (stored config, input shapes) for ANY generator and independent of the state of the process at the "
            "build (rtl_rebuild_structure), so a rebuilt layer with the original weights returns identical outputs "
            "(rtl_rebuild_outputs); the hypothesis cannot be dropped at model level (rtl_seed_none_not_a_function). Rebuild "
            "re-verifies: the values Lattice.__init__ / Linear.__init__ store are accepted again with the same result "
            "(latticeLayer_rebuild_accepted, linearLayer_rebuild_accepted).",
            "4/C11",
            "PARTIAL: fromConfig models key passing only (`succeeds` in roundtrip means exactly that); re-running "
            "verify_hyperparameters at the rebuild is proved for the two normalising layers and exercised on the real objects"
            " for every class; Keras composites (initializers.get/serialize, regularizer lists, nested configs) are "
            "idempotence hypotheses exercised on the real objects; h5/.keras/SavedModel machinery and crash points during "
            "save are runtime only; NumPy's generator is a parameter of the seed theorems; rtl_structure_deterministic / "
            "random_ensemble_deterministic are congruences. Known findings F-C11-d (premade dtype), F-C11-g; "
            "F-C11-a/b/c/e/f/h and F-C11-i (random_seed=None gave a different structure at every build; 3372acf stores a "
            "drawn seed) are fixed in /repo. "),
    "C16": ("small-domain cross-product translator -> pooled mixed-radix Lean table -> decide +kernel; stage-spec lemmas by "
            "inversion of the Except monad; real-layer exercise oracle keyed (layer, stage, exception, predicate)",
            "Theorems (Props/C16.lean, C16Full.lean): every verify_hyperparameters, the constructor checks around them and "
            "the canonicalisers are modelled as Raw -> Except Err Cfg, including the arguments the constructors only store "
            "(units, num_projection_iterations, split_outputs, normalization_order, the constraint arguments of "
            "Lattice.__init__, KFL sizes); agreement with the REAL constructors is proved over 64 693 tabulated rows (18 "
            "tables) regenerated from /repo on every run (accept_*) and checked through the driver on ~2e5 more (thorough); "
            "accepted configurations have every index in range and every guard the projection models need "
            "(verifyLattice_cfgWF gives C01's CfgWF; PWL piece lengths > 0; dominance pairs name two different dimensions: "
            "verifyLattice_pairs_distinct; ...); the stored arguments are verified: units_verified, iterations_verified, "
            "normOrder_verified (the guard of tf.norm in the first projection passes), kflInteger_verified, "
            "emptyTuple_accepted; layer => library bridges latticeBuild_verify (whatever Lattice.__init__ + build accepts is "
            "an accepted verifyLattice of the wrapped arguments), kflBuild_ok; synonymous spellings canonicalise equally "
            "(lattice, PWL, linear, KFL, categorical pairs, RTL regularisers).",
            "4/C16",
            "`accepted => projection/evaluation total and finite` is proved per layer: acceptance yields every guard the "
            "projection/evaluation models need (CfgWF for C01, sizes != [], scalings != 0, lengths > 0, buckets >= 1, integer"
            " indices, acyclic categorical and linear pair sets via kahnAcyclic sound+complete) and the "
            "C01/C02/C04/C05/C06/C08/C09/C10 *Accepted corollaries use them; not one single statement. The tables tabulate "
            "the CONSTRUCTOR outcome; the first use (build, first projection) is observed on the real layers. "
            "premade_lib.verify_config is modelled on a typed description whose Python-side classification is trusted. "
            "Float32 representability of accepted hyperparameters is outside the rational model (pinned finding F-C16-v); "
            "remaining findings F-C16-f, m; the C16 defects fixed in /repo (incl. F-C16-af/ag/ah/ai/aj/ak of the statement "
            "audit: units, num_projection_iterations, normalization_order = F-C06-b, KFL integers, empty tuples, (d, d) pairs"
            " = F-C08-c) are listed in known_findings.json `fixed`. "),
    "C04": ("Lean 4 theorems on an executable model of pwl_calibration_lib.project_all_constraints (Dykstra loop with "
            "last_change, finalisation, squeeze) + differential correspondence (PWLCalibrationConstraints, layer wiring, "
            "private stages) + oracle",
            "Theorems (Props/C04.lean, C04Accepted.lean), all kernels/sizes/positive spacings/iteration counts: result "
            "monotone exactly, within bounds in every configuration, convex/concave exactly with monotonicity or without "
            "bounds, feasible => unchanged; the finalisation establishes these from ANY input; clamps are hit exactly at BOTH"
            " ends for iterations >= 1 without convexity (clamp_hit); iterations = 0 is known finding F-C04-b with a "
            "counter-witness theorem; the driver op is proved to compute projectAll. Totality (projectAll_ok_iff; "
            "layer_returns_iff / constraints_returns_iff): for an accepted configuration and a kernel of the built shape the "
            "projection returns iff no clamp is requested without monotonicity (F-C16-m), ValueError otherwise; the headline "
            "theorems are restated as `exists out, projectAll = ok out and clauses` (constraints_total_*, layer_total_*). "
            "Missing output: learned => in bounds; fixed => returned verbatim, in the bounds iff the value is "
            "(missing_output_fixed_is_value).",
            "4/C04",
            "clamp with convexity and convexity+bounds without monotonicity are the property's tolerated relaxations; AllPos "
            "and CfgOk follow from acceptance (constraint class and layer); a fixed missing_output_value outside the bounds "
            "is accepted by design (upstream tests expect it back), so `imputed missing output within the bounds` is claimed "
            "for the learned output and for fixed values chosen inside the bounds. "),
    "C05": ("Lean 4 theorems (induction over piece lists: sum of clipped ramps = convex combination of cumulative sums) on an"
            " executable model of compute_interpolation_weights / PWLCalibration.call / CategoricalCalibration.call + "
            "differential correspondence of the real Keras layers + np.interp oracle",
            "Theorems (Props/C05.lean, C05Accepted.lean), all keypoint vectors/kernels/weights/inputs: output = PWL "
            "interpolation through the reported keypoints (value at nodes, linear between, constant outside, equal ends when "
            "cyclic), missing path, learned keypoints strictly ordered between the fixed ends for any positive weights "
            "summing to one, monotone/bounded outputs => monotone/bounded function, category lookup; multi-unit calls "
            "(callUnits_entries, callUnits_per_unit_missing, split_outputs_columns), categorical units and monotonicity along"
            " every listed pair (categorical_monotone_pairs). C05Accepted: accepted => keypoints exist, >= 2, strictly "
            "increasing (accepted_keypoints); Built (accepted configuration + build() shapes + softmax row) => PwlEval.WF "
            "(built_wf); the headline theorems with Built as the only hypothesis (accepted_interpolation, accepted_monotone, "
            "accepted_bounded, accepted_layer_bounded, ...); accepted_categorical.",
            "4/C05",
            "softmax abstracted as arbitrary positive weights summing to 1 (Built.softmax); float32 softmax underflow is "
            "known finding F-C05-a. "),
    "C07": ("Lean 4 theorems on an executable model of KFL evaluation and kernel/scale constraints (histories as op lists) + "
            "differential correspondence on the real layer under random constraint histories + pairwise-monotonicity/bounds "
            "oracle",
            "Theorems (Props/C07.lean, C07Fix.lean, C07Shape.lean), all sizes/dims/terms/monotonicity subsets/bound modes: premises => output monotone in"
            " every increasing input and within bounds (output_monotone, output_bounded). Schedule classes proved: (i) any "
            "run ending in a pure constraint tail containing both calls, from any finite kernel and scale "
            "(constraints_any_order_establish_premises, finalize_constraints_establishes_premises); (ii) ANY run of raw "
            "updates and constraint calls (premises_after_any_run, layer_after_any_run): bounds hold whenever each constraint"
            " ran after its variable's last raw update, monotonicity whenever no term's scale went to the opposite non-zero "
            "sign after the kernel constraint read it, and this condition is tight (sign_condition_tight); (iii) Keras "
            "training: after EVERY complete optimizer step, per-variable or batched, both clauses hold "
            "(keras_training_monotone_and_bounded). Old guard counter-witness (fixed F-C07-a). Feasible => unchanged "
            "(Props/C07Fix.lean): kfl_feasible_fixed (KOk per term + a zero-scale term has a zero block + exact root factor,"
            " with SOk: kernel and scale constraint return the pair unchanged), kfl_feasible_fixed_runs "
            "(finalize_constraints() and every pure constraint run); both side conditions necessary (zero_scale_not_fixed, "
            "as the real code; loose_root_not_fixed, model-only); kfl_feasible_accepted (KOk and SOk => the KFL assert model"
            " accepts at eps = 0). Shape preservation (Props/C07Shape.lean; Shaped = kernel terms x dims x ls, scale terms): "
            "kernelConstraint_shape, scaleConstraint_length, runOps_shaped (EVERY run of raw updates of the variable's shape "
            "and constraint calls), finalizeConstraints_shaped, runValid_shaped, validRun_shaped, keras_training_shaped, "
            "init_shaped, all sizes incl. 0; side conditions = what the real code guarantees (len(monotonicities) >= dims "
            "when some dimension is monotone, one root factor per term), tight in the model (short_roots_truncate_terms, "
            "short_monotonicities_truncate_dims).",
            "4/C07",
            "The property as quantified over ALL orders of updates and constraints is FALSE for the code: PropertyAllOrders "
            "is kept as a def with property_all_orders_false; kernel constraint, then a raw scale update to the opposite "
            "sign, then the scale constraint is the pinned known finding F-C07-c (counter-witness theorems, generated every "
            "run). The dims-th root is an arbitrary factor r with r >= 1 and r^dims >= largest product (checked by the driver"
            " on the code's float32 factor); `unchanged` needs the exact root (rootOk is only an inequality) and a zero "
            "block under a zero scale; float32 layer, tolerance 1e-4. "),
    "C09": ("Lean 4 theorems on an explicit multi-unit model (units as trailing axis; index-set lemma + slice commutation for"
            " every strict stage, the Dykstra schedule and the whole LatticeConstraints.__call__; per-column lemmas for "
            "PWL/Linear/KFL) + exact-rational correspondence of the multi-unit model + real-vs-real differential (per-unit, "
            "unit permutation, row/batch) with x1/x100/x0.01 column magnitudes",
            "Theorems (Props/C09.lean, C09Units.lean, C09Accepted.lean, C09Slots.lean), all configurations/unit counts/kernels: every "
            "multi-unit reduction and reshape named by the anchors acts on unit u exactly as the one-unit model of "
            "C01/C04/C06/C07 acts on the unit-u slice (finalize_per_unit, dykstra_per_unit, lattice_constraint_per_unit, "
            "pwl/linear/kfl per-unit lemmas); unit permutations follow. Against the executables: finalizeUT_per_unit (the "
            "executable multi-unit finalisation at unit u = the executable one-unit finalizeT of column u), "
            "lattice_constraint_per_unit_exec (unit u of LatticeConstraints.__call__ = the driver's latticeConstraintT on "
            "column u), pwl_callUnits_per_unit; accepted_cfgShape, "
            "accepted_dcfgWF, accepted_finalizeUT_per_unit. The Dykstra table/function tie hdyk is no longer a hypothesis "
            "(Props/C09Slots.lean): projectByDykstraT_agree_positional proves it without repeated dict keys "
            "(lattice_constraint_per_unit_exec_nodup / _noRepeats), hdyk_fails_on_repeated_tuple shows it false for a "
            "repeated tuple; lattice_constraint_per_unit_exec_slotted: unit u of the slot-keyed multi-unit model constraintUS"
            " = latticeConstraintT on column u for EVERY DCfgWF configuration, no tie hypothesis; "
            "accepted_lattice_constraint_per_unit_exec: the same from verifyLattice = ok alone (accepted_dcfgWF_toDCfg). Row "
            "independence is structural in the model and established on "
            "the code by the real-vs-real tie for every layer kind, CDF, the functional forms, ParallelCombination, "
            "Aggregation, RTL and premade models.",
            "4/C09",
            "The full PWL / Linear / Categorical constraints and the Linear / Categorical / Lattice forward passes are "
            "column-wise multi-unit models whose per-unit theorems are definitional: their content is the correspondence "
            "(un.pwlfull incl. the units-dependent convexity reshape, un.linfull, un.catfull). Model/Units.lean keeps the "
            "POSITIONAL Dykstra loop (constraintU): the right multi-unit model only without repeated constraint tuples "
            "(constraintUS_eq_constraintU; false otherwise: hdyk_fails_on_repeated_tuple); the slot-keyed constraintUS "
            "(Lemmas/UnitsDykstraSlots.lean) covers every configuration. Both are function-level models (no driver op runs a "
            "multi-unit Dykstra loop): tied to the real multi-unit call through the per-unit theorem + the one-unit "
            "correspondence lat.constraint + the real-vs-real per-unit suites. KFL full constraint per unit is an index "
            "identity only. "),
    "C10": ("Lean 4 theorems on executable initialiser models (linspace/valley/peak profiles, min/max of the outer sum, BFS "
            "level-order invariant for random-monotonic, reuse of C07 premises and C01/C12 fixpoint/acceptance lemmas) + "
            "exact-rational correspondence with recorded random draws + oracle on freshly built layers",
            "Theorems (Props/C10.lean, C10Constraint.lean, C10Pwl.lean, C10Accepted.lean, C07Fix.lean), every size/rank/bound and every "
            "permutation/sample (hence every seed): lattice linear init is linear along monotone dims, valley/peak along "
            "unimodal dims, constant along the others with min = init_min, max = init_max; random-monotonic init is "
            "non-decreasing along every axis, in range and total for every valid shuffle list (random_monotonic_init_total); "
            "PWL initialisers; KFL init meets C07's premises for any range 0 <= init_min "
            "(kfl_init_explicit_range_meets_C07_premises). The initial kernel is a FIXED POINT of the whole "
            "latticeConstraintT (Dykstra included, both modes, every iteration count, any range inside the bounds): "
            "linear_init_is_fixpoint_of_constraint (incl. valley/peak dimensions), "
            "random_monotonic_init_is_fixpoint_of_constraint (no unimodality); PWL: pwl_equal_heights_is_fixpoint, "
            "pwl_equal_slopes_is_fixpoint; the C12 assert model accepts the lattice inits; accepted_linWF, "
            "accepted_linear_init_is_fixpoint from constructor acceptance. KFL (Props/C07Fix.lean): the initial (kernel, "
            "scale), every draw, default range or any [a, b] with 0 <= a (b <= 1 with both bounds), is a fixed point of the "
            "kernel constraint, the scale constraint and finalize_constraints() (kfl_init_fixed, kfl_init_fixed_range) and "
            "is accepted by the KFL assert model at eps = 0 (kfl_init_accepted, kfl_init_accepted_range).",
            "4/C10",
            "Known findings: F-C03-b (categorical pairs), F-C10-a/b/c (one-sided categorical bound, all-joint-unimodal "
            "lattice, Linear random_uniform), F-C10-d (lattice initialisers ignore trusts/dominances), F-C10-e (an explicit "
            "initialisation range outside the output bounds is accepted: explicit_range_outside_bounds_violates), F-C10-f "
            "(negative KFL initialisation range: kfl_negative_range_not_monotone). KFL fixed point and acceptance of the "
            "initial (kernel, scale) are proved for one unit block (units are independent, C09) with the root factor 1 that "
            "tf.pow(1.0, 1/dims) returns; PWL acceptance by the C12 assert model is not instantiated. "),
    "C14": ("Lean 4 theorems (sum/product exchange via C02's multilinear interpolant; list inductions on cumsum/diffs; "
            "row-major reshape arithmetic) on executable models reusing Kfl/LatticeEval/PwlEval + paired differential of the "
            "REAL callables + correspondence vs the native driver",
            "Theorems (Props/C14.lean), all sizes/terms/kernels and arbitrary softmax/sigmoid: KFL = Lattice on the dense "
            "kernel for both input forms of the Lattice, for in-range or clipped inputs (false otherwise: "
            "C14_T1_needs_in_range); pwl_calibration_fn = PWLCalibration on the derived keypoints/weights (fixed and "
            "learned_interior, missing, cyclic), the paired layer exists iff not (cyclic and two keypoints) "
            "(C14_T2_paired_layer_buildable_iff); cdf_fn = CDF.call for 'mean'/'none' with the sparsity gather explicit, "
            "sparsity_factor >= 1 from acceptance; ParallelCombination column-wise, Aggregation = per-example ragged mean, "
            "RTL = gather into its lattices.",
            "4/C14",
            "float32 paths compared at rtol 1e-4..1e-5; sigmoid CDF cases are real-vs-real only; geometric mean excluded by "
            "the property. Documented `no paired object` exclusions: unclipped out-of-range inputs (as C02), cyclic PWL with "
            "two keypoints (the layer's build refuses: the harness requires that ValueError), keypoints collapsed by float "
            "softmax underflow. "),
    "C15": ("Lean 4 theorems for ANY positive softmax-like / monotone [0,1] sigmoid-like function (reduction to C05 through "
            "C14), exact relu6 CDF model, geometric mean over the reals (Mathlib exp/log) + correspondence and "
            "clause-by-clause oracle on real pwl_calibration_fn / cdf_fn / CDF",
            "Theorems (Props/C15.lean): pwl_calibration_fn within [output_min, output_max] at every non-missing input and at "
            "every input when the missing output is derived (C15_T1_bounded_calibrated, C15_T1_bounded_derived_missing), a "
            "fixed missing_output_value returned verbatim (C15_T1_fixed_missing_exact), all-pairs monotone when increasing, "
            "exact clamp ends, cyclic ends, missing path, output_param_size bookkeeping for every mode; call-level clauses "
            "through pwlFnRow_entries (C15_T1_call_*); the accepted call forms as an iff (C15_T3_accepted_iff, "
            "C15_T3_documented_output_forms: every rejection a ValueError); CDF / cdf_fn outputs in [0,1], geometric mean in "
            "[eps, 1+eps], monotone in every input for non-negative scaling; NonNeg constraint proved sufficient.",
            "4/C15",
            "input_min < input_max, >= 1 keypoint and sparsity_factor >= 1 follow from acceptance (fixed F-C15-d/e, F-C14-a; "
            "C15_T2_*_int, C15_T3_bad_sparsity_rejected); float32 softmax underflow is F-C15-b; input_dim = 0 -> NaN is the "
            "pinned finding F-C15-f; by design and not findings: a fixed missing_output_value outside the range is returned "
            "as is, rank-2 keypoint_output_parameters with units > 1 is rejected (both required by upstream tests). "),
    "C12": ("Lean 4 iff-theorems (reduce_min/max <-> forall) on executable models of every assert_constraints + accept/reject"
            " differential on LP-generated feasible / single-violation / exact-threshold kernels",
            "Theorems (Props/C12.lean, C12Units.lean, C12Norm.lean, C12Bridge.lean, C12Feasible.lean, C12Linear.lean; C07Shape.lean): accepts = true <-> every covered "
            "constraint has slack >= -eps, for categorical, linear, PWL, all seven asserted lattice kinds incl. the trailing "
            "unit axis, KFL monotonicity and bounds (kfl_iff). Layer level: the call on the whole (n, units) kernel with the "
            "real reductions over the unit axis is accepted iff EVERY unit column is (categorical/linear/pwl_outputs/kfl "
            "_layer_iff). PWL layer (pwl_layer_iff, _units, _learned, no hypothesis): the layer judges keypoints_outputs() = "
            "cumulative sums of the kernel column, closed when cyclic. Order-2 norm for EVERY rational kernel and eps, "
            "root-free (normOk_l2_sq_iff*) and with Real.sqrt (normOk_l2_real_iff). Bridges at eps = 0 to the feasibility "
            "predicates of C06 (categorical_zero_iff_feasible, linear_accepted_fixed), C04 (pwl_zero_iff_c04) and C08 "
            "(lattice_zero_iff_feasibleD, lattice_accepted_groups_fix). Every eps (Props/C12Feasible.lean): accepts eps <-> "
            "an explicit eps-relaxed feasible set in the projection's vocabulary, equal to the exact predicate at eps = 0: "
            "PWL incl. clamps (pwl_eps_iff, pwlFeasibleEps_zero_iff_c04; pwl_projection_accepted: what projectAll returns is "
            "accepted), categorical_eps_iff, lattice_eps_iff, KFL (kfl_eps_iff, kfl_zero_iff_c07: with the untested sign "
            "clause = C07's KOk and SOk; kfl_constraints_accepted). Coverage-gap counter-witnesses reproduced on the real "
            "code: pwl_convexity_not_asserted, kfl_kernel_sign_not_asserted. Linear, every eps (Props/C12Linear.lean): "
            "linear_eps_iff (acceptsLinear eps <-> LinFeasibleEps eps, every eps incl. 0 and negative, norm clause included; "
            "only hypothesis one monotonicity per weight), linear_layer_eps_iff (all units), linFeasibleEps_mono, "
            "linFeasibleEps_zero_iff (eps = 0: inequality clauses <-> C06's Meets with the projection's scalings; "
            "monotonicities in {-1,0,1} and range pairs in range derived from acceptance), normFeasibleEps_zero_iff, "
            "linear_projection_accepted (accepted configuration: what Linear.project returns passes every inequality clause "
            "at eps = 0 and the WHOLE assert, norm order none / 1 / inf, at every eps > 0; at eps = 0 with order 1 / inf iff "
            "the degenerate branch was taken). KFL without a shape hypothesis (Props/C07Shape.lean): "
            "kfl_constraints_accepted_shape_free (shape of the INITIAL state only), kfl_fresh_then_constraints_accepted "
            "(fresh layer, every draw value: none).",
            "4/C12",
            "coverage gaps of the real asserts (unimodality, KFL non-negativity with both / no bounds, PWL convexity) are "
            "reported in evidence notes, not as violations. Linear: two quirks of the real assert are proved and reproduced "
            "on the real code (design_probes/c12lin_probe.py), neither a C12 violation because C12 quantifies over eps > 0: "
            "unit_norm_rejected_at_zero (the norm clause is strict, a column of norm exactly 1 is rejected at eps = 0 and "
            "accepted at every eps > 0) and negative_eps_unconstrained_rejected (eps < 0 with one constrained and one "
            "unconstrained input rejects every kernel); open: order 2 in the composition (the model's project does not "
            "normalise, linear_projection_accepted claims only the inequality clauses for it). The shape hypothesis of "
            "kfl_constraints_accepted is discharged by Props/C07Shape.lean; what remains a modelling convention is one root "
            "factor per term in a consK op and raw updates of the variable's shape. F-C12-e (learned keypoints judged at the initial keypoints) and F-C12-f (a keypoint equal to "
            "missing_input_value never judged) were found here and are fixed in /repo (57c7e1f, 164b31b); the harness ties "
            "the real call to the layer-level model. "),
    "C13": ("Lean 4 theorems over index-function tensors (reindexing by nodup bijection, List.Perm, induction) on code-shaped"
            " models of the regularizers + differential correspondence + numpy oracle of the documented formulas",
            "Theorems (Props/C13.lean, C13Exact.lean), all shapes/units/kernels: lattice Laplacian/torsion (transpose, "
            "reshape, slices) equal the documented sums for every amount the code accepts (torsion_eq_documented_rootOk; "
            "torsion_raises_iff: only a negative scalar torsion amount is rejected); PWL Laplacian/Hessian/wrinkle equal the "
            "l1/l2 norms of 1st/2nd/3rd differences incl. cyclic wrap-around, also for the code-shaped (rows, units) "
            "computation (pwl_*_rows_eq_columns); non-negativity for non-negative amounts; linearity exactly as far as it "
            "holds (Laplacian linear in the amount vectors, torsion linear in scalar amounts and in the pair weights, "
            "degree-2 homogeneous and affine per dimension for lists, reg(l1,l2) = reg(l1,0) + reg(0,l2) for all five); "
            "vanishing sets (non-cyclic Hessian / wrinkle on linear / quadratic outputs; cyclic forms vanish exactly on "
            "constants for a positive amount: pwl_*_cyclic_zero_iff); per-unit sum form for every units >= 1 "
            "(laplacian_per_unit, torsion_per_unit, pwl_*_per_unit, pwl_rows_per_unit).",
            "4/C13",
            "Documented exclusions with counter-witness theorems whose numbers are compared with the real code on every run: "
            "cyclic Hessian on (0,1,2) = 6 and cyclic wrinkle on (0,1,4,9) = 48; list torsion amounts are bilinear, not "
            "additive (torsion_list_not_additive); negative amounts are accepted by the code and give negative values "
            "(torsion_neg_list_witness, laplacian_neg_witness). "),
    "C17": ("Lean 4 theorems on executable models of _get_rtl_structure / random ensemble / pair cover / Crystals (randomness"
            " as explicit permutations) + differential correspondence with replayed permutations + oracle",
            "Theorems (Props/C17.lean, C17Score.lean, C17ScorePos.lean, C17ScoreIff.lean), all sizes and ALL permutations/draws: RTL exact rank, every input used, usage counts "
            "differ by <= 1, monotone wiring and output label (0 < #inputs from acceptance: rtl_accepted_has_inputs); random "
            "ensemble (rank, no repeats, coverage, totality under the code's preconditions); all-pairs cover complete for "
            "EVERY rank (pair_cover_any_rank; sizes <= rank for rank >= 2, exactly two features per lattice at rank <= 1); "
            "Crystals end to end for strictly positive importance scores (crystals_structure); determinism in the form "
            "`structure = model function of (config, draws), draws = gen seed cfg` for an arbitrary generator gen "
            "(rtl_/random_/cover_/crystals_deterministic, *_depends_on_draws_only). The Crystals SCORING path is in the "
            "model (Model/CrystalsScore.lean: torsionsAndLaplacians, importanceScores, crystalsFromKernels; driver ops "
            "cscore.norm / cscore.tl, harness stream cscore): scores computed from ANY prefitting kernels are >= 0 "
            "(scores_nonneg, discharging the torsion / empty-score hypotheses of crystals_structure), structure from kernels "
            "(crystals_from_kernels_structure, crystals_from_kernels_structure_of_kernels), scoring defined iff no constant "
            "kernel (normalizeKernel_ok / normalizeKernel_constant, torsionsAndLaplacians_ok), importance score > 0 IFF some "
            "prefitting kernel containing the feature is not flat in it (importance_pos_iff_not_flat, "
            "importance_eq_zero_iff_all_flat = F-C17-a stated on the kernels; lapAt_eq_zero_iff, torAt_eq_zero_of_flat), the "
            "structure theorem with hypotheses on the kernels only, NonFlatAt for every feature, plus argsort a descending "
            "sort (crystals_from_kernels_structure_iff; counter-direction flat_feature_witness), determinism through the "
            "kernels only (crystals_from_kernels_congr, crystals_depends_on_kernels_only).",
            "4/C17",
            "NumPy's generator is a parameter of the determinism theorems; that the real code draws from a generator seeded "
            "with random_seed and from nothing else is checked by running every stream twice per (config, seed) and by "
            "replaying RandomState(seed). Zero-score (or float-absorbed-score) features are known finding F-C17-a "
            "(crystals_zero_score_witness); a CONSTANT prefitting kernel makes the real score normalisation 0/0 (F-C17-b: "
            "found by the un-patched `crystals_real` stream; model: normalizeKernel_constant, "
            "scoring_path_findings_witness). `0 < importance` is no longer a hypothesis on computed scores: it is the kernel-level "
            "condition NonFlatAt (importance_pos_iff_not_flat, crystals_from_kernels_structure_iff); the training that produces the prefitting kernels "
            "(parameter prefit seed cfg) and NumPy's argsort tie order (parameter argsort) are outside the model; float32 "
            "rounding of the regularizers is compared at rtol 1e-5 by the cscore stream; an RTL layer without "
            "inputs is outside the quantifier (rtl_no_inputs_raises); `no repeated feature inside a final Crystals lattice` "
            "is not claimed by the property and not proved. "),
    "C18": ("Lean 4 theorems on an executable model of compute_keypoints / _weighted_quantile (half-even rounding with "
            "explicit tie directions) + differential correspondence on exact dyadic samples + oracle",
            "Theorems (Props/C18.lean, C18Helpers.lean), all samples/weights/tie directions: nearest-rank indices strictly "
            "increasing in range; unweighted and weighted quantiles end to end, repair loop spec, uniform mode, count clause;"
            " ends = clip bounds when given, else the data extremes (sortedValues_head_*/last_*); every clause as one "
            "predicate Rules proved for every admissible input, both modes, weighted or not (compute_keypoints_rules); the "
            "helpers compute_feature_keypoints / set_feature_keypoints / compute_label_keypoints / set_label_keypoints are "
            "modelled and proved to return / store keypoints obeying the same Rules (feature_helper_rules, label_helper_rules"
            " for numeric and string labels); the keypoints are accepted by the PWLCalibration constructor model "
            "(pwl_accepts_keypoints, compute_keypoints_accepted).",
            "4/C18",
            "Admissible asks num_keypoints >= 2 and excludes exactly the known findings F-C18-c (all-zero weights with k > 2)"
            " and F-C18-d (all-default sample in uniform mode); negative example weights are not generated (the theorems "
            "themselves ask only a non-zero reduced weight sum); np.linspace/np.interp float ties are an explicit "
            "rounding-direction argument. F-C18-f (string labels raised TypeError) and F-C18-g (plain Python lists) were "
            "found by the helper streams and are fixed in /repo (80c7e39, e275cfc). "),
    "C19": ("Lean 4 theorems on the model of custom_reduce_prod's grad_fn + GradientTape correspondence with planted exact "
            "zeros + Jacobian oracle",
            "Theorems (Props/C19.lean, C19Deriv.lean, C19Kfl.lean): for every list and index and every zero pattern the "
            "gradient factor equals the product of the other entries and is the exact difference quotient of the product; the"
            " hypercube and simplex Lattice outputs, the PWLCalibration output and the categorical output of the REAL "
            "evaluation models are dot(weights(x), kernel) with kernel-independent weights, with exact difference quotients "
            "in every kernel entry. KFL OUTPUT: exact difference quotients w.r.t. every scale entry, every kernel entry "
            "(slope assembled from the hand-written factor, any zero pattern) and every input coordinate inside a cell "
            "(kfl_scale/kernel/input_difference_quotient), and HasDerivAt for every continuous real extension of the model "
            "(kfl_*_hasDerivAt_of_continuous).",
            "4/C19",
            "Props/C19Deriv.lean: HasDerivAt per coordinate / HasFDerivAt for the whole gradient of the plain real product = "
            "gradFactors (every zero pattern), HasDerivAt of every kernel entry = interpolation weight for hypercube, "
            "simplex, PWL and categorical outputs, also for ANY continuous real extension of the rational model; convexity of"
            " the Lattice Jacobian row needs in-range or clipped inputs (jacobian_row_convex_needs_defined); the input "
            "derivative is stated only on open cells, as the property says; TF autodiff itself is exercised by the "
            "GradientTape correspondence (incl. real KFL gradients vs the model's). "),
    "C20": ("Lean 4 theorems (structural induction on dot/clip) on the model of Linear.call + differential correspondence of "
            "the real float64 layer + consequence oracles on constrained kernels",
            "Theorems (Props/C20.lean, C20Compose.lean), all kernels/bounds/inputs: output = bias + sum k_i*clip(x_i); clip "
            "monotone and in bounds; k_i >= 0 (<= 0) => non-decreasing (non-increasing) in x_i for all pairs; monotonic "
            "dominance per unit step, range dominance across full ranges, weighted average for norm-1 non-negative weights. "
            "C20Compose: the same four consequences for the OUTPUT OF THE CONSTRAINT of every accepted configuration "
            "(accepted_monotone, accepted_monotonic_dominance, accepted_range_dominance_call, accepted_weighted_average; "
            "totality accepted_kernel_exists), through C06's composite theorem.",
            "4/C20",
            "monotonic dominance needs the four compared inputs unclipped; the weighted-average consequence excludes a "
            "pre-normalised column with 1-norm below the guard 1e-8 (weighted_average_fails_when_degenerate): known findings "
            "F-C03-a (all weights <= 0, pinned for C20 too) and F-C20-a (non-negative column below the guard). "),
    "C01": ("Lean 4 theorems on an executable model of lattice_lib.finalize_constraints / project_by_dykstra / "
            "LatticeConstraints.__call__ + differential correspondence (finalize_constraints, LatticeConstraints, "
            "Lattice.finalize_constraints) + oracle",
            "Theorems (Props/C01.lean, C01Constraint.lean, C01Accepted.lean): for every rank, size vector, monotonicity set, "
            "bounds and EVERY input kernel, finalize+clip returns a kernel monotone along every monotone axis, meeting every "
            "Edgeworth and trapezoid inequality and the bounds, for every configuration in the class H_trap "
            "(C01_strict_mixed_class, generalised to C01_strict_mixed_class_d over CfgWFd, which tolerates a duplicated "
            "identical Edgeworth trust; classes A, B, C1 separately), transported to the executable table model "
            "(finalizeT_agree, C01_exec_*). For the composite the driver runs (latticeConstraintT = Dykstra -> finalize -> "
            "clip): C01_constraint_strict (strict mode, every iteration count, every other family configured alongside); "
            "non-strict mode only the bounds (C01_constraint_nonstrict_bounds, counter-instance "
            "C01_constraint_nonstrict_not_monotone). Feasible => unchanged with NO class restriction: finalize_fix / "
            "finalizeT_fix, C01_finalize_fixpoint, C01_constraint_fixpoint (both modes, every iteration count, all Dykstra "
            "families). For configurations accepted by the constructor model: accepted_cfgWFd, accepted_finalize_strict, "
            "accepted_constraint_strict, accepted_finalize_fixpoint, accepted_constraint_fixpoint; HTrap is shown not to "
            "follow from acceptance (witness_accepted_not_HTrap). Outside H_trap the establishing clause is false: "
            "C01_counter_witness = known finding F-C01-a.",
            "4/C01",
            "C01_full (all configurations) stays a `def : Prop`: with Edgeworth trusts present a monotone trapezoid "
            "conditional axis in rank >= 3 is F-C01-a and shared conditional axes are the documented exception; non-strict "
            "mode guarantees only the bounds after finitely many passes (scope note: the property names the default strict "
            "mode and finalize_constraints()). "),
    "C08": ("Lean 4 model of project_by_dykstra (all group projections + schedule) + differential correspondence per family "
            "and combined + fixpoint / convergence / QP-nearest-point oracle (scipy SLSQP)",
            "Theorems (Props/C08.lean, C08Shared.lean, C08Accepted.lean, C08Range.lean): the model keys every Dykstra roll-back slot like "
            "the Python dict last_change (SlotKey, groupKeys), so constraint tuples listed twice share a slot as in the real "
            "code (dup_slots_differ). Feasible/fixed kernels are returned unchanged for EVERY iteration count, telescoping "
            "invariant for ANY group maps, every stencil map is the exact Euclidean projection (lands, fixes, variational "
            "inequality), every group map of monotonicity, unimodality, Edgeworth, trapezoid, monotonic dominance, joint "
            "monotonicity and joint unimodality is its stencil map on disjoint stencils (key_lands, key_vi); on the "
            "executable slot-keyed loop, repeated constraints included: locality, feasible => unchanged "
            "(projectByDykstraT_feasible), idempotence, telescoping, table loop = function loop. CONVERGENCE is PROVED "
            "(Lemmas/DykstraConv.lean, abstract Boyle-Dykstra theorem in a finite-dimensional real inner product space): "
            "dykstra_cfg_converges / projectByDykstraT_cfg_converges (no repeated dict key) and "
            "projectByDykstraT_cfg_converges_shape (Lemmas/DykstraConvShared.lean: one correction per set, any cyclic "
            "visiting order with repetitions; repeated constraint tuples allowed): for every configuration without range "
            "dominance and every kernel the function-level and executable loops converge to the Euclidean-nearest feasible "
            "kernel, the violation tends to 0. C08Accepted: accepted_converges derives the hypotheses from constructor "
            "acceptance up to two side conditions. Range dominance (C08Range.lean, Lemmas/DykstraConvRange*.lean): the step "
            "establishes the constraint of the visited vertex for ALL sizes and ALL vertices (rangeDomGroup_lands, "
            "rangeDomGroup_removes_violation); at every vertex except the two doubled corners (0, N-1), (M-1, 0) it IS the "
            "half-space projection of its stencil (rangeDomGroup_eq_halfspace, rangeDomGroup_lands_halfspace, "
            "rangeDomGroup_vi); at the doubled corners it is not non-expansive towards feasible kernels "
            "(rdStep_doubled_corner, rangeDom_doubled_corners_expand), both are scheduled by every configuration with a "
            "range dominance (rangeDom_schedule_has_doubled_corners), and the loop's stationary result need not be nearest "
            "(rangeDom_loop_result_not_nearest, same on the real code for 1..3000 iterations). ",
            "4/C08",
            "PARTIAL: range dominance is outside the convergence theorem (the property does not claim a nearest-point limit "
            "for it; exactly two of its M*N vertex maps, the doubled corners, are proved NOT to be projections, all others are "
            "proved exact projections: Props/C08Range.lean; not a C08 violation) and `violation -> 0` with range dominance "
            "stays TESTED, not proved (scipy SLSQP each run; a 400-case simulation of the model loop found geometric decay); "
            "the doubled corners were replayed on the real function (design_probes/c08range) and a 6-line repair of "
            "_project_partial_range_dominance (corner -/+ diff/3, the two others +/- diff/6) exists but was NOT applied; the RATE of convergence and the PWL iterative projection's limit"
            " are covered by the oracle here and by C04's model. From acceptance only the side condition `no range dominance` remains"
            " a hypothesis of verifyLattice_cfgShape / accepted_converges; `no (d, d) pair` follows from acceptance since /repo's "
            "repair 18dd711 (AcceptedFacts.distinct via verifyDominances_distinct, selfPair_rejected). F-C08-a (dict key without direction), "
            "F-C08-c, F-C08-d ('Valley' projected onto the peak cone) are fixed in /repo. "),
    "C06": ("Lean 4 theorems on an executable model of linear_lib.project / categorical project / internal_utils "
            "partial-order projection + differential correspondence against the real constraints",
            "Theorems (Props/C06.lean, C06Accepted.lean, C06Compose.lean): categorical pairs+bounds+fixpoint; Linear stage "
            "theorems (sign clip, monotonic- and range-dominance stages establish every pair and keep signs, normalisation "
            "keeps all); the modelled _topological_sort returns a valid order for every acyclic pair set with the code's fuel"
            " (topoSort_valid). COMPOSITE (accepted_project, accepted_project_constraints): for every configuration accepted "
            "by the constructor model and every column of the right length the whole Linear.project (the function the driver "
            "runs) returns, with every sign, every monotonic- and scaled range-dominance inequality, unit 1-norm resp. "
            "max-norm unless the pre-normalised column is below the guard 1e-8 (then returned un-normalised, stated "
            "explicitly), and is a fixpoint (accepted_full_fixpoint); the two dominance blocks commute on accepted "
            "configurations (accepted_stages_commute). Order 2 is root-free: positive_scaling_keeps / real_scaling_keeps, "
            "unit 2-norm over the reals (l2_unit_norm), the guard as a rational test (l2Skips_iff), together "
            "accepted_project_l2.",
            "4/C06",
            "For accepted configurations `all scalings != 0`, `Acyclic`, `dominance dimensions monotone`, disjointness of the"
            " two kinds of dominance are theorems (after fixes 44c9e89, 2ef7ec2, 1f0b06a, 66006cc in /repo). General p-norms "
            "(any positive real order) have no unit-norm theorem (positive_scaling_keeps only; tied through the float "
            "p-norm). F-C06-b (normalization_order not validated) and F-C06-c (monotonicities=None raised on every call) were"
            " found here and are fixed in /repo (4f3f7ef, 0bdd751). "),
}
PENDING_REASON = "check not built yet in this round (design in DESIGN.md section 4); will be claimed when its model, theorems and correspondence exist"


def fix_commits():
  """Unguarded `fix:` commits in /repo on top of the pinned snapshot (hash + subject)."""
  import subprocess
  try:
    out = subprocess.check_output(["git", "-C", "/repo", "log", "--reverse", "--format=%h %s", "fad4c36..HEAD"]).decode()
    return [l for l in out.strip().split("\n") if l]
  except Exception:
    return []


def main():
  props = [json.loads(l)["id"] for l in open(os.path.join(ROOT, "properties.jsonl"))]
  checks, na = [], []
  for p in props:
    if p in CLAIMED:
      tech, text, ref, extra = CLAIMED[p]
      checks.append({
          "property_id": p,
          "quick_cmd": "./check %s --tier quick" % p,
          "thorough_cmd": "./check %s --tier thorough" % p,
          "evidence_file": "evidence/%s.json" % p,
          "replay_cmd_template": "./check %s --replay {path}" % p,
          "engine": "lean-model+correspondence",
          "level_claimed": {"category": "proof", "text": text, "design_ref": "DESIGN.md " + ref},
          "level_note": NOTE_COMMON + extra,
          "technique": tech,
      })
    else:
      na.append({"property_id": p, "reason": PENDING_REASON})
  m = {
      "version": 1,
      "setup_cmd": "cd lean && lake build",
      "hooks": {
          "guard": "TENSORFLOW_LATTICE_VERIF",
          "enable": "no hooks are needed: every check drives public entry points of tensorflow_lattice imported from /repo in-process (the guard name is reserved)",
          "baseline_off_cmd": "cd /repo && /venv/bin/python -m pytest -ra -q -p no:cacheprovider --timeout=900 --continue-on-collection-errors",
          "source_commits": fix_commits(),
          "add_only": True,
      },
      "engines": [{
          "name": "lean-model+correspondence", "path": "lean/ + harness/",
          "serves_properties": sorted(CLAIMED),
          "kind_free_text": "Lean 4 executable model with machine-checked property theorems (lake project lean/, native line-protocol driver) tied to /repo by a differential correspondence harness (harness/, /venv/bin/python, real TF code in-process)",
      }],
      "checks": checks,
      "not_applicable": na,
      "notes": "See DESIGN.md. ./check <id> --tier quick|thorough ; exit 0 clean, 1 VIOLATION, 2 infrastructure.",
  }
  try:
    sys.path.insert(0, ROOT)
    from harness.manifest_extra import patch  # optional
    patch(m)
  except ImportError:
    pass
  json.dump(m, open(os.path.join(ROOT, "MANIFEST.json"), "w"), indent=1)
  try:
    import jsonschema
    jsonschema.validate(m, json.load(open("/root/.vp/MANIFEST.schema.json")))
    print("MANIFEST.json valid;", len(checks), "checks,", len(na), "not_applicable")
  except ImportError:
    print("MANIFEST.json written (jsonschema not available: not validated)")


if __name__ == "__main__":
  main()
