"""Regenerates /verif/MANIFEST.json from the table below and validates it (run with python3-vt for
the jsonschema check; plain python3 skips validation)."""
import json, os, sys
ROOT = os.path.dirname(os.path.dirname(os.path.abspath(__file__)))

NOTE_COMMON = ("Trusted: Lean 4.33 kernel; axioms per theorem subset of {propext, Classical.choice, Quot.sound} "
               "(printed into the evidence on every run, no native_decide, no sorry, no added axiom); the hand-written "
               "model is tied to /repo's working tree by the correspondence suite of the same run (exact-rational "
               "inputs, real TF code in-process vs the native Lean driver). Modelled, not verified: float rounding, "
               "TF kernels and tensor plumbing, Keras scheduling. ")

# property -> (technique, level text, design section, extra note)
CLAIMED = {
    "C01": ("Lean 4 theorems on an executable model of lattice_lib.finalize_constraints / project_by_dykstra / "
            "LatticeConstraints.__call__ + differential correspondence (finalize_constraints, LatticeConstraints, "
            "Lattice.finalize_constraints) + oracle",
            "Theorems (Props/C01.lean): for every rank, size vector, monotonicity set, any number of Edgeworth trusts of "
            "either direction and any bounds, and EVERY input kernel (arbitrary Dykstra output), finalize+clip returns a "
            "kernel monotone along every monotone axis, meeting every Edgeworth inequality and the bounds "
            "(C01_strict_edgeworth_class), transported to the executable table model by per-step locality "
            "(finalizeT_agree, C01_exec_edgeworth_class). Trapezoid configurations: partial - covered by the "
            "correspondence+oracle each run; the class violating the property is proved as a counter-witness "
            "(C01_counter_witness) and listed as known finding F-C01-a.",
            "4/C01", "C01_full (all configurations) is NOT proved: trapezoid stages are modelled and tied, not proved. "),
    "C06": ("Lean 4 theorems on an executable model of linear_lib.project / categorical project / "
            "internal_utils partial-order projection + differential correspondence against the real constraints",
            "Theorems (Props/C06.lean): categorical pairs+bounds+fixpoint; Linear sign clip, monotonic-dominance and range-dominance stages establish every pair and keep signs (non-zero scalings), normalisation keeps all and gives unit 1-norm, feasible=>unchanged; for every weight "
            "vector, pair set and valid topological order; the order validity of the modelled _topological_sort "
            "is a decidable hypothesis evaluated on every correspondence case.",
            "4/C06", ""),
}
PENDING_REASON = "check not built yet in this round (design in DESIGN.md section 4); will be claimed when its model, theorems and correspondence exist"


def main():
  props = [json.loads(l)["id"] for l in open(os.path.join(ROOT, "properties.jsonl"))]
  checks, na = [], []
  for p in props:
    if p in CLAIMED:
      tech, text, ref, extra = CLAIMED[p]
      checks.append({
          "property_id": p,
          "quick_cmd": "./check %s --tier quick" % p,
          "thorough_cmd": "./check %s --tier thorough" % p,
          "evidence_file": "evidence/%s.json" % p,
          "replay_cmd_template": "./check %s --replay {path}" % p,
          "engine": "lean-model+correspondence",
          "level_claimed": {"category": "proof", "text": text, "design_ref": "DESIGN.md " + ref},
          "level_note": NOTE_COMMON + extra,
          "technique": tech,
      })
    else:
      na.append({"property_id": p, "reason": PENDING_REASON})
  m = {
      "version": 1,
      "setup_cmd": "cd lean && lake build",
      "hooks": {
          "guard": "TENSORFLOW_LATTICE_VERIF",
          "enable": "no hooks are needed: every check drives public entry points of tensorflow_lattice imported from /repo in-process (the guard name is reserved)",
          "baseline_off_cmd": "cd /repo && /venv/bin/python -m pytest -ra -q -p no:cacheprovider --timeout=900 --continue-on-collection-errors",
          "source_commits": [],
          "add_only": True,
      },
      "engines": [{
          "name": "lean-model+correspondence", "path": "lean/ + harness/",
          "serves_properties": sorted(CLAIMED),
          "kind_free_text": "Lean 4 executable model with machine-checked property theorems (lake project lean/, native line-protocol driver) tied to /repo by a differential correspondence harness (harness/, /venv/bin/python, real TF code in-process)",
      }],
      "checks": checks,
      "not_applicable": na,
      "notes": "See DESIGN.md. ./check <id> --tier quick|thorough ; exit 0 clean, 1 VIOLATION, 2 infrastructure.",
  }
  try:
    sys.path.insert(0, ROOT)
    from harness.manifest_extra import patch  # optional
    patch(m)
  except ImportError:
    pass
  json.dump(m, open(os.path.join(ROOT, "MANIFEST.json"), "w"), indent=1)
  try:
    import jsonschema
    jsonschema.validate(m, json.load(open("/root/.vp/MANIFEST.schema.json")))
    print("MANIFEST.json valid;", len(checks), "checks,", len(na), "not_applicable")
  except ImportError:
    print("MANIFEST.json written (jsonschema not available: not validated)")


if __name__ == "__main__":
  main()
