"""C11 translator: from the CURRENT source (AST) of every public class with `get_config` — layers,
constraints, initializers, regularizers of the *_layer.py files, the `_Config` subclasses of
configs.py and the premade models — extracts

  * the constructor parameters (name, has a default; `**kwargs` forwarded to the Keras base class
    contributes the documented base parameters name / trainable / dtype),
  * the keys `get_config` emits (dict literals, `config[k] = …`, `config.update({...})`,
    `config.update(super().get_config())` / `config = super().get_config()` base keys, keys emitted
    under `if self.<flag>:`),
  * for every key the attribute it reads and HOW (`reader`: the value expression with the attribute
    replaced by `@`), the constructor parameter that attribute is assigned from and THROUGH WHAT
    (`norm`: the statements of `__init__` that assign the attribute / rebind the parameter, with the
    parameter replaced by `_` and the attribute by `@`; `id` for a plain `self.a = a`),
  * how `from_config` consumes the keys (default `cls(**config)`, or the keys a custom one reads),
  * whether the class is registered in `premade.get_custom_objects()` or wrapped in a
    `custom_object_scope` by the layer that owns it,

and emits the literal table `lean/TflModel/Generated/Configs.lean` (`List ClassRow`, sorted).
`Props/C11.lean` proves by `decide +kernel` over the WHOLE table that every row meets the premises
of the generic round-trip theorem, except exactly the rows recorded as findings."""
import ast, hashlib, json, os, re, sys

HERE = os.path.dirname(os.path.abspath(__file__))
ROOT = os.path.dirname(HERE)
OUT = os.path.join(ROOT, "lean", "TflModel", "Generated", "Configs.lean")
FILES = ["lattice_layer.py", "pwl_calibration_layer.py", "linear_layer.py", "categorical_calibration_layer.py",
         "kronecker_factored_lattice_layer.py", "cdf_layer.py", "rtl_layer.py", "parallel_combination_layer.py",
         "aggregation_layer.py", "configs.py", "premade.py"]
BASE_KEYS = {"layer": ["name", "trainable", "dtype"], "model": ["name", "trainable"]}
MAXLAB = 240


def repo_dir():
  sys.path.insert(0, HERE)
  from common import REPO
  return os.path.join(REPO, "tensorflow_lattice", "python")


def _kind(cls):
  bases = [ast.unparse(b) for b in cls.bases]
  for b in bases:
    if b.endswith("layers.Layer"):
      return "layer"
    if b.endswith("constraints.Constraint"):
      return "constraint"
    if b.endswith("initializers.Initializer"):
      return "initializer"
    if b.endswith("regularizers.Regularizer"):
      return "regularizer"
    if b.endswith("keras.Model") or b.endswith("models.Model"):
      return "model"
    if b == "_Config":
      return "config"
  return "other"


def _norm_ws(s):
  return re.sub(r"\s+", " ", s).strip()


class _Subst(ast.NodeTransformer):
  """param -> `_`, self.attr -> `@`"""

  def __init__(self, param, attr):
    self.param, self.attr = param, attr

  def visit_Attribute(self, node):
    if isinstance(node.value, ast.Name) and node.value.id == "self" and node.attr == self.attr:
      return ast.copy_location(ast.Name(id="@", ctx=node.ctx), node)
    return self.generic_visit(node)

  def visit_Name(self, node):
    if self.param and node.id == self.param:
      return ast.copy_location(ast.Name(id="_", ctx=node.ctx), node)
    return node


def _label(nodes, param, attr):
  import copy
  parts = []
  for n in nodes:
    n2 = _Subst(param, attr).visit(copy.deepcopy(n))
    parts.append(_norm_ws(ast.unparse(n2)))
  s = "; ".join(parts)
  if s == "@ = _":
    return "id"
  return _label_text(s)


def _label_text(s):
  """a label longer than MAXLAB is cut and carries a hash of its FULL text (any change of the code changes it)"""
  if len(s) > MAXLAB:
    s = s[:MAXLAB - 12] + "…#" + hashlib.sha256(s.encode()).hexdigest()[:8]
  return s


def _self_attrs(node):
  return [n.attr for n in ast.walk(node)
          if isinstance(n, ast.Attribute) and isinstance(n.value, ast.Name) and n.value.id == "self"]


def _assigns_attr(stmt, attr):
  """does `stmt` (recursively) assign `self.attr` or call `self.attr.append/extend`?"""
  for n in ast.walk(stmt):
    if isinstance(n, (ast.Assign, ast.AugAssign, ast.AnnAssign)):
      targets = n.targets if isinstance(n, ast.Assign) else [n.target]
      for t in targets:
        for tt in ([t] if not isinstance(t, (ast.Tuple, ast.List)) else t.elts):
          if isinstance(tt, ast.Attribute) and isinstance(tt.value, ast.Name) and tt.value.id == "self" and tt.attr == attr:
            return True
    if isinstance(n, ast.Call) and isinstance(n.func, ast.Attribute) and n.func.attr in ("append", "extend"):
      v = n.func.value
      if isinstance(v, ast.Attribute) and isinstance(v.value, ast.Name) and v.value.id == "self" and v.attr == attr:
        return True
  return False


def _rebinds(stmt, name):
  for n in ast.walk(stmt):
    if isinstance(n, ast.Assign):
      for t in n.targets:
        if isinstance(t, ast.Name) and t.id == name:
          return True
  return False


def _init_info(init):
  a = init.args
  names = [x.arg for x in a.args[1:]] + [x.arg for x in a.kwonlyargs]
  ndef = len(a.defaults)
  pos = [x.arg for x in a.args[1:]]
  has_default = {n: False for n in names}
  for n in pos[len(pos) - ndef:] if ndef else []:
    has_default[n] = True
  for x, d in zip(a.kwonlyargs, a.kw_defaults):
    has_default[x.arg] = d is not None
  body = init.body
  if body and isinstance(body[0], ast.Expr) and isinstance(getattr(body[0], "value", None), ast.Constant):
    body = body[1:]
  return names, has_default, a.kwarg is not None, body


def _attr_source(body, params, attr, key):
  """(param, norm label) of `self.attr` in the constructor body"""
  stmts = [s for s in body if _assigns_attr(s, attr)]
  if not stmts:
    return "", "unassigned"
  used = set()
  for s in stmts:
    for n in ast.walk(s):
      if isinstance(n, ast.Name) and n.id in params:
        used.add(n.id)
  if key in used:
    param = key
  elif attr in used:
    param = attr
  elif len(used) == 1:
    param = sorted(used)[0]
  else:
    param = ""
  if param:
    first = min(body.index(s) for s in stmts)
    stmts = [s for s in body if s in stmts or (body.index(s) < max(body.index(t) for t in stmts) and _rebinds(s, param))]
  # local helpers (`as_tuples = lambda ...`) called by the normaliser are part of it
  called = {n.func.id for s in stmts for n in ast.walk(s) if isinstance(n, ast.Call) and isinstance(n.func, ast.Name)}
  helpers = [s for s in body if s not in stmts and isinstance(s, ast.Assign) and len(s.targets) == 1 and
             isinstance(s.targets[0], ast.Name) and s.targets[0].id in called and s.targets[0].id != param]
  helpers += [s for s in body if isinstance(s, ast.FunctionDef) and s.name in called]
  stmts = [s for s in body if s in stmts or s in helpers]
  return param, _label(stmts, param, attr)


def _dict_items(d):
  out = []
  for k, v in zip(d.keys, d.values):
    if isinstance(k, ast.Constant) and isinstance(k.value, str):
      out.append((k.value, v))
  return out


def _is_super_get_config(node):
  for n in ast.walk(node):
    if isinstance(n, ast.Call) and isinstance(n.func, ast.Attribute) and n.func.attr == "get_config":
      v = n.func.value
      if isinstance(v, ast.Call) and isinstance(v.func, ast.Name) and v.func.id == "super":
        return True
  return False


def _get_config_keys(fn):
  """[(key, value expr or None for a base key, guard attr or '')], uses_super"""
  keys, uses_super = [], False

  def walk(stmts, guard):
    nonlocal uses_super
    for s in stmts:
      if isinstance(s, ast.If):
        g = guard
        attrs = _self_attrs(s.test)
        if attrs and isinstance(s.test, ast.Attribute):
          g = attrs[0]
        elif attrs:
          g = "?" + _norm_ws(ast.unparse(s.test))
        walk(s.body, g)
        walk(s.orelse, "?else")
        continue
      if _is_super_get_config(s):
        uses_super = True
      for n in ast.walk(s):
        if isinstance(n, ast.Dict):
          # only dictionaries that are the config itself: assigned / returned / passed to update
          pass
      if isinstance(s, (ast.Assign, ast.Return)) and isinstance(s.value, ast.Dict):
        for k, v in _dict_items(s.value):
          keys.append((k, v, guard))
      elif isinstance(s, ast.Assign) and isinstance(s.targets[0], ast.Subscript) and \
          isinstance(s.targets[0].slice, ast.Constant):
        keys.append((s.targets[0].slice.value, s.value, guard))
      elif isinstance(s, ast.Expr) and isinstance(s.value, ast.Call) and isinstance(s.value.func, ast.Attribute) and \
          s.value.func.attr == "update" and s.value.args and isinstance(s.value.args[0], ast.Dict):
        for k, v in _dict_items(s.value.args[0]):
          keys.append((k, v, guard))
  body = fn.body
  walk(body, "")
  return keys, uses_super


def _from_config(fn):
  """(kind, consumed keys, passes **config)"""
  if fn is None:
    return "default", [], True
  consumed, rest = [], False
  for n in ast.walk(fn):
    if isinstance(n, ast.Call):
      if isinstance(n.func, ast.Attribute) and n.func.attr in ("get", "pop") and isinstance(n.func.value, ast.Name) and \
          n.func.value.id == "config" and n.args and isinstance(n.args[0], ast.Constant):
        consumed.append(n.args[0].value)
      for kw in n.keywords:
        if kw.arg is None:
          src = ast.unparse(kw.value)
          if "config" in src:
            rest = True
    if isinstance(n, ast.Subscript) and isinstance(n.value, ast.Name) and n.value.id == "config" and \
        isinstance(n.slice, ast.Constant):
      consumed.append(n.slice.value)
  return "custom", sorted(set(consumed)), rest


def _registry(trees):
  """{(file, class)} registered in premade.get_custom_objects()"""
  tree = trees["premade.py"]
  alias = {}
  for n in tree.body:
    if isinstance(n, ast.ImportFrom):
      for a in n.names:
        alias[a.asname or a.name] = a.name + ".py"
  reg = set()
  for fn in [n for n in tree.body if isinstance(n, ast.FunctionDef) and n.name == "get_custom_objects"]:
    for n in ast.walk(fn):
      if isinstance(n, ast.Dict):
        for k, v in zip(n.keys, n.values):
          if isinstance(k, ast.Constant) and isinstance(v, ast.Attribute) and isinstance(v.value, ast.Name):
            reg.add((alias.get(v.value.id, v.value.id), v.attr, k.value))
          elif isinstance(k, ast.Constant) and isinstance(v, ast.Name):
            reg.add(("premade.py", v.id, k.value))
  return reg


def _scoped(tree):
  """class names wrapped in a `custom_object_scope({...})` inside this module"""
  out = set()
  for n in ast.walk(tree):
    if isinstance(n, ast.Call) and ast.unparse(n.func).endswith("custom_object_scope") and n.args and \
        isinstance(n.args[0], ast.Dict):
      for k, v in zip(n.args[0].keys, n.args[0].values):
        if isinstance(k, ast.Constant) and isinstance(v, ast.Name):
          out.add(v.id)
  return out


def _config_base_shape(cls):
  """The REAL serialisation of the `_Config` base class, read from its AST (the config classes have no `get_config`
  of their own): `__init__(self, kwargs)` must end in `self.__dict__ = kwargs` and `get_config` must start from
  `config = copy.deepcopy(self.__dict__)` and `return config`. Returns (ok, popped): `popped` = the literal keys
  removed by `kwargs.pop(k)` / `config.pop(k)` in either method — every OTHER entry of `locals()` is a key of the config.
  Any statement of another shape (a new assignment to `config[...]` outside the nested-config lists, a `del`, an
  early return) makes `ok` False and the rows of all config classes fail `RowOK` (normaliser 'base_shape_changed')."""
  fns = {x.name: x for x in cls.body if isinstance(x, ast.FunctionDef)}
  ok, popped = True, set()
  if "__init__" not in fns or "get_config" not in fns:
    return False, popped

  def pops(fn, var):
    out = set()
    for n in ast.walk(fn):
      if isinstance(n, ast.Call) and isinstance(n.func, ast.Attribute) and n.func.attr == "pop" and \
          isinstance(n.func.value, ast.Name) and n.func.value.id == var and n.args and isinstance(n.args[0], ast.Constant):
        out.add(n.args[0].value)
    return out
  init, gc = fns["__init__"], fns["get_config"]
  popped |= pops(init, "kwargs") | pops(gc, "config")
  last = init.body[-1]
  if not (isinstance(last, ast.Assign) and _norm_ws(ast.unparse(last)) == "self.__dict__ = kwargs"):
    ok = False
  for st in init.body[:-1]:
    if not (isinstance(st, ast.If) and all(isinstance(b, ast.Expr) and "kwargs.pop(" in ast.unparse(b) for b in st.body)
            and not st.orelse) and not (isinstance(st, ast.Expr) and isinstance(st.value, ast.Constant)):
      ok = False
  body = [st for st in gc.body if not (isinstance(st, ast.Expr) and isinstance(st.value, ast.Constant))]
  if not body or _norm_ws(ast.unparse(body[0])) != "config = copy.deepcopy(self.__dict__)" or \
      _norm_ws(ast.unparse(body[-1])) != "return config":
    ok = False
  for st in body[1:-1]:
    if not (isinstance(st, ast.If) and not st.orelse):
      ok = False
      continue
    for b in st.body:
      src = _norm_ws(ast.unparse(b))
      is_pop = isinstance(b, ast.Expr) and src.startswith("config.pop(")
      is_nested = isinstance(b, ast.Assign) and isinstance(b.targets[0], ast.Subscript) and \
          ast.unparse(b.targets[0].value) == "config" and "serialize_keras_object" in src
      if not (is_pop or is_nested):
        ok = False
  return ok, popped


def extract():
  d = repo_dir()
  trees = {f: ast.parse(open(os.path.join(d, f)).read()) for f in FILES}
  reg = _registry(trees)
  rows = []
  for f in FILES:
    tree = trees[f]
    classes = {n.name: n for n in tree.body if isinstance(n, ast.ClassDef)}
    scoped = _scoped(tree)
    nested_ser, nested_deser = set(), set()
    base_ok, base_popped = True, set()
    if "_Config" in classes:
      base_ok, base_popped = _config_base_shape(classes["_Config"])
      for fn in classes["_Config"].body:
        if isinstance(fn, ast.FunctionDef) and fn.name in ("get_config", "deserialize_nested_configs"):
          tgt = nested_ser if fn.name == "get_config" else nested_deser
          for n in ast.walk(fn):
            if isinstance(n, ast.Assign) and isinstance(n.targets[0], ast.Subscript) and \
                isinstance(n.targets[0].slice, ast.Constant):
              tgt.add(n.targets[0].slice.value)
    for name, cls in sorted(classes.items()):
      fns = {x.name: x for x in cls.body if isinstance(x, ast.FunctionDef)}
      kind = _kind(cls)
      if kind == "other" or "__init__" not in fns:
        continue
      if "get_config" not in fns and kind != "config":
        continue
      pnames, has_default, kwargs, body = _init_info(fns["__init__"])
      params = [(p, has_default[p]) for p in pnames]
      keys = []
      if kind == "config":
        ok_locals = len(body) >= 1 and _norm_ws(ast.unparse(body[0])) == "super(%s, self).__init__(locals())" % name \
            and len(body) == 1
        for p in pnames:
          if p in base_popped:
            continue      # removed by `_Config.__init__` / `_Config.get_config`: a parameter that is NOT a key
          if not base_ok:
            norm, reader = "base_shape_changed", "attr"
          elif not ok_locals:
            norm, reader = "not_locals", "attr"
          elif p in nested_ser and p in nested_deser:
            norm, reader = "nested_config_list", "serialize_keras_object_list"
          elif p in nested_ser or p in nested_deser:
            norm, reader = "nested_unbalanced", "serialize_keras_object_list"
          else:
            norm, reader = "id", "attr"
          keys.append(dict(key=p, attr=p, param=p, norm=norm, reader=reader, guard=""))
        fc = _from_config(fns.get("from_config"))
        src = ast.unparse(fns["from_config"]) if "from_config" in fns else ""
        if "deserialize_nested_configs" in src and "**" in src:
          fc = ("custom", [], True)
      else:
        raw, uses_super = _get_config_keys(fns["get_config"])
        base = BASE_KEYS.get(kind, []) if (uses_super or kind == "model") else []
        if kwargs and kind in BASE_KEYS:
          for b in BASE_KEYS[kind]:
            if b not in pnames:
              params.append((b, True))
        for k, v, guard in raw:
          attrs = _self_attrs(v)
          attr = attrs[0] if attrs else ""
          reader = "attr" if (isinstance(v, ast.Attribute) and attrs) else _label([v], None, attr)
          if kind in BASE_KEYS and k in BASE_KEYS[kind] and attr == k and not any(_assigns_attr(s, attr) for s in body):
            keys.append(dict(key=k, attr=attr, param=k if kwargs else "", norm="keras_base", reader=reader, guard=guard))
            continue
          param, norm = _attr_source(body, set(pnames), attr, k) if attr else ("", "no_attribute")
          keys.append(dict(key=k, attr=attr, param=param, norm=norm, reader=reader, guard=guard))
        have = {k["key"] for k in keys}
        for b in base:
          if b not in have:
            keys.append(dict(key=b, attr=b, param=b if kwargs else "", norm="keras_base", reader="attr", guard=""))
        fc = _from_config(fns.get("from_config"))
      registered = any(r[0] == f and r[1] == name for r in reg)
      rows.append(dict(cls=name, file=f, kind=kind, kwargs=kwargs, params=params, keys=keys,
                       from_config=fc[0], consumes=fc[1], consumes_rest=fc[2], registered=registered,
                       registered_as=sorted(r[2] for r in reg if r[0] == f and r[1] == name),
                       scoped=name in scoped))
  rows.sort(key=lambda r: (r["file"], r["cls"]))
  return rows


def _s(x):
  return '"' + x.replace("\\", "\\\\").replace('"', '\\"') + '"'


def emit(rows):
  L = ["import TflModel.Model.Configs",
       "/-! GENERATED by harness/translate_configs.py from the current source tree (AST) — do not edit.",
       "One row per public class with `get_config`. -/",
       "namespace Tfl.Generated.Configs", "open Tfl.Configs", "",
       "def rows : List ClassRow := ["]
  body = []
  for r in rows:
    ps = ", ".join("⟨%s, %s⟩" % (_s(p), "true" if d else "false") for p, d in r["params"])
    ks = ",\n      ".join("⟨%s, %s, %s, %s, %s, %s⟩" % (_s(k["key"]), _s(k["attr"]), _s(k["param"]), _s(k["norm"]),
                                                       _s(k["reader"]), _s(k["guard"])) for k in r["keys"])
    body.append("  { cls := %s, file := %s, kind := %s, kwargs := %s,\n    params := [%s],\n    keys := [\n      %s],\n"
                "    fromConfig := %s, consumes := [%s], consumesRest := %s, registered := %s, localScope := %s }" % (
                    _s(r["cls"]), _s(r["file"]), _s(r["kind"]), "true" if r["kwargs"] else "false", ps, ks,
                    _s(r["from_config"]), ", ".join(_s(c) for c in r["consumes"]),
                    "true" if r["consumes_rest"] else "false", "true" if r["registered"] else "false",
                    "true" if r["scoped"] else "false"))
  L.append(",\n".join(body))
  L.append("]")
  L.append("")
  L.append("end Tfl.Generated.Configs")
  return "\n".join(L) + "\n"


def regenerate():
  """Re-extracts the table from the current source and rewrites Generated/Configs.lean only when
  its content changes. Returns the rows (the harness compares the REAL objects against them)."""
  rows = extract()
  text = emit(rows)
  os.makedirs(os.path.dirname(OUT), exist_ok=True)
  if not os.path.exists(OUT) or open(OUT).read() != text:
    with open(OUT, "w") as f:
      f.write(text)
  return rows


if __name__ == "__main__":
  rows = regenerate()
  for r in rows:
    print("%s:%s kind=%s kwargs=%s from_config=%s%s registered=%s scoped=%s" % (
        r["file"], r["cls"], r["kind"], r["kwargs"], r["from_config"],
        "" if r["from_config"] == "default" else " consumes=%s rest=%s" % (r["consumes"], r["consumes_rest"]),
        r["registered"], r["scoped"]))
    pn = [p for p, _ in r["params"]]
    kn = [k["key"] for k in r["keys"]]
    if sorted(pn) != sorted(kn):
      print("    KEYSET: params-not-keys=%s keys-not-params=%s" % ([p for p in pn if p not in kn], [k for k in kn if k not in pn]))
    for k in r["keys"]:
      if not (k["norm"] in ("id", "keras_base") and k["reader"] == "attr" and k["param"] == k["key"] and not k["guard"]):
        print("    %-24s attr=%-22s param=%-20s guard=%s\n        norm=%s\n        reader=%s" % (
            k["key"], k["attr"], k["param"], k["guard"], k["norm"], k["reader"]))
