"""Shared plumbing of the correspondence harness: exact-rational wire format, the Lean
driver, the per-run context (counters, disagreements, oracle failures), tolerances."""
import json, os, random, subprocess, sys, time
from fractions import Fraction

ROOT = os.path.dirname(os.path.dirname(os.path.abspath(__file__)))
LEAN_DIR = os.path.join(ROOT, "lean")
DRIVER = os.path.join(LEAN_DIR, ".lake", "build", "bin", "tfldriver")
REPO = os.environ.get("TFL_REPO", "/repo")


class InfraError(Exception):
  """Infrastructure problem (timeout, driver crash): exit 2, never a violation."""


# ---------------------------------------------------------------- wire format
def F(x):
  """Exact rational of a python/numpy number."""
  if isinstance(x, Fraction):
    return x
  if isinstance(x, int):
    return Fraction(x)
  return Fraction(float(x))


def fr(x):
  x = F(x)
  return "%d" % x.numerator if x.denominator == 1 else "%d/%d" % (x.numerator, x.denominator)


def frl(xs):
  xs = list(xs)
  return ",".join(fr(x) for x in xs) if xs else "_"


def frl2(xss):
  xss = list(xss)
  return ";".join(frl(xs) for xs in xss) if xss else "_"


def il(xs):
  xs = list(xs)
  return ",".join(str(int(x)) for x in xs) if xs else "_"


def il2(xss):
  xss = list(xss)
  return ";".join(il(xs) for xs in xss) if xss else "_"


def opt(x):
  return "none" if x is None else fr(x)


def parse_rats(tok):
  return [] if tok == "_" else [Fraction(t) for t in tok.split(",")]


def parse_rats2(tok):
  return [] if tok == "_" else [parse_rats(t) for t in tok.split(";")]


def parse_ints(tok):
  return [] if tok == "_" else [int(t) for t in tok.split(",")]


def parse_ints2(tok):
  return [] if tok == "_" else [parse_ints(t) for t in tok.split(";")]


def run_driver(lines, timeout=600):
  """Pipes all op lines through the native Lean driver once; returns the reply lines."""
  if not lines:
    return []
  if not os.path.exists(DRIVER):
    raise InfraError("driver not built: " + DRIVER)
  try:
    p = subprocess.run([DRIVER], input="\n".join(lines) + "\n", capture_output=True,
                       text=True, timeout=timeout)
  except subprocess.TimeoutExpired:
    raise InfraError("lean driver timeout")
  if p.returncode != 0:
    raise InfraError("lean driver crashed rc=%s: %s" % (p.returncode, p.stderr[-2000:]))
  outs = p.stdout.split("\n")
  if outs and outs[-1] == "":
    outs.pop()
  if len(outs) != len(lines):
    raise InfraError("driver replied %d lines for %d ops: %s" % (len(outs), len(lines), p.stderr[-500:]))
  return outs


# ---------------------------------------------------------------- numeric comparison
def close(real, model, scale, rtol=1e-9, atol=0.0):
  """|float - rat| <= atol + rtol * scale (scale = largest magnitude in the case, >= 1)."""
  try:
    real = float(real)
  except Exception:
    return False
  if real != real or real in (float("inf"), float("-inf")):
    return False
  return abs(Fraction(real) - F(model)) <= Fraction(atol) + Fraction(rtol) * F(max(1.0, scale))


def max_abs(*seqs):
  m = 1.0
  for s in seqs:
    for v in s:
      a = abs(float(v))
      if a > m:
        m = a
  return m


def jsonable(x):
  import numpy as np
  if isinstance(x, Fraction):
    return fr(x)
  if isinstance(x, (np.floating,)):
    return float(x)
  if isinstance(x, (np.integer,)):
    return int(x)
  if isinstance(x, np.ndarray):
    return x.tolist()
  if isinstance(x, (list, tuple)):
    return [jsonable(v) for v in x]
  if isinstance(x, dict):
    return {str(k): jsonable(v) for k, v in x.items()}
  if isinstance(x, (set, frozenset)):
    return sorted(jsonable(v) for v in x)
  if isinstance(x, float) and (x != x or x in (float("inf"), float("-inf"))):
    return repr(x)
  if isinstance(x, (str, int, float, bool)) or x is None:
    return x
  return repr(x)


# ---------------------------------------------------------------- run context
class Ctx:
  """Everything one run of one property check accumulates."""

  def __init__(self, prop, tier, seed, scale=1.0, search=False):
    self.prop, self.tier, self.seed = prop, tier, seed
    self.rng = random.Random("%s/%s/%d" % (prop, tier, seed))
    self.scale = scale            # budget multiplier (x10 on drift / in failing-input search)
    self.search = search          # failing-input search mode: oracle only matters
    self.evaluations = 0
    self.sigs = set()             # distinct non-trivial signatures
    self.samples = []
    self.dist = {}
    self.disagreements = []       # model != code
    self.failures = []            # real code breaks the stated property
    self.traces = 0               # cases on which model and code were compared and agreed
    self.notes = []
    self.suites = {}              # correspondence suite name -> [cases, disagreements]

  def n(self, quick, thorough=None):
    base = quick if self.tier == "quick" or thorough is None else thorough
    return max(1, int(base * self.scale))

  def count(self, key, k=1):
    self.dist[key] = self.dist.get(key, 0) + k

  def case(self, sig=None, nontrivial=True, sample=None):
    self.evaluations += 1
    if nontrivial and sig is not None:
      self.sigs.add(sig if isinstance(sig, str) else json.dumps(jsonable(sig), sort_keys=True))
    if sample is not None and len(self.samples) < 6:
      self.samples.append(jsonable(sample))

  def agree(self, suite):
    self.traces += 1
    self.suites.setdefault(suite, [0, 0])[0] += 1

  def disagree(self, suite, case, real, model, detail=""):
    self.suites.setdefault(suite, [0, 0])
    self.suites[suite][0] += 1
    self.suites[suite][1] += 1
    if len(self.disagreements) < 50:
      self.disagreements.append(jsonable({"suite": suite, "case": case, "real": real,
                                          "model": model, "detail": detail}))

  def fail(self, clause, key, case, observed, detail=""):
    """The REAL code breaks the stated property on `case`. `key` is the dict the
    known-findings predicates are matched against."""
    k = dict(key)
    k["clause"] = clause
    # at most 12 recorded failures per distinct key (a pinned known finding that fires hundreds of times in the
    # thorough tier must not crowd OTHER violations out of the list), 2000 in total; the rest is only counted
    sig = json.dumps(jsonable(k), sort_keys=True, default=str)
    seen = self._fail_per_key = getattr(self, "_fail_per_key", {})
    seen[sig] = seen.get(sig, 0) + 1
    if seen[sig] <= 12 and len(self.failures) < 2000:
      self.failures.append(jsonable({"clause": clause, "key": k, "case": case,
                                     "observed": observed, "detail": detail}))
    else:
      self.count("failures_not_recorded")

  def compare(self, suite, case, real_vals, model_vals, scale, rtol=1e-9, atol=0.0):
    """Element-wise comparison of a real float vector with the model's rationals."""
    real_vals = list(real_vals)
    ok = len(real_vals) == len(model_vals) and all(
        close(r, m, scale, rtol, atol) for r, m in zip(real_vals, model_vals))
    if ok:
      self.agree(suite)
    else:
      self.disagree(suite, case, [float(r) for r in real_vals], [fr(m) for m in model_vals],
                    "rtol=%g scale=%g" % (rtol, scale))
    return ok


def classify_exc(e):
  import tensorflow as tf
  if isinstance(e, ValueError) and not isinstance(e, tf.errors.OpError):
    return "ERR ValueError"
  if isinstance(e, tf.errors.InvalidArgumentError):
    return "ERR InvalidArgument"
  if isinstance(e, TypeError):
    return "ERR TypeError"
  return "ERR Other:" + type(e).__name__


def dyadic(rng, lo=-24, hi=24, den=8):
  return Fraction(rng.randint(lo, hi), den)


def gen_value(rng, kind):
  """Kernel-entry generators: dyadic (exact in float), small ints (ties), wide doubles, tiny, huge."""
  if kind == "dyadic":
    return Fraction(rng.randint(-24, 24), 8)
  if kind == "int":
    return Fraction(rng.randint(-3, 3))
  if kind == "wide":
    return Fraction(rng.uniform(-100.0, 100.0))
  if kind == "tiny":
    return Fraction(rng.randint(-8, 8), 2 ** 20)
  if kind == "huge":
    return Fraction(rng.randint(-8, 8) * 2 ** 30)
  if kind == "unit":
    return Fraction(rng.randint(0, 16), 16)
  raise ValueError(kind)


VALUE_KINDS = ["dyadic", "dyadic", "int", "int", "wide", "tiny", "huge"]
