"""C16 translator: evaluates every REAL constructor that runs a `verify_hyperparameters`
(LatticeConstraints, LinearInitializer, RandomMonotonicInitializer, lattice LaplacianRegularizer /
TorsionRegularizer, PWLCalibration, PWLCalibrationConstraints, UniformOutputInitializer, Linear,
LinearConstraints, CategoricalCalibration, CategoricalCalibrationConstraints,
KroneckerFactoredLattice, RTL) and `premade_lib.verify_config` over a small-domain cross product
of arguments (valid and invalid), records accept / ValueError / TypeError / other exception, and
emits the literal table `lean/TflModel/Generated/Accept.lean`.  `Props/C16.lean` proves by
`decide +kernel` that the Lean models `Tfl.Verify.*` agree with EVERY recorded row.

Domains: every argument has a small list of spellings (ints, strings, tuples, lists, wrong lengths,
out-of-range indices ...), some of them templates in the rank of `lattice_sizes`.  Cross products
that exceed TABLE_ROWS per class are SAMPLED with a fixed PRNG seed (the table must be
deterministic): every row of the one-factor-at-a-time design around each valid baseline is always
included (so each domain value occurs at least once in an otherwise valid configuration), the rest
is a uniform sample of the product.  The harness (props/c16.py) draws further rows from the same
product with the run's seed and compares them through the driver (quick: sample, thorough: all).

Values are encoded for Lean as `Tfl.Verify.Val` terms (None / int / float / lower-cased string
token / list / tuple, nesting depth <= 2) and for the driver as tokens:
  atom  N | i<int> | f<num>/<den> | s<token> (exact lower case) | S<token> (other case)
              item  atom | l:<atoms,> | t:<atoms,>
  value atom | L:<items;> | T:<items;>                (`L:` = empty list)
"""
import copy, hashlib, itertools, json, os, random, sys
from fractions import Fraction

HERE = os.path.dirname(os.path.abspath(__file__))
ROOT = os.path.dirname(HERE)
OUT = os.path.join(ROOT, "lean", "TflModel", "Generated", "Accept.lean")
CACHE = os.path.join(ROOT, "lean", ".lake", "accept_cache.json")
TABLE_ROWS = 3000          # rows per class in the kernel-checked table when the product is sampled
FULL_LIMIT = 19000         # cross products up to this size (summed over the baselines, before de-duplication) are tabulated exhaustively
CHUNK = 500

TOKS = ["increasing", "decreasing", "none", "peak", "valley", "positive", "negative", "convex",
        "concave", "hypercube", "simplex", "fixed", "learned_interior", "all_vertices",
        "kronecker_factored", "linear_initializer", "random_monotonic_initializer", "rtl_layer",
        "torsion", "laplacian", "calib_hessian", "quantiles", "uniform", "equal_slopes"]


# ------------------------------------------------------------------ value encoding
def _tok(s):
  t = s.lower()
  return t if t in TOKS else "other"


def lean_atom(x):
  if x is None:
    return ".none"
  if isinstance(x, bool):
    return ".int %d" % int(x)
  if isinstance(x, int):
    return ".int (%d)" % x if x < 0 else ".int %d" % x
  if isinstance(x, float):
    f = Fraction(x)
    return ".flt (%d/%d)" % (f.numerator, f.denominator) if f.denominator != 1 or f < 0 else ".flt %d" % f.numerator
  if isinstance(x, str):
    t = _tok(x)
    return ".str .%s%s" % ("none_" if t == "none" else t, "" if x == x.lower() else " false")
  raise TypeError("atom %r" % (x,))


def lean_item(x):
  if isinstance(x, (list, tuple)):
    return ".s %s [%s]" % ("true" if isinstance(x, tuple) else "false", ", ".join(lean_atom(a) for a in x))
  return ".a (%s)" % lean_atom(x)


def lean_val(x):
  if isinstance(x, (list, tuple)):
    return ".s %s [%s]" % ("true" if isinstance(x, tuple) else "false", ", ".join(lean_item(a) for a in x))
  return ".a (%s)" % lean_atom(x)


def wire_atom(x):
  if x is None:
    return "N"
  if isinstance(x, bool):
    return "i%d" % int(x)
  if isinstance(x, int):
    return "i%d" % x
  if isinstance(x, float):
    f = Fraction(x)
    return "f%d/%d" % (f.numerator, f.denominator)
  if isinstance(x, str):
    return ("s" if x == x.lower() else "S") + _tok(x)
  raise TypeError("atom %r" % (x,))


def wire_item(x):
  if isinstance(x, (list, tuple)):
    return ("t:" if isinstance(x, tuple) else "l:") + ",".join(wire_atom(a) for a in x)
  return wire_atom(x)


def wire_val(x):
  if isinstance(x, (list, tuple)):
    return ("T:" if isinstance(x, tuple) else "L:") + ";".join(wire_item(a) for a in x)
  return wire_atom(x)


# ------------------------------------------------------------------ domains
def _uniq(xs):
  out = []
  for x in xs:
    if not any(repr(x) == repr(y) for y in out):
      out.append(x)
  return out


def lattice_mono(n):
  return _uniq([None, [], [0] * n, [1] + [0] * (n - 1), ["increasing"] + ["none"] * (n - 1), [1] * n,
                tuple([1] * n), ["Increasing"] * n, [-1] + [0] * (n - 1), ["decreasing"] + [0] * (n - 1),
                [1] * (n - 1), [1] * (n + 1), [2] + [0] * (n - 1), ["peak"] + [0] * (n - 1), [0] * (n - 1) + [1]])


def lattice_uni(n):
  return _uniq([None, [0] * n, ["valley"] + [0] * (n - 1), [0] * (n - 1) + [-1], [0] * (n - 1) + ["peak"],
                tuple([0] * (n - 1) + [1]), [1] * n, ["increasing"] + [0] * (n - 1), [0] * (n + 1), [3] + [0] * (n - 1)])


TRUSTS = [None, [], [(0, 1, 1)], [(0, 1, "positive")], (0, 1, "positive"), [(0, 1, -1)], [(0, 1, "Negative")],
          [[0, 1, 1]], [(1, 0, 1)], [(0, 1, 1), (1, 0, 1)], [(0, 0, 1)], [(0, 1, 2)], [(0, 1, "up")],
          [(0, 1, 1), (0, 1, -1)], [(0, 1, 1), (0, 1, 1)], [(0, 5, 1)], [(-1, 1, 1)], [(0, 1)], [(0, 2, 1)],
          [(0, 1, 1), (0, 2, 1)], [(0.0, 1, 1)]]
DOMS = [None, [], [(0, 1)], (0, 1), [[0, 1]], [(1, 0)], [(0, 1), (1, 0)], [(0, 1), (0, 1)], [(0, 5)], [(-1, 0)],
        [(0, 1, 2)], [(0, 2)], [(0, 0)], [(0, 1.0)],
        # fix 2ef7ec2: circular dominance sets (3-cycle in two rotations, cycle behind a root, self pair after a valid
        # pair) and acyclic ones that need several rounds (chain, chain listed backwards, transitive triangle)
        [(0, 1), (1, 2), (2, 0)], [(1, 2), (2, 0), (0, 1)], [(0, 1), (1, 2), (2, 1)], [(0, 1), (1, 1)],
        [(0, 1), (1, 2)], [(1, 2), (0, 1)], [(0, 1), (1, 2), (0, 2)],
        # fix 18dd711: (d, d) as a single tuple / on the last dimension
        (0, 0), [(1, 1)]]
JOINT_MONO = [None, [], [(0, 1)], (0, 1), [(0, 9)], [(0,)], [(0, -1)], [(1, 0), (0, 1)], [(0, 1.0)],
              # fix 18dd711: a constraint naming one dimension twice (alone, after a valid pair, as a single tuple)
              [(0, 0)], [(0, 1), (1, 1)], (1, 1)]
# typed: None | ("list", [(dims, dir), ...]) | ("single", dims, dir)
JOINT_UNI = [None, ("list", []), ("list", [([0], "peak")]), ("list", [([0, 1], "valley")]),
             ("single", [0, 1], "valley"), ("list", [([0, 0], "peak")]), ("list", [([0], "up")]),
             ("list", [([0], 1)]), ("list", [([7], "peak")]), ("list", [([-1], "peak")]),
             ("list", [([0], "Peak"), ([1], "valley")]),
             # repeated dimensions after a valid constraint / a dimension == rank - 1, == rank, far outside
             ("list", [([0], "valley"), ([1, 0, 1], "peak")]), ("list", [([1, 2], "valley")]),
             ("list", [([2], "peak")]), ("list", [([0, 3], "peak")]), ("single", [0], "peak"),
             ("single", [0, 0], "valley"), ("single", [0, 9], "peak"), ("single", [0], 1),
             ("list", [([0, 1, 2], "valley")])]
SIZES = [[2], [2, 2], [3, 3], [3, 2], [2, 3, 2], [3, 3, 3], [1, 2], [2, 0], (3, 3)]
EMPTY_SIZES = [[], (), None]     # fix 93797fc: `if not lattice_sizes` is a ValueError
BOUNDS = [(None, None), (0.0, 1.0), (1.0, 0.0), (0.0, 0.0), (None, 1.0), (0.0, None), (-1.0, 2.0), (0, 1)]


def ju_py(v):
  if v is None:
    return None
  if v[0] == "list":
    return [tuple(p) for p in v[1]]
  return (v[1], v[2])


def ju_lean(v):
  def ints(ds):
    return "[%s]" % ", ".join(str(d) if d >= 0 else "(%d)" % d for d in ds)
  if v is None:
    return ".none"
  if v[0] == "list":
    return ".list [%s]" % ", ".join("(%s, %s)" % (ints(p[0]), lean_atom(p[1])) for p in v[1])
  return ".single %s (%s)" % (ints(v[1]), lean_atom(v[2]))


def ju_wire(v):
  def pr(p):
    return "%s:%s" % (",".join(str(d) for d in p[0]) or "_", wire_atom(p[1]))
  if v is None:
    return "N"
  if v[0] == "list":
    return "L;" + ";".join(pr(p) for p in v[1]) if v[1] else "L"
  return "S;" + pr((v[1], v[2]))


# normalization_order, typed: ("val", <python value>) | ("inf",) | ("-inf",) | ("euclidean",) | ("fro",)
def no_py(v):
  import numpy as np
  return {"val": lambda: v[1], "inf": lambda: np.inf, "-inf": lambda: -np.inf, "euclidean": lambda: "euclidean",
          "fro": lambda: "fro"}[v[0]]()


def no_lean(v):
  return {"val": lambda: ".val (%s)" % lean_val(v[1]), "inf": lambda: ".inf", "-inf": lambda: ".negInf",
          "euclidean": lambda: ".euclidean", "fro": lambda: ".fro"}[v[0]]()


def no_wire(v):
  return {"val": lambda: "V" + wire_val(v[1]), "inf": lambda: "INF", "-inf": lambda: "NINF", "euclidean": lambda: "EUC",
          "fro": lambda: "FRO"}[v[0]]()


# arguments that the constructors only store (audit row 5)
UNITS = [1, 2, 0, -1, 2.0, None]
ITERS = [10, 0, 1, -1, 2.5, None]
SPLIT = [False, True, None, 1]
NORM = [("val", None), ("val", 1), ("val", 2), ("inf",), ("val", 0), ("val", 3), ("val", 1.5), ("val", -1), ("-inf",),
        ("euclidean",), ("fro",), ("val", "1"), ("val", [1]), ("val", 0.0)]


class Spec(object):
  """One table class: `args` (name, kind) in Lean-record order; `factors(base)` the per-argument
  domains (may depend on the baseline's rank); `baselines` valid configurations; `call(cfg)` runs
  the real constructor."""

  def __init__(self, name, lean_fn, args, baselines, factors, call):
    self.name, self.lean_fn, self.args = name, lean_fn, args
    self.baselines, self.factors, self.call = baselines, factors, call

  def enc(self, cfg, how):
    out = []
    for a, kind in self.args:
      v = cfg[a]
      if kind == "ju":
        out.append({"lean": ju_lean, "wire": ju_wire}[how](v))
      elif kind == "no":
        out.append({"lean": no_lean, "wire": no_wire}[how](v))
      else:
        out.append({"lean": lean_val, "wire": wire_val}[how](v))
    return out

  def rows(self, rng, n):
    """one-factor-at-a-time rows around every baseline + a uniform sample of the product."""
    rows, seen = [], set()

    def add(c):
      k = repr(sorted(c.items(), key=lambda kv: kv[0]))
      if k not in seen:
        seen.add(k)
        rows.append(c)
    for b in self.baselines:
      add(dict(b))
      f = self.factors(b)
      for a, _ in self.args:
        for v in f[a]:
          c = dict(b)
          c[a] = v
          add(c)
    if self.product_size() <= FULL_LIMIT:
      for b in self.baselines:
        f = self.factors(b)
        names = [a for a, _ in self.args]
        for combo in itertools.product(*[f[a] for a in names]):
          add(dict(zip(names, combo)))
      return rows
    tries = 0
    while len(rows) < n and tries < 20 * n:
      tries += 1
      b = rng.choice(self.baselines)
      f = self.factors(b)
      c = dict(b)
      # each argument keeps its baseline value with probability 1/2: keeps a useful share valid
      for a, _ in self.args:
        if rng.random() < 0.5:
          c[a] = rng.choice(f[a])
      add(c)
    return rows

  def product_size(self):
    tot = 0
    for b in self.baselines:
      p = 1
      for a, _ in self.args:
        p *= len(self.factors(b)[a])
      tot += p
    return tot


def _specs():
  from tensorflow_lattice.python import (lattice_layer as ll, pwl_calibration_layer as pl, linear_layer as lin,
                                         categorical_calibration_layer as cl, kronecker_factored_lattice_layer as kl,
                                         rtl_layer, premade_lib, configs, pwl_calibration_lib as plib)
  S = []
  # ---- lattice_lib.verify_hyperparameters through LatticeConstraints
  def lat_factors(b):
    n = len(b["lattice_sizes"])
    return dict(lattice_sizes=_uniq([b["lattice_sizes"]] + [s for s in SIZES if len(s) == n] + EMPTY_SIZES),
                monotonicities=lattice_mono(n), unimodalities=lattice_uni(n), edgeworth_trusts=TRUSTS,
                trapezoid_trusts=TRUSTS[:9] + TRUSTS[13:16], monotonic_dominances=DOMS, range_dominances=DOMS[:8] + [[(0, 0)], [(1, 1)], (0, 0)],
                joint_monotonicities=JOINT_MONO, joint_unimodalities=JOINT_UNI,
                output_min=[None, 0.0, 1.0, 0], output_max=[None, 0.0, 1.0, 2.0], num_projection_iterations=ITERS)
  lat_args = [("lattice_sizes", "v"), ("monotonicities", "v"), ("unimodalities", "v"), ("edgeworth_trusts", "v"),
              ("trapezoid_trusts", "v"), ("monotonic_dominances", "v"), ("range_dominances", "v"),
              ("joint_monotonicities", "v"), ("joint_unimodalities", "ju"), ("output_min", "v"), ("output_max", "v"),
              ("num_projection_iterations", "v")]
  def lat_base(sizes, mono):
    return dict(lattice_sizes=sizes, monotonicities=mono, unimodalities=None, edgeworth_trusts=None,
                trapezoid_trusts=None, monotonic_dominances=None, range_dominances=None,
                joint_monotonicities=None, joint_unimodalities=None, output_min=None if len(sizes) == 1 else 0.0,
                output_max=None if len(sizes) == 3 else 1.0, num_projection_iterations=10)
  def lat_call(c):
    kw = dict(c)
    kw["joint_unimodalities"] = ju_py(c["joint_unimodalities"])
    return ll.LatticeConstraints(**kw)
  S.append(Spec("LatticeConstraints", "latticeConstraintsFull", lat_args,
                [lat_base([2, 2], [1, 1]), lat_base([3, 3], [1, 0]), lat_base([3, 3, 3], [1, 1, 1]), lat_base([2], [1]),
                 lat_base([2, 3, 2], [1, 1, 0]), lat_base([3, 3, 3], [0, 0, 1])],
                lat_factors, lat_call))
  # ---- initialisers: lattice verify with output bounds
  def li_factors(b):
    n = len(b["lattice_sizes"])
    return dict(lattice_sizes=_uniq([b["lattice_sizes"]] + [s for s in SIZES if len(s) == n] + EMPTY_SIZES),
                monotonicities=lattice_mono(n), unimodalities=lattice_uni(n),
                output_min=[x for x, _ in BOUNDS] + [2.0], output_max=[y for _, y in BOUNDS] + [-1.0])
  li_args = [("lattice_sizes", "v"), ("monotonicities", "v"), ("output_min", "v"), ("output_max", "v"),
             ("unimodalities", "v")]
  S.append(Spec("LinearInitializer", "linearInitializer", li_args,
                [dict(lattice_sizes=[2, 2], monotonicities=[1, 0], output_min=0.0, output_max=1.0, unimodalities=None),
                 dict(lattice_sizes=[3, 3, 3], monotonicities=None, output_min=-1.0, output_max=2.0, unimodalities=[0, 1, 0])],
                li_factors, lambda c: ll.LinearInitializer(**c)))
  S.append(Spec("RandomMonotonicInitializer", "randomMonotonicInitializer",
                [a for a in li_args if a[0] != "monotonicities"],
                [dict(lattice_sizes=[2, 2], output_min=0.0, output_max=1.0, unimodalities=None),
                 dict(lattice_sizes=[3, 3, 3], output_min=-1.0, output_max=2.0, unimodalities=[0, 1, 0])],
                li_factors, lambda c: ll.RandomMonotonicInitializer(**c)))
  # ---- lattice regularizers: amounts
  AMT = [0.0, 0.5, 1, [0.1, 0.2], (0.1, 0.2), [0.1], [0.1, 0.2, 0.3], [], None, [0.0, 0.0]]
  def reg_factors(b):
    return dict(lattice_sizes=[[2, 2], [3, 2], (2, 2), [2, 3, 2], [1, 2], [2], [], ()], l1=AMT, l2=AMT)
  reg_args = [("lattice_sizes", "v"), ("l1", "v"), ("l2", "v")]
  S.append(Spec("LaplacianRegularizer", "laplacianRegularizer", reg_args,
                [dict(lattice_sizes=[2, 2], l1=0.5, l2=0.0)], reg_factors, lambda c: ll.LaplacianRegularizer(**c)))
  S.append(Spec("TorsionRegularizer", "torsionRegularizer", reg_args,
                [dict(lattice_sizes=[2, 2], l1=0.5, l2=0.0)], reg_factors, lambda c: ll.TorsionRegularizer(**c)))
  # ---- PWL
  KP = [[0.0, 1.0], [0.0, 1.0, 3.0], [0.0, 0.0, 1.0], [1.0, 0.0], [0.0], [], [0, 1, 2], (0.0, 1.0, 2.0), None]
  MONO1 = ["none", 0, 1, -1, "increasing", "decreasing", "Increasing", 2, "peak", None]
  CONV = ["none", 0, 1, -1, "convex", "concave", "Convex", 2, "increasing", None]
  OUTB = [None, 0.0, 1.0, -1.0, 2.0, 0]
  KPT = ["fixed", "learned_interior", "Fixed", "other", None]
  def pwl_factors(b):
    return dict(input_keypoints=KP, output_min=OUTB, output_max=OUTB, monotonicity=MONO1, convexity=CONV,
                is_cyclic=[False, True], impute_missing=[False, True], missing_input_value=[None, -1.0],
                missing_output_value=[None, 0.5], input_keypoints_type=KPT, clamp_min=[False, True],
                clamp_max=[False, True], kernel_initializer=["equal_heights", "equal_slopes", "zeros"],
                units=UNITS, num_projection_iterations=ITERS, split_outputs=SPLIT)
  pwl_args = [("input_keypoints", "v"), ("output_min", "v"), ("output_max", "v"), ("monotonicity", "v"),
              ("convexity", "v"), ("is_cyclic", "v"), ("impute_missing", "v"), ("missing_input_value", "v"),
              ("missing_output_value", "v"), ("input_keypoints_type", "v"), ("clamp_min", "v"), ("clamp_max", "v"),
              ("kernel_initializer", "v"), ("units", "v"), ("num_projection_iterations", "v"), ("split_outputs", "v")]
  def pwl_base(**kw):
    return dict(kw, units=1 if kw["is_cyclic"] else 2, num_projection_iterations=8, split_outputs=bool(kw["is_cyclic"]))
  S.append(Spec("PWLCalibration", "pwlCalibrationFull", pwl_args,
                [pwl_base(input_keypoints=[0.0, 1.0, 3.0], output_min=0.0, output_max=1.0, monotonicity="increasing",
                      convexity="none", is_cyclic=False, impute_missing=False, missing_input_value=None,
                      missing_output_value=None, input_keypoints_type="fixed", clamp_min=True, clamp_max=False,
                      kernel_initializer="equal_slopes"),
                 pwl_base(input_keypoints=[0.0, 1.0], output_min=None, output_max=None, monotonicity="none",
                      convexity="none", is_cyclic=True, impute_missing=True, missing_input_value=-1.0,
                      missing_output_value=None, input_keypoints_type="fixed", clamp_min=False, clamp_max=False,
                      kernel_initializer="equal_heights"),
                 pwl_base(input_keypoints=[0.0, 1.0, 2.0], output_min=0.0, output_max=2.0, monotonicity=0,
                      convexity="convex", is_cyclic=False, impute_missing=False, missing_input_value=None,
                      missing_output_value=None, input_keypoints_type="fixed", clamp_min=False, clamp_max=False,
                      kernel_initializer="zeros")],
                pwl_factors, lambda c: pl.PWLCalibration(**c)))
  # fix e215d06: list lengths must all be positive (zero, negative, a zero in front of a None: all() short-circuits)
  LEN = [None, [1.0, 2.0], [1.0], [], [0.0, 0.0, 1.0], [1.0, 0.0], [1.0, -0.5], [1, 2], (1.0, 2.0), [0.0, None], [0, 1], [1.0, None], [None, 0.0], [1.0, 'x'], [[1.0], 2.0]]
  def pwc_factors(b):
    return dict(monotonicity=MONO1, convexity=CONV, lengths=LEN, output_min=OUTB, output_max=OUTB,
                num_projection_iterations=ITERS)
  S.append(Spec("PWLCalibrationConstraints", "pwlConstraintsFull",
                [("monotonicity", "v"), ("convexity", "v"), ("lengths", "v"), ("output_min", "v"), ("output_max", "v"),
                 ("num_projection_iterations", "v")],
                [dict(monotonicity=1, convexity=0, lengths=[1.0, 2.0], output_min=0.0, output_max=1.0,
                      num_projection_iterations=8)],
                pwc_factors, lambda c: pl.PWLCalibrationConstraints(**c)))
  def uoi_factors(b):
    return dict(output_min=OUTB[1:], output_max=OUTB[1:], monotonicity=MONO1, keypoints=KP)
  S.append(Spec("UniformOutputInitializer", "uniformOutputInitializer",
                [("output_min", "v"), ("output_max", "v"), ("monotonicity", "v"), ("keypoints", "v")],
                [dict(output_min=0.0, output_max=1.0, monotonicity=1, keypoints=None),
                 dict(output_min=0.0, output_max=1.0, monotonicity="decreasing", keypoints=[0.0, 1.0, 3.0])],
                uoi_factors, lambda c: pl.UniformOutputInitializer(**c)))
  # ---- Linear
  def lmono(n):
    return _uniq([[0] * n, [1] * n, [1] + [0] * (n - 1), ["increasing"] * n, [-1] * n, ["decreasing"] + [1] * (n - 1),
                  tuple([1] * n), [1] * (n + 1), [1] * (n - 1), [2] * n, ["peak"] * n, None, [1, -1, 0][:n], [1, 1, -1][:n], [-1, -1, 1][:n],
                  # fix 1f0b06a: a monotonicity None is falsy like 0 (range dominance rejected)
                  [None] * n, [None, None, 1][:n], [1, 1, None][:n]])
  def lbound(n, v, w):
    return _uniq([None, [v] * n, [v] + [None] * (n - 1), [v] + ["none"] * (n - 1), [int(v)] * n, [v] * (n + 1),
                  [w] * n, tuple([v] * n), [], [v, w, v][:n]])
  def lc_factors(b):
    n = len(b["monotonicities"])
    return dict(monotonicities=lmono(n), monotonic_dominances=DOMS, range_dominances=DOMS,
                input_min=lbound(n, 0.0, 1.0), input_max=lbound(n, 1.0, 0.0), normalization_order=NORM)
  def with_norm(ctor):
    return lambda c: ctor(**dict(c, normalization_order=no_py(c["normalization_order"])))
  S.append(Spec("LinearConstraints", "linearConstraintsFull",
                [("monotonicities", "v"), ("monotonic_dominances", "v"), ("range_dominances", "v"),
                 ("input_min", "v"), ("input_max", "v"), ("normalization_order", "no")],
                [dict(monotonicities=[1, 1, 0], monotonic_dominances=None, range_dominances=None, input_min=None,
                      input_max=None, normalization_order=("val", None)),
                 dict(monotonicities=[1, 1], monotonic_dominances=None, range_dominances=[(0, 1)], input_min=[0.0, 0.0],
                      input_max=[1.0, 1.0], normalization_order=("val", 1)),
                 dict(monotonicities=[-1, -1, 1], monotonic_dominances=None, range_dominances=[(0, 1)],
                      input_min=[0.0, 0.0, 0.0], input_max=[1.0, 1.0, 1.0], normalization_order=("val", 1)),
                 dict(monotonicities=[1, 1, 1], monotonic_dominances=[(0, 1), (1, 2)], range_dominances=None,
                      input_min=[0.0, 0.0, 0.0], input_max=[1.0, 1.0, 1.0], normalization_order=("inf",)),
                 dict(monotonicities=[-1, -1, -1], monotonic_dominances=None, range_dominances=[(0, 1), (1, 2)],
                      input_min=[0.0, 0.0, 0.0], input_max=[1.0, 1.0, 1.0], normalization_order=("val", 2))],
                lc_factors, with_norm(lin.LinearConstraints)))
  def ll_factors(b):
    n = b["num_input_dims"]
    # since fix 4a8f232 `Linear.__init__` hands input_min / input_max to the verification: wrong
    # lengths, crossed bounds and non-float entries with and WITHOUT monotonicities (no constraint object)
    return dict(num_input_dims=[1, 2, 3, 0], monotonicities=lmono(n) + [1, "increasing", -1, 0, "none", 2, "peak"],
                input_min=lbound(n, 0.0, 1.0) + [[0.0] * (n - 1), [2.0] * n],
                input_max=lbound(n, 1.0, 0.0) + [[1.0] * (n - 1), [-1.0] * n], units=UNITS + [1.0, 3], normalization_order=NORM)
  S.append(Spec("Linear", "linearLayerFull", [("num_input_dims", "v"), ("monotonicities", "v"), ("input_min", "v"),
                                               ("input_max", "v"), ("units", "v"), ("normalization_order", "no")],
                [dict(num_input_dims=2, monotonicities=[1, 0], input_min=None, input_max=None, units=1,
                      normalization_order=("val", None)),
                 dict(num_input_dims=3, monotonicities="increasing", input_min=[0.0, 0.0, 0.0], input_max=None, units=2,
                      normalization_order=("val", 1)),
                 dict(num_input_dims=1, monotonicities=None, input_min=None, input_max=None, units=1,
                      normalization_order=("inf",)),
                 dict(num_input_dims=3, monotonicities=None, input_min=[0.0, None, 0.0], input_max=[1.0, 1.0, 1.0], units=3,
                      normalization_order=("val", 2))],
                ll_factors, with_norm(lin.Linear)))
  # ---- Lattice.__init__: two verifications (the second one, of the joint unimodalities, since fix
  # f995047) and create_kernel_initializer, which indexes per-dimension lists by the jointly unimodal dims
  KINIT = {"other": "random_uniform_or_linear_initializer"}
  def lay_factors(b):
    n = len(b["lattice_sizes"])
    return dict(lattice_sizes=_uniq([b["lattice_sizes"]] + [s for s in SIZES if len(s) == n] + EMPTY_SIZES),
                monotonicities=lattice_mono(n), unimodalities=lattice_uni(n), joint_unimodalities=JOINT_UNI,
                output_min=[None, 0.0, 1.0, 0, 2.0], output_max=[None, 0.0, 1.0, 2.0, -1.0],
                interpolation=["hypercube", "simplex", "Simplex", "other"],
                kernel_initializer=["other", "linear_initializer", "random_monotonic_initializer", "uniform"],
                units=UNITS, num_projection_iterations=ITERS,
                # stored (a single tuple wrapped), verified only by LatticeConstraints at build; `()`: x[0] of an
                # empty tuple (F-C16-aj)
                edgeworth_trusts=L_TRUSTS, trapezoid_trusts=L_TRUSTS, monotonic_dominances=L_PAIRS,
                range_dominances=L_PAIRS, joint_monotonicities=L_PAIRS)
  L_TRUSTS = [None, (), [], [(0, 1, 1)], (0, 1, "positive"), [(0, 5, 1)], ((0, 1, 1),)]
  L_PAIRS = [None, (), [], (0, 1), [(0, 1)], [(0, 9)]]
  def lay_base(sizes, mono, ju=None, init="other"):
    return dict(lattice_sizes=sizes, monotonicities=mono, unimodalities=None, joint_unimodalities=ju,
                output_min=None if len(sizes) == 1 else 0.0, output_max=None if len(sizes) == 3 else 1.0,
                interpolation="hypercube", kernel_initializer=init, units=1 if len(sizes) != 3 else 2,
                num_projection_iterations=10, edgeworth_trusts=None, trapezoid_trusts=None, monotonic_dominances=None,
                range_dominances=None, joint_monotonicities=None)
  def lay_call(c):
    kw = dict(c)
    kw["joint_unimodalities"] = ju_py(c["joint_unimodalities"])
    kw["kernel_initializer"] = KINIT.get(c["kernel_initializer"], c["kernel_initializer"])
    return ll.Lattice(**kw)
  S.append(Spec("Lattice", "latticeLayerFull",
                [("lattice_sizes", "v"), ("monotonicities", "v"), ("unimodalities", "v"), ("joint_unimodalities", "ju"),
                 ("output_min", "v"), ("output_max", "v"), ("interpolation", "v"), ("kernel_initializer", "v"),
                 ("units", "v"), ("num_projection_iterations", "v"), ("edgeworth_trusts", "v"), ("trapezoid_trusts", "v"),
                 ("monotonic_dominances", "v"), ("range_dominances", "v"), ("joint_monotonicities", "v")],
                [lay_base([2, 2], [1, 1]), lay_base([3, 3], [1, 0]), lay_base([3, 3, 3], None, ("list", [([0, 1], "valley")])),
                 lay_base([3, 3], [0, 0], ("list", [([0, 1], "peak")]), "uniform"),
                 lay_base([3, 3, 3], [0, 0, 1], ("single", [0, 1], "valley"), "linear_initializer"),
                 lay_base([3, 3], None, ("list", [([1], "peak")]), "random_monotonic_initializer")],
                lay_factors, lay_call))
  # ---- Categorical
  PAIRS = [None, [], [(0, 1)], [[0, 1]], (0, 1), ((0, 1),), [(0, 1), (1, 2)], [(0, 1), (1, 0)], [(0, 1), (1, 2), (2, 1)],
           [(0, 0)], [(0, 7)], [(-1, 0)], [(0, 1, 2)], [(0,)], [0, 1], [(2, 3)], [(0, 1), (2, 3), (3, 2)],
           # the cycle check of fix 66006cc: repeated pairs, diamonds and long chains (accepted, several rounds);
           # self pair behind / before valid pairs, 3-cycles, a cycle behind a root, a cycle followed by a tail,
           # list-valued cyclic pairs, a cycle through a float-spelled index (1.0 == 1), cycle + out-of-range pair
           [(0, 1), (0, 1)], [(0, 1), (0, 2), (1, 3), (2, 3)], [(2, 3), (1, 2), (0, 1)], [(0, 1), (1, 2), (0, 2)],
           [(0, 1), (1, 1)], [(1, 1), (0, 2)], [(0, 1), (1, 2), (2, 0)], [(0, 1), (1, 2), (2, 3), (3, 1)],
           [(1, 2), (2, 1), (2, 3)], [[0, 1], [1, 0]], [(0, 1), (1.0, 0)], [(0, 1.0)], [(0, 1), (1, 0), (0, 7)],
           [(0, 1), (1, 0), (0, 1)], [(3, 2), (2, 1), (1, 0), (0, 3)],
           # fix ab2e39a: indices must be numbers.Integral — bools pass (True is the int 1), floats (integral or
           # not, in either position, after a valid pair), None and strings are ValueError
           [(False, True)], [(0, True)], [(True, True)], [(0, 1.5)], [(0.0, 1.0)], [(0.5, 1)], [(0, 1), (1, 2.0)],
           [(None, 1)], [(0, "none")], [(0, 1), (-1.0, 0)], [(0, 7.0)]]
  def cc_factors(b):
    return dict(num_buckets=[1, 2, 3, 4, None], output_min=OUTB, output_max=OUTB, monotonicities=PAIRS)
  # fix 76984f9: num_buckets < 1 is a ValueError (0, -1; a float 0.5; None is "unknown")
  NB = [0, -1, 1, 3, 4, 0.5, 2.5, 3.0]
  S.append(Spec("CategoricalCalibrationConstraints", "categoricalConstraints",
                [("output_min", "v"), ("output_max", "v"), ("monotonicities", "v")],
                [dict(output_min=0.0, output_max=1.0, monotonicities=[(0, 1)])],
                cc_factors, lambda c: cl.CategoricalCalibrationConstraints(**c)))
  S.append(Spec("CategoricalCalibration", "categoricalLayer",
                [("num_buckets", "v"), ("output_min", "v"), ("output_max", "v"), ("monotonicities", "v")],
                [dict(num_buckets=3, output_min=0.0, output_max=1.0, monotonicities=[(0, 1)])],
                lambda b: dict(cc_factors(b), num_buckets=NB), lambda c: cl.CategoricalCalibration(**c)))
  # the same constructor with the arguments it only stores (`units`, `split_outputs`): sampled product
  S.append(Spec("CategoricalCalibrationFull", "categoricalLayerFull",
                [("num_buckets", "v"), ("output_min", "v"), ("output_max", "v"), ("monotonicities", "v"), ("units", "v"),
                 ("split_outputs", "v")],
                [dict(num_buckets=3, output_min=0.0, output_max=1.0, monotonicities=[(0, 1)], units=2, split_outputs=True)],
                lambda b: dict(cc_factors(b), num_buckets=NB, units=UNITS, split_outputs=SPLIT),
                lambda c: cl.CategoricalCalibration(**c)))
  # ---- KFL
  def kfl_factors(b):
    # floats (2.0 passes `2.0 < 2`), None (skips the check): accepted by the constructor (F-C16-ai)
    # (domains sized to keep the table exhaustive: 7 * 6 * 6 * 36 rows)
    return dict(lattice_sizes=[0, 1, 2, 3, 2.0, 1.5, None], units=[0, 1, 2, -1, 2.0, None],
                num_terms=[0, 1, 2, 2.0, 0.5, None], output_min=OUTB, output_max=OUTB)
  S.append(Spec("KroneckerFactoredLattice", "kflLayerInt",
                [("lattice_sizes", "v"), ("units", "v"), ("num_terms", "v"), ("output_min", "v"), ("output_max", "v")],
                [dict(lattice_sizes=2, units=1, num_terms=2, output_min=None, output_max=None),
                 dict(lattice_sizes=3, units=2, num_terms=1, output_min=0.0, output_max=1.0)],
                kfl_factors, lambda c: kl.KroneckerFactoredLattice(**c)))
  # ---- KFL constructor + build on an input of the layer's own shape (the monotonicities are verified at build):
  # integer sizes / units / terms only (what `add_weight` does with a float is not modelled: F-C16-ai)
  KMONO = [None, [], [0, 0], [1, 0], ["increasing", 1], [1], [-1, 0], (1, 1), [1, 1, 0], ["Increasing", "none"], [2, 0],
           ["peak", 0], [None, 1], ["decreasing", 1], ("none", "increasing", 0)]
  def kflb_factors(b):
    return dict(lattice_sizes=[0, 1, 2, 3, -1], units=[0, 1, 2, -1], num_terms=[0, 1, 2, -1], output_min=OUTB,
                output_max=OUTB, monotonicities=KMONO, dims=[1, 2, 3])
  def kflb_call(c):
    import tensorflow as tf
    kw = dict(c)
    dims = kw.pop("dims")
    layer = kl.KroneckerFactoredLattice(**kw)
    layer.build(tf.TensorShape([None, dims] if c["units"] == 1 else [None, c["units"], dims]))
    return layer
  S.append(Spec("KroneckerFactoredLatticeBuild", "kflBuildRow",
                [("lattice_sizes", "v"), ("units", "v"), ("num_terms", "v"), ("output_min", "v"), ("output_max", "v"),
                 ("monotonicities", "v"), ("dims", "v")],
                [dict(lattice_sizes=2, units=1, num_terms=2, output_min=None, output_max=None, monotonicities=[1, 0], dims=2),
                 dict(lattice_sizes=3, units=2, num_terms=1, output_min=0.0, output_max=1.0, monotonicities=None, dims=3)],
                kflb_factors, kflb_call))
  # ---- RTL
  REGS = [None, [], ("torsion", 0.1, 0.2), ["torsion", 0.1, 0.2], [("torsion", 0.1, 0.2)], [["laplacian", 0.1, 0.0]],
          [("torsion", 0.1)], [("torsion", 1, 0.2)], [("torsion", 0.1, 2)], [["torsion", 0.1, 0.2], ("laplacian", 0.0, 0.1)]]
  def rtl_factors(b):
    return dict(lattice_size=[0, 1, 2, 3], output_min=OUTB, output_max=OUTB,
                interpolation=["hypercube", "simplex", "Simplex", "other"],
                parameterization=["all_vertices", "kronecker_factored", "other"],
                kernel_initializer=["random_monotonic_initializer", "linear_initializer", "other"],
                kernel_regularizer=REGS)
  S.append(Spec("RTL", "rtlLayer",
                [("lattice_size", "v"), ("output_min", "v"), ("output_max", "v"), ("interpolation", "v"),
                 ("parameterization", "v"), ("kernel_initializer", "v"), ("kernel_regularizer", "v")],
                [dict(lattice_size=2, output_min=None, output_max=None, interpolation="hypercube",
                      parameterization="all_vertices", kernel_initializer="random_monotonic_initializer",
                      kernel_regularizer=None),
                 dict(lattice_size=3, output_min=0.0, output_max=1.0, interpolation="simplex",
                      parameterization="kronecker_factored", kernel_initializer="random_monotonic_initializer",
                      kernel_regularizer=None)],
                rtl_factors, lambda c: rtl_layer.RTL(num_lattices=2, lattice_rank=2, **c)))
  # ---- premade verify_config on small configs (typed record, see Tfl.Verify.RawPremade)
  # kind: 0 lattice, 1 linear, 2 ensemble, 3 aggregate
  FEATS = {  # name -> kwargs of FeatureConfig
      "num": dict(pwl_calibration_input_keypoints=[0.0, 1.0]),
      "num3": dict(pwl_calibration_input_keypoints=[0.0, 1.0], lattice_size=3),
      "quant": dict(),                                          # keypoints = 'quantiles' (string)
      "badkp": dict(pwl_calibration_input_keypoints=[0.0, "a"]),
      "uni": dict(pwl_calibration_input_keypoints=[0.0, 1.0], unimodality="valley", lattice_size=3),
      "uni0": dict(pwl_calibration_input_keypoints=[0.0, 1.0], unimodality=0),
      "trust": dict(pwl_calibration_input_keypoints=[0.0, 1.0], monotonicity=1,
                    reflects_trust_in=[configs.TrustConfig("b")]),
      "dom": dict(pwl_calibration_input_keypoints=[0.0, 1.0], monotonicity=1, dominates=[configs.DominanceConfig("b")]),
      "calibreg": dict(pwl_calibration_input_keypoints=[0.0, 1.0],
                       regularizer_configs=[configs.RegularizerConfig("calib_hessian", 0.1, 0.0)]),
      "latreg": dict(pwl_calibration_input_keypoints=[0.0, 1.0],
                     regularizer_configs=[configs.RegularizerConfig("torsion", 0.1, 0.0)]),
      "cat": dict(num_buckets=3),
      "catmono": dict(num_buckets=3, monotonicity=[(0, 1)]),
      "catbad": dict(num_buckets=3, monotonicity=[(0, 3)]),
      "catflt": dict(num_buckets=3, monotonicity=[(0, 1.0)]),
      "catflat": dict(num_buckets=3, monotonicity=[0, 1]),
      "catstr": dict(num_buckets=3, monotonicity="increasing"),
      "catnone": dict(num_buckets=3, monotonicity="none"),
      "catint": dict(num_buckets=3, monotonicity=1),
      "catset": dict(num_buckets=3, monotonicity={(0, 1)}),      # fix e8dafc0: must be a list or tuple
      "cattuple": dict(num_buckets=3, monotonicity=((0, 1),)),
  }
  def pm_call(c):
    fcs = None if c["features"] is None else [configs.FeatureConfig("f%d" % i, **FEATS[n])
                                             for i, n in enumerate(c["features"])]
    oi = c["output_initialization"]
    regs = {"none": None, "calib": [configs.RegularizerConfig("calib_hessian", 0.1, 0.0)],
            "lattice": [configs.RegularizerConfig("torsion", 0.1, 0.0)]}[c["regularizers"]]
    k = c["kind"]
    if k == 0:
      mc = configs.CalibratedLatticeConfig(feature_configs=fcs, parameterization=c["parameterization"],
                                           regularizer_configs=regs, output_initialization=oi)
    elif k == 1:
      mc = configs.CalibratedLinearConfig(feature_configs=fcs, regularizer_configs=regs, output_initialization=oi)
    elif k == 2:
      mc = configs.CalibratedLatticeEnsembleConfig(feature_configs=fcs, lattices=c["lattices"], num_lattices=c["num_lattices"],
                                                   parameterization=c["parameterization"], regularizer_configs=regs,
                                                   output_initialization=oi)
    else:
      mc = configs.AggregateFunctionConfig(feature_configs=fcs, regularizer_configs=regs, middle_dimension=c["middle_dimension"],
                                           middle_calibration=c["middle_calibration"], middle_monotonicity=c["middle_monotonicity"],
                                           output_initialization=oi)
    premade_lib.verify_config(mc)
    return mc
  FLISTS = [None, ["num", "num"], ["num", "num3"], ["quant", "num"], ["badkp"], ["uni", "num3"], ["uni0", "num"],
            ["trust", "num"], ["dom", "num"], ["calibreg", "num"], ["latreg", "num"], ["cat", "num"], ["catmono", "num"],
            ["catbad"], ["catflt"], ["catflat"], ["catstr"], ["catnone", "num"], ["catint"], ["catset"], ["cattuple", "num"], []]
  def pm_factors(b):
    return dict(kind=[0, 1, 2, 3], features=FLISTS, parameterization=["all_vertices", "kronecker_factored"],
                regularizers=["none", "calib", "lattice"],
                lattices=["rtl_layer", "random", [["f0", "f1"], ["f1", "f0"]], [["f0", "f1"]], [["f0", 1], ["f1", "f0"]],
                          [], None, [["f0"], "f1"], [["f0", "f1"], []], [[], ["f0", "f1"], ["f1", "f0"]]],
                num_lattices=[None, 1, 2, 3], middle_dimension=[0, 1, 2], middle_calibration=[False, True],
                middle_monotonicity=[None, "increasing"],
                output_initialization=[[0.0, 1.0], "quantiles", "uniform", [0, 1], [0.0, "a"], None, []])
  pm_args = [("kind", "pm"), ("features", "pm"), ("parameterization", "pm"), ("regularizers", "pm"), ("lattices", "pm"),
             ("num_lattices", "pm"), ("middle_dimension", "pm"), ("middle_calibration", "pm"),
             ("middle_monotonicity", "pm"), ("output_initialization", "pm")]
  pm = Spec("PremadeConfig", "premadeConfig", pm_args,
            [dict(kind=k, features=["num", "num"], parameterization="all_vertices", regularizers="none",
                  lattices=[["f0", "f1"], ["f1", "f0"]], num_lattices=2, middle_dimension=1, middle_calibration=False,
                  middle_monotonicity=None, output_initialization=[0.0, 1.0]) for k in (0, 1, 2, 3)] +
            [dict(kind=2, features=["num", "num"], parameterization="kronecker_factored", regularizers="none",
                  lattices="rtl_layer", num_lattices=2, middle_dimension=1, middle_calibration=True,
                  middle_monotonicity="increasing", output_initialization=[0.0, 1.0])],
            pm_factors, pm_call)
  pm.enc = lambda cfg, how, _pm=pm: pm_enc(cfg, how)
  S.append(pm)
  return S


# premade: typed encoding (Tfl.Verify.RawPremade); features are described by the facts verify_config reads
_FEAT_FACTS = {
    # name: (lattice_size, unimodal, trust, dominance, feature regs: 0 none/1 calib/2 lattice,
    #        buckets (0 = numeric), keypoints: 0 numeric list/1 string/2 list with non-number,
    #        categorical monotonicity: 0 falsy-or-'none', 1 valid pairs, 2 pair with index out of range,
    #        3 pair with non-int, 4 flat list of ints, 5 other string, 6 int, 7 a set of pairs)
    "num": (2, 0, 0, 0, 0, 0, 0, 0), "num3": (3, 0, 0, 0, 0, 0, 0, 0), "quant": (2, 0, 0, 0, 0, 0, 1, 0),
    "badkp": (2, 0, 0, 0, 0, 0, 2, 0), "uni": (3, 1, 0, 0, 0, 0, 0, 0), "uni0": (2, 0, 0, 0, 0, 0, 0, 0),
    "trust": (2, 0, 1, 0, 0, 0, 0, 0), "dom": (2, 0, 0, 1, 0, 0, 0, 0), "calibreg": (2, 0, 0, 0, 1, 0, 0, 0),
    "latreg": (2, 0, 0, 0, 2, 0, 0, 0), "cat": (2, 0, 0, 0, 0, 3, 1, 0), "catmono": (2, 0, 0, 0, 0, 3, 1, 1),
    "catbad": (2, 0, 0, 0, 0, 3, 1, 2), "catflt": (2, 0, 0, 0, 0, 3, 1, 3), "catflat": (2, 0, 0, 0, 0, 3, 1, 4),
    "catstr": (2, 0, 0, 0, 0, 3, 1, 5), "catnone": (2, 0, 0, 0, 0, 3, 1, 0), "catint": (2, 0, 0, 0, 0, 3, 1, 6),
    "catset": (2, 0, 0, 0, 0, 3, 1, 7), "cattuple": (2, 0, 0, 0, 0, 3, 1, 1),
}


def pm_codes(c):
  feats = None if c["features"] is None else [list(_FEAT_FACTS[n]) for n in c["features"]]
  lat = c["lattices"]
  # lattices: 0 'rtl_layer', 1 other string, 2 list of k fully specified, 3 list with a bad entry, 4 neither
  if lat == "rtl_layer":
    lc = (0, 0)
  elif isinstance(lat, str):
    lc = (1, 0)
  elif isinstance(lat, list):
    import numpy as np
    bad = any((not np.iterable(l)) or not len(l) or any(not isinstance(x, str) for x in l) for l in lat)
    lc = (3 if bad else 2, len(lat))
    if bad:
      # the real loop raises at the first bad entry only if len >= 2 (length is checked first)
      pass
  else:
    lc = (4, 0)
  oi = c["output_initialization"]
  if isinstance(oi, str) or oi is None:
    oic = 1 if isinstance(oi, str) else 3
  else:
    oic = 4 if not len(oi) else (2 if any(not isinstance(x, (int, float)) for x in oi) else 0)
  return dict(kind=c["kind"], feats=feats, kf=int(c["parameterization"] == "kronecker_factored"),
              regs={"none": 0, "calib": 1, "lattice": 2}[c["regularizers"]], lat=lc[0], nlat=lc[1],
              num_lattices=c["num_lattices"], mid_dim=c["middle_dimension"], mid_cal=int(c["middle_calibration"]),
              mid_mono=int(c["middle_monotonicity"] is not None), oi=oic)


def pm_enc(cfg, how):
  p = pm_codes(cfg)
  if how == "lean":
    feats = ".none" if p["feats"] is None else "some [%s]" % ", ".join(
        "⟨%s⟩" % ", ".join(str(x) for x in f) for f in p["feats"])
    nl = "none" if p["num_lattices"] is None else "some %d" % p["num_lattices"]
    return ["%d" % p["kind"], "(%s)" % feats if p["feats"] is not None else "none", "%d" % p["kf"], "%d" % p["regs"],
            "%d" % p["lat"], "%d" % p["nlat"], "(%s)" % nl if p["num_lattices"] is not None else "none",
            "%d" % p["mid_dim"], "%d" % p["mid_cal"], "%d" % p["mid_mono"], "%d" % p["oi"]]
  feats = "N" if p["feats"] is None else (";".join(",".join(str(x) for x in f) for f in p["feats"]) or "_")
  nl = "N" if p["num_lattices"] is None else str(p["num_lattices"])
  return [str(p["kind"]), feats, str(p["kf"]), str(p["regs"]), str(p["lat"]), str(p["nlat"]), nl, str(p["mid_dim"]),
          str(p["mid_cal"]), str(p["mid_mono"]), str(p["oi"])]


SPECS = None


def specs():
  global SPECS
  if SPECS is None:
    SPECS = _specs()
  return SPECS


# ------------------------------------------------------------------ evaluation of the real code
OUTCOMES = ["accept", "ValueError", "TypeError", "other"]


def classify(e):
  import tensorflow as tf
  if isinstance(e, tf.errors.OpError):
    return "other"
  if isinstance(e, ValueError):
    return "ValueError"
  if isinstance(e, TypeError):
    return "TypeError"
  return "other"


def evaluate(spec, cfg):
  """(outcome, exception class name, first line of the message)."""
  try:
    spec.call(copy.deepcopy(cfg))
    return "accept", "", ""
  except Exception as e:  # pylint: disable=broad-except
    return classify(e), type(e).__name__, (str(e).splitlines() or [""])[0][:160]


def source_digest():
  from common import REPO
  h = hashlib.sha256()
  d = os.path.join(REPO, "tensorflow_lattice", "python")
  for f in sorted(os.listdir(d)):
    if f.endswith(".py") and not f.endswith("_test.py"):
      h.update(f.encode())
      h.update(open(os.path.join(d, f), "rb").read())
  h.update(open(os.path.abspath(__file__), "rb").read())
  return h.hexdigest()


def build_table():
  """[(spec, [(cfg, outcome, exc, msg)])] for the deterministic table sample."""
  out = []
  for spec in specs():
    rng = random.Random("accept/" + spec.name)
    rows = spec.rows(rng, TABLE_ROWS)
    out.append((spec, [(c,) + evaluate(spec, c) for c in rows]))
  return out


REC = {"latticeConstraintsFull": "RawLatticeFull", "pwlCalibrationFull": "RawPwlFull", "pwlConstraintsFull": "RawPwlCFull",
       "linearConstraintsFull": "RawLinCFull", "linearLayerFull": "RawLinFull", "latticeLayerFull": "RawLatLayerFull",
       "categoricalLayerFull": "RawCatFull", "kflBuildRow": "RawKflBuild", "kflLayerInt": "RawKfl",
       "latticeConstraints": "RawLattice", "linearInitializer": "RawLatInit", "randomMonotonicInitializer": "RawLatInit2",
       "laplacianRegularizer": "RawLatReg", "torsionRegularizer": "RawLatReg", "pwlCalibration": "RawPwl",
       "pwlConstraints": "RawPwlC", "uniformOutputInitializer": "RawPwlInit", "linearConstraints": "RawLinC",
       "linearLayer": "RawLin", "latticeLayer": "RawLatLayer", "categoricalConstraints": "RawCatC", "categoricalLayer": "RawCat",
       "kflLayer": "RawKfl", "rtlLayer": "RawRtl", "premadeConfig": "RawPremade"}
PM_TYPES = ["Nat", "Option (List Feat)", "Nat", "Nat", "Nat", "Nat", "Option Int", "Int", "Nat", "Nat", "Nat"]
DEFAULTS = {"Val": ".a .none", "JU": ".none", "NormOrd": ".val (.a .none)", "Nat": "0", "Int": "0", "Option (List Feat)": "none", "Option Int": "none"}
BASE = 64


def pos_types(spec):
  if spec.lean_fn == "premadeConfig":
    return PM_TYPES
  return [{"ju": "JU", "no": "NormOrd"}.get(k, "Val") for _, k in spec.args]


def emit(table):
  """Per class: one pool of distinct Lean terms per argument position, and every row as ONE
  natural number (mixed radix, base 64: the pool indices, then the outcome code)."""
  L = ["import TflModel.Model.Verify",
       "/-! GENERATED by harness/translate_accept.py from the real constructors of the current source tree — do not edit.",
       "`<cls>_dom<k>`: the distinct values of argument k (as `Tfl.Verify.Val` terms); a row is the number",
       "`Σ index_k * 64^k + outcome * 64^nargs`, outcome 0 accept, 1 ValueError, 2 TypeError, 3 any other exception. -/",
       "namespace Tfl.Generated.Accept", "open Tfl.Verify", ""]
  names = []
  for spec, rows in table:
    fn, rec, types = spec.lean_fn, REC[spec.lean_fn], pos_types(spec)
    encs = [spec.enc(c, "lean") for c, _, _, _ in rows]
    pools = [[] for _ in types]
    codes = []
    for e, (_, outc, _, _) in zip(encs, rows):
      code = 0
      for k, term in enumerate(e):
        if term not in pools[k]:
          pools[k].append(term)
        code += pools[k].index(term) * BASE ** k
      code += OUTCOMES.index(outc) * BASE ** len(types)
      codes.append(code)
    assert all(len(p) < BASE for p in pools)
    for k, (t, pool) in enumerate(zip(types, pools)):
      L.append("def %s_dom%d : List (%s) := [\n  %s]" % (fn, k, t, ",\n  ".join(pool)))
    fields = ", ".join("(%s_dom%d).getD (c / %d %% %d) (%s)" % (fn, k, BASE ** k, BASE, DEFAULTS[t])
                       for k, t in enumerate(types))
    L.append("def %s_row (c : Nat) : %s × Nat := (⟨%s⟩, c / %d)" % (fn, rec, fields, BASE ** len(types)))
    chunks = [codes[i:i + CHUNK] for i in range(0, len(codes), CHUNK)]
    for ci, ch in enumerate(chunks):
      L.append("def %s_%d : List Nat := [%s]" % (fn, ci, ", ".join(str(x) for x in ch)))
    L.append("def %s_chunks : List (List Nat) := [%s]" % (fn, ", ".join("%s_%d" % (fn, ci) for ci in range(len(chunks)))))
    L.append("")
    names.append((fn, len(rows), len(chunks)))
  L.append("end Tfl.Generated.Accept")
  return "\n".join(L) + "\n", names


def regenerate(force=False):
  """Re-evaluates the real constructors (cached on the digest of the source tree + this file) and
  rewrites Generated/Accept.lean only when its content changes. Returns the summary dict."""
  sys.path.insert(0, HERE)
  dig = source_digest()
  summary = None
  if not force and os.path.exists(CACHE) and os.path.exists(OUT):
    try:
      c = json.load(open(CACHE))
      if c.get("digest") == dig:
        return c["summary"]
    except Exception:  # pylint: disable=broad-except
      pass
  table = build_table()
  text, names = emit(table)
  summary = {"classes": {}, "digest": dig}
  for (spec, rows), (fn, n, nch) in zip(table, names):
    cnt = {}
    buckets = {}
    for c, outc, exc, msg in rows:
      cnt[outc] = cnt.get(outc, 0) + 1
      if outc not in ("accept", "ValueError"):
        buckets.setdefault(exc + ": " + msg[:80], []).append(repr(c)[:300])
    summary["classes"][spec.name] = {"rows": n, "chunks": nch, "product": spec.product_size(), "outcomes": cnt,
                                     "non_valueerror": {k: [len(v), v[0]] for k, v in sorted(buckets.items())}}
  os.makedirs(os.path.dirname(OUT), exist_ok=True)
  if not os.path.exists(OUT) or open(OUT).read() != text:
    with open(OUT, "w") as f:
      f.write(text)
  os.makedirs(os.path.dirname(CACHE), exist_ok=True)
  json.dump({"digest": dig, "summary": summary}, open(CACHE, "w"), indent=1)
  return summary


if __name__ == "__main__":
  os.environ.setdefault("TF_CPP_MIN_LOG_LEVEL", "3")
  s = regenerate(force="--force" in sys.argv)
  print(json.dumps(s["classes"], indent=1))
