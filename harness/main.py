"""./check Cxx --tier quick|thorough [--replay file]

Verdict logic (DESIGN.md 2.3):
  build  : lake build + static scan + axiom audit of the property's theorems
  corr   : correspondence (real code vs Lean model driver) + oracle on the real results
  clean                                   -> exit 0
  oracle failure not in known_findings    -> VIOLATION ... replay=<file>            exit 1
  build/audit/corr broke                  -> failing-input search, then VIOLATION
                                             (ending `no-failing-input-found` if none) exit 1
  infrastructure problems / timeouts      -> exit 2
"""
import argparse, hashlib, importlib, json, os, re, subprocess, sys, time, traceback

os.environ.setdefault("TF_CPP_MIN_LOG_LEVEL", "3")
os.environ.setdefault("CUDA_VISIBLE_DEVICES", "")
HERE = os.path.dirname(os.path.abspath(__file__))
ROOT = os.path.dirname(HERE)
sys.path.insert(0, HERE)
import common  # noqa: E402
from common import Ctx, InfraError, jsonable  # noqa: E402

LEAN = os.path.join(ROOT, "lean")
ALLOWED_AXIOMS = {"propext", "Classical.choice", "Quot.sound"}
FORBIDDEN = re.compile(r"\b(sorry|admit|native_decide|bv_decide|implemented_by|unsafe)\b|^axiom\s|maxHeartbeats\s+0")
TRUSTED_BASE = [
    "Lean 4.33.0 kernel (thorough tier re-checks the property's modules with leanchecker)",
    "axioms: subset of {propext, Classical.choice, Quot.sound} per theorem, as printed by #print axioms (listed under coverage.theorems); no native_decide, no added axioms, no sorry",
    "hand-written Lean model of the anchored code; its faithfulness rests on the correspondence harness of this run (generators, tolerances, line-protocol parser)",
    "Python / NumPy / TensorFlow as the substrate of the real code; float rounding, TF kernels, Keras scheduling are modelled or exercised, not verified",
    "the reading of properties.jsonl into the statements in lean/TflModel/Props/<id>.lean",
]


def sh(cmd, cwd=None, timeout=3600):
  try:
    p = subprocess.run(cmd, cwd=cwd, capture_output=True, text=True, timeout=timeout)
  except subprocess.TimeoutExpired:
    raise InfraError("timeout: " + " ".join(cmd))
  return p.returncode, p.stdout + p.stderr


def strip_comments(src):
  src = re.sub(r"/-.*?-/", "", src, flags=re.S)
  return re.sub(r"--.*", "", src)


def lean_sources():
  out = []
  for d, _, fs in os.walk(os.path.join(LEAN, "TflModel")):
    for f in fs:
      if f.endswith(".lean"):
        out.append(os.path.join(d, f))
  out += [os.path.join(LEAN, f) for f in ("Driver.lean", "TflModel.lean", "lakefile.toml")]
  return sorted(out)


def source_hash():
  h = hashlib.sha256()
  for f in lean_sources():
    h.update(f.encode())
    h.update(open(f, "rb").read())
  return h.hexdigest()


def modules_of(prop):
  """A property's theorem modules: Props/<prop>.lean plus any Props/<prop><Suffix>.lean (e.g. C02Lip, C19Deriv)."""
  import glob
  files = sorted(glob.glob(os.path.join(LEAN, "TflModel", "Props", prop + "*.lean")))
  return [(f, "TflModel.Props." + os.path.basename(f)[:-5]) for f in files]


def theorems_of(prop):
  """Property theorems = every `theorem` in the property's Props modules (namespace-qualified)."""
  path = os.path.join(LEAN, "TflModel", "Props", prop + ".lean")
  names = []
  for f, _ in modules_of(prop):
    src = strip_comments(open(f).read())
    ns = re.search(r"^namespace\s+(\S+)", src, flags=re.M)
    prefix = ns.group(1) + "." if ns else ""
    names += [prefix + m for m in re.findall(r"^theorem\s+(\S+)", src, flags=re.M)]
  return path, names


def build_and_audit(prop, tier, regen=None):
  """Returns dict(ok, problems, theorems=[{name, axioms}], checker_cmd)."""
  problems = []
  if regen:
    regen()
  # build only this property's theorems and the driver: a stale or broken generated table of another
  # property (C11/C16 regenerate theirs from /repo) must not break this one
  mods = [m for _, m in modules_of(prop)] or ["TflModel.Props." + prop]
  rc, out = sh(["lake", "build"] + mods + ["tfldriver"], cwd=LEAN, timeout=3000)
  if rc != 0:
    problems.append({"kind": "lake-build", "detail": out[-3000:]})
    return {"ok": False, "problems": problems, "theorems": []}
  for f in lean_sources():
    if f.endswith(".lean"):
      for i, line in enumerate(strip_comments(open(f).read()).split("\n")):
        if FORBIDDEN.search(line):
          problems.append({"kind": "forbidden-token", "detail": "%s:%d %s" % (f, i + 1, line.strip())})
  path, names = theorems_of(prop)
  cache_file = os.path.join(LEAN, ".lake", "audit_%s.json" % prop)
  key = source_hash()
  thms = None
  if os.path.exists(cache_file):
    try:
      c = json.load(open(cache_file))
      if c.get("key") == key:
        thms = c["theorems"]
    except Exception:
      thms = None
  if thms is None:
    audit = os.path.join(LEAN, ".lake", "Audit_%s.lean" % prop)
    with open(audit, "w") as f:
      for m in mods:
        f.write("import %s\n" % m)
      for n in names:
        f.write("#print axioms %s\n" % n)
    rc, out = sh(["lake", "env", "lean", audit], cwd=LEAN, timeout=1800)
    if rc != 0:
      problems.append({"kind": "audit", "detail": out[-3000:]})
      return {"ok": False, "problems": problems, "theorems": []}
    thms = []
    flat = out.replace("\n", " ")
    for n in names:
      m = re.search(r"'%s' depends on axioms: \[([^\]]*)\]" % re.escape(n), flat)
      if m:
        axs = [a.strip() for a in m.group(1).split(",") if a.strip()]
      elif re.search(r"'%s' does not depend on any axioms" % re.escape(n), flat):
        axs = []
      else:
        axs = ["<unparsed>"]
      thms.append({"name": n, "axioms": axs})
    json.dump({"key": key, "theorems": thms}, open(cache_file, "w"))
  for t in thms:
    bad = [a for a in t["axioms"] if a not in ALLOWED_AXIOMS]
    if bad:
      problems.append({"kind": "axioms", "detail": "%s depends on %s" % (t["name"], bad)})
  if not names:
    problems.append({"kind": "no-theorems", "detail": path})
  checker = "cd lean && lake build && lake env lean .lake/Audit_%s.lean" % prop
  if tier == "thorough":
    rc, out = sh(["lake", "env", "leanchecker"] + mods, cwd=LEAN, timeout=3000)
    checker += " && lake env leanchecker " + " ".join(mods)
    if rc != 0:
      problems.append({"kind": "leanchecker", "detail": out[-2000:]})
  return {"ok": not problems, "problems": problems, "theorems": thms, "checker_cmd": checker}


def load_findings(prop):
  path = os.path.join(ROOT, "known_findings.json")
  if not os.path.exists(path):
    return []
  return [f for f in json.load(open(path))["findings"] if f["property"] == prop]


def match_finding(failure, findings):
  """A failure matches a recorded finding iff every (k, v) of the finding's `match` dict equals
  the failure's key dict entry (lists = any-of). `fixed` entries never suppress anything."""
  for f in findings:
    if f.get("kind") != "finding":
      continue
    ok = True
    for k, v in f["match"].items():
      got = failure["key"].get(k)
      if isinstance(v, list):
        ok = ok and got in v
      else:
        ok = ok and got == v
    if ok:
      return f
  return None


def main():
  ap = argparse.ArgumentParser()
  ap.add_argument("prop")
  ap.add_argument("--tier", default=os.environ.get("VERIF_TIER", "quick"))
  ap.add_argument("--replay")
  a = ap.parse_args()
  prop, tier = a.prop, a.tier
  seed = int(os.environ.get("VERIF_SEED", "0"))
  t0 = time.time()
  mod = importlib.import_module("props." + prop.lower())
  out_dir = os.path.join(ROOT, "replays")
  os.makedirs(out_dir, exist_ok=True)
  os.makedirs(os.path.join(ROOT, "evidence"), exist_ok=True)

  if a.replay:
    rep = json.load(open(a.replay))
    ctx = Ctx(prop, tier, seed)
    fails = 0
    for f in rep.get("failures", []):
      mod.replay(ctx, f)
    for f in ctx.failures:
      print("REPLAY-FAILS clause=%s observed=%s" % (f["clause"], json.dumps(f["observed"])[:300]))
      fails += 1
    print("replayed %d recorded failure(s); %d still fail" % (len(rep.get("failures", [])), fails))
    sys.exit(1 if fails else 0)

  try:
    ba = build_and_audit(prop, tier, getattr(mod, "regenerate", None))
    import tensorflow_lattice as tfl
    tfl_path = os.path.realpath(os.path.dirname(tfl.__file__))
    if not tfl_path.startswith(os.path.realpath(common.REPO)):
      raise InfraError("tensorflow_lattice imported from %s, not %s" % (tfl_path, common.REPO))
    ctx = Ctx(prop, tier, seed)
    if ba["ok"]:
      # corpus first: minimised past disagreements and witnesses of findings / fixed defects
      cdir = os.path.join(ROOT, "corpus", prop)
      if os.path.isdir(cdir) and hasattr(mod, "replay"):
        for fn in sorted(os.listdir(cdir)):
          if fn.endswith(".json"):
            for f in json.load(open(os.path.join(cdir, fn))).get("failures", []):
              ctx.count("corpus")
              mod.replay(ctx, f)
      mod.run(ctx)
    findings = load_findings(prop)
    known, unknown = [], []
    for f in ctx.failures:
      m = match_finding(f, findings)
      (known if m else unknown).append((f, m))
    broke = (not ba["ok"]) or bool(ctx.disagreements)
    search_ctx = None
    if broke and not unknown:
      # failing-input search: oracle on a large budget on the real code
      search_ctx = Ctx(prop, tier, seed + 7919, scale=8.0 if tier == "quick" else 20.0, search=True)
      try:
        (getattr(mod, "search", None) or mod.run)(search_ctx)
      except InfraError:
        raise
      except Exception:
        search_ctx.notes.append("search crashed: " + traceback.format_exc()[-1500:])
      for f in search_ctx.failures:
        m = match_finding(f, findings)
        if not m:
          unknown.append((f, m))
  except InfraError as e:
    print("INFRA-ERROR %s" % e)
    sys.exit(2)

  seen = set()
  for f, m in known:
    if m["id"] not in seen:
      seen.add(m["id"])
      print("KNOWN-FINDING: property=%s %s: %s" % (prop, m["id"], m["what"]))
  violations = 0
  replay_path = os.path.join(out_dir, "%s_%s_%d.json" % (prop, tier, seed))
  rel_replay = os.path.relpath(replay_path, ROOT)
  if unknown or broke:
    violations = 1
    rep = {"property": prop, "tier": tier, "seed": seed,
           "failures": [f for f, _ in unknown][:20],
           "broken_obligations": ba["problems"],
           "broken_correspondence": ctx.disagreements[:20],
           "note": ""}
    if unknown:
      rep["note"] = "real code breaks the stated property on the recorded case(s)"
    else:
      names = [p["kind"] + ": " + p["detail"][:200] for p in ba["problems"]] + \
              sorted({d["suite"] for d in ctx.disagreements})
      rep["note"] = ("no failing input found; what no longer checks: " + "; ".join(names))
    json.dump(jsonable(rep), open(replay_path, "w"), indent=1)

  thms = ba.get("theorems", [])
  suites = {k: {"cases": v[0], "disagreements": v[1]} for k, v in ctx.suites.items()}
  obligations = len(thms) + len(suites) + len(ba["problems"])
  discharged = len(thms) - sum(1 for p in ba["problems"] if p["kind"] == "axioms") + \
      sum(1 for v in suites.values() if v["disagreements"] == 0)
  if not ba["ok"] and not thms:
    discharged = 0
  ev = {
      "property_id": prop, "tier": tier, "seed": seed, "level": "proof",
      "coverage": {
          "obligations": max(1, obligations), "discharged": max(0, discharged),
          "checker_cmd": ba.get("checker_cmd", "cd lean && lake build"),
          "trusted_base": TRUSTED_BASE + list(getattr(mod, "TRUSTED_EXTRA", [])),
          "theorems": thms,
          "correspondence_suites": suites,
          "evaluations": ctx.evaluations,
          "distinct_nontrivial": len(ctx.sigs),
          "rule": getattr(mod, "RULE", ""),
          "samples": ctx.samples or [{"note": "no case generated (build broke before the correspondence ran)"}],
          "traces_validated_against_impl": ctx.traces,
          "distribution": ctx.dist,
          "known_findings_seen": sorted(seen),
          "oracle_failures_total": len(ctx.failures),
          "disagreements": len(ctx.disagreements),
          "search": None if search_ctx is None else {
              "evaluations": search_ctx.evaluations, "failures": len(search_ctx.failures),
              "notes": search_ctx.notes},
          "notes": ctx.notes,
      },
      "assumptions": list(getattr(mod, "ASSUMPTIONS", [])),
      "wall_s": round(time.time() - t0, 2),
      "violations": violations,
  }
  json.dump(jsonable(ev), open(os.path.join(ROOT, "evidence", prop + ".json"), "w"), indent=1)
  print("%s tier=%s seed=%d evaluations=%d nontrivial=%d traces=%d disagreements=%d oracle_failures=%d known=%d theorems=%d wall=%.1fs" % (
      prop, tier, seed, ctx.evaluations, len(ctx.sigs), ctx.traces, len(ctx.disagreements),
      len(ctx.failures), len(known), len(thms), time.time() - t0))
  if violations:
    tail = "" if unknown else " no-failing-input-found"
    print("VIOLATION property=%s replay=%s%s" % (prop, rel_replay, tail))
    sys.exit(1)
  sys.exit(0)


if __name__ == "__main__":
  try:
    main()
  except InfraError as e:
    print("INFRA-ERROR %s" % e)
    sys.exit(2)
