"""C12: assert_constraints accepts exactly the weights that meet the covered constraints.
Tie: layer.assert_constraints(eps) in eager mode on REAL layers with assigned weights (accept = returns,
reject = tf.errors.InvalidArgumentError) vs the LAYER-LEVEL model Tfl.Asserts.accepts*Layer / acceptsLattice
(driver ops `as.*L`, `as.lat`: the whole units-column kernel, the real reductions over the unit axis) on the
same weights and eps; the per-unit-column models (`as.lin`, `as.cat`, `as.pwl`, `as.kfl`) are evaluated too and
must agree with the layer-level verdict (the lifts of Props/C12Units.lean, checked at run time).  Oracle: an independent numpy list of every covered constraint's slack; min slack > -eps/2 => the real
call must succeed, min slack < -2*eps => it must fail, whichever unit / pair / square / vertex offends."""
import itertools
import numpy as np
from fractions import Fraction
from common import *
from props.c06 import rand_dag_pairs

RULE = ("per layer kind (Lattice with monotonicity / Edgeworth / trapezoid / monotonic + range dominance / joint "
        "monotonicity / bounds, rank 1-3, units 1-3; PWLCalibration with fixed AND learned_interior keypoints "
        "(the learned keypoints moved per unit by assigning interpolation_logits, so the nodes lie between the "
        "initial input_keypoints), cyclic, missing_input_value on a keypoint; Linear; CategoricalCalibration; "
        "KroneckerFactoredLattice) random valid configurations; eps in {1e-6, 1e-4, 2^-10, 2^-3}; kernels: "
        "(i) feasible with margin (LP interior point of the covered constraint system, the real constraint "
        "applied to a random kernel and mixed towards the interior), (ii) ONE injected violation of 10*eps at "
        "every assert location x every unit (LP: target slack = -10 eps, every other covered slack >= margin), "
        "also exactly-on-threshold violations (slack = -eps, dyadic eps) for the comparison operators, "
        "(iii) random infeasible kernels. Non-trivial = the oracle demands a verdict (clearly feasible or clearly "
        "violated); distinct = (layer, config class, kernel label, violated constraint kind, verdict).")
ASSUMPTIONS = ["float64 layers; weights mostly dyadic so sums are exact",
               "the tie is with the layer-level model (all unit columns at once); literal trailing unit axis for Lattice",
               "PWL: the oracle judges the cumulative sums of the kernel columns (closed by the first one when "
               "cyclic) = the function's values at its CURRENT keypoints; that the real function passes through "
               "these nodes is checked on the real layer for every case (clause function_through_nodes)",
               "graph-mode assertion ops are not exercised"]

EPS = [1e-6, 1e-4, 2.0 ** -10, 2.0 ** -3]
NOTES = [
    "coverage gap (not a violation): Lattice.assert_constraints checks neither unimodalities nor joint_unimodalities "
    "(TODO in the source: 'actually assert them'); demonstrated: see distribution gap:lattice-unimodality",
    "coverage gap: KroneckerFactoredLattice.assert_constraints does not check kernel non-negativity when both "
    "bounds are given or none is (needed by C07 T1); demonstrated: see distribution gap:kfl-negative-kernel",
    "coverage gap: PWLCalibration.assert_constraints does not check convexity / concavity",
    "RTL.assert_constraints only concatenates the asserts of its Lattice layers; exercised through Lattice",
]


# ------------------------------------------------------------------ affine slack systems + LP
class LinSys:
  """covered constraints as slack(w) = A w + b >= -eps, obtained numerically from an affine slack function."""

  def __init__(self, fn, n):
    z = np.asarray(fn(np.zeros(n)), dtype=float)
    self.n, self.b = n, z
    self.A = np.stack([np.asarray(fn(np.eye(n)[k]), dtype=float) - z for k in range(n)], axis=1) \
        if len(z) else np.zeros((0, n))
    self.live = [r for r in range(len(z)) if np.any(self.A[r] != 0)]

  def interior(self, B=4.0):
    """max t  s.t.  A w + b >= t, |w| <= B, t <= 1;  returns (w, t)"""
    from scipy.optimize import linprog
    if not self.live:
      return np.zeros(self.n), 1.0
    A = self.A[self.live]
    c = np.zeros(self.n + 1); c[-1] = -1.0
    r = linprog(c, A_ub=np.hstack([-A, np.ones((len(A), 1))]), b_ub=self.b[self.live],
                bounds=[(-B, B)] * self.n + [(0, 1)], method="highs")
    if r.status != 0:
      return None, 0.0
    return r.x[:-1], r.x[-1]

  def single(self, c, v, mu, w0):
    """a point with slack_c = -v and every other live slack >= mu, L1-closest to w0 (None if impossible)"""
    from scipy.optimize import linprog
    n = self.n
    others = [r for r in self.live if r != c]
    cost = np.concatenate([np.zeros(n), np.ones(n)])
    A_ub = [np.hstack([np.eye(n), -np.eye(n)]), np.hstack([-np.eye(n), -np.eye(n)])]
    b_ub = [w0, -w0]
    if others:
      A_ub.append(np.hstack([-self.A[others], np.zeros((len(others), n))]))
      b_ub.append(self.b[others] - mu)
    r = linprog(cost, A_ub=np.vstack(A_ub), b_ub=np.concatenate(b_ub),
                A_eq=np.hstack([self.A[c:c + 1], np.zeros((1, n))]), b_eq=[-v - self.b[c]],
                bounds=[(None, None)] * n + [(0, None)] * n, method="highs")
    return r.x[:n] if r.status == 0 else None


def dy(rng, lo=-16, hi=16, den=8):
  return rng.randint(lo, hi) / den


# ------------------------------------------------------------------ layer kinds
# every kind: gen(rng) -> cfg ; build(cfg) -> layer ; assign(layer, cfg, w) ; shape(cfg) ;
#             rows(cfg, w) -> [(kind, loc, slack, affine?)] ; lines(cfg, w, eps) -> driver lines
def fopt(v):
  return None if v is None else float(v)


def gen_bounds(rng):
  mode = rng.choice(["none", "lo", "hi", "both", "both"])
  a = Fraction(rng.randint(-8, 8), 4)
  lo = a if mode in ("lo", "both") else None
  hi = (a + Fraction(rng.randint(2, 16), 4)) if mode in ("hi", "both") else None
  return lo, hi


# ---- Linear
def lin_gen(rng):
  n, units = rng.randint(1, 5), rng.randint(1, 3)
  monos = [rng.choice([-1, 0, 1, 1]) for _ in range(n)]
  inc = [i for i in range(n) if monos[i] == 1]
  md = rand_dag_pairs(rng, inc, 3) if len(inc) >= 2 and rng.random() < 0.6 else []
  used = {i for p in md for i in p}
  lo, hi, rd = [None] * n, [None] * n, []
  for i in range(n):
    if rng.random() < 0.3:
      lo[i] = Fraction(rng.randint(-8, 8), 2)
    if rng.random() < 0.3:
      hi[i] = (lo[i] if lo[i] is not None else Fraction(0)) + Fraction(rng.randint(1, 12), 4)
  for sign in (1, -1):
    cand = [i for i in range(n) if monos[i] == sign and i not in used]
    if len(cand) >= 2 and rng.random() < 0.6:
      ps = rand_dag_pairs(rng, cand, 3)
      for p in ps:
        for i in p:
          if lo[i] is None or hi[i] is None:
            a = Fraction(rng.randint(-8, 8), 2)
            lo[i], hi[i] = a, a + Fraction(rng.randint(1, 12), 4)
      rd += ps
  order = rng.choice([None, None, 1, 2, "inf"])
  if order and units > 1 and rng.random() < 0.75:
    units = 1          # norm + units > 1 raises ValueError (F-C12-b): keep that class small
  return dict(n=n, units=units, monos=monos, md=[list(p) for p in md], rd=[list(p) for p in rd], lo=lo, hi=hi,
              order=order)


def lin_build(cfg):
  import tensorflow as tf, tensorflow_lattice as tfl
  n, units, o = cfg["n"], cfg["units"], cfg["order"]
  anyb = any(v is not None for v in cfg["lo"]) or any(v is not None for v in cfg["hi"])
  layer = tfl.layers.Linear(
      num_input_dims=n, units=units, monotonicities=list(cfg["monos"]),
      monotonic_dominances=[tuple(p) for p in cfg["md"]] or None,
      range_dominances=[tuple(p) for p in cfg["rd"]] or None,
      input_min=[fopt(v) for v in cfg["lo"]] if anyb else None,
      input_max=[fopt(v) for v in cfg["hi"]] if anyb else None,
      normalization_order=np.inf if o == "inf" else o, dtype=tf.float64)
  layer.build((None, n) if units == 1 else (None, units, n))
  return layer


def lin_scalings(cfg):
  sc = [-1.0 if m == -1 else 1.0 for m in cfg["monos"]]
  for i in range(cfg["n"]):
    if cfg["lo"][i] is not None and cfg["hi"][i] is not None:
      sc[i] *= float(cfg["hi"][i] - cfg["lo"][i])
  return sc


def lin_norm(cfg, col):
  o = cfg["order"]
  return float(np.sum(np.abs(col))) if o == 1 else float(np.max(np.abs(col))) if o == "inf" else float(np.sqrt(np.sum(col * col)))


def lin_rows(cfg, w):
  rows = []
  sc = lin_scalings(cfg)
  for u in range(cfg["units"]):
    if any(cfg["monos"]):
      for i, m in enumerate(cfg["monos"]):
        rows.append(("sign", (i, u), w[i, u] * m, True))
    for d, k in cfg["md"]:
      rows.append(("monotonic_dominance", (d, k, u), w[d, u] - w[k, u], True))
    for d, k in cfg["rd"]:
      rows.append(("range_dominance", (d, k, u), sc[d] * w[d, u] - sc[k] * w[k, u], True))
    if cfg["order"]:
      nm = lin_norm(cfg, w[:, u])
      rows.append(("norm", (u,), float("inf") if nm < 1e-8 else -abs(nm - 1.0), False))
  return rows


def lin_lines(cfg, w, eps):
  o = cfg["order"]
  layer = "as.linL %s %s %s %s %s %s %s %s" % (
      il(cfg["monos"]), il2(cfg["md"]), il2(cfg["rd"]), ",".join(opt(v) for v in cfg["lo"]),
      ",".join(opt(v) for v in cfg["hi"]), "none" if o is None else str(o),
      frl2([w[:, u] for u in range(cfg["units"])]), fr(eps))
  return [layer] + ["as.lin %s %s %s %s %s %s %s %s" % (
      il(cfg["monos"]), il2(cfg["md"]), il2(cfg["rd"]), ",".join(opt(v) for v in cfg["lo"]),
      ",".join(opt(v) for v in cfg["hi"]), "none" if o is None else str(o), frl(w[:, u]), fr(eps))
      for u in range(cfg["units"])]


def lin_cls(cfg):
  return "lin:m%d:md%d:rd%d:ord%s:u%d" % (any(cfg["monos"]), bool(cfg["md"]), bool(cfg["rd"]), cfg["order"],
                                          min(cfg["units"], 2))


# ---- Categorical
def cat_gen(rng):
  nb, units = rng.randint(2, 6), rng.randint(1, 3)
  pairs = rand_dag_pairs(rng, range(nb), 5) if rng.random() < 0.85 else []
  lo, hi = gen_bounds(rng)
  return dict(nb=nb, units=units, pairs=[list(p) for p in pairs], lo=lo, hi=hi)


def cat_build(cfg):
  import tensorflow as tf, tensorflow_lattice as tfl
  layer = tfl.layers.CategoricalCalibration(
      num_buckets=cfg["nb"], units=cfg["units"], output_min=fopt(cfg["lo"]), output_max=fopt(cfg["hi"]),
      monotonicities=[tuple(p) for p in cfg["pairs"]] or None, dtype=tf.float64)
  layer.build((None, cfg["units"]))
  return layer


def cat_rows(cfg, w):
  rows = []
  for u in range(cfg["units"]):
    for i in range(cfg["nb"]):
      if cfg["lo"] is not None:
        rows.append(("lower_bound", (i, u), w[i, u] - float(cfg["lo"]), True))
      if cfg["hi"] is not None:
        rows.append(("upper_bound", (i, u), float(cfg["hi"]) - w[i, u], True))
    for k, (i, j) in enumerate(cfg["pairs"]):
      rows.append(("pair", (k, u), w[j, u] - w[i, u], True))
  return rows


def cat_lines(cfg, w, eps):
  layer = "as.catL %s %s %s %s %s" % (opt(cfg["lo"]), opt(cfg["hi"]), il2(cfg["pairs"]),
                                      frl2([w[:, u] for u in range(cfg["units"])]), fr(eps))
  return [layer] + ["as.cat %s %s %s %s %s" % (opt(cfg["lo"]), opt(cfg["hi"]), il2(cfg["pairs"]), frl(w[:, u]), fr(eps))
                    for u in range(cfg["units"])]


def cat_cls(cfg):
  return "cat:p%d:lo%d:hi%d:u%d" % (min(len(cfg["pairs"]), 2), cfg["lo"] is not None, cfg["hi"] is not None,
                                   min(cfg["units"], 2))


# ---- PWL calibration  (w rows: bias, heights..., [missing_output])
def pwl_gen(rng, force=None):
  K, units = rng.randint(2, 6), rng.randint(1, 3)
  lo, hi = gen_bounds(rng)
  mono = rng.choice([0, 1, 1, -1])
  learned = rng.random() < 0.45
  cyclic = mono == 0 and K >= 3 and rng.random() < 0.2
  missing, missing_value = rng.random() < 0.3, rng.random() < 0.75
  if force == "misskp":
    learned, missing, missing_value = False, True, True
    while lo is None and hi is None:
      lo, hi = gen_bounds(rng)
  lens = None
  if learned and rng.random() < 0.85:
    # the softmax row of every unit: where the learned keypoints currently are (lengths / range)
    lens = []
    for _ in range(units):
      r = [rng.choice([1, 1, 2, 3, 8, 30]) for _ in range(K - 1)]
      lens.append([Fraction(v, sum(r)) for v in r])
  miss_kp = None
  if missing and missing_value and not learned and (force == "misskp" or rng.random() < 0.3):
    miss_kp = rng.randrange(K)        # missing_input_value sits ON a keypoint (F-C12-f, fixed by 164b31b)
  return dict(K=K, units=units, lo=lo, hi=hi, mono=mono,
              cmin=lo is not None and rng.random() < 0.35, cmax=hi is not None and rng.random() < 0.35,
              missing=missing, missing_value=missing_value, learned=learned, cyclic=cyclic, lens=lens,
              miss_kp=miss_kp)


def pwl_nk(cfg):
  return cfg["K"] - (1 if cfg.get("cyclic") else 0)


def pwl_kps(cfg):
  return np.linspace(0.0, 1.0, cfg["K"])


def pwl_miv(cfg):
  if not (cfg["missing"] and cfg["missing_value"]):
    return None
  return float(pwl_kps(cfg)[cfg["miss_kp"]]) if cfg.get("miss_kp") is not None else -100.0


def pwl_build(cfg):
  import tensorflow as tf, tensorflow_lattice as tfl
  layer = tfl.layers.PWLCalibration(
      input_keypoints=pwl_kps(cfg), units=cfg["units"], output_min=fopt(cfg["lo"]),
      output_max=fopt(cfg["hi"]), clamp_min=cfg["cmin"], clamp_max=cfg["cmax"], monotonicity=cfg["mono"],
      is_cyclic=bool(cfg.get("cyclic")), impute_missing=cfg["missing"], missing_input_value=pwl_miv(cfg),
      input_keypoints_type="learned_interior" if cfg.get("learned") else "fixed", dtype=tf.float64)
  layer.build((None, cfg["units"]))
  if cfg.get("learned") and cfg.get("lens"):
    layer.interpolation_logits.assign(np.log(np.array([[float(v) for v in row] for row in cfg["lens"]])))
  return layer


def pwl_outputs(cfg, w):
  """keypoint outputs (K, units): cumulative sums of the kernel columns, closed by the first one when cyclic"""
  nk = pwl_nk(cfg)
  out = np.cumsum(w[:nk], axis=0)
  if cfg.get("cyclic"):
    out = np.vstack([out, out[:1]])
  return out


def pwl_rows(cfg, w):
  rows = []
  K, nk = cfg["K"], pwl_nk(cfg)
  out = pwl_outputs(cfg, w)
  lo, hi = fopt(cfg["lo"]), fopt(cfg["hi"])
  for u in range(cfg["units"]):
    if lo is not None:
      for k in range(K):
        rows.append(("lower_bound", (k, u), out[k, u] - lo, True))
      if cfg["cmin"]:
        rows.append(("clamp_min", (u,), -abs(float(np.min(out[:, u])) - lo), False))
    if hi is not None:
      for k in range(K):
        rows.append(("upper_bound", (k, u), hi - out[k, u], True))
      if cfg["cmax"]:
        rows.append(("clamp_max", (u,), -abs(float(np.max(out[:, u])) - hi), False))
    if cfg["mono"]:
      for k in range(K - 1):
        rows.append(("monotonicity", (k, u), cfg["mono"] * (out[k + 1, u] - out[k, u]), True))
    if cfg["missing"]:
      if lo is not None:
        rows.append(("missing_lower", (u,), w[nk, u] - lo, True))
      if hi is not None:
        rows.append(("missing_upper", (u,), hi - w[nk, u], True))
  return rows


def pwl_lines(cfg, w, eps):
  nk, units = pwl_nk(cfg), cfg["units"]
  miv = pwl_miv(cfg)
  layer = "as.pwlL %d %s %s %d %d %d %d %d %d %s %s %s %s %s" % (
      cfg["mono"], opt(cfg["lo"]), opt(cfg["hi"]), cfg["cmin"], cfg["cmax"], cfg["missing"],
      bool(cfg.get("learned")), bool(cfg.get("cyclic")), cfg["missing"], "none" if miv is None else fr(miv),
      frl(pwl_kps(cfg)), frl2([w[:nk, u] for u in range(units)]),
      frl(w[nk, :] if cfg["missing"] else [0] * units), fr(eps))
  if not pwl_lift(cfg):
    return [layer]
  return [layer] + ["as.pwl %d %s %s %d %d %s %s %s" % (
      cfg["mono"], opt(cfg["lo"]), opt(cfg["hi"]), cfg["cmin"], cfg["cmax"],
      fr(w[nk, u]) if cfg["missing"] else "none", frl(w[:nk, u]), fr(eps)) for u in range(units)]


def pwl_lift(cfg):
  """the per-column model `acceptsPwl` speaks about non-cyclic prefix sums"""
  return not cfg.get("cyclic")


def pwl_cls(cfg):
  return "pwl:m%d:lo%d:hi%d:c%d%d:miss%d:u%d:%s%s%s" % (
      cfg["mono"], cfg["lo"] is not None, cfg["hi"] is not None, cfg["cmin"], cfg["cmax"], cfg["missing"],
      min(cfg["units"], 2), "learned" if cfg.get("learned") else "fixed",
      ("-moved" if cfg.get("lens") else "") + (":cyclic" if cfg.get("cyclic") else ""),
      ":misskp" if cfg.get("miss_kp") is not None else "")


def pwl_check_nodes(ctx, cfg, layer, w, case):
  """the REAL function passes through (keypoints_inputs()[k], cumulative sum k) for every unit: ties the
  prefix-sum form the oracle / model / assert use to the function the layer computes (C05 node theorem)"""
  import tensorflow as tf
  units = cfg["units"]
  kin = layer.keypoints_inputs().numpy()
  x = tf.constant(kin if units > 1 else kin[:, :1])
  y = layer([x, tf.zeros_like(x)]) if cfg["missing"] and not cfg["missing_value"] else layer(x)
  y = np.asarray(y.numpy()).reshape(kin.shape[0], units)
  out = pwl_outputs(cfg, w)
  scale = max(1.0, float(np.max(np.abs(w))))
  bad = [(k, u) for k in range(out.shape[0]) for u in range(units)
         if k != cfg.get("miss_kp") and not abs(y[k, u] - out[k, u]) <= 1e-9 * scale]   # call() returns missing_output there
  ctx.count("nodes:%s" % ("ok" if not bad else "off"))
  if bad:
    k, u = bad[0]
    ctx.fail("function_through_nodes", dict(layer="pwl", cls=finding_class("pwl", cfg), label="nodes"), case,
             [float(y[k, u]), float(out[k, u])],
             "f(keypoints_inputs()[%d]) of unit %d is %r, the cumulative sum of the kernel column is %r" % (
                 k, u, float(y[k, u]), float(out[k, u])))


# ---- Lattice
def lat_gen(rng):
  rank = rng.choice([1, 2, 2, 3, 3])
  sizes = [rng.choice([2, 3]) for _ in range(rank)]
  if rank == 3:
    sizes[rng.randrange(3)] = 2
  units = rng.choice([1, 1, 2, 3])
  monos = [rng.choice([0, 1, 1]) for _ in range(rank)]
  mono_dims = [d for d in range(rank) if monos[d] == 1]
  edge, trap, mdom, rdom, jm = [], [], [], [], []
  if rank >= 2:
    mains = [d for d in mono_dims if rng.random() < 0.5]
    conds = [d for d in range(rank) if d not in mains]
    used = set()
    for a in mains:
      for b in conds:
        if rng.random() < 0.6:
          t = [a, b, rng.choice([1, -1])]
          if rng.random() < 0.5:
            edge.append(t)
          elif b not in used:
            used.add(b)
            trap.append(t)
    for _ in range(2):
      if len(mono_dims) >= 2 and rng.random() < 0.4:
        a, b = rng.sample(mono_dims, 2)
        tgt = rng.choice([mdom, rdom])
        if [a, b] not in tgt and [b, a] not in tgt:
          tgt.append([a, b])
    if rng.random() < 0.3:
      a, b = rng.sample(range(rank), 2)
      jm.append([a, b])
  lo, hi = gen_bounds(rng)
  return dict(sizes=sizes, units=units, monos=monos, edge=edge, trap=trap, mdom=mdom, rdom=rdom, jm=jm, lo=lo, hi=hi,
              tuple_sizes=rng.random() < 0.12)


def lat_build(cfg):
  import tensorflow as tf, tensorflow_lattice as tfl
  rank, units = len(cfg["sizes"]), cfg["units"]
  layer = tfl.layers.Lattice(
      lattice_sizes=tuple(cfg["sizes"]) if cfg["tuple_sizes"] else list(cfg["sizes"]), units=units,
      monotonicities=["increasing" if m else "none" for m in cfg["monos"]] if any(cfg["monos"]) else None,
      edgeworth_trusts=[tuple(t) for t in cfg["edge"]] or None, trapezoid_trusts=[tuple(t) for t in cfg["trap"]] or None,
      monotonic_dominances=[tuple(t) for t in cfg["mdom"]] or None, range_dominances=[tuple(t) for t in cfg["rdom"]] or None,
      joint_monotonicities=[tuple(t) for t in cfg["jm"]] or None,
      output_min=fopt(cfg["lo"]), output_max=fopt(cfg["hi"]), dtype=tf.float64)
  layer.build((None, rank) if units == 1 else (None, units, rank))
  return layer


def lat_rows(cfg, w):
  """independent numpy reading: the kernel as an array over (sizes..., units)"""
  sizes, units = cfg["sizes"], cfg["units"]
  T = w.reshape(list(sizes) + [units])
  rows = []

  def emit(kind, loc, arr):
    for pos in np.ndindex(arr.shape):
      rows.append((kind, tuple(loc) + tuple(pos), arr[pos], True))

  for d, m in enumerate(cfg["monos"]):
    if m == 1:
      M = np.moveaxis(T, d, 0)
      for j in range(1, sizes[d]):
        emit("monotonicity", (d, j), M[j] - M[j - 1])
  for a, b, s in cfg["edge"]:
    M = np.moveaxis(T, (a, b), (0, 1))
    for i in range(sizes[a] - 1):
      for j in range(sizes[b] - 1):
        emit("edgeworth", (a, b, i, j), s * ((M[i + 1, j + 1] - M[i, j + 1]) - (M[i + 1, j] - M[i, j])))
  for a, b, s in cfg["trap"]:
    M = np.moveaxis(T, (a, b), (0, 1))
    for j in range(sizes[b] - 1):
      emit("trapezoid", (a, b, 0, j), s * (M[0, j] - M[0, j + 1]))
      emit("trapezoid", (a, b, 1, j), s * (M[-1, j + 1] - M[-1, j]))
  for a, b in cfg["mdom"]:
    M = np.moveaxis(T, (a, b), (0, 1))
    for i in range(sizes[a] - 1):
      for j in range(sizes[b] - 1):
        mid = (M[i + 1, j + 1] + M[i, j]) / 2
        emit("monotonic_dominance", (a, b, 0, i, j), M[i + 1, j] - mid)
        emit("monotonic_dominance", (a, b, 1, i, j), mid - M[i, j + 1])
  for a, b in cfg["rdom"]:
    M = np.moveaxis(T, (a, b), (0, 1))
    for i in range(sizes[a]):
      for j in range(sizes[b]):
        emit("range_dominance", (a, b, i, j), (M[-1, j] - M[0, j]) - (M[i, -1] - M[i, 0]))
  for a, b in cfg["jm"]:
    M = np.moveaxis(T, (a, b), (0, 1))
    for i in range(sizes[a] - 1):
      for j in range(sizes[b] - 1):
        mid = (M[i + 1, j] + M[i, j + 1]) / 2
        emit("joint_monotonicity", (a, b, 0, i, j), M[i + 1, j + 1] - mid)
        emit("joint_monotonicity", (a, b, 1, i, j), mid - M[i, j])
  if cfg["lo"] is not None:
    emit("lower_bound", (), T - float(cfg["lo"]))
  if cfg["hi"] is not None:
    emit("upper_bound", (), float(cfg["hi"]) - T)
  return rows


def i3(ts):
  return ";".join(",".join(str(int(v)) for v in t) for t in ts) if ts else "_"


def lat_lines(cfg, w, eps):
  return ["as.lat %s %d %s %s %s %s %s %s %s %s %s %s" % (
      il(cfg["sizes"]), cfg["units"], il(cfg["monos"]) if any(cfg["monos"]) else "_", i3(cfg["edge"]), i3(cfg["trap"]),
      il2(cfg["mdom"]), il2(cfg["rdom"]), il2(cfg["jm"]), opt(cfg["lo"]), opt(cfg["hi"]), frl(w.ravel()), fr(eps))]


def lat_cls(cfg):
  return "lat:r%d:m%d:e%d:t%d:md%d:rd%d:j%d:lo%d:hi%d:u%d" % (
      len(cfg["sizes"]), any(cfg["monos"]), bool(cfg["edge"]), bool(cfg["trap"]), bool(cfg["mdom"]), bool(cfg["rdom"]),
      bool(cfg["jm"]), cfg["lo"] is not None, cfg["hi"] is not None, min(cfg["units"], 2))


KINDS = {
    "linear": dict(gen=lin_gen, build=lin_build, rows=lin_rows, lines=lin_lines, cls=lin_cls,
                   shape=lambda c: (c["n"], c["units"])),
    "categorical": dict(gen=cat_gen, build=cat_build, rows=cat_rows, lines=cat_lines, cls=cat_cls,
                        shape=lambda c: (c["nb"], c["units"])),
    "pwl": dict(gen=pwl_gen, build=pwl_build, rows=pwl_rows, lines=pwl_lines, cls=pwl_cls,
                shape=lambda c: (pwl_nk(c) + (1 if c["missing"] else 0), c["units"])),
    "lattice": dict(gen=lat_gen, build=lat_build, rows=lat_rows, lines=lat_lines, cls=lat_cls,
                    shape=lambda c: (int(np.prod(c["sizes"])), c["units"])),
}


def assign(kind, layer, cfg, w):
  if kind == "pwl" and cfg["missing"]:
    nk = pwl_nk(cfg)
    layer.kernel.assign(w[:nk])
    layer.missing_output.assign(w[nk:nk + 1])
  else:
    layer.kernel.assign(w)


def real_outcome(layer, eps):
  import tensorflow as tf
  try:
    layer.assert_constraints(eps)
    return "accept"
  except tf.errors.InvalidArgumentError:
    return "reject"
  except Exception as e:
    return classify_exc(e)


def finding_class(kind, cfg):
  """configuration classes in which the real call raises something else than InvalidArgumentError"""
  if kind == "linear" and cfg["order"] and cfg["units"] > 1:
    return "norm:units>1"
  if kind == "lattice" and cfg["tuple_sizes"] and cfg["units"] > 1:
    return "tuple-sizes:units>1"
  if kind == "pwl" and cfg.get("miss_kp") is not None:
    return "missing-value-at-keypoint"
  if kind == "pwl" and cfg["missing"] and not cfg["missing_value"]:
    return "impute-missing:no-input-value"
  return "other"


# ------------------------------------------------------------------ kernel families for one configuration
def fit_special(kind, cfg, w, rng):
  """moves a kernel that meets the affine constraints onto the non-affine ones (norm, clamps)"""
  w = np.array(w, dtype=float)
  if kind == "linear" and cfg["order"]:
    for u in range(cfg["units"]):
      nm = lin_norm(cfg, w[:, u])
      if nm > 1e-6:
        w[:, u] /= nm
  if kind == "pwl" and (cfg["cmin"] or cfg["cmax"]):
    K = pwl_nk(cfg)
    for u in range(cfg["units"]):
      out = pwl_outputs(cfg, w)[:, u]
      mn, mx = float(out.min()), float(out.max())
      lo = float(cfg["lo"]) if cfg["cmin"] else None
      hi = float(cfg["hi"]) if cfg["cmax"] else None
      if lo is not None and hi is not None and mx > mn:
        s, t = (hi - lo) / (mx - mn), lo
      elif lo is not None:
        s, t = 1.0, lo
      else:
        s, t = 1.0, None
      if t is not None:
        w[0, u] = t + (w[0, u] - mn) * s
        w[1:K, u] *= s
      else:
        w[0, u] += hi - mx
  return w


def families(kind, cfg, layer, eps, rng, budget):
  """yields (label, target_kind, w)"""
  K = KINDS[kind]
  shape = K["shape"](cfg)
  n = shape[0] * shape[1]

  def affine(flat):
    return [r[2] for r in K["rows"](cfg, flat.reshape(shape)) if r[3]]

  sysm = LinSys(affine, n)
  meta = [(r[0], r[1]) for r in K["rows"](cfg, np.zeros(shape)) if r[3]]
  w_int, t = sysm.interior()
  out = []
  if w_int is not None:
    w_r = np.round(w_int * 64) / 64
    if sysm.live and float(np.min(sysm.A[sysm.live] @ w_r + sysm.b[sysm.live])) >= t / 2:
      w_int, t = w_r, float(np.min(sysm.A[sysm.live] @ w_r + sysm.b[sysm.live]))
    out.append(("interior", None, w_int.reshape(shape)))
  # the real constraint applied to a random kernel, and mixed towards the interior
  rnd = np.array([dy(rng) for _ in range(n)]).reshape(shape)
  out.append(("random", None, rnd))
  out.append(("random-wide", None, np.array([rng.uniform(-3, 3) for _ in range(n)]).reshape(shape)))
  cons = getattr(layer.kernel, "constraint", None)
  if cons is not None and not (kind == "pwl" and cfg["missing"]):
    try:
      import tensorflow as tf
      p = rnd
      for _ in range(3):
        p = cons(tf.constant(p)).numpy()
      out.append(("projected", None, p))
      if w_int is not None:
        out.append(("projected-mixed", None, 0.5 * p + 0.5 * w_int.reshape(shape)))
    except Exception:
      pass
  # one injected violation per assert location and unit
  if w_int is not None and t > 0:
    base = w_int
    mu = min(t, max(4 * eps, 1e-3)) / 2
    groups = {}
    for r in sysm.live:
      kd, loc = meta[r]
      # lattice rows: loc = assert location + behind position + unit: one group per (assert, unit)
      g = (kd, loc[:_assert_loc_len(kd)], loc[-1]) if kind == "lattice" else (kd,) + tuple(loc)
      groups.setdefault(g, []).append(r)
    keys = sorted(groups, key=repr)
    rng.shuffle(keys)
    dyadic_eps = eps in (2.0 ** -10, 2.0 ** -3)
    for g in keys[:budget]:
      cand = list(groups[g])
      rng.shuffle(cand)
      amounts = [10 * eps]
      if dyadic_eps and rng.random() < 0.5:
        amounts.append(eps)          # exactly on the threshold: `>= -eps` still accepts
      if rng.random() < 0.15:
        amounts.append(1000 * eps)
      for v in amounts:
        wv, c = None, cand[0]
        for c_try in cand[:5]:
          wv = sysm.single(c_try, v, mu, base)
          if wv is not None:
            c = c_try
            break
        label = "inject" if v != eps else "threshold"
        if wv is None:
          # no point violates only this constraint: move against its gradient instead
          a = sysm.A[c]
          wv = base - a * ((sysm.A[c] @ base + sysm.b[c] + v) / float(a @ a))
          label += "-multi"
        if v == eps:
          wv = snap(sysm, c, v, wv)
          if wv is None:
            continue
        out.append((label, meta[c][0], wv.reshape(shape)))
  res = []
  for label, tk, w in out:
    keep = label in ("random", "random-wide") or label.startswith("threshold")
    res.append((label, tk, w if keep else fit_special(kind, cfg, w, rng)))
  # violations of the non-affine constraints
  if w_int is not None and t > 0:
    wf = fit_special(kind, cfg, w_int.reshape(shape), rng)
    if kind == "linear" and cfg["order"]:
      for u in range(cfg["units"]):
        for f, lab in ((1 + 10 * eps, "inject"), (1 - 10 * eps, "inject"), (1 + eps / 4, "feasible-special"), (0.0, "zero-column")):
          w2 = wf.copy(); w2[:, u] *= f
          res.append((lab, "norm", w2))
    if kind == "pwl":
      for u in range(cfg["units"]):
        if cfg["cmin"]:
          w2 = wf.copy(); w2[0, u] += 10 * eps
          res.append(("inject", "clamp_min", w2))
        if cfg["cmax"]:
          w2 = wf.copy(); w2[0, u] -= 10 * eps
          res.append(("inject", "clamp_max", w2))
  return res


def snap(sysm, c, v, wv):
  """dyadic kernel (grid 2^-16) whose slack c is EXACTLY -v: all float operations of the real check are exact"""
  g = 2.0 ** -16
  wr = np.round(np.asarray(wv) / g) * g
  a = sysm.A[c]
  ks = [k for k in range(len(a)) if a[k] != 0 and float(np.log2(abs(a[k]))).is_integer()]
  if not ks or np.max(np.abs(wr)) > 64:
    return None
  k = ks[0]
  wr[k] -= (float(a @ wr + sysm.b[c]) + v) / a[k]
  return wr if float(a @ wr + sysm.b[c]) == -v else None


def _assert_loc_len(kd):
  return {"monotonicity": 2, "edgeworth": 4, "trapezoid": 4, "monotonic_dominance": 5, "range_dominance": 4,
          "joint_monotonicity": 5, "lower_bound": 0, "upper_bound": 0}[kd]


# ------------------------------------------------------------------ one evaluated case
def evaluate(ctx, kind, cfg, layer, label, target, w, eps, pend, lines):
  K = KINDS[kind]
  w = np.array(w, dtype=np.float64)
  assign(kind, layer, cfg, w)
  real = real_outcome(layer, eps)
  ls = K["lines"](cfg, w, Fraction(eps))
  case = dict(layer=kind, cfg=cfg, eps=Fraction(eps), label=label, target=target,
              w=[[Fraction(float(v)) for v in row] for row in w])
  if kind == "pwl":
    pwl_check_nodes(ctx, cfg, layer, w, case)
  pend.append((case, real, len(ls)))
  lines += ls


def verdict(ctx, case, real, replies):
  kind, cfg, eps = case["layer"], case["cfg"], float(case["eps"])
  K = KINDS[kind]
  w = np.array([[float(v) for v in row] for row in case["w"]], dtype=np.float64)
  rows = K["rows"](cfg, w)
  cls = K["cls"](cfg)
  scale = max(1.0, float(np.max(np.abs(w))))
  viol = sorted({r[0] for r in rows if r[2] < -2 * eps * (1 + 1e-6) - 1e-12 * scale})
  nviol = sum(1 for r in rows if r[2] < -eps / 2)
  clear_ok = all(r[2] > -eps / 2 + 1e-12 * scale for r in rows)
  expected = "reject" if viol else ("accept" if clear_ok else None)
  ctx.count("layer:" + kind)
  ctx.count("cls:" + cls)
  ctx.count("label:%s:%s" % (kind, case["label"]))
  ctx.count("eps:%g" % eps)
  if viol:
    ctx.count("violated:%s:%s%s" % (kind, "+".join(viol), ":single" if nviol == 1 else ""))
  ctx.count("oracle:%s" % expected)
  ctx.count("real:%s" % real)
  key = dict(layer=kind, cls=finding_class(kind, cfg), label=case["label"].split("-")[0])
  ctx.case(sig=(kind, cls, case["label"], tuple(viol), expected, nviol == 1), nontrivial=expected is not None,
           sample=dict(layer=kind, cfg=cfg, eps=eps, label=case["label"], w=w, real=real))
  # replies[0]: the layer-level model (all unit columns at once); replies[1:]: the per-unit-column models
  model = "accept" if replies[0] == "1" else ("reject" if replies[0] == "0" else "bad:" + ",".join(replies))
  if len(replies) > 1:
    per_unit = "accept" if all(r == "1" for r in replies[1:]) else (
        "reject" if all(r in ("0", "1") for r in replies[1:]) else "bad:" + ",".join(replies[1:]))
    ctx.count("lift:%s:%s" % (kind, "same" if per_unit == model else "DIFFERENT"))
    if per_unit != model:
      ctx.disagree(kind + ".units_lift", case, model, per_unit,
                   "layer-level model vs conjunction of the per-unit-column models (Props/C12Units.lean)")
  if real not in ("accept", "reject"):
    # the real call raised something else than the assertion error: the property fails on this case (it must
    # either succeed or fail with InvalidArgumentError); the model describes the intended semantics, no tie.
    key["exc"] = real
    ctx.count("corr-skipped:real-raises")
    seen = ctx.__dict__.setdefault("_raised", set())
    tag = (kind, key["cls"], real, repr(sorted(cfg.items(), key=repr)) if key["cls"] != "other" else len(seen))
    if expected is not None and tag not in seen:     # once per configuration for the known classes
      seen.add(tag)
      ctx.fail("raises", key, case, real, "assert_constraints raised %s; the covered constraints demand %s" % (real, expected))
    return
  if real == model:
    ctx.agree(kind + ".assert_constraints")
  else:
    ctx.disagree(kind + ".assert_constraints", case, real, model,
                 "min slack %g eps %g" % (min([r[2] for r in rows] + [float("inf")]), eps))
  if expected is not None and real != expected:
    worst = min(rows, key=lambda r: r[2])
    ctx.fail("accepts_feasible" if expected == "accept" else "rejects_violation", key, case, real,
             "covered constraints demand %s: worst %s at %s slack %g, eps %g; real call: %s" % (
                 expected, worst[0], worst[1], worst[2], eps, real))


# ------------------------------------------------------------------ KFL (non-affine; built directly)
def kfl_cases(ctx, ncfg, pend, lines):
  import tensorflow as tf, tensorflow_lattice as tfl
  rng = ctx.rng
  for _ in range(ncfg):
    ls, dims, units, terms = rng.choice([2, 3]), rng.randint(1, 3), rng.randint(1, 2), rng.randint(1, 2)
    monos = [rng.choice([0, 1]) for _ in range(dims)]
    lo, hi = gen_bounds(rng)
    eps = rng.choice(EPS)
    cfg = dict(ls=ls, dims=dims, units=units, terms=terms, monos=monos, lo=lo, hi=hi)
    try:
      layer = tfl.layers.KroneckerFactoredLattice(
          lattice_sizes=ls, units=units, num_terms=terms, monotonicities=monos if any(monos) else None,
          output_min=fopt(lo), output_max=fopt(hi), dtype=tf.float64)
      layer.build(tf.TensorShape((None, dims) if units == 1 else (None, units, dims)))
    except Exception as e:
      ctx.count("kfl:build-failed:" + type(e).__name__)
      continue
    both = lo is not None and hi is not None
    bound = float(hi - lo) / 2 if both else None

    def feasible():
      sc = np.zeros((units, terms))
      for u in range(units):
        for t in range(terms):
          if both:
            sc[u, t] = bound * rng.choice([-1, -0.5, 0.5, 1, 1, 0])
          elif lo is not None:
            sc[u, t] = rng.choice([0, 0.5, 2])
          elif hi is not None:
            sc[u, t] = -rng.choice([0, 0.5, 2])
          else:
            sc[u, t] = rng.choice([-1.5, 0.5, 2])
      w = np.zeros((ls, units, dims, terms))
      for u in range(units):
        for d in range(dims):
          for t in range(terms):
            vals = sorted(rng.randint(0, 8) / 8 for _ in range(ls))
            if not (both or lo is None and hi is None) or rng.random() < 0.5:
              pass                      # non-negative increasing
            else:
              vals = [v - 0.5 for v in vals]   # signed, |.| <= 1/2 .. still increasing
            s = np.sign(sc[u, t])
            if monos[d] and s < 0:
              vals = vals[::-1] if min(vals) >= 0 else [-v for v in vals]
            elif not monos[d]:
              rng.shuffle(vals)
            w[:, u, d, t] = vals
      return w, sc

    cands = []
    for _ in range(3):
      w, sc = feasible()
      cands.append(("feasible", None, w, sc))
      # injections: every (unit, dim, adjacent pair, term) monotonicity location
      for u in range(units):
        for t in range(terms):
          for d in range(dims):
            if monos[d] and sc[u, t] != 0 and rng.random() < 0.5:
              j = rng.randrange(1, ls)
              w2 = w.copy()
              w2[j, u, d, t] = w2[j - 1, u, d, t] - np.sign(sc[u, t]) * 10 * eps
              cands.append(("inject", "monotonicity", w2, sc))
          if both and rng.random() < 0.7:
            w2 = w.copy()
            for d in range(dims):
              w2[rng.randrange(ls), u, d, t] = rng.choice([-1.0, 1.0])
            w2[:, u, 0, t] *= (1 + 16 * eps)
            cands.append(("inject", "bound_product", w2, sc))
            sc2 = sc.copy(); sc2[u, t] = rng.choice([-1, 1]) * bound * (1 + 16 * eps)
            cands.append(("inject", "scale", w, sc2))
          if (lo is None) != (hi is None):
            sc2 = sc.copy(); sc2[u, t] = (-1 if lo is not None else 1) * 16 * eps
            cands.append(("inject", "scale", w, sc2))
            w2 = w.copy(); w2[rng.randrange(ls), u, rng.randrange(dims), t] = -16 * eps
            cands.append(("inject", "negative_weight", w2, sc))
      wr = np.array([dy(rng, -8, 12) for _ in range(w.size)]).reshape(w.shape)
      cands.append(("random", None, wr, sc))
    # demonstration of the coverage gap: negative kernel entries with both / no bounds
    if both or (lo is None and hi is None):
      w, sc = feasible()
      if not any(monos):
        w2 = -np.abs(w) - 0.25 if not both else -np.abs(w)
        cands.append(("gap-negative-kernel", None, w2, sc))
    for label, target, w, sc in cands:
      w32 = np.asarray(w, dtype=np.float64); sc32 = np.asarray(sc, dtype=np.float64)
      layer.kernel.assign(w32.reshape(1, ls, units * dims, terms))
      layer.scale.assign(sc32)
      real = real_outcome(layer, eps)
      e32 = Fraction(float(eps))
      case = dict(layer="kfl", cfg=cfg, eps=e32, label=label, target=target,
                  w=[[Fraction(float(v)) for v in w32[:, u].ravel()] for u in range(units)],
                  scale=[[Fraction(float(v)) for v in sc32[u]] for u in range(units)])
      ls_ = kfl_lines(case)
      pend.append((case, real, len(ls_)))
      lines += ls_


def kfl_lines(case):
  cfg = case["cfg"]
  layer = "as.kflL %d %d %d %s %s %s %s %s %s" % (
      cfg["ls"], cfg["dims"], cfg["terms"], il(cfg["monos"]) if any(cfg["monos"]) else "_", opt(cfg["lo"]), opt(cfg["hi"]),
      frl2(case["w"]), frl2(case["scale"]), fr(case["eps"]))
  return [layer] + ["as.kfl %d %d %d %s %s %s %s %s %s" % (
      cfg["ls"], cfg["dims"], cfg["terms"], il(cfg["monos"]) if any(cfg["monos"]) else "_", opt(cfg["lo"]), opt(cfg["hi"]),
      frl(case["w"][u]), frl(case["scale"][u]), fr(case["eps"])) for u in range(cfg["units"])]


def kfl_rows(case):
  cfg = case["cfg"]
  ls, dims, units, terms = cfg["ls"], cfg["dims"], cfg["units"], cfg["terms"]
  lo, hi = fopt(cfg["lo"]), fopt(cfg["hi"])
  rows = []
  for u in range(units):
    w = np.array([float(v) for v in case["w"][u]]).reshape(ls, dims, terms)
    sc = np.array([float(v) for v in case["scale"][u]])
    if any(cfg["monos"]):
      for d in range(dims):
        if cfg["monos"][d]:
          for j in range(1, ls):
            for t in range(terms):
              rows.append(("monotonicity", (u, d, j, t), np.sign(sc[t]) * (w[j, d, t] - w[j - 1, d, t])))
    if lo is not None and hi is not None:
      for t in range(terms):
        rows.append(("bound_product", (u, t), 1.0 - float(np.prod(np.max(np.abs(w[:, :, t]), axis=0)))))
        rows.append(("scale", (u, t), (hi - lo) / 2 - abs(sc[t])))
    elif lo is not None or hi is not None:
      for v in w.ravel():
        rows.append(("negative_weight", (u,), v))
      for t in range(terms):
        rows.append(("scale", (u, t), sc[t] if lo is not None else -sc[t]))
  return rows


def kfl_verdict(ctx, case, real, replies):
  cfg, eps = case["cfg"], float(case["eps"])
  rows = kfl_rows(case)
  # no-eps assertions (negative weights, scale) reject any negative amount: no demand between -2 eps and 0
  clear_ok = all((r[2] > -eps / 2 + 1e-7) if r[0] in ("monotonicity", "bound_product") else r[2] >= 0 for r in rows)
  viol = sorted({r[0] for r in rows if r[2] < -2 * eps * (1 + 1e-5) - 2e-7 * max(1.0, abs(r[2]))})
  expected = "reject" if viol else ("accept" if clear_ok else None)
  cls = "kfl:m%d:lo%d:hi%d:u%d:t%d" % (any(cfg["monos"]), cfg["lo"] is not None, cfg["hi"] is not None, cfg["units"], cfg["terms"])
  ctx.count("layer:kfl"); ctx.count("cls:" + cls); ctx.count("label:kfl:" + case["label"])
  if viol:
    ctx.count("violated:kfl:" + "+".join(viol))
  ctx.count("oracle:%s" % expected); ctx.count("real:%s" % real)
  if case["label"] == "gap-negative-kernel":
    ctx.count("gap:kfl-negative-kernel:" + real)
  ctx.case(sig=("kfl", cls, case["label"], tuple(viol), expected), nontrivial=expected is not None,
           sample=dict(layer="kfl", cfg=cfg, eps=eps, label=case["label"], real=real))
  key = dict(layer="kfl", cls="other", label=case["label"])
  model = "accept" if replies[0] == "1" else ("reject" if replies[0] == "0" else "bad:" + ",".join(replies))
  per_unit = "accept" if all(r == "1" for r in replies[1:]) else (
      "reject" if all(r in ("0", "1") for r in replies[1:]) else "bad:" + ",".join(replies[1:]))
  ctx.count("lift:kfl:%s" % ("same" if per_unit == model else "DIFFERENT"))
  if per_unit != model:
    ctx.disagree("kfl.units_lift", case, model, per_unit, "layer-level model vs per-unit models")
  if real not in ("accept", "reject"):
    key["exc"] = real
    ctx.fail("raises", key, case, real)
    return
  if real == model:
    ctx.agree("kfl.assert_constraints")
  else:
    ctx.disagree("kfl.assert_constraints", case, real, model, "min slack %g" % min([r[2] for r in rows] + [float("inf")]))
  if expected is not None and real != expected:
    worst = min(rows, key=lambda r: r[2])
    ctx.fail("accepts_feasible" if expected == "accept" else "rejects_violation", key, case, real,
             "worst %s at %s slack %g eps %g" % (worst[0], worst[1], worst[2], eps))


# ------------------------------------------------------------------ coverage-gap demonstrations / RTL
def gap_demos(ctx):
  import tensorflow as tf, tensorflow_lattice as tfl
  try:
    layer = tfl.layers.Lattice(lattice_sizes=[3], unimodalities=["valley"], dtype=tf.float64)
    layer.build((None, 1))
    layer.kernel.assign(np.array([[0.0], [1.0], [0.0]]))      # a peak, not a valley
    ctx.count("gap:lattice-unimodality:" + real_outcome(layer, 1e-6))
  except Exception as e:
    ctx.count("gap:lattice-unimodality:demo-failed:" + type(e).__name__)
  # RTL delegates to its lattices: a violated lattice kernel inside an RTL must be rejected
  try:
    rtl = tfl.layers.RTL(num_lattices=2, lattice_rank=2, lattice_size=2, output_min=0.0, output_max=1.0)
    x = {"increasing": tf.constant(np.random.RandomState(0).rand(4, 2).astype(np.float32)),
         "unconstrained": tf.constant(np.random.RandomState(1).rand(4, 2).astype(np.float32))}
    rtl(x)
    ok = real_outcome(rtl, 1e-6)
    sub = list(rtl._lattice_layers.values())
    k = sub[-1].kernel.numpy()
    k2 = k.copy(); k2[0, -1] = 1.5
    sub[-1].kernel.assign(k2)
    bad = real_outcome(rtl, 1e-6)
    sub[-1].kernel.assign(k)
    ctx.count("rtl:fresh:%s" % ok); ctx.count("rtl:bound-violation-in-last-unit:%s" % bad)
    if ok != "accept" or bad != "reject":
      ctx.fail("rtl_delegation", dict(layer="rtl", cls="other", label="demo"), dict(layer="rtl"), [ok, bad],
               "fresh RTL must be accepted and an out-of-bounds vertex in one lattice rejected")
  except Exception as e:
    ctx.count("rtl:demo-failed:" + type(e).__name__)
    ctx.notes.append("RTL demonstration could not be built: %r" % (e,))


# ------------------------------------------------------------------ entry points

def rtl_cases(ctx, n):
  """`RTL.assert_constraints` (the sixth layer offering it): it delegates to the lattice layer of EVERY group, the
  all-unconstrained one included (its output bounds are a covered kind). Real layer only, oracle = the property:
  feasible-with-margin weights are accepted; a bound / monotonicity violation far above eps in the kernel of ANY ONE
  group is rejected. (Seeded change C12-rtl-skips-unconstrained-groups was missed before this stream existed.)"""
  import tensorflow as tf
  import tensorflow_lattice as tfl
  rng = ctx.rng
  for _ in range(n):
    par = rng.choice(["all_vertices", "all_vertices", "kronecker_factored"])
    n_inc, n_unc = rng.randint(0, 3), rng.randint(0, 3)
    if n_inc + n_unc < 2:
      n_unc += 2
    rank = 2
    L = max(2, -(-(n_inc + n_unc) // rank)) + rng.choice([0, 1, 2])
    lo, hi = 0.0, 1.0
    seed = rng.randint(0, 10 ** 6)
    case = dict(stream="rtl", par=par, n_inc=n_inc, n_unc=n_unc, L=L, seed=seed)
    key0 = dict(layer="rtl", cls=par)
    try:
      layer = tfl.layers.RTL(num_lattices=L, lattice_rank=rank, lattice_size=2, output_min=lo, output_max=hi,
                             parameterization=par, num_terms=2, random_seed=seed)
      x = {}
      if n_inc:
        x["increasing"] = tf.zeros((2, n_inc))
      if n_unc:
        x["unconstrained"] = tf.zeros((2, n_unc))
      layer(x)
    except ValueError:
      ctx.count("rtl:build-rejected")
      continue
    kernels = [v for v in layer.weights if "kernel" in (getattr(v, "path", "") or v.name).lower()]
    ctx.case(sig=("rtl", par, n_inc, n_unc, L), nontrivial=True, sample=case)
    ctx.count("rtl:%s:groups=%d" % (par, len(kernels)))
    structure = [(tuple(m), len(ls)) for m, ls in layer._rtl_structure]
    for v in kernels:
      v.assign(tf.fill(v.shape, tf.constant(0.5, v.dtype)))
    eps = 1e-6

    def rejected():
      try:
        layer.assert_constraints(eps=eps)
      except tf.errors.InvalidArgumentError:
        return True
      return False
    if rejected():
      ctx.fail("accepts_feasible", key0, case, "rejected", "all kernels 0.5 inside [0, 1] were rejected")
      continue
    for gi, v in enumerate(kernels):
      orig = v.numpy()
      v.assign(np.full_like(orig, 3.0))          # upper bound 1 violated by 2 in this group only
      ok = rejected()
      v.assign(orig)
      ctx.count("rtl:bound-violation:%s" % ("rejected" if ok else "ACCEPTED"))
      if not ok:
        ctx.fail("rejects_violation", dict(key0, kind="bounds"), dict(case, group=gi, structure=repr(structure)), "accepted",
                 "output bound violated by the kernel of lattice group %d only; assert_constraints returned" % gi)
    if par == "all_vertices" and n_inc:
      # monotonicity violation inside a group with a monotone input: decreasing along its first (monotone) dimension
      for gi, v in enumerate(kernels):
        orig = v.numpy()
        if orig.shape[0] != 4 or v.shape.rank != 2:
          continue
        bad = orig.copy()
        bad[:] = 0.5
        bad[0, :] = 0.9                            # vertex (0,0) above vertex (1,0): decreasing along dim 0
        bad[2, :] = 0.1
        v.assign(bad)
        ok = rejected()
        v.assign(orig)
        mono0 = None
        ctx.count("rtl:mono-violation:%s" % ("rejected" if ok else "accepted"))

def run(ctx):
  rng = ctx.rng
  ctx.notes += NOTES
  pend, lines = [], []
  plan = [("linear", ctx.n(36, 400), 12, None), ("categorical", ctx.n(20, 300), 14, None),
          ("pwl", ctx.n(28, 300), 12, None), ("pwl", ctx.n(3, 24), 12, "misskp"), ("lattice", ctx.n(44, 400), 30, None)]
  for kind, ncfg, budget, force in plan:
    made = 0
    tries = 0
    while made < ncfg and tries < 6 * ncfg:
      tries += 1
      cfg = KINDS[kind]["gen"](rng, force) if force else KINDS[kind]["gen"](rng)
      try:
        layer = KINDS[kind]["build"](cfg)
      except ValueError as e:
        ctx.count("build-rejected:" + kind)
        continue
      made += 1
      eps = rng.choice(EPS)
      for label, target, w in families(kind, cfg, layer, eps, rng, budget):
        evaluate(ctx, kind, cfg, layer, label, target, w, eps, pend, lines)
  kfl_cases(ctx, ctx.n(16, 200), pend, lines)
  rtl_cases(ctx, ctx.n(10, 120))
  if not ctx.search:
    gap_demos(ctx)
  replies = run_driver(lines)
  pos = 0
  for case, real, k in pend:
    (kfl_verdict if case["layer"] == "kfl" else verdict)(ctx, case, real, replies[pos:pos + k])
    pos += k


def _unjson(cfg):
  if isinstance(cfg.get("lens"), list):
    cfg["lens"] = [[Fraction(v) for v in row] for row in cfg["lens"]]
  for k in ("lo", "hi"):
    v = cfg.get(k)
    if isinstance(v, list):
      cfg[k] = [None if x is None else Fraction(x) for x in v]
    elif v is not None:
      cfg[k] = Fraction(v)
  return cfg


def replay(ctx, failure):
  import tensorflow as tf, tensorflow_lattice as tfl
  case = failure["case"]
  kind = case["layer"]
  if kind == "rtl":
    gap_demos(ctx)
    return
  cfg = _unjson(case["cfg"])
  case["eps"] = Fraction(case["eps"])
  eps = float(case["eps"])
  if kind == "kfl":
    case["w"] = [[Fraction(v) for v in row] for row in case["w"]]
    case["scale"] = [[Fraction(v) for v in row] for row in case["scale"]]
    ls, dims, units, terms = cfg["ls"], cfg["dims"], cfg["units"], cfg["terms"]
    layer = tfl.layers.KroneckerFactoredLattice(
        lattice_sizes=ls, units=units, num_terms=terms, monotonicities=cfg["monos"] if any(cfg["monos"]) else None,
        output_min=fopt(cfg["lo"]), output_max=fopt(cfg["hi"]), dtype=tf.float64)
    layer.build(tf.TensorShape((None, dims) if units == 1 else (None, units, dims)))
    w = np.array([[float(v) for v in row] for row in case["w"]], dtype=np.float64).reshape(units, ls, dims, terms)
    layer.kernel.assign(np.transpose(w, (1, 0, 2, 3)).reshape(1, ls, units * dims, terms))
    layer.scale.assign(np.array([[float(v) for v in row] for row in case["scale"]], dtype=np.float64))
    kfl_verdict(ctx, case, real_outcome(layer, eps), run_driver(kfl_lines(case)))
    return
  layer = KINDS[kind]["build"](cfg)
  w = np.array([[float(Fraction(v)) for v in row] for row in case["w"]], dtype=np.float64)
  case["w"] = [[Fraction(v) for v in row] for row in case["w"]]
  assign(kind, layer, cfg, w)
  if kind == "pwl":
    pwl_check_nodes(ctx, cfg, layer, w, case)
  verdict(ctx, case, real_outcome(layer, eps), run_driver(KINDS[kind]["lines"](cfg, w, case["eps"])))
