"""C05: calibration layers evaluate exactly the function their weights describe.
Tie: tfl.layers.PWLCalibration(...)(x) / keypoints_inputs() / keypoints_outputs() vs Tfl.PwlEval.call /
keypointsInputs / keypointsOutputs; tfl.layers.CategoricalCalibration(...)(x) vs Tfl.Categorical.call.
Oracle (on the REAL outputs only): np.interp through the reported keypoints, constant outside, cyclic ends,
missing output, ordered learned keypoints, monotone/bounded corollaries, category lookup, output shape."""
import math
import numpy as np
from fractions import Fraction
from common import *

RULE = ("configs drawn from one PRNG: PWLCalibration with 2-7 keypoints (dyadic/int/wide), units 1-3, single "
        "broadcast column or per-unit columns, split_outputs, is_cyclic, impute_missing in {off, "
        "missing_input_value, is_missing tensor, both} with fixed or learned missing output, input_keypoints_type "
        "fixed (float64, some float32) or learned_interior (float32; logits init/small/dyadic/|logit|<=20), kernels "
        "dyadic/int/wide/tiny/huge/monotone/zero assigned with kernel.assign; inputs on every keypoint, midpoints, "
        "random interior, just outside, far outside (+-2^40), at the missing value; a few call-time error configs; "
        "a separate small stream with |logit| in 100..300 (oracle only, known finding F-C05-a); "
        "CategoricalCalibration with 2-8 buckets, units 1-3, default_input_value none/outside/in-range, all "
        "categories + default + out-of-range, all units of a row through the model's callUnits (op cat.layer), a few "
        "input tensors whose column count cannot be broadcast (both sides InvalidArgument), order clause on the real "
        "outputs (kernel[i] <= kernel[j] => f(i) <= f(j)); split_outputs: the LIST the real layer returns is compared "
        "tensor by tensor with the model's layerOutput (op pwl.layerout). Non-trivial = non-zero kernel and some input strictly between two "
        "keypoints (pwl) / non-zero kernel (categorical); distinct = (config class, kernel kind, case hash).")
ASSUMPTIONS = ["float64 for fixed keypoints (rtol 1e-9*scale), float32 where the code hard-casts (learned_interior: "
               "tf.ones() float32 in compute_interpolation_weights; CategoricalCalibration: tf.one_hot float32) "
               "with rtol 1e-5*scale; on a piece of length l the tolerance adds |height|*min(1, 16*eps*(|x|+max|kp|)/l) "
               "for inputs within that distance of the piece (conditioning of the ramp, a pure rounding effect)",
               "softmax is TF's: the model receives the float softmax row as exact rationals; theorems quantify over "
               "all positive weights summing to one",
               "float underflow of the softmax (|logit| >~ 100, float32) is outside the rational model: finding F-C05-a"]

EPS = {"float32": 2.0 ** -23, "float64": 2.0 ** -52}
RTOL = {"float32": 1e-5, "float64": 1e-9}
KERNEL_KINDS = VALUE_KINDS + ["mono_inc", "mono_inc", "mono_dec", "zero"]


def q32(v):
  return Fraction(float(np.float32(float(v))))


def qd(v, dtype):
  return q32(v) if dtype == "float32" else Fraction(float(v))


def ncols(case):
  return {"single": 1, "per_unit": case["units"], "bad": case["units"] + 1}[case["input_mode"]]


# ---------------------------------------------------------------- generation (pure data)
def gen_keypoints(rng, n, dtype):
  kind = rng.choice(["dyadic", "dyadic", "int", "wide"])
  if kind == "dyadic":
    k = [Fraction(rng.randint(-16, 16), 4)]
    for _ in range(n - 1):
      k.append(k[-1] + Fraction(rng.randint(1, 16), 8))
  elif kind == "int":
    k = [Fraction(rng.randint(-5, 5))]
    for _ in range(n - 1):
      k.append(k[-1] + rng.randint(1, 3))
  else:
    while True:
      k = sorted({qd(rng.uniform(-100.0, 100.0), dtype) for _ in range(n)})
      if len(k) == n and all(float(b - a) > 1e-3 for a, b in zip(k, k[1:])):
        break
  return kind, k


def gen_kernel_col(rng, kind, rows, dtype):
  if kind == "zero":
    return [Fraction(0)] * rows
  if kind in ("mono_inc", "mono_dec"):
    s = 1 if kind == "mono_inc" else -1
    return [Fraction(rng.randint(-16, 16), 8)] + [s * Fraction(rng.randint(0, 12), 8) for _ in range(rows - 1)]
  return [qd(gen_value(rng, kind), dtype) for _ in range(rows)]


def gen_pwl_case(rng, stream="main"):
  n = rng.randint(2, 7)
  units = rng.randint(1, 3)
  learned = True if stream == "huge" else rng.random() < 0.4
  dtype = "float32" if learned else rng.choice(["float64", "float64", "float32"])
  kp_kind, kps = gen_keypoints(rng, n, dtype)
  cyclic = n >= 3 and rng.random() < 0.3   # 2 keypoints + is_cyclic: the default initializer rejects a 1-row kernel
  rows = n - int(cyclic)
  miss = rng.choice(["none", "none", "value", "tensor", "both"])
  err_mode = None
  if stream == "main" and rng.random() < 0.04:
    err_mode = rng.choice(["tensor_without_impute", "impute_without_anything", "bad_input_shape"])
    if err_mode != "bad_input_shape":
      miss = "none" if err_mode == "tensor_without_impute" else "noinfo"
  impute = miss != "none"
  miv = None
  if miss in ("value", "both"):
    r = rng.random()
    if r < 0.5:
      miv = kps[0] - rng.randint(1, 9)
    elif r < 0.75:
      miv = rng.choice(kps)               # a keypoint itself is declared "missing"
    else:
      miv = qd((kps[0] + kps[-1]) / 2, dtype)
  mout_kind = rng.choice(["fixed", "learned"]) if impute else None
  mout = [qd(Fraction(rng.randint(-40, 40), 4), dtype) for _ in range(units)] if impute else None
  if mout_kind == "fixed":
    mout = [mout[0]] * units              # missing_output_value is one float for all units
  kkind = rng.choice(KERNEL_KINDS)
  kernel = [gen_kernel_col(rng, kkind, rows, dtype) for _ in range(units)]    # kernel[u][row]
  logits, lkind = None, None
  if learned:
    if stream == "huge":
      lkind = "huge"
      logits = []
      for _ in range(units):
        row = [Fraction(rng.randint(-8, 8), 4) for _ in range(n - 1)]
        if n > 2:
          # one dominant (or one vanishing) piece; difference > 104 underflows float32 exp
          j = rng.randrange(n - 1)
          row[j] = Fraction(rng.choice([-1, 1]) * rng.randint(120, 300))
        else:
          row[rng.randrange(1)] = Fraction(rng.choice([-1, 1]) * rng.randint(120, 300))
        logits.append(row)
    else:
      lkind = rng.choice(["init", "small", "dyadic", "moderate"])
      if lkind == "small":
        logits = [[q32(rng.uniform(-3, 3)) for _ in range(n - 1)] for _ in range(units)]
      elif lkind == "dyadic":
        logits = [[Fraction(rng.randint(-20, 20), 4) for _ in range(n - 1)] for _ in range(units)]
      elif lkind == "moderate":
        logits = [[q32(rng.uniform(-20, 20)) for _ in range(n - 1)] for _ in range(units)]
  return dict(layer="pwl", stream=stream, dtype=dtype, kps=kps, kp_kind=kp_kind, units=units,
              learned=learned, cyclic=cyclic, miss=miss, miv=miv, mout_kind=mout_kind, mout=mout,
              split=units > 1 and rng.random() < 0.4,
              input_mode="bad" if err_mode == "bad_input_shape" else (
                  "single" if units == 1 else rng.choice(["single", "per_unit"])),
              kkind=kkind, kernel=kernel, logits=logits, lkind=lkind, err_mode=err_mode, x=None, is_missing=None)


def gen_inputs(rng, case, kin):
  """kin: reported keypoints per unit (floats), kin[u][j]. Fills case['x'][col][b], case['is_missing']."""
  dtype = case["dtype"]
  cols = ncols(case)
  kps = case["kps"]
  lo, hi = kps[0], kps[-1]
  xs_cols = []
  for c in range(cols):
    pts = [Fraction(float(v)) for v in kin[min(c, len(kin) - 1)]]    # on the (reported) keypoints
    pts += [qd((a + b) / 2, dtype) for a, b in zip(pts, pts[1:])]      # between
    pts += [qd(lo + (hi - lo) * Fraction(rng.randint(1, 63), 64), dtype) for _ in range(2)]
    pts += [qd(lo - Fraction(rng.randint(1, 40), 8), dtype), qd(hi + Fraction(rng.randint(1, 40), 8), dtype)]
    pts += [Fraction(-2 ** 40), Fraction(2 ** 40), qd(lo - Fraction(1, 2 ** 10), dtype), qd(hi + 1000, dtype)]
    if case["miv"] is not None:
      pts += [case["miv"], case["miv"]]
    rng.shuffle(pts)
    xs_cols.append(pts)
  case["x"] = xs_cols
  if case["miss"] in ("tensor", "both") or case["err_mode"] == "tensor_without_impute":
    frac = rng.random() < 0.1
    case["is_missing"] = [[(Fraction(1, 2) if frac and rng.random() < 0.2 else Fraction(int(rng.random() < 0.3)))
                           for _ in col] for col in xs_cols]


# ---------------------------------------------------------------- the real layer
def build_pwl(case):
  import tensorflow as tf
  import tensorflow_lattice as tfl
  dtype = case["dtype"]
  kw = dict(input_keypoints=[float(k) for k in case["kps"]], units=case["units"], dtype=dtype,
            is_cyclic=case["cyclic"], split_outputs=case["split"],
            input_keypoints_type="learned_interior" if case["learned"] else "fixed")
  if case["miss"] != "none":
    kw["impute_missing"] = True
    if case["miv"] is not None:
      kw["missing_input_value"] = float(case["miv"])
    if case["mout_kind"] == "fixed":
      kw["missing_output_value"] = float(case["mout"][0])
  layer = tfl.layers.PWLCalibration(**kw)
  layer.build((None, ncols(case)))
  npd = np.float32 if dtype == "float32" else np.float64
  layer.kernel.assign(np.array([[float(case["kernel"][u][r]) for u in range(case["units"])]
                                for r in range(len(case["kernel"][0]))], dtype=npd))
  if case["logits"] is not None:
    layer.interpolation_logits.assign(np.array([[float(v) for v in row] for row in case["logits"]], dtype=npd))
  if case["mout_kind"] == "learned":
    layer.missing_output.assign(np.array([[float(v) for v in case["mout"]]], dtype=npd))
  return layer


def run_real_pwl(case, rng=None):
  """Runs the real layer; returns dict(err | y (B, units), kin (n, units), kout (n, units), ws, shape_ok)."""
  import tensorflow as tf
  layer = build_pwl(case)
  dtype = case["dtype"]
  npd = np.float32 if dtype == "float32" else np.float64
  kin = layer.keypoints_inputs().numpy()
  kout = layer.keypoints_outputs().numpy()
  ws = None
  if case["learned"]:
    ws = tf.nn.softmax(layer.interpolation_logits, axis=1).numpy()
  if case["x"] is None:
    gen_inputs(rng, case, [kin[:, c] for c in range(case["units"])])
  x = np.array(case["x"], dtype=npd).T                       # (B, cols)
  args = tf.constant(x)
  if case["is_missing"] is not None:
    args = [args, tf.constant(np.array(case["is_missing"], dtype=npd).T)]
  real = dict(kin=kin, kout=kout, ws=ws, x=x)
  try:
    y = layer(args)
    if case["split"]:
      real["shape_ok"] = isinstance(y, list) and len(y) == case["units"] and all(
          tuple(t.shape) == (x.shape[0], 1) for t in y)
      real["tensors"] = [t.numpy() for t in y] if isinstance(y, list) else [y.numpy()]
      y = np.concatenate([t.numpy() for t in y], axis=1)
    else:
      y = y.numpy()
      real["tensors"] = [y]
      real["shape_ok"] = tuple(y.shape) == (x.shape[0], case["units"])
    real["y"], real["err"] = y, None
  except Exception as e:
    real["y"], real["err"] = None, classify_exc(e)
  return real


def pwl_lines(case, real):
  """one `pwl.layer` line (all units, all examples; the MODEL does the broadcasting) followed by one
  `pwl.keypoints` line per unit."""
  units = case["units"]
  wss = [[Fraction(float(v)) for v in real["ws"][u]] for u in range(units)] if case["learned"] else []
  B = len(case["x"][0])
  rows = [[col[b] for col in case["x"]] for b in range(B)]
  ms = "none" if case["is_missing"] is None else frl2([[col[b] for col in case["is_missing"]] for b in range(B)])
  lines = ["pwl.layer %s %d %d %d %s %s %s %s %s %s" % (
      frl(case["kps"]), case["learned"], case["cyclic"], case["miss"] != "none", opt(case["miv"]),
      frl2(case["kernel"]), frl2(wss), frl(case["mout"] if case["mout"] else [0] * units), frl2(rows), ms)]
  for u in range(units):
    lines.append("pwl.keypoints %s %d %d %s %s" % (
        frl(case["kps"]), case["learned"], case["cyclic"], frl(case["kernel"][u]), frl(wss[u] if wss else [])))
  # what `call` RETURNS (one (B, units) tensor, or `units` (B, 1) tensors when units > 1 and split_outputs)
  lines.append("pwl.layerout " + lines[0][len("pwl.layer "):] + " %d" % case["split"])
  return lines


def pwl_cls(case):
  return "%s:%s:u%d:%s:cyc%d:miss-%s-%s:split%d" % (
      "learned" if case["learned"] else "fixed", case["dtype"], case["units"], case["input_mode"],
      case["cyclic"], case["miss"], case["mout_kind"], case["split"])


def vec_close(real_vals, model_vals, scale, rtol, atols):
  real_vals = list(real_vals)
  return len(real_vals) == len(model_vals) and all(
      close(r, m, scale, rtol, a) for r, m, a in zip(real_vals, model_vals, atols))


def cond_tol(x, kin_u, heights, eps):
  """Rounding-conditioning allowance of sum_i h_i*clip((x-k_i)/l_i): a ramp can only differ between two
  evaluations when x is within d = 16*eps*(|x|+max|kp|) of its piece; then by at most min(1, d/l_i)."""
  d = 16.0 * eps * (abs(x) + float(np.max(np.abs(kin_u))))
  t = 0.0
  for i, h in enumerate(heights):
    k0, k1 = float(kin_u[i]), float(kin_u[i + 1])
    if k0 - d <= x <= k1 + d:
      l = k1 - k0
      t += abs(h) * (1.0 if l <= d else d / l)
  return t


def check_pwl(ctx, case, real, replies):
  import numpy as np
  cls = pwl_cls(case)
  huge = case["stream"] == "huge"
  key = dict(layer="pwl", cls="learned_interior_underflow" if huge else cls)
  ctx.count("pwl:" + ("huge-logits" if huge else cls.split(":miss")[0]))
  ctx.count("pwl-miss:%s-%s" % (case["miss"], case["mout_kind"]))
  ctx.count("pwl-kernel:" + case["kkind"])
  if case["lkind"]:
    ctx.count("pwl-logits:" + case["lkind"])
  dtype = case["dtype"]
  eps, rtol = EPS[dtype], RTOL[dtype]
  units, kin, kout = case["units"], real["kin"], real["kout"]
  n = len(case["kps"])
  # ---------------- error configurations: both sides must reject alike
  if real["err"] is not None or case["err_mode"]:
    ctx.count("pwl-err:%s" % case["err_mode"])
    ctx.case(sig=(cls, "err", case["err_mode"]), nontrivial=case["err_mode"] is not None, sample=case)
    model_err = replies[0] if replies[0].startswith("ERR") else "ok"
    real_err = real["err"] or "ok"
    if case["err_mode"] is None:
      ctx.fail("raises", key, case, real_err, "valid configuration rejected by call()")
    elif model_err != real_err:
      ctx.disagree("pwl.call.errors", case, real_err, model_err)
    else:
      ctx.agree("pwl.call.errors")
    return
  y = real["y"]
  model_rows = None if replies[0].startswith("ERR") else parse_rats2(replies[0])   # [b][u]
  between = False
  all_finite = bool(np.all(np.isfinite(y)) and np.all(np.isfinite(kin)) and np.all(np.isfinite(kout)))
  for u in range(units):
    col = u if case["input_mode"] == "per_unit" else 0
    xs = [float(v) for v in case["x"][col]]
    ms = None if case["is_missing"] is None else [float(v) for v in case["is_missing"][col]]
    kern = [float(v) for v in case["kernel"][u]]
    heights = kern[1:] + ([-sum(kern[1:])] if case["cyclic"] else [])
    mout = float(case["mout"][u]) if case["mout"] else 0.0
    scale = max_abs(kern, heights, [mout], kout[:, u] if all_finite else [])
    kscale = max_abs([float(k) for k in case["kps"]])
    # which examples are missing (m), per the configuration
    if ms is not None:
      mflag = ms
    elif case["miv"] is not None:
      mflag = [1.0 if x == float(case["miv"]) else 0.0 for x in xs]
    else:
      mflag = [0.0] * len(xs)
    finite_kin = bool(np.all(np.isfinite(kin[:, u])))
    atols = [((1.0 - min(1.0, m)) * cond_tol(x, kin[:, u], heights, eps) if finite_kin else 0.0)
             for x, m in zip(xs, mflag)]
    for x, m in zip(xs, mflag):
      if m == 1.0:
        ctx.count("x:missing")
      elif x < float(kin[0, u]):
        ctx.count("x:left")
      elif x > float(kin[-1, u]):
        ctx.count("x:right")
      elif any(x == float(k) for k in kin[:, u]):
        ctx.count("x:on-keypoint")
      else:
        ctx.count("x:between")
        between = True
    # ---------------- correspondence (not in the huge-logits stream: underflow is outside the model)
    if not huge:
      toks = replies[1 + u].split(" ")
      if model_rows is None or len(toks) != 2 or any(len(r) != units for r in model_rows):
        ctx.disagree("pwl.call", case, y[:, u], replies[0], "model rejects, code accepts")
      else:
        model = [r[u] for r in model_rows]
        if vec_close(y[:, u], model, scale, rtol, atols):
          ctx.agree("pwl.call")
        else:
          ctx.disagree("pwl.call", case, y[:, u], [fr(m) for m in model], "unit %d rtol=%g scale=%g" % (u, rtol, scale))
        ctx.compare("pwl.keypoints_inputs", case, kin[:, u], parse_rats(toks[0]), kscale, rtol=rtol * n)
        ctx.compare("pwl.keypoints_outputs", case, kout[:, u], parse_rats(toks[1]), scale, rtol=rtol * n)
    # ---------------- oracle on the real outputs
    if not all_finite:
      continue
    tol = rtol * scale
    ku, ou = kin[:, u].astype(np.float64), kout[:, u].astype(np.float64)
    # keypoints_inputs: fixed -> exactly the configured keypoints; learned -> ordered between the fixed ends
    ktol = rtol * n * kscale
    if not case["learned"]:
      if len(ku) != n or float(np.max(np.abs(ku - np.array([float(k) for k in case["kps"]])))) > ktol:
        ctx.fail("keypoints_inputs", key, case, ku, "unit %d" % u)
    else:
      w = real["ws"][u].astype(np.float64)
      rng_ = float(case["kps"][-1] - case["kps"][0])
      bad = len(ku) != n or abs(ku[0] - float(case["kps"][0])) > ktol or abs(ku[-1] - float(case["kps"][-1])) > ktol
      for i in range(n - 1):
        if ku[i + 1] < ku[i] or w[i] <= 0.0:
          bad = True
        if w[i] * rng_ > 16 * eps * kscale * n and not ku[i + 1] > ku[i]:
          bad = True
      if bad:
        ctx.fail("learned_keypoints_ordered", key, case, ku, "unit %d softmax %r" % (u, w.tolist()))
        continue
    # keypoints_outputs: cumulative sums (closed when cyclic)
    cum = np.cumsum(np.array(kern, dtype=np.float64))
    exp_out = np.concatenate([cum, cum[:1]]) if case["cyclic"] else cum
    if len(ou) != n or float(np.max(np.abs(ou - exp_out))) > tol * n:
      ctx.fail("keypoints_outputs", key, case, ou, "unit %d" % u)
    if case["cyclic"] and abs(ou[0] - ou[-1]) > tol:
      ctx.fail("cyclic_ends", key, case, ou, "unit %d" % u)
    ref = np.interp(np.array(xs), ku, ou)          # constant outside: np.interp clamps to fp[0], fp[-1]
    for b, (x, m) in enumerate(zip(xs, mflag)):
      yb = float(y[b, u])
      if m == 1.0:
        if abs(yb - mout) > tol:
          ctx.fail("missing", key, case, yb, "unit %d x=%r expected missing output %r" % (u, x, mout))
        continue
      if m != 0.0:
        continue                                     # fractional is_missing: correspondence only
      if abs(yb - float(ref[b])) > tol + atols[b]:
        ctx.fail("interpolation", key, case, yb, "unit %d x=%r np.interp=%r tol=%g" % (u, x, float(ref[b]), tol + atols[b]))
      if x <= ku[0] and abs(yb - ou[0]) > tol + atols[b]:
        ctx.fail("constant_left", key, case, yb, "unit %d x=%r first output %r" % (u, x, ou[0]))
      if x >= ku[-1] and abs(yb - ou[-1]) > tol + atols[b]:
        ctx.fail("constant_right", key, case, yb, "unit %d x=%r last output %r" % (u, x, ou[-1]))
      if yb < float(np.min(ou)) - tol or yb > float(np.max(ou)) + tol:
        ctx.fail("bounded", key, case, yb, "unit %d x=%r outputs in [%r, %r]" % (u, x, np.min(ou), np.max(ou)))
    for sgn, name in ((1.0, "monotone_inc"), (-1.0, "monotone_dec")):
      if np.all(sgn * np.diff(ou) >= 0):
        pts = sorted((x, float(y[b, u])) for b, (x, m) in enumerate(zip(xs, mflag)) if m == 0.0)
        for (x0, y0), (x1, y1) in zip(pts, pts[1:]):
          if sgn * (y1 - y0) < -2 * tol:
            ctx.fail(name, key, case, [y0, y1], "unit %d x=%r,%r" % (u, x0, x1))
  if not all_finite:
    ctx.fail("finite", key, case, dict(y=y, keypoints_inputs=kin), "non-finite output or keypoints")
  if not real["shape_ok"]:
    ctx.fail("shape", key, case, list(np.shape(y)), "output shape / split_outputs")
  # ---------------- the returned STRUCTURE vs the model's `layerOutput` (split_outputs)
  if not huge and all_finite and not replies[-1].startswith("ERR"):
    ctx.count("pwl-returned:%s" % ("split-list" if (case["split"] and units > 1) else "one-tensor"))
    model_ex = [[parse_rats(t) for t in ex.split(";")] for ex in replies[-1].split("|")]    # [b][tensor][col]
    tens = real["tensors"]
    ok = all(len(ex) == len(tens) for ex in model_ex) and len(model_ex) == y.shape[0]
    if ok:
      for b, ex in enumerate(model_ex):
        for t, row in enumerate(ex):
          rr = tens[t][b].ravel()
          if len(rr) != len(row):
            ok = False
    if not ok:
      ctx.disagree("pwl.layer_output_structure", case, [list(t.shape) for t in tens],
                   [len(model_ex), [len(r) for r in model_ex[0]] if model_ex else None], "list / tensor structure")
    else:
      ctx.agree("pwl.layer_output_structure")
  nz = any(v != 0 for colk in case["kernel"] for v in colk)
  ctx.case(sig=(cls, case["kkind"], case["lkind"], hash(y.tobytes()) % 997), nontrivial=between and nz,
           sample=dict(case=case, y=y, keypoints_inputs=kin, keypoints_outputs=kout))


# ---------------------------------------------------------------- categorical
def gen_cat_case(rng):
  n = rng.randint(2, 8)
  units = rng.randint(1, 3)
  dmode = rng.choice(["none", "outside", "outside", "inrange", "above"])
  default = {"none": None, "outside": -rng.randint(1, 3), "inrange": rng.randrange(n), "above": n + rng.randint(0, 3)}[dmode]
  kkind = rng.choice(VALUE_KINDS + ["zero"])
  kernel = [[Fraction(0) if kkind == "zero" else q32(gen_value(rng, kkind)) for _ in range(n)] for _ in range(units)]
  mode = "single" if units == 1 else rng.choice(["single", "per_unit"])
  if rng.random() < 0.04:
    mode = "bad"                      # a column count that cannot be broadcast against the kernel
  cols = units if mode == "per_unit" else (units + rng.randint(1, 2) if mode == "bad" else 1)
  xs = []
  for _ in range(cols):
    pts = list(range(n)) + ([default] * 2 if default is not None else []) + [n + 5, -7, rng.randrange(n)]
    rng.shuffle(pts)
    xs.append(pts)
  return dict(layer="categorical", n=n, units=units, default=default, dmode=dmode, kkind=kkind, kernel=kernel,
              input_mode=mode, split=units > 1 and rng.random() < 0.4, x=xs, idtype=rng.choice(["int32", "int64"]))


def run_real_cat(case):
  import tensorflow as tf
  import tensorflow_lattice as tfl
  layer = tfl.layers.CategoricalCalibration(num_buckets=case["n"], units=case["units"],
                                            default_input_value=case["default"], split_outputs=case["split"])
  cols = len(case["x"])
  layer.build((None, cols))
  layer.kernel.assign(np.array([[float(case["kernel"][u][r]) for u in range(case["units"])]
                                for r in range(case["n"])], dtype=np.float32))
  x = np.array(case["x"], dtype=case["idtype"]).T
  real = dict(x=x)
  try:
    y = layer(tf.constant(x))
    if case["split"]:
      real["shape_ok"] = isinstance(y, list) and len(y) == case["units"] and all(
          tuple(t.shape) == (x.shape[0], 1) for t in y)
      y = np.concatenate([t.numpy() for t in y], axis=1)
    else:
      y = y.numpy()
      real["shape_ok"] = tuple(y.shape) == (x.shape[0], case["units"])
    real["y"], real["err"] = y, None
  except Exception as e:
    real["y"], real["err"] = None, classify_exc(e)
  return real


def cat_lines(case):
  lines = []
  d = "none" if case["default"] is None else str(case["default"])
  B = len(case["x"][0])
  # all units of every example through the model's `callUnits` (broadcast / per-unit columns / bad shapes)
  lines.append("cat.layer %s %s %s" % (frl2(case["kernel"]), d,
                                       ";".join(",".join(str(col[b]) for col in case["x"]) for b in range(B))))
  if case["input_mode"] == "bad":
    return lines
  for u in range(case["units"]):
    col = u if case["input_mode"] == "per_unit" else 0
    for x in case["x"][col]:
      lines.append("cat.call %s %s %d" % (frl(case["kernel"][u]), d, x))
  return lines


def check_cat(ctx, case, real, replies):
  cls = "cat:u%d:%s:default-%s:split%d" % (case["units"], case["input_mode"], case["dmode"], case["split"])
  key = dict(layer="categorical", cls=cls)
  ctx.count(cls.rsplit(":", 1)[0])
  layer_reply, replies = replies[0], replies[1:]
  if case["input_mode"] == "bad":
    # neither a single column nor one per unit: both sides must refuse alike (InvalidArgumentError)
    ctx.case(sig=(cls, "bad-shape", real["err"]), nontrivial=True, sample=case)
    model_err = layer_reply if layer_reply.startswith("ERR") else "ok"
    if model_err != (real["err"] or "ok"):
      ctx.disagree("categorical.call.errors", case, real["err"] or "ok", model_err)
    else:
      ctx.agree("categorical.call.errors")
    return
  if real["err"] is not None:
    ctx.fail("raises", key, case, real["err"])
    ctx.case(sig=(cls, "err"), sample=case)
    return
  y = real["y"]
  n, B = case["n"], len(case["x"][0])
  if layer_reply.startswith("ERR"):
    ctx.disagree("categorical.layer", case, y, layer_reply, "model rejects, code accepts")
  else:
    rows = parse_rats2(layer_reply)
    for u in range(case["units"]):
      ctx.compare("categorical.layer", case, y[:, u], [r[u] for r in rows], max_abs([float(v) for v in case["kernel"][u]]),
                  rtol=1e-6)
  nz = any(v != 0 for colk in case["kernel"] for v in colk)
  ctx.case(sig=(cls, case["kkind"], hash(y.tobytes()) % 997), nontrivial=nz, sample=dict(case=case, y=y))
  for u in range(case["units"]):
    col = u if case["input_mode"] == "per_unit" else 0
    kern = [float(v) for v in case["kernel"][u]]
    scale = max_abs(kern)
    model = [Fraction(t) for t in replies[u * B:(u + 1) * B]]
    ctx.compare("categorical.call", case, y[:, u], model, scale, rtol=1e-6)
    lo, hi = min(kern), max(kern)
    for b, x in enumerate(case["x"][col]):
      yb = float(y[b, u])
      if case["default"] is not None and x == case["default"]:
        ctx.count("cat-x:default")
        if abs(yb - kern[n - 1]) > 1e-6 * scale:
          ctx.fail("default_last_bucket", key, case, yb, "unit %d x=%d expected %r" % (u, x, kern[n - 1]))
      elif 0 <= x < n:
        ctx.count("cat-x:in-range")
        if abs(yb - kern[x]) > 1e-6 * scale:
          ctx.fail("category_row", key, case, yb, "unit %d x=%d expected %r" % (u, x, kern[x]))
        if yb < lo - 1e-6 * scale or yb > hi + 1e-6 * scale:
          ctx.fail("bounded", key, case, yb, "unit %d x=%d" % (u, x))
      else:
        ctx.count("cat-x:out-of-range")
    # monotone along the order of the category values: kernel[i] <= kernel[j]  =>  f(i) <= f(j), for ALL pairs of
    # in-range, non-default categories of the batch (the one-hot product is exact: no tolerance)
    pts = {}
    for b, x in enumerate(case["x"][col]):
      if 0 <= x < n and not (case["default"] is not None and x == case["default"]):
        pts.setdefault(x, float(y[b, u]))
    for i, yi in pts.items():
      for j, yj in pts.items():
        if kern[i] <= kern[j]:
          ctx.count("cat-pairs:order")
          if not yi <= yj:
            ctx.fail("category_order", key, case, [yi, yj],
                     "unit %d: kernel[%d]=%r <= kernel[%d]=%r but f(%d) > f(%d)" % (u, i, kern[i], j, kern[j], i, j))
  if not real["shape_ok"]:
    ctx.fail("shape", key, case, list(np.shape(y)), "output shape / split_outputs")


# ---------------------------------------------------------------- driver of the run
def run(ctx):
  rng = ctx.rng
  items, lines = [], []
  for stream, count in (("main", ctx.n(900, 12000)), ("huge", ctx.n(20, 300))):
    for _ in range(count):
      case = gen_pwl_case(rng, stream)
      real = run_real_pwl(case, rng)
      ls = pwl_lines(case, real)
      items.append((case, real, len(ls)))
      lines += ls
  for _ in range(ctx.n(500, 8000)):
    case = gen_cat_case(rng)
    real = run_real_cat(case)
    ls = cat_lines(case)
    items.append((case, real, len(ls)))
    lines += ls
  replies = run_driver(lines)
  pos = 0
  for case, real, k in items:
    (check_pwl if case["layer"] == "pwl" else check_cat)(ctx, case, real, replies[pos:pos + k])
    pos += k
  bad = [r for r in replies if r == "bad-op"]
  if bad:
    ctx.disagree("driver.bad-op", {}, None, None, "%d malformed op lines" % len(bad))


def _fr(v):
  return None if v is None else Fraction(v)


def replay(ctx, failure):
  """Re-executes one recorded failing case (exact rationals) on the current tree."""
  case = dict(failure["case"])
  if case["layer"] == "pwl":
    case["kps"] = [Fraction(v) for v in case["kps"]]
    case["miv"] = _fr(case["miv"])
    case["mout"] = None if case["mout"] is None else [Fraction(v) for v in case["mout"]]
    case["kernel"] = [[Fraction(v) for v in colk] for colk in case["kernel"]]
    case["logits"] = None if case["logits"] is None else [[Fraction(v) for v in row] for row in case["logits"]]
    case["x"] = [[Fraction(v) for v in col] for col in case["x"]]
    case["is_missing"] = None if case["is_missing"] is None else [[Fraction(v) for v in col] for col in case["is_missing"]]
    real = run_real_pwl(case)
    check_pwl(ctx, case, real, run_driver(pwl_lines(case, real)))
  else:
    case["kernel"] = [[Fraction(v) for v in colk] for colk in case["kernel"]]
    real = run_real_cat(case)
    check_cat(ctx, case, real, run_driver(cat_lines(case)))
