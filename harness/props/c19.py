"""C19: gradients delivered to training equal the true derivatives.
Tie A: tf.GradientTape gradients through kfl_lib.custom_reduce_prod (exact zeros planted in every pattern,
every reduction axis) vs Tfl.Kfl.gradFactor / rprod.
Tie B: gradients of kfl_lib.evaluate_with_hypercube_interpolation w.r.t. kernel, scale, inputs vs autodiff of
the same expression written with tf.reduce_prod (reference expression) AND vs the model's assembled gradients
Tfl.Kfl.gradKernel / gradScale / gradInput (driver op kfl.evalgrad; Props/C19Kfl.lean proves them to be the
derivatives of Tfl.Kfl.eval), inputs only where the output is differentiable (strictly inside a cell).
Tie C: Jacobians d out / d kernel of the real Lattice (hypercube + simplex, clip_inputs on AND off) /
PWLCalibration / CategoricalCalibration layers vs interpolation weights computed independently in numpy and,
for Lattice, vs the model's weight rows (late.weights / late.sjac) and outputs (late.hyper / late.simplex);
PWL / categorical outputs vs Tfl.Kfl.dot weights kernel (the generic linear form C19-T2 is stated for).
Oracle: gradient == plain-product derivative; Jacobian == weights, independent of the kernel value,
non-negative and summing to one for Lattice."""
import itertools
import numpy as np
from fractions import Fraction
from common import *

RULE = ("A: tensors of rank 1-4, reduced axis of length 1-5 at every position, entries dyadic/int/wide/tiny, "
        "0/1/2/3/all zeros planted on the reduced axis (incl. -0.0), incoming gradient 1 or random; "
        "B: KFL configs (sizes 2-4, dims 1-4, units 1-2, terms 1-3) with zero kernel columns and inputs on "
        "vertices so that factors vanish exactly, per-example model gradients; C: Lattice ranks 1-4 sizes 2-4 units "
        "1-2 both interpolations, clip_inputs on/off, points in range / clipped / unclipped out of range "
        "(class outside:clip_off_out_of_range), "
        "PWL 2-7 keypoints, categorical 2-6 buckets incl. default bucket, two kernel values per case. "
        "Non-trivial = at least one zero on the reduced axis (A), a vanishing factor (B), a point strictly "
        "inside a cell (C); distinct = (suite, shape/zero pattern class, hash).")
ASSUMPTIONS = [
    "EXPLICIT EXCLUSION, class `outside:clip_off_out_of_range`: Lattice with clip_inputs=False and a coordinate outside "
    "[0, size-1]. 'Non-negative, summing to one' is the convexity of the C02 interpolation weights of in-range or clipped "
    "inputs; an unclipped out-of-range point is outside C02 and C19 (Props/C19.lean jacobian_row_convex_needs_defined: "
    "rows [3/2, -1/2], sum 1/2). Such points ARE generated: the Jacobian is compared with the MODEL's weight row, must "
    "not depend on the kernel, the InvalidArgumentError of the simplex gather must match the model; only the "
    "numpy-reference and the convexity clause are not evaluated there (they are on every in-range / clipped point)",
    "custom_reduce_prod is float32-only (casts is_zero to float32): compared with rtol 1e-5 of the largest partial product",
    "autodiff itself (tape, chain rule) is TensorFlow's; what is checked is the hand-written grad_fn and the linearity in the kernel",
    "C19-T2 is stated for the generic form eval w K = dot w K over an abstract weight vector; the harness ties each real "
    "layer's output and Jacobian to that form with weights recomputed independently in numpy",
]


# ------------------------------------------------------------------ A: custom_reduce_prod
def gen_entry(rng, kind):
  v = gen_value(rng, kind)
  while v == 0:
    v = gen_value(rng, kind)
  return v


def run_a(ctx, n):
  import tensorflow as tf
  from tensorflow_lattice.python import kronecker_factored_lattice_lib as kfl_lib
  rng = ctx.rng
  lines, items = [], []
  for _ in range(n):
    rank = rng.randint(1, 4)
    shape = [rng.randint(1, 3) for _ in range(rank)]
    axis = rng.randrange(rank)
    shape[axis] = rng.randint(1, 5)
    kind = rng.choice(["dyadic", "int", "int", "wide", "tiny"])
    t = np.array([float(gen_entry(rng, kind)) for _ in range(int(np.prod(shape)))], dtype=np.float32).reshape(shape)
    # plant zeros per slice along the reduced axis
    other = [range(s) if i != axis else [None] for i, s in enumerate(shape)]
    zmax = 0
    for pos in itertools.product(*other):
      nz = rng.choice([0, 0, 1, 1, 2, 3, shape[axis]])
      nz = min(nz, shape[axis])
      zmax = max(zmax, nz)
      for j in rng.sample(range(shape[axis]), nz):
        idx = tuple(j if p is None else p for p in pos)
        t[idx] = -0.0 if rng.random() < 0.2 else 0.0
    use_axis = axis if rng.random() < 0.5 else axis - rank        # negative axes too
    dy_kind = rng.choice(["one", "rand"])
    out_shape = [s for i, s in enumerate(shape) if i != axis]
    dy = np.ones(out_shape, dtype=np.float32) if dy_kind == "one" else \
        np.array([float(Fraction(rng.randint(-16, 16), 4)) for _ in range(int(np.prod(out_shape)))], dtype=np.float32).reshape(out_shape)
    tt = tf.constant(t)
    with tf.GradientTape(persistent=True) as tape:
      tape.watch(tt)
      fwd = kfl_lib.custom_reduce_prod(tt, axis=use_axis)
      ref = tf.reduce_prod(tt, axis=use_axis)
    g = tape.gradient(fwd, tt, output_gradients=tf.constant(dy)).numpy()
    gref = tape.gradient(ref, tt, output_gradients=tf.constant(dy)).numpy()
    case = dict(suite="custom_reduce_prod", t=t, axis=use_axis, dy=dy)
    first = len(lines)
    slices = []
    for pos in itertools.product(*other):
      sl = tuple(slice(None) if p is None else p for p in pos)
      slices.append((sl, tuple(p for p in pos if p is not None)))
      lines.append("kfl.grad %s" % frl(t[sl]))
    items.append(dict(case=case, t=t, g=g, gref=gref, fwd=fwd.numpy(), dy=dy, slices=slices, first=first,
                      nlines=len(lines) - first, zmax=zmax, kind=kind, axis=axis, rank=rank))
  return lines, items


def check_a(ctx, item, replies):
  t, g, dy = item["t"], item["g"], item["dy"]
  cls = "A:rank%d:len%d:z%d" % (item["rank"], t.shape[item["axis"]], item["zmax"])
  ctx.count(cls)
  ctx.count("A:kind:" + item["kind"])
  key = dict(layer="custom_reduce_prod", zeros=item["zmax"])
  ctx.case(sig=(cls, item["kind"], hash(t.tobytes()) % 997), nontrivial=item["zmax"] > 0,
           sample=dict(t=t, axis=item["case"]["axis"]))
  for (sl, opos), rep in zip(item["slices"], replies):
    toks = rep.split(" ")
    col = t[sl].astype(np.float64)
    d = float(dy[opos])
    model_fwd = Fraction(toks[0])
    model_g = [m * Fraction(d) for m in parse_rats(toks[1])]
    # largest partial product = magnitude of the computation
    mags = [abs(np.prod(np.delete(col, i))) for i in range(len(col))] + [abs(np.prod(col)), 1.0]
    sc = float(max(mags)) * max(1.0, abs(d))
    nz = int(np.sum(col == 0))
    ctx.count("A:zeros_on_axis:%d" % min(nz, 3))
    ctx.compare("custom_reduce_prod.grad", dict(t=col, dy=d), g[sl], model_g, sc, rtol=1e-5)
    ctx.compare("custom_reduce_prod.fwd", dict(t=col), [item["fwd"][opos]], [model_fwd], sc, rtol=1e-5)
    # oracle: derivative of the plain product, computed independently (float64 numpy)
    true = np.array([np.prod(np.delete(col, i)) for i in range(len(col))]) * d
    if np.any(np.abs(g[sl] - true) > 1e-5 * sc) or not np.all(np.isfinite(g[sl])):
      ctx.fail("custom_gradient", key, dict(suite="custom_reduce_prod", t=[Fraction(float(v)) for v in col], dy=Fraction(d)),
               dict(grad=g[sl], true=true), "hand-written gradient differs from d prod / d t_i")
    if np.any(np.abs(item["gref"][sl] - true) > 1e-5 * sc):
      ctx.notes.append("tf.reduce_prod autodiff differs from numpy derivative (TF issue, not tfl)")


def replay_a(ctx, case):
  import tensorflow as tf
  from tensorflow_lattice.python import kronecker_factored_lattice_lib as kfl_lib
  col = np.array([float(Fraction(v)) for v in case["t"]], dtype=np.float32)
  d = float(Fraction(case["dy"]))
  tt = tf.constant(col)
  with tf.GradientTape() as tape:
    tape.watch(tt)
    fwd = kfl_lib.custom_reduce_prod(tt, axis=0)
  g = tape.gradient(fwd, tt, output_gradients=tf.constant(d, dtype=tf.float32)).numpy()
  c64 = col.astype(np.float64)
  true = np.array([np.prod(np.delete(c64, i)) for i in range(len(c64))]) * d
  sc = max([abs(v) for v in true] + [1.0])
  if np.any(np.abs(g - true) > 1e-5 * sc) or not np.all(np.isfinite(g)):
    ctx.fail("custom_gradient", dict(layer="custom_reduce_prod"), case, dict(grad=g, true=true))


# ------------------------------------------------------------------ B: KFL end to end vs reference expression
def ref_kfl(tf, inputs, scale, bias, kernel, units, num_terms, L, clip):
  """the mathematically identical expression, product by tf.reduce_prod (stock gradient)"""
  if clip:
    inputs = tf.clip_by_value(inputs, 0.0, L - 1.0)
  dims = inputs.shape[-1]
  x = tf.reshape(inputs, [-1, units, dims])
  if L == 2:
    w = tf.stack([1 - x, x], axis=1)                     # (b, L, units, dims)
  else:
    v = tf.reshape(tf.constant(list(range(L)), dtype=x.dtype), [1, L, 1, 1])
    w = 1 - tf.minimum(tf.abs(v - tf.expand_dims(x, 1)), 1)
  k = tf.reshape(kernel, [L, units, dims, num_terms])
  dotprod = tf.einsum("blud,ludt->budt", w, k)
  prod = tf.reduce_prod(dotprod, axis=2)
  return tf.reduce_mean(scale * prod, axis=-1) + bias


def run_b(ctx, n):
  import tensorflow as tf
  from tensorflow_lattice.python import kronecker_factored_lattice_lib as kfl_lib
  rng = ctx.rng
  lines, items = [], []
  for _ in range(n):
    L = rng.choice([2, 3, 4])
    dims, U, T = rng.randint(1, 4), rng.randint(1, 2), rng.randint(1, 3)
    clip = rng.random() < 0.5
    B = 4
    kern = np.array([float(Fraction(rng.randint(-16, 16), 8)) for _ in range(L * U * dims * T)], dtype=np.float32).reshape([1, L, U * dims, T])
    zero_cols = 0
    for _z in range(rng.choice([0, 1, 2, 3])):
      kern[0, :, rng.randrange(U * dims), rng.randrange(T)] = 0.0      # whole column zero -> factor exactly 0
      zero_cols += 1
    if rng.random() < 0.5:
      kern[0, rng.randrange(L), :, :] = 0.0                             # zero at one vertex: factor 0 on that vertex
      zero_cols += 1
    x = np.array([float(Fraction(rng.randint(0, 4 * (L - 1)), 4)) if rng.random() < 0.8 else float(Fraction(rng.randint(-4, 4 * L), 4))
                  for _ in range(B * U * dims)], dtype=np.float32).reshape([B, U, dims])
    scale = np.array([float(Fraction(rng.randint(-8, 8), 4)) for _ in range(U * T)], dtype=np.float32).reshape([U, T])
    bias = np.array([float(Fraction(rng.randint(-8, 8), 4)) for _ in range(U)], dtype=np.float32)
    dy = np.array([float(Fraction(rng.randint(-8, 8), 4)) for _ in range(B * U)], dtype=np.float32).reshape([B, U])
    xs, ks, ss = tf.constant(x[:, 0, :] if U == 1 else x), tf.constant(kern), tf.constant(scale)
    with tf.GradientTape(persistent=True) as tape:
      tape.watch([xs, ks, ss])
      out = tf.reshape(kfl_lib.evaluate_with_hypercube_interpolation(xs, ss, tf.constant(bias), ks, U, T, L, clip), [B, U])
      ref = ref_kfl(tf, xs, ss, tf.constant(bias), ks, U, T, L, clip)
    dyt = tf.constant(dy)
    got = [tape.gradient(out, v, output_gradients=dyt) for v in (ks, ss, xs)]
    want = [tape.gradient(ref, v, output_gradients=dyt) for v in (ks, ss, xs)]
    cls = "B:L%d:d%d:zc%d" % (L, dims, min(zero_cols, 2))
    ctx.count(cls)
    ctx.case(sig=(cls, U, T, clip, hash(kern.tobytes()) % 997), nontrivial=zero_cols > 0)
    case = dict(suite="kfl_grad", L=L, dims=dims, units=U, T=T, clip=clip, kernel=kern, scale=scale, x=x)
    key = dict(layer="kfl", what="end_to_end_gradient")
    # per-example gradients (dy = e_b) of unit 0 for the comparison with the model's assembled gradients
    b0 = rng.randrange(B)
    e0 = np.zeros([B, U], dtype=np.float32)
    e0[b0, 0] = 1.0
    g1 = [tape.gradient(out, v, output_gradients=tf.constant(e0)) for v in (ks, ss, xs)]
    g1 = [None if g is None else g.numpy() for g in g1]
    rows = [kern[0, :, 0 * dims + dd, t] for t in range(T) for dd in range(dims)]
    lines.append("kfl.evalgrad %d %d %d %s %s %s %s" % (L, int(clip), dims, frl2(rows), frl(scale[0]), fr(Fraction(float(bias[0]))),
                                                       frl(x[b0, 0])))
    items.append(dict(case=case, L=L, dims=dims, T=T, U=U, b0=b0, g1=g1, out=float(out.numpy()[b0, 0]), x=x[b0, 0]))
    sc = float(max(1.0, np.max(np.abs(kern)))) ** dims * max(1.0, float(np.max(np.abs(scale)))) * 4.0 * max(1.0, float(np.max(np.abs(x)))) ** dims
    if float(np.max(np.abs(out.numpy() - ref.numpy()))) > 1e-5 * sc:
      ctx.disagree("kfl.reference_expression", case, out.numpy().ravel(), ref.numpy().ravel(), "forward differs")
      continue
    for name, a, b in zip(("kernel", "scale", "inputs"), got, want):
      a = np.zeros(1) if a is None else a.numpy()
      b = np.zeros(1) if b is None else b.numpy()
      if a.shape == b.shape and np.all(np.isfinite(a)) and float(np.max(np.abs(a - b))) <= 1e-4 * sc:
        ctx.agree("kfl.grad_" + name)
      else:
        ctx.fail("kfl_gradient_" + name, key, case, dict(got=a, want=b), "gradient w.r.t. %s differs from autodiff of the plain product" % name)
  return lines, items


def check_b(ctx, item, reply):
  """real per-example gradients of unit 0 vs the model's gradKernel / gradScale / gradInput (Props/C19Kfl.lean)"""
  L, dims, T, U, case = item["L"], item["dims"], item["T"], item["U"], item["case"]
  toks = reply.split(" ")
  if len(toks) != 4:
    ctx.disagree("kfl.model_gradient", case, None, reply, "malformed")
    return
  kern, scale, x = case["kernel"], case["scale"], item["x"]
  sc = float(max(1.0, np.max(np.abs(kern)))) ** dims * max(1.0, float(np.max(np.abs(scale)))) * 4.0 * max(1.0, float(np.max(np.abs(x)))) ** dims
  ctx.compare("kfl.model_output", case, [item["out"]], [Fraction(toks[0])], sc, rtol=1e-5)
  gk, gs, gx = item["g1"]
  mk = parse_rats2(toks[1])                       # rows (t, d) term-major, each over the L vertices
  if gk is not None:
    real_rows = [gk[0, :, 0 * dims + dd, t] for t in range(T) for dd in range(dims)]
    for r, m in zip(real_rows, mk):
      ctx.compare("kfl.model_gradient.kernel", case, r, m, sc, rtol=1e-5)
  if gs is not None:
    # reduce_mean over terms: d out / d scale_t
    ctx.compare("kfl.model_gradient.scale", case, gs[0], parse_rats(toks[2]), sc, rtol=1e-5)
  if gx is not None:
    gx0 = gx[item["b0"]] if U == 1 else gx[item["b0"], 0]
    for dd, tok in enumerate(toks[3].split(",")):
      if tok == "nan":
        ctx.count("B:input-grad:not-differentiable-or-outside-range")
        continue
      ctx.count("B:input-grad:inside-cell")
      ctx.compare("kfl.model_gradient.inputs", case, [gx0[dd]], [Fraction(tok)], sc, rtol=1e-5)


# ------------------------------------------------------------------ C: Jacobian = interpolation weights
def hyper_weights(sizes, x):
  w = np.ones([1])
  for s, v in zip(sizes, x):
    v = min(max(v, 0.0), s - 1.0)
    wd = np.maximum(0.0, 1.0 - np.abs(np.arange(s) - v))
    w = np.outer(w, wd).ravel()
  return w


def simplex_weights(sizes, x):
  n = len(sizes)
  v = [min(max(a, 0.0), s - 1.0) for a, s in zip(x, sizes)]
  base = [int(min(np.floor(a), s - 2)) for a, s in zip(v, sizes)]
  frac = [a - b for a, b in zip(v, base)]
  order = sorted(range(n), key=lambda d: -frac[d])
  strides = [int(np.prod(sizes[d + 1:])) for d in range(n)]
  w = np.zeros(int(np.prod(sizes)))
  idx = sum(b * st for b, st in zip(base, strides))
  prev = 1.0
  for d in order:
    w[idx] += prev - frac[d]
    prev = frac[d]
    idx += strides[d]
  w[idx] += prev
  return w


def pwl_weights(kps, x):
  w = [1.0]
  for a, b in zip(kps, kps[1:]):
    w.append(min(max((x - a) / (b - a), 0.0), 1.0))
  return np.array(w)


def jac(tf, layer, x):
  with tf.GradientTape(persistent=True) as tape:
    out = layer(x)
  J = tape.jacobian(out, layer.kernel, experimental_use_pfor=False)
  return out.numpy(), J.numpy()


def run_c(ctx, n):
  import tensorflow as tf
  import tensorflow_lattice as tfl
  rng = ctx.rng
  lines, items = [], []
  for _ in range(n):
    which = rng.choice(["lattice", "lattice", "pwl", "cat"])
    U = rng.randint(1, 2)
    B = 3
    if which == "lattice":
      rank = rng.randint(1, 4)
      sizes = [rng.randint(2, 4) for _ in range(rank)]
      interp = rng.choice(["hypercube", "simplex"])
      clip = rng.random() < 0.6
      layer = tfl.layers.Lattice(lattice_sizes=sizes, units=U, interpolation=interp, clip_inputs=clip, dtype=tf.float64)
      far = rng.random() < 0.35       # some coordinates clearly outside the range (clipped, or the excluded class)
      xs = np.array([[[float(Fraction(rng.randint(-12 if far and rng.random() < 0.5 else -2,
                                                   8 * (s - 1) + (12 if far and rng.random() < 0.5 else 2)), 8))
                       for s in sizes] for _ in range(U)] for _ in range(B)])
      xin = tf.constant(xs[:, 0, :] if U == 1 else xs, dtype=tf.float64)
      wfun = (lambda x: hyper_weights(sizes, x)) if interp == "hypercube" else (lambda x: simplex_weights(sizes, x))
      W = np.array([[wfun(xs[b, u]) for u in range(U)] for b in range(B)])        # (B, U, n): the CLIPPED point's weights
      cfg = dict(layer="lattice", sizes=sizes, interpolation=interp, units=U, clip=clip)
      interior = bool(np.any((xs > 0) & (xs != np.floor(xs))))
    elif which == "pwl":
      nk = rng.randint(2, 7)
      kps = sorted(rng.sample(range(-8, 16), nk))
      kps = [float(Fraction(k, 2)) for k in kps]
      layer = tfl.layers.PWLCalibration(input_keypoints=kps, units=U, dtype=tf.float64)
      xs = np.array([[float(Fraction(rng.randint(int(4 * kps[0]) - 4, int(4 * kps[-1]) + 4), 4))] for _ in range(B)])
      xin = tf.constant(xs, dtype=tf.float64)
      W = np.array([[pwl_weights(kps, xs[b, 0]) for u in range(U)] for b in range(B)])
      cfg = dict(layer="pwl", input_keypoints=kps, units=U)
      interior = True
    else:
      nb = rng.randint(2, 6)
      dflt = rng.choice([None, -1])
      layer = tfl.layers.CategoricalCalibration(num_buckets=nb, units=U, default_input_value=dflt)
      xs = np.array([[rng.randint(0, nb - 1) if dflt is None or rng.random() < 0.7 else -1] for _ in range(B)])
      xin = tf.constant(xs, dtype=tf.int32)
      W = np.zeros([B, U, nb])
      for b in range(B):
        W[b, :, nb - 1 if xs[b, 0] == -1 else xs[b, 0]] = 1.0
      cfg = dict(layer="categorical", num_buckets=nb, default_input_value=dflt, units=U)
      interior = True
    if which == "lattice":
      layer.build(xin.shape)
    else:
      layer(xin)  # build
    nkern = int(layer.kernel.shape[0])
    Js, outs, kerns, errs = [], [], [], [[None] * U for _ in range(B)]
    for rep in range(2):
      kern = np.array([[float(gen_value(rng, rng.choice(["dyadic", "int"] if which == "cat" else ["dyadic", "int", "wide"])))
                        for _ in range(U)] for _ in range(nkern)])
      layer.kernel.assign(kern)
      try:
        out, J = jac(tf, layer, xin)
        J = np.reshape(J, (B, U, nkern, U))
        out = np.reshape(out, (B, U))
      except Exception as e:
        if which != "lattice":
          raise
        # one bad gather index (simplex, clip off, out of range) kills the batch: example by example
        J, out = np.full((B, U, nkern, U), np.nan), np.full((B, U), np.nan)
        for b in range(B):
          for u in range(U):
            # a batch of one example in which EVERY unit gets the point of unit u: only that point can raise
            x1 = np.repeat(xs[b:b + 1, u:u + 1, :], U, axis=1)
            try:
              o1, J1 = jac(tf, layer, tf.constant(x1[:, 0, :] if U == 1 else x1, dtype=tf.float64))
              J[b, u], out[b, u] = np.reshape(J1, (U, nkern, U))[u], np.reshape(o1, (U,))[u]
            except Exception as e1:
              errs[b][u] = classify_exc(e1)
      Js.append(J)
      outs.append(out)
      kerns.append(kern)
    first = len(lines)
    for rep in range(2):
      for b in range(B):
        for u in range(U):
          if which == "lattice":
            if interp == "hypercube":
              lines.append("late.hyper tensor %d %s %s %s" % (int(clip), il(sizes), frl(kerns[rep][:, u]), frl(xs[b, u])))
            else:
              lines.append("late.simplex %d %s %s %s" % (int(clip), il(sizes), frl(kerns[rep][:, u]), frl(xs[b, u])))
          else:
            lines.append("kfl.lin %s %s" % (frl(W[b, u]), frl(kerns[rep][:, u])))
    if which == "lattice":
      for b in range(B):
        for u in range(U):
          if interp == "hypercube":
            lines.append("late.weights tensor %d %s %s" % (int(clip), il(sizes), frl(xs[b, u])))
          else:
            lines.append("late.sjac %d %s %d %s" % (int(clip), il(sizes), nkern, frl(xs[b, u])))
    items.append(dict(cfg=cfg, xs=xs, W=W, Js=Js, outs=outs, kerns=kerns, errs=errs, first=first, nlines=len(lines) - first,
                      interior=interior, B=B, U=U))
  return lines, items


def check_c(ctx, item, replies):
  cfg, W, B, U = item["cfg"], item["W"], item["B"], item["U"]
  lay = cfg["layer"]
  cls = "C:%s:%s" % (lay, cfg.get("interpolation", len(cfg.get("sizes", [])) if lay == "lattice" else ""))
  ctx.count(cls)
  key = dict(layer=lay, what="jacobian")
  ctx.case(sig=(cls, str(cfg), hash(item["xs"].tobytes()) % 997), nontrivial=item["interior"], sample=dict(cfg=cfg, x=item["xs"]))
  case = dict(suite="jacobian", cfg=cfg, x=item["xs"])
  errs = item.get("errs") or [[None] * U for _ in range(B)]
  # in range or clipped <=> the property speaks about the point (only Lattice has the excluded class)
  defined = np.ones((B, U), dtype=bool)
  xmag = np.ones((B, U))
  if lay == "lattice":
    clip = cfg.get("clip", True)
    for b in range(B):
      for u in range(U):
        inr = all(0.0 <= v <= s - 1 for v, s in zip(item["xs"][b, u], cfg["sizes"]))
        defined[b, u] = clip or inr
        ctx.count("C:scope:" + ("in_range" if inr else ("clipped" if clip else "outside:clip_off_out_of_range")))
        if not defined[b, u]:
          ctx.count("outside:clip_off_out_of_range")
          xmag[b, u] = float(np.prod([1.0 + abs(v) for v in item["xs"][b, u]]))
  pos = 0
  for rep in range(2):
    J, out, kern = item["Js"][rep], item["outs"][rep], item["kerns"][rep]
    sc = max_abs(kern.ravel())
    for b in range(B):
      for u in range(U):
        m = replies[pos]
        pos += 1
        if errs[b][u] is not None or m.startswith("ERR"):
          # only reachable outside the property (simplex gather out of bounds); the error classes must agree
          ctx.count("C:error:%s" % (m if m.startswith("ERR") else "real-only"))
          if errs[b][u] == m:
            ctx.agree("linear_form.%s" % lay)
          else:
            ctx.disagree("linear_form.%s" % lay, dict(case, kernel=kern), errs[b][u], m, "error class differs")
          if defined[b, u]:
            ctx.fail("raises", key, dict(case, kernel=kern), errs[b][u], "in-range / clipped input raises")
          continue
        ctx.compare("linear_form.%s" % lay, dict(case, kernel=kern), [out[b, u]], [Fraction(m)], sc * xmag[b, u],
                    rtol=1e-6 if lay == "categorical" else 1e-9)
        if not defined[b, u]:
          continue      # numpy reference weights are those of the CLIPPED point: the clause is outside the property here
        ctx.count("C:clause:jacobian_is_weights")
        for u2 in range(U):
          want = W[b, u] if u2 == u else np.zeros_like(W[b, u])
          if np.max(np.abs(J[b, u, :, u2] - want)) > 1e-9:
            ctx.fail("jacobian_is_weights", key, dict(case, kernel=kern), dict(jac=J[b, u, :, u2], weights=want, unit=u, wrt_unit=u2),
                     "d out / d kernel differs from the interpolation weights")
  ok_rows = np.array([[errs[b][u] is None for u in range(U)] for b in range(B)])
  # kernel-independence: everywhere the layer returns a value (also outside the property: the output is linear in the kernel)
  if ok_rows.any() and np.nanmax(np.abs(item["Js"][0][ok_rows] - item["Js"][1][ok_rows])) > 1e-9 * float(np.max(xmag)):
    ctx.fail("jacobian_depends_on_kernel", key, case, dict(j0=item["Js"][0], j1=item["Js"][1]))
  if lay == "lattice":
    J = item["Js"][0]
    for b in range(B):
      for u in range(U):
        m = replies[pos]
        pos += 1
        if errs[b][u] is not None or m.startswith("ERR"):
          if errs[b][u] != m:
            ctx.disagree("lattice.jacobian_row", case, errs[b][u], m, "error class differs")
          continue
        # the real Jacobian row IS the model's weight row -- in range, clipped, and in the excluded class
        ctx.compare("lattice.jacobian_row", dict(case, point=[b, u]), J[b, u, :, u], parse_rats(m), xmag[b, u], rtol=1e-9)
        for u2 in range(U):
          if u2 != u and np.max(np.abs(J[b, u, :, u2])) > 1e-9 * xmag[b, u]:
            ctx.fail("jacobian_is_weights", key, case, dict(jac=J[b, u, :, u2], unit=u, wrt_unit=u2), "cross-unit Jacobian not zero")
        bad = np.min(J[b, u, :, u]) < -1e-9 or abs(np.sum(J[b, u, :, u]) - 1.0) > 1e-9
        if not defined[b, u]:
          if bad:
            ctx.count("outside:clip_off_out_of_range:would-violate-weights_simplex")
          continue
        ctx.count("C:clause:weights_simplex")
        if bad:
          ctx.fail("weights_simplex", key, case, dict(jac=J[b, u, :, u]), "weights negative or not summing to one")


def run(ctx):
  la, ia = run_a(ctx, ctx.n(250, 6000))
  lb, ib = run_b(ctx, ctx.n(60, 1500))
  lc, ic = run_c(ctx, ctx.n(140, 3000))
  replies = run_driver(la + lb + lc)
  for it in ia:
    check_a(ctx, it, replies[it["first"]:it["first"] + it["nlines"]])
  off = len(la)
  for k, it in enumerate(ib):
    check_b(ctx, it, replies[off + k])
  off += len(lb)
  for it in ic:
    check_c(ctx, it, replies[off + it["first"]:off + it["first"] + it["nlines"]])


def replay(ctx, failure):
  import tensorflow as tf
  import tensorflow_lattice as tfl
  case = failure["case"]
  suite = case.get("suite")
  if suite == "custom_reduce_prod":
    replay_a(ctx, case)
  elif suite == "kfl_grad":
    from tensorflow_lattice.python import kronecker_factored_lattice_lib as kfl_lib
    L, dims, U, T, clip = case["L"], case["dims"], case["units"], case["T"], case["clip"]
    kern = np.array(case["kernel"], dtype=np.float32)
    scale = np.array(case["scale"], dtype=np.float32)
    x = np.array(case["x"], dtype=np.float32)
    xs, ks, ss = tf.constant(x[:, 0, :] if U == 1 else x), tf.constant(kern), tf.constant(scale)
    bias = tf.zeros([U])
    with tf.GradientTape(persistent=True) as tape:
      tape.watch([xs, ks, ss])
      out = tf.reshape(kfl_lib.evaluate_with_hypercube_interpolation(xs, ss, bias, ks, U, T, L, clip), [x.shape[0], U])
      ref = ref_kfl(tf, xs, ss, bias, ks, U, T, L, clip)
    sc = float(max(1.0, np.max(np.abs(kern)))) ** dims * max(1.0, float(np.max(np.abs(scale)))) * 4.0 * max(1.0, float(np.max(np.abs(x)))) ** dims
    for name, v in zip(("kernel", "scale", "inputs"), (ks, ss, xs)):
      a, b = tape.gradient(out, v), tape.gradient(ref, v)
      if float(np.max(np.abs(a.numpy() - b.numpy()))) > 1e-4 * sc:
        ctx.fail("kfl_gradient_" + name, dict(layer="kfl", what="end_to_end_gradient"), case, dict(got=a.numpy(), want=b.numpy()))
  else:
    cfg = case["cfg"]
    x = np.array(case["x"])
    U = cfg["units"]
    kern = np.array(case.get("kernel")) if case.get("kernel") is not None else None
    if cfg["layer"] == "lattice":
      layer = tfl.layers.Lattice(lattice_sizes=cfg["sizes"], units=U, interpolation=cfg["interpolation"],
                                 clip_inputs=cfg.get("clip", True), dtype=tf.float64)
      xin = tf.constant(x[:, 0, :] if U == 1 else x, dtype=tf.float64)
      wf = (lambda v: hyper_weights(cfg["sizes"], v)) if cfg["interpolation"] == "hypercube" else (lambda v: simplex_weights(cfg["sizes"], v))
      W = np.array([[wf(x[b, u]) for u in range(U)] for b in range(x.shape[0])])
    elif cfg["layer"] == "pwl":
      layer = tfl.layers.PWLCalibration(input_keypoints=cfg["input_keypoints"], units=U, dtype=tf.float64)
      xin = tf.constant(x, dtype=tf.float64)
      W = np.array([[pwl_weights(cfg["input_keypoints"], x[b, 0]) for u in range(U)] for b in range(x.shape[0])])
    else:
      nb = cfg["num_buckets"]
      layer = tfl.layers.CategoricalCalibration(num_buckets=nb, units=U, default_input_value=cfg["default_input_value"])
      xin = tf.constant(x, dtype=tf.int32)
      W = np.zeros([x.shape[0], U, nb])
      for b in range(x.shape[0]):
        W[b, :, nb - 1 if x[b, 0] == -1 else x[b, 0]] = 1.0
    layer(xin)
    if kern is not None:
      layer.kernel.assign(kern)
    out, J = jac(tf, layer, xin)
    J = np.reshape(J, (x.shape[0], U, -1, U))
    for b in range(x.shape[0]):
      for u in range(U):
        if cfg["layer"] == "lattice" and not cfg.get("clip", True) and \
            not all(0.0 <= v <= sz - 1 for v, sz in zip(x[b, u], cfg["sizes"])):
          continue      # class outside:clip_off_out_of_range: the numpy reference (clipped point) does not apply
        if np.max(np.abs(J[b, u, :, u] - W[b, u])) > 1e-9:
          ctx.fail("jacobian_is_weights", dict(layer=cfg["layer"], what="jacobian"), case, dict(jac=J[b, u, :, u], weights=W[b, u]))
        if cfg["layer"] == "lattice" and (np.min(J[b, u, :, u]) < -1e-9 or abs(np.sum(J[b, u, :, u]) - 1.0) > 1e-9):
          ctx.fail("weights_simplex", dict(layer=cfg["layer"], what="jacobian"), case, dict(jac=J[b, u, :, u]))
