"""C19: gradients delivered to training equal the true derivatives.
Tie A: tf.GradientTape gradients through kfl_lib.custom_reduce_prod (exact zeros planted in every pattern,
every reduction axis) vs Tfl.Kfl.gradFactor / rprod.
Tie B: gradients of kfl_lib.evaluate_with_hypercube_interpolation w.r.t. kernel, scale, inputs vs autodiff of
the same expression written with tf.reduce_prod (reference expression).
Tie C: Jacobians d out / d kernel of the real Lattice (hypercube + simplex) / PWLCalibration /
CategoricalCalibration layers vs interpolation weights computed independently in numpy; the layer output
vs Tfl.Kfl.dot weights kernel (the generic linear form C19-T2 is stated for).
Oracle: gradient == plain-product derivative; Jacobian == weights, independent of the kernel value,
non-negative and summing to one for Lattice."""
import itertools
import numpy as np
from fractions import Fraction
from common import *

RULE = ("A: tensors of rank 1-4, reduced axis of length 1-5 at every position, entries dyadic/int/wide/tiny, "
        "0/1/2/3/all zeros planted on the reduced axis (incl. -0.0), incoming gradient 1 or random; "
        "B: KFL configs (sizes 2-4, dims 1-4, units 1-2, terms 1-3) with zero kernel columns and inputs on "
        "vertices so that factors vanish exactly; C: Lattice ranks 1-4 sizes 2-4 units 1-2 both interpolations, "
        "PWL 2-7 keypoints, categorical 2-6 buckets incl. default bucket, two kernel values per case. "
        "Non-trivial = at least one zero on the reduced axis (A), a vanishing factor (B), a point strictly "
        "inside a cell (C); distinct = (suite, shape/zero pattern class, hash).")
ASSUMPTIONS = [
    "custom_reduce_prod is float32-only (casts is_zero to float32): compared with rtol 1e-5 of the largest partial product",
    "autodiff itself (tape, chain rule) is TensorFlow's; what is checked is the hand-written grad_fn and the linearity in the kernel",
    "C19-T2 is stated for the generic form eval w K = dot w K over an abstract weight vector; the harness ties each real "
    "layer's output and Jacobian to that form with weights recomputed independently in numpy",
]


# ------------------------------------------------------------------ A: custom_reduce_prod
def gen_entry(rng, kind):
  v = gen_value(rng, kind)
  while v == 0:
    v = gen_value(rng, kind)
  return v


def run_a(ctx, n):
  import tensorflow as tf
  from tensorflow_lattice.python import kronecker_factored_lattice_lib as kfl_lib
  rng = ctx.rng
  lines, items = [], []
  for _ in range(n):
    rank = rng.randint(1, 4)
    shape = [rng.randint(1, 3) for _ in range(rank)]
    axis = rng.randrange(rank)
    shape[axis] = rng.randint(1, 5)
    kind = rng.choice(["dyadic", "int", "int", "wide", "tiny"])
    t = np.array([float(gen_entry(rng, kind)) for _ in range(int(np.prod(shape)))], dtype=np.float32).reshape(shape)
    # plant zeros per slice along the reduced axis
    other = [range(s) if i != axis else [None] for i, s in enumerate(shape)]
    zmax = 0
    for pos in itertools.product(*other):
      nz = rng.choice([0, 0, 1, 1, 2, 3, shape[axis]])
      nz = min(nz, shape[axis])
      zmax = max(zmax, nz)
      for j in rng.sample(range(shape[axis]), nz):
        idx = tuple(j if p is None else p for p in pos)
        t[idx] = -0.0 if rng.random() < 0.2 else 0.0
    use_axis = axis if rng.random() < 0.5 else axis - rank        # negative axes too
    dy_kind = rng.choice(["one", "rand"])
    out_shape = [s for i, s in enumerate(shape) if i != axis]
    dy = np.ones(out_shape, dtype=np.float32) if dy_kind == "one" else \
        np.array([float(Fraction(rng.randint(-16, 16), 4)) for _ in range(int(np.prod(out_shape)))], dtype=np.float32).reshape(out_shape)
    tt = tf.constant(t)
    with tf.GradientTape(persistent=True) as tape:
      tape.watch(tt)
      fwd = kfl_lib.custom_reduce_prod(tt, axis=use_axis)
      ref = tf.reduce_prod(tt, axis=use_axis)
    g = tape.gradient(fwd, tt, output_gradients=tf.constant(dy)).numpy()
    gref = tape.gradient(ref, tt, output_gradients=tf.constant(dy)).numpy()
    case = dict(suite="custom_reduce_prod", t=t, axis=use_axis, dy=dy)
    first = len(lines)
    slices = []
    for pos in itertools.product(*other):
      sl = tuple(slice(None) if p is None else p for p in pos)
      slices.append((sl, tuple(p for p in pos if p is not None)))
      lines.append("kfl.grad %s" % frl(t[sl]))
    items.append(dict(case=case, t=t, g=g, gref=gref, fwd=fwd.numpy(), dy=dy, slices=slices, first=first,
                      nlines=len(lines) - first, zmax=zmax, kind=kind, axis=axis, rank=rank))
  return lines, items


def check_a(ctx, item, replies):
  t, g, dy = item["t"], item["g"], item["dy"]
  cls = "A:rank%d:len%d:z%d" % (item["rank"], t.shape[item["axis"]], item["zmax"])
  ctx.count(cls)
  ctx.count("A:kind:" + item["kind"])
  key = dict(layer="custom_reduce_prod", zeros=item["zmax"])
  ctx.case(sig=(cls, item["kind"], hash(t.tobytes()) % 997), nontrivial=item["zmax"] > 0,
           sample=dict(t=t, axis=item["case"]["axis"]))
  for (sl, opos), rep in zip(item["slices"], replies):
    toks = rep.split(" ")
    col = t[sl].astype(np.float64)
    d = float(dy[opos])
    model_fwd = Fraction(toks[0])
    model_g = [m * Fraction(d) for m in parse_rats(toks[1])]
    # largest partial product = magnitude of the computation
    mags = [abs(np.prod(np.delete(col, i))) for i in range(len(col))] + [abs(np.prod(col)), 1.0]
    sc = float(max(mags)) * max(1.0, abs(d))
    nz = int(np.sum(col == 0))
    ctx.count("A:zeros_on_axis:%d" % min(nz, 3))
    ctx.compare("custom_reduce_prod.grad", dict(t=col, dy=d), g[sl], model_g, sc, rtol=1e-5)
    ctx.compare("custom_reduce_prod.fwd", dict(t=col), [item["fwd"][opos]], [model_fwd], sc, rtol=1e-5)
    # oracle: derivative of the plain product, computed independently (float64 numpy)
    true = np.array([np.prod(np.delete(col, i)) for i in range(len(col))]) * d
    if np.any(np.abs(g[sl] - true) > 1e-5 * sc) or not np.all(np.isfinite(g[sl])):
      ctx.fail("custom_gradient", key, dict(suite="custom_reduce_prod", t=[Fraction(float(v)) for v in col], dy=Fraction(d)),
               dict(grad=g[sl], true=true), "hand-written gradient differs from d prod / d t_i")
    if np.any(np.abs(item["gref"][sl] - true) > 1e-5 * sc):
      ctx.notes.append("tf.reduce_prod autodiff differs from numpy derivative (TF issue, not tfl)")


def replay_a(ctx, case):
  import tensorflow as tf
  from tensorflow_lattice.python import kronecker_factored_lattice_lib as kfl_lib
  col = np.array([float(Fraction(v)) for v in case["t"]], dtype=np.float32)
  d = float(Fraction(case["dy"]))
  tt = tf.constant(col)
  with tf.GradientTape() as tape:
    tape.watch(tt)
    fwd = kfl_lib.custom_reduce_prod(tt, axis=0)
  g = tape.gradient(fwd, tt, output_gradients=tf.constant(d, dtype=tf.float32)).numpy()
  c64 = col.astype(np.float64)
  true = np.array([np.prod(np.delete(c64, i)) for i in range(len(c64))]) * d
  sc = max([abs(v) for v in true] + [1.0])
  if np.any(np.abs(g - true) > 1e-5 * sc) or not np.all(np.isfinite(g)):
    ctx.fail("custom_gradient", dict(layer="custom_reduce_prod"), case, dict(grad=g, true=true))


# ------------------------------------------------------------------ B: KFL end to end vs reference expression
def ref_kfl(tf, inputs, scale, bias, kernel, units, num_terms, L, clip):
  """the mathematically identical expression, product by tf.reduce_prod (stock gradient)"""
  if clip:
    inputs = tf.clip_by_value(inputs, 0.0, L - 1.0)
  dims = inputs.shape[-1]
  x = tf.reshape(inputs, [-1, units, dims])
  if L == 2:
    w = tf.stack([1 - x, x], axis=1)                     # (b, L, units, dims)
  else:
    v = tf.reshape(tf.constant(list(range(L)), dtype=x.dtype), [1, L, 1, 1])
    w = 1 - tf.minimum(tf.abs(v - tf.expand_dims(x, 1)), 1)
  k = tf.reshape(kernel, [L, units, dims, num_terms])
  dotprod = tf.einsum("blud,ludt->budt", w, k)
  prod = tf.reduce_prod(dotprod, axis=2)
  return tf.reduce_mean(scale * prod, axis=-1) + bias


def run_b(ctx, n):
  import tensorflow as tf
  from tensorflow_lattice.python import kronecker_factored_lattice_lib as kfl_lib
  rng = ctx.rng
  for _ in range(n):
    L = rng.choice([2, 3, 4])
    dims, U, T = rng.randint(1, 4), rng.randint(1, 2), rng.randint(1, 3)
    clip = rng.random() < 0.5
    B = 4
    kern = np.array([float(Fraction(rng.randint(-16, 16), 8)) for _ in range(L * U * dims * T)], dtype=np.float32).reshape([1, L, U * dims, T])
    zero_cols = 0
    for _z in range(rng.choice([0, 1, 2, 3])):
      kern[0, :, rng.randrange(U * dims), rng.randrange(T)] = 0.0      # whole column zero -> factor exactly 0
      zero_cols += 1
    if rng.random() < 0.5:
      kern[0, rng.randrange(L), :, :] = 0.0                             # zero at one vertex: factor 0 on that vertex
      zero_cols += 1
    x = np.array([float(Fraction(rng.randint(0, 4 * (L - 1)), 4)) if rng.random() < 0.8 else float(Fraction(rng.randint(-4, 4 * L), 4))
                  for _ in range(B * U * dims)], dtype=np.float32).reshape([B, U, dims])
    scale = np.array([float(Fraction(rng.randint(-8, 8), 4)) for _ in range(U * T)], dtype=np.float32).reshape([U, T])
    bias = np.array([float(Fraction(rng.randint(-8, 8), 4)) for _ in range(U)], dtype=np.float32)
    dy = np.array([float(Fraction(rng.randint(-8, 8), 4)) for _ in range(B * U)], dtype=np.float32).reshape([B, U])
    xs, ks, ss = tf.constant(x[:, 0, :] if U == 1 else x), tf.constant(kern), tf.constant(scale)
    with tf.GradientTape(persistent=True) as tape:
      tape.watch([xs, ks, ss])
      out = tf.reshape(kfl_lib.evaluate_with_hypercube_interpolation(xs, ss, tf.constant(bias), ks, U, T, L, clip), [B, U])
      ref = ref_kfl(tf, xs, ss, tf.constant(bias), ks, U, T, L, clip)
    dyt = tf.constant(dy)
    got = [tape.gradient(out, v, output_gradients=dyt) for v in (ks, ss, xs)]
    want = [tape.gradient(ref, v, output_gradients=dyt) for v in (ks, ss, xs)]
    cls = "B:L%d:d%d:zc%d" % (L, dims, min(zero_cols, 2))
    ctx.count(cls)
    ctx.case(sig=(cls, U, T, clip, hash(kern.tobytes()) % 997), nontrivial=zero_cols > 0)
    case = dict(suite="kfl_grad", L=L, dims=dims, units=U, T=T, clip=clip, kernel=kern, scale=scale, x=x)
    key = dict(layer="kfl", what="end_to_end_gradient")
    sc = float(max(1.0, np.max(np.abs(kern)))) ** dims * max(1.0, float(np.max(np.abs(scale)))) * 4.0 * max(1.0, float(np.max(np.abs(x)))) ** dims
    if float(np.max(np.abs(out.numpy() - ref.numpy()))) > 1e-5 * sc:
      ctx.disagree("kfl.reference_expression", case, out.numpy().ravel(), ref.numpy().ravel(), "forward differs")
      continue
    for name, a, b in zip(("kernel", "scale", "inputs"), got, want):
      a = np.zeros(1) if a is None else a.numpy()
      b = np.zeros(1) if b is None else b.numpy()
      if a.shape == b.shape and np.all(np.isfinite(a)) and float(np.max(np.abs(a - b))) <= 1e-4 * sc:
        ctx.agree("kfl.grad_" + name)
      else:
        ctx.fail("kfl_gradient_" + name, key, case, dict(got=a, want=b), "gradient w.r.t. %s differs from autodiff of the plain product" % name)


# ------------------------------------------------------------------ C: Jacobian = interpolation weights
def hyper_weights(sizes, x):
  w = np.ones([1])
  for s, v in zip(sizes, x):
    v = min(max(v, 0.0), s - 1.0)
    wd = np.maximum(0.0, 1.0 - np.abs(np.arange(s) - v))
    w = np.outer(w, wd).ravel()
  return w


def simplex_weights(sizes, x):
  n = len(sizes)
  v = [min(max(a, 0.0), s - 1.0) for a, s in zip(x, sizes)]
  base = [int(min(np.floor(a), s - 2)) for a, s in zip(v, sizes)]
  frac = [a - b for a, b in zip(v, base)]
  order = sorted(range(n), key=lambda d: -frac[d])
  strides = [int(np.prod(sizes[d + 1:])) for d in range(n)]
  w = np.zeros(int(np.prod(sizes)))
  idx = sum(b * st for b, st in zip(base, strides))
  prev = 1.0
  for d in order:
    w[idx] += prev - frac[d]
    prev = frac[d]
    idx += strides[d]
  w[idx] += prev
  return w


def pwl_weights(kps, x):
  w = [1.0]
  for a, b in zip(kps, kps[1:]):
    w.append(min(max((x - a) / (b - a), 0.0), 1.0))
  return np.array(w)


def jac(tf, layer, x):
  with tf.GradientTape(persistent=True) as tape:
    out = layer(x)
  J = tape.jacobian(out, layer.kernel, experimental_use_pfor=False)
  return out.numpy(), J.numpy()


def run_c(ctx, n):
  import tensorflow as tf
  import tensorflow_lattice as tfl
  rng = ctx.rng
  lines, items = [], []
  for _ in range(n):
    which = rng.choice(["lattice", "lattice", "pwl", "cat"])
    U = rng.randint(1, 2)
    B = 3
    if which == "lattice":
      rank = rng.randint(1, 4)
      sizes = [rng.randint(2, 4) for _ in range(rank)]
      interp = rng.choice(["hypercube", "simplex"])
      layer = tfl.layers.Lattice(lattice_sizes=sizes, units=U, interpolation=interp, dtype=tf.float64)
      xs = np.array([[[float(Fraction(rng.randint(-2, 8 * (s - 1) + 2), 8)) for s in sizes] for _ in range(U)] for _ in range(B)])
      xin = tf.constant(xs[:, 0, :] if U == 1 else xs, dtype=tf.float64)
      wfun = (lambda x: hyper_weights(sizes, x)) if interp == "hypercube" else (lambda x: simplex_weights(sizes, x))
      W = np.array([[wfun(xs[b, u]) for u in range(U)] for b in range(B)])        # (B, U, n)
      cfg = dict(layer="lattice", sizes=sizes, interpolation=interp, units=U)
      interior = bool(np.any((xs > 0) & (xs != np.floor(xs))))
    elif which == "pwl":
      nk = rng.randint(2, 7)
      kps = sorted(rng.sample(range(-8, 16), nk))
      kps = [float(Fraction(k, 2)) for k in kps]
      layer = tfl.layers.PWLCalibration(input_keypoints=kps, units=U, dtype=tf.float64)
      xs = np.array([[float(Fraction(rng.randint(int(4 * kps[0]) - 4, int(4 * kps[-1]) + 4), 4))] for _ in range(B)])
      xin = tf.constant(xs, dtype=tf.float64)
      W = np.array([[pwl_weights(kps, xs[b, 0]) for u in range(U)] for b in range(B)])
      cfg = dict(layer="pwl", input_keypoints=kps, units=U)
      interior = True
    else:
      nb = rng.randint(2, 6)
      dflt = rng.choice([None, -1])
      layer = tfl.layers.CategoricalCalibration(num_buckets=nb, units=U, default_input_value=dflt)
      xs = np.array([[rng.randint(0, nb - 1) if dflt is None or rng.random() < 0.7 else -1] for _ in range(B)])
      xin = tf.constant(xs, dtype=tf.int32)
      W = np.zeros([B, U, nb])
      for b in range(B):
        W[b, :, nb - 1 if xs[b, 0] == -1 else xs[b, 0]] = 1.0
      cfg = dict(layer="categorical", num_buckets=nb, default_input_value=dflt, units=U)
      interior = True
    layer(xin)  # build
    nkern = int(layer.kernel.shape[0])
    Js, outs, kerns = [], [], []
    for rep in range(2):
      kern = np.array([[float(gen_value(rng, rng.choice(["dyadic", "int"] if which == "cat" else ["dyadic", "int", "wide"])))
                        for _ in range(U)] for _ in range(nkern)])
      layer.kernel.assign(kern)
      out, J = jac(tf, layer, xin)
      if hasattr(J, "shape") and J.shape != (B, U, nkern, U):
        J = np.reshape(J, (B, U, nkern, U))
      Js.append(J)
      outs.append(np.reshape(out, (B, U)))
      kerns.append(kern)
    first = len(lines)
    for rep in range(2):
      for b in range(B):
        for u in range(U):
          lines.append("kfl.lin %s %s" % (frl(W[b, u]), frl(kerns[rep][:, u])))
    items.append(dict(cfg=cfg, xs=xs, W=W, Js=Js, outs=outs, kerns=kerns, first=first, nlines=len(lines) - first,
                      interior=interior, B=B, U=U))
  return lines, items


def check_c(ctx, item, replies):
  cfg, W, B, U = item["cfg"], item["W"], item["B"], item["U"]
  lay = cfg["layer"]
  cls = "C:%s:%s" % (lay, cfg.get("interpolation", len(cfg.get("sizes", [])) if lay == "lattice" else ""))
  ctx.count(cls)
  key = dict(layer=lay, what="jacobian")
  ctx.case(sig=(cls, str(cfg), hash(item["xs"].tobytes()) % 997), nontrivial=item["interior"], sample=dict(cfg=cfg, x=item["xs"]))
  case = dict(suite="jacobian", cfg=cfg, x=item["xs"])
  pos = 0
  for rep in range(2):
    J, out, kern = item["Js"][rep], item["outs"][rep], item["kerns"][rep]
    sc = max_abs(kern.ravel())
    for b in range(B):
      for u in range(U):
        ctx.compare("linear_form.%s" % lay, dict(case, kernel=kern), [out[b, u]], [Fraction(replies[pos])], sc,
                    rtol=1e-6 if lay == "categorical" else 1e-9)
        pos += 1
        for u2 in range(U):
          want = W[b, u] if u2 == u else np.zeros_like(W[b, u])
          if np.max(np.abs(J[b, u, :, u2] - want)) > 1e-9:
            ctx.fail("jacobian_is_weights", key, dict(case, kernel=kern), dict(jac=J[b, u, :, u2], weights=want, unit=u, wrt_unit=u2),
                     "d out / d kernel differs from the interpolation weights")
  if np.max(np.abs(item["Js"][0] - item["Js"][1])) > 1e-9:
    ctx.fail("jacobian_depends_on_kernel", key, case, dict(j0=item["Js"][0], j1=item["Js"][1]))
  if lay == "lattice":
    J = item["Js"][0]
    for b in range(B):
      for u in range(U):
        if np.min(J[b, u, :, u]) < -1e-9 or abs(np.sum(J[b, u, :, u]) - 1.0) > 1e-9:
          ctx.fail("weights_simplex", key, case, dict(jac=J[b, u, :, u]), "weights negative or not summing to one")


def run(ctx):
  la, ia = run_a(ctx, ctx.n(250, 6000))
  run_b(ctx, ctx.n(60, 1500))
  lc, ic = run_c(ctx, ctx.n(60, 1500))
  replies = run_driver(la + lc)
  for it in ia:
    check_a(ctx, it, replies[it["first"]:it["first"] + it["nlines"]])
  off = len(la)
  for it in ic:
    check_c(ctx, it, replies[off + it["first"]:off + it["first"] + it["nlines"]])


def replay(ctx, failure):
  import tensorflow as tf
  import tensorflow_lattice as tfl
  case = failure["case"]
  suite = case.get("suite")
  if suite == "custom_reduce_prod":
    replay_a(ctx, case)
  elif suite == "kfl_grad":
    from tensorflow_lattice.python import kronecker_factored_lattice_lib as kfl_lib
    L, dims, U, T, clip = case["L"], case["dims"], case["units"], case["T"], case["clip"]
    kern = np.array(case["kernel"], dtype=np.float32)
    scale = np.array(case["scale"], dtype=np.float32)
    x = np.array(case["x"], dtype=np.float32)
    xs, ks, ss = tf.constant(x[:, 0, :] if U == 1 else x), tf.constant(kern), tf.constant(scale)
    bias = tf.zeros([U])
    with tf.GradientTape(persistent=True) as tape:
      tape.watch([xs, ks, ss])
      out = tf.reshape(kfl_lib.evaluate_with_hypercube_interpolation(xs, ss, bias, ks, U, T, L, clip), [x.shape[0], U])
      ref = ref_kfl(tf, xs, ss, bias, ks, U, T, L, clip)
    sc = float(max(1.0, np.max(np.abs(kern)))) ** dims * max(1.0, float(np.max(np.abs(scale)))) * 4.0 * max(1.0, float(np.max(np.abs(x)))) ** dims
    for name, v in zip(("kernel", "scale", "inputs"), (ks, ss, xs)):
      a, b = tape.gradient(out, v), tape.gradient(ref, v)
      if float(np.max(np.abs(a.numpy() - b.numpy()))) > 1e-4 * sc:
        ctx.fail("kfl_gradient_" + name, dict(layer="kfl", what="end_to_end_gradient"), case, dict(got=a.numpy(), want=b.numpy()))
  else:
    cfg = case["cfg"]
    x = np.array(case["x"])
    U = cfg["units"]
    kern = np.array(case.get("kernel")) if case.get("kernel") is not None else None
    if cfg["layer"] == "lattice":
      layer = tfl.layers.Lattice(lattice_sizes=cfg["sizes"], units=U, interpolation=cfg["interpolation"], dtype=tf.float64)
      xin = tf.constant(x[:, 0, :] if U == 1 else x, dtype=tf.float64)
      wf = (lambda v: hyper_weights(cfg["sizes"], v)) if cfg["interpolation"] == "hypercube" else (lambda v: simplex_weights(cfg["sizes"], v))
      W = np.array([[wf(x[b, u]) for u in range(U)] for b in range(x.shape[0])])
    elif cfg["layer"] == "pwl":
      layer = tfl.layers.PWLCalibration(input_keypoints=cfg["input_keypoints"], units=U, dtype=tf.float64)
      xin = tf.constant(x, dtype=tf.float64)
      W = np.array([[pwl_weights(cfg["input_keypoints"], x[b, 0]) for u in range(U)] for b in range(x.shape[0])])
    else:
      nb = cfg["num_buckets"]
      layer = tfl.layers.CategoricalCalibration(num_buckets=nb, units=U, default_input_value=cfg["default_input_value"])
      xin = tf.constant(x, dtype=tf.int32)
      W = np.zeros([x.shape[0], U, nb])
      for b in range(x.shape[0]):
        W[b, :, nb - 1 if x[b, 0] == -1 else x[b, 0]] = 1.0
    layer(xin)
    if kern is not None:
      layer.kernel.assign(kern)
    out, J = jac(tf, layer, xin)
    J = np.reshape(J, (x.shape[0], U, -1, U))
    for b in range(x.shape[0]):
      for u in range(U):
        if np.max(np.abs(J[b, u, :, u] - W[b, u])) > 1e-9:
          ctx.fail("jacobian_is_weights", dict(layer=cfg["layer"], what="jacobian"), case, dict(jac=J[b, u, :, u], weights=W[b, u]))
