"""C13: regularizers compute the documented Laplacian / torsion / Hessian / wrinkle penalties.

Tie: tfl.lattice_layer.LaplacianRegularizer / TorsionRegularizer objects and the lattice_lib functions
they wrap, tfl.pwl_calibration_layer.LaplacianRegularizer / HessianRegularizer / WrinkleRegularizer,
called on float64 kernels, vs Tfl.Reg.laplacian / torsion / pwlLaplacian / pwlHessian / pwlWrinkle.
Oracle (on the real results): independent numpy reading of the documented sums, non-negativity,
linearity in the amounts, vanishing sets.

Exact scope of the linearity / vanishing clauses (Props/C13Exact.lean; second audit rows 12 and 33):
  * lattice Laplacian: additive and homogeneous in the amount VECTORS (scalars, lists, mixtures);
  * lattice torsion: additive in SCALAR amounts; for per-dimension lists the pair (i, j) is weighted by the PRODUCT
    l[i]*l[j], so the value is homogeneous of degree 2 in the list, affine in every single dimension's amount
    (f(x+x') + f(0) = f(x) + f(x')) and equals the documented sum at the summed amounts - it is NOT additive in the
    list (witness 27 != 3 + 12);
  * reg(l1, l2) = reg(l1, 0) + reg(0, l2) for all five regularizers;
  * PWL, is_cyclic=True: all three vanish on constant outputs and (positive amount) ONLY there; the cyclic Hessian on
    outputs a + b*j of k rows is 2k(l1|b| + l2 k b^2) (witness (0,1,2) -> 6), the cyclic wrinkle on (0,1,4,9) is 48; the
    clause on linear / quadratic outputs is checked on the non-cyclic form;
  * negative amounts are accepted by the code (outside the non-negativity clause): compared with the model and the
    documented sum; only sqrt of a negative SCALAR torsion amount raises ValueError (model: the same)."""
import itertools
import math
import numpy as np
from fractions import Fraction
from common import *

RULE = ("cases drawn from one PRNG. Lattice: rank 1-4, sizes 2-4 (unequal whenever possible), units 1-3, l1/l2 each "
        "one of zero / scalar / list / tuple / list with zeros in some dimensions (dyadic k/4, occasionally int), "
        "entry point LaplacianRegularizer / TorsionRegularizer object or the lattice_lib function (both must agree); "
        "kernels dyadic/int/wide/tiny/huge plus constant, additively separable and separable+bump built in exact "
        "dyadics. PWL: 1-8 kernel rows (1 row only cyclic), units 1-3, is_cyclic on/off, l1/l2 zero or dyadic; "
        "kernels of the same value kinds plus constant / affine / quadratic / cubic keypoint outputs. Non-trivial = "
        "the penalty is non-zero or the kernel lies in a vanishing set by construction; distinct = distinct "
        "(family, shape, units, amount classes, kernel kind, cyclic, value hash). "
        "About 15% of the lattice cases carry a NEGATIVE amount (scalar or list entries): accepted by the code, outside "
        "the non-negativity clause. Every lattice case also draws a scale factor c (homogeneity) and, for list torsion "
        "amounts, one dimension k with two values x, x' (per-dimension affinity). PWL units 1-3; multi-unit kernels are "
        "also evaluated column by column (per-unit sum; the cyclic wrap-around term is per column). A fixed family of "
        "witness cases (the numbers of the counter-witness theorems of Props/C13Exact.lean) is run on every seed.")
ASSUMPTIONS = ["float64 kernels; comparison tolerance 1e-9 relative to the magnitude bound amount*N*(4 max|w|)^p of the "
               "sum (p = 1 for l1 terms, 2 for l2 terms)",
               "a scalar torsion amount a is stored by the code as sqrt(a) per dimension and multiplied pairwise; the "
               "model uses the exact product a (difference is float rounding of sqrt)",
               "the NON-NEGATIVITY clause is checked for non-negative amounts; negative amounts are accepted by the "
               "code (negative values; ValueError only for sqrt of a negative scalar torsion amount) and are tied to the "
               "model and the documented sum only; per-dimension amount lists have one entry per lattice dimension",
               "torsion is additive in scalar amounts only; for per-dimension lists the clauses that hold are checked "
               "(degree-2 homogeneity, per-dimension affinity, documented sum at the summed amounts)",
               "cyclic PWL Hessian / wrinkle do not vanish on non-constant linear / quadratic outputs (wrap-around "
               "terms): the vanishing-set clause for those is checked on the non-cyclic form; cyclic forms are checked "
               "to vanish on constants and to be positive elsewhere"]

AMT_KINDS = ["zero", "scalar", "scalar", "list", "tuple", "zeros", "zeros"]


# ---------------------------------------------------------------- amounts
def gen_amt(rng, rank, kind=None):
  kind = kind or rng.choice(AMT_KINDS)
  if kind == "zero":
    return dict(kind="scalar", v=Fraction(0))
  if kind == "scalar":
    if rng.random() < 0.2:
      return dict(kind="scalar", v=Fraction(rng.randint(1, 3)))
    return dict(kind="scalar", v=Fraction(rng.randint(1, 12), 4))
  vals = [Fraction(rng.randint(1, 12), 4) for _ in range(rank)]
  if kind == "zeros":
    k = rng.randint(1, rank)
    for i in rng.sample(range(rank), k):
      vals[i] = Fraction(0)
    kind = rng.choice(["list", "tuple"])
  return dict(kind=kind, v=vals)


def gen_neg_amt(rng, rank):
  """an amount with a negative scalar / at least one negative list entry (accepted by the real code)."""
  if rng.random() < 0.35:
    return dict(kind="scalar", v=Fraction(-rng.randint(1, 12), 4))
  vals = [Fraction(rng.choice([-1, 1, 1]) * rng.randint(1, 12), 4) for _ in range(rank)]
  i = rng.randrange(rank)
  vals[i] = -abs(vals[i])
  if rank > 1 and rng.random() < 0.25:
    vals[rng.choice([j for j in range(rank) if j != i])] = Fraction(0)
  return dict(kind=rng.choice(["list", "tuple"]), v=vals)


def amt_neg(a):
  return a["v"] < 0 if a["kind"] == "scalar" else any(v < 0 for v in a["v"])


def amt_scale(a, c):
  if a["kind"] == "scalar":
    return dict(kind="scalar", v=a["v"] * c)
  return dict(kind=a["kind"], v=[v * c for v in a["v"]])


def amt_set(a, k, x):
  vs = list(a["v"])
  vs[k] = x
  return dict(kind=a["kind"], v=vs)


def amt_py(a):
  if a["kind"] == "scalar":
    v = a["v"]
    return int(v) if (v.denominator == 1 and v != 0 and a.get("int")) else float(v)
  vs = [float(v) for v in a["v"]]
  return tuple(vs) if a["kind"] == "tuple" else vs


def amt_tok(a):
  return "s:" + fr(a["v"]) if a["kind"] == "scalar" else "l:" + frl(a["v"])


def amt_list(a, rank):
  return [a["v"]] * rank if a["kind"] == "scalar" else list(a["v"])


def amt_add(a, b, rank):
  if a["kind"] == "scalar" and b["kind"] == "scalar":
    return dict(kind="scalar", v=a["v"] + b["v"])
  return dict(kind="list", v=[x + y for x, y in zip(amt_list(a, rank), amt_list(b, rank))])


def amt_cls(a):
  neg = "-neg" if amt_neg(a) else ""
  if a["kind"] == "scalar":
    return "zero" if a["v"] == 0 else "scalar" + neg
  z = sum(1 for v in a["v"] if v == 0)
  return a["kind"] + ("" if z == 0 else ("+allzero" if z == len(a["v"]) else "+zeros")) + neg


def amt_parse(a):
  if a["kind"] == "scalar":
    return dict(kind="scalar", v=Fraction(a["v"]))
  return dict(kind=a["kind"], v=[Fraction(v) for v in a["v"]])


ZERO = dict(kind="scalar", v=Fraction(0))


# ---------------------------------------------------------------- lattice: generation
def strides(sizes):
  st, acc = [], 1
  for n in reversed(sizes):
    st.append(acc)
    acc *= n
  return list(reversed(st))


def gen_lattice_case(rng):
  rank = rng.choice([1, 2, 2, 3, 3, 3, 4, 4])
  sizes = [rng.randint(2, 4) for _ in range(rank)]
  if rank in (2, 3) and len(set(sizes)) < rank:
    sizes = rng.sample([2, 3, 4], rank)
  if rank == 4 and len(set(sizes)) < 3:
    sizes = rng.sample([2, 3, 4], 3) + [rng.randint(2, 4)]
    rng.shuffle(sizes)
  units = rng.choice([1, 1, 2, 3])
  n = int(np.prod(sizes))
  kind = rng.choice(VALUE_KINDS + ["const", "separable", "separable", "sep+bump"])
  idxs = list(itertools.product(*[range(s) for s in sizes]))
  if kind == "const":
    cs = [Fraction(rng.randint(-24, 24), 8) for _ in range(units)]
    w = [[cs[u] for u in range(units)] for _ in range(n)]
  elif kind in ("separable", "sep+bump"):
    g = [[[Fraction(rng.randint(-24, 24), 8) for _ in range(sizes[d])] for d in range(rank)] for _ in range(units)]
    w = [[sum(g[u][d][idx[d]] for d in range(rank)) for u in range(units)] for idx in idxs]
    if kind == "sep+bump":
      w[rng.randrange(n)][rng.randrange(units)] += Fraction(rng.choice([-1, 1]) * rng.randint(1, 16), 8)
  else:
    w = [[gen_value(rng, kind) for _ in range(units)] for _ in range(n)]
  l1, l2 = gen_amt(rng, rank), gen_amt(rng, rank)
  if amt_cls(l1) == "zero" and amt_cls(l2) == "zero" and rng.random() < 0.8:
    l1 = gen_amt(rng, rank, rng.choice(["scalar", "list", "zeros"]))
  if rng.random() < 0.1 and l1["kind"] == "scalar" and l1["v"].denominator == 1:
    l1["int"] = True
  # second amount setting for the linearity check
  l1b, l2b = gen_amt(rng, rank), gen_amt(rng, rank)
  api = rng.choice(["layer", "lib"])
  # negative amounts: accepted by the code (outside the non-negativity clause)
  if rng.random() < 0.15:
    if rng.random() < 0.5:
      l1 = gen_neg_amt(rng, rank)
    else:
      l2 = gen_neg_amt(rng, rank)
  # homogeneity: scale factor; per-dimension affinity of the torsion: dimension k of a LIST amount, two values
  c = rng.choice([Fraction(1, 2), Fraction(2), Fraction(3), Fraction(3, 2), Fraction(5, 4)])
  da = None
  lists = [k for k in ("l1", "l2") if {"l1": l1, "l2": l2}[k]["kind"] != "scalar"]
  if rank >= 2 and lists:
    da = dict(which=rng.choice(lists), k=rng.randrange(rank),
              x=Fraction(rng.randint(-8, 12), 4), xp=Fraction(rng.randint(-8, 12), 4))
  return dict(family="lattice", sizes=sizes, units=units, kind=kind, w=w, l1=l1, l2=l2, l1b=l1b, l2b=l2b,
              api=api, c=c, da=da)


def parse_lattice_case(c):
  c = dict(c)
  c["w"] = [[Fraction(v) for v in row] for row in c["w"]]
  for k in ("l1", "l2", "l1b", "l2b"):
    c[k] = amt_parse(c[k])
  c["c"] = Fraction(c.get("c", 2))
  if c.get("da"):
    c["da"] = dict(c["da"], x=Fraction(c["da"]["x"]), xp=Fraction(c["da"]["xp"]))
  return c


# ---------------------------------------------------------------- lattice: real code
def call_lat(which, api, sizes, l1, l2, wt):
  """which in {lap, tor}; returns float or 'ERR ...'."""
  from tensorflow_lattice.python import lattice_layer, lattice_lib
  try:
    if api == "layer":
      cls = lattice_layer.LaplacianRegularizer if which == "lap" else lattice_layer.TorsionRegularizer
      r = cls(lattice_sizes=list(sizes), l1=amt_py(l1), l2=amt_py(l2))(wt)
    else:
      fn = lattice_lib.laplacian_regularizer if which == "lap" else lattice_lib.torsion_regularizer
      r = fn(wt, list(sizes), amt_py(l1), amt_py(l2))
    return float(np.asarray(r))
  except Exception as e:  # noqa
    return classify_exc(e)


def real_lattice(case):
  import tensorflow as tf
  wf = np.array([[float(v) for v in row] for row in case["w"]], dtype=np.float64)
  wt = tf.constant(wf, dtype=tf.float64)
  sizes, rank = case["sizes"], len(case["sizes"])
  out = {"wf": wf}
  other = "lib" if case["api"] == "layer" else "layer"
  for which in ("lap", "tor"):
    out[which] = call_lat(which, case["api"], sizes, case["l1"], case["l2"], wt)
    out[which + "_other"] = call_lat(which, other, sizes, case["l1"], case["l2"], wt)
    # linearity: second setting and the sum of both
    out[which + "_b"] = call_lat(which, case["api"], sizes, case["l1b"], case["l2b"], wt)
    out[which + "_ab"] = call_lat(which, case["api"], sizes, amt_add(case["l1"], case["l1b"], rank),
                                  amt_add(case["l2"], case["l2b"], rank), wt)
    # split into the l1 part and the l2 part
    out[which + "_1"] = call_lat(which, case["api"], sizes, case["l1"], ZERO, wt)
    out[which + "_2"] = call_lat(which, case["api"], sizes, ZERO, case["l2"], wt)
    # homogeneity: both amounts scaled by c
    out[which + "_c"] = call_lat(which, case["api"], sizes, amt_scale(case["l1"], case["c"]),
                                 amt_scale(case["l2"], case["c"]), wt)
  da = case.get("da")
  if da:
    # torsion as a function of ONE dimension's amount: f(x + x'), f(x), f(x'), f(0)
    def f(x):
      a = {k: (amt_set(case[k], da["k"], x) if k == da["which"] else case[k]) for k in ("l1", "l2")}
      return call_lat("tor", case["api"], sizes, a["l1"], a["l2"], wt)
    out["tor_da"] = [f(da["x"] + da["xp"]), f(da["x"]), f(da["xp"]), f(Fraction(0))]
  return out


def lattice_lines(case):
  flat = [v for row in case["w"] for v in row]
  args = "%s %d %s %s %s" % (il(case["sizes"]), case["units"], amt_tok(case["l1"]), amt_tok(case["l2"]), frl(flat))
  return ["reg.lat.lap " + args, "reg.lat.tor " + args]


# ---------------------------------------------------------------- lattice: documented sums (numpy, index loops)
def ref_lattice(wf, sizes, units, l1, l2):
  """(laplacian, torsion) by the documented formulas; l1, l2 are amount dicts. Vertex (i_0..i_{r-1}) of unit u is
  row sum_d i_d * stride_d of the kernel (row-major vertex numbering of tfl.layers.Lattice)."""
  rank = len(sizes)
  st = strides(sizes)
  a1 = [float(v) for v in amt_list(l1, rank)]
  a2 = [float(v) for v in amt_list(l2, rank)]

  def pair(a, d, e):
    return float(a["v"]) if a["kind"] == "scalar" else float(a["v"][d]) * float(a["v"][e])
  lap = tor = 0.0
  idxs = list(itertools.product(*[range(s) for s in sizes]))
  for u in range(units):
    col = wf[:, u]
    for idx in idxs:
      base = sum(i * s for i, s in zip(idx, st))
      for d in range(rank):
        if idx[d] + 1 < sizes[d]:
          df = col[base + st[d]] - col[base]
          lap += a1[d] * abs(df) + a2[d] * df * df
          for e in range(d + 1, rank):
            if idx[e] + 1 < sizes[e]:
              tw = col[base + st[d] + st[e]] + col[base] - col[base + st[d]] - col[base + st[e]]
              tor += pair(l1, d, e) * abs(tw) + pair(l2, d, e) * tw * tw
  return lap, tor


def bound_lattice(wf, sizes, units, l1s, l2s, torsion):
  """magnitude bound of the sum: amounts * terms * (k max|w|)^p."""
  rank = len(sizes)
  wmax = float(np.max(np.abs(wf))) if wf.size else 0.0
  a1 = max([0.0] + [abs(float(v)) for a in l1s for v in amt_list(a, rank)])
  a2 = max([0.0] + [abs(float(v)) for a in l2s for v in amt_list(a, rank)])
  if torsion:
    a1, a2 = max(a1, a1 * a1), max(a2, a2 * a2)
  n = wf.size * max(1, rank * (rank if torsion else 1))
  k = 4.0 if torsion else 2.0
  return max(n * (a1 * k * wmax + a2 * (k * wmax) ** 2), 1e-300)


def check_lattice(ctx, case, real, replies):
  sizes, units, rank = case["sizes"], case["units"], len(case["sizes"])
  wf = real["wf"]
  c1, c2 = amt_cls(case["l1"]), amt_cls(case["l2"])
  ctx.count("lat:rank%d" % rank)
  ctx.count("lat:units%d" % units)
  ctx.count("lat:l1=%s" % c1)
  ctx.count("lat:l2=%s" % c2)
  ctx.count("lat:kind=%s" % case["kind"])
  ctx.count("lat:api=%s" % case["api"])
  ctx.count("lat:unequal" if len(set(sizes)) > 1 else "lat:equal-or-rank1")
  neg = amt_neg(case["l1"]) or amt_neg(case["l2"])
  neg_scalar = any(case[k]["kind"] == "scalar" and case[k]["v"] < 0 for k in ("l1", "l2"))
  if neg:
    ctx.count("lat:negative-amount")
  ref = dict(zip(("lap", "tor"), ref_lattice(wf, sizes, units, case["l1"], case["l2"])))
  l1ab, l2ab = amt_add(case["l1"], case["l1b"], rank), amt_add(case["l2"], case["l2b"], rank)
  ref_ab = dict(zip(("lap", "tor"), ref_lattice(wf, sizes, units, l1ab, l2ab)))
  vh = hash(wf.tobytes()) % 997
  nz = False
  for which, reply in zip(("lap", "tor"), replies):
    name = "lattice." + ("laplacian" if which == "lap" else "torsion")
    key = dict(reg=name, l1=c1, l2=c2, rank=rank, units=min(units, 2), kind=case["kind"])
    r = real[which]
    toks = reply.split(" ")
    # ---- correspondence
    if toks[0] == "ERR":
      model, spec = "ERR " + toks[1], Fraction(toks[2])
    else:
      model, spec = Fraction(toks[0]), Fraction(toks[1])
    if isinstance(r, str) or isinstance(model, str):
      if r == model:
        ctx.agree(name)
      else:
        ctx.disagree(name, case, r, model, "error behaviour differs")
      # math.sqrt of a negative SCALAR torsion amount (rank > 1) is the one documented rejection (torsion_raises_iff)
      expected_raise = which == "tor" and rank != 1 and neg_scalar and r == "ERR ValueError"
      if expected_raise:
        ctx.count("lat:negative-scalar-torsion-raises")
      if isinstance(r, str) and not expected_raise:
        ctx.fail("raises", key, case, r, "regularizer raised on a valid configuration")
      continue
    s = bound_lattice(wf, sizes, units, [case["l1"]], [case["l2"]], which == "tor")
    ctx.compare(name, case, [r / s], [model / Fraction(s)], 1.0, rtol=1e-9)
    if model != spec:
      ctx.disagree(name + ".model_vs_documented_sum", case, fr(model), fr(spec), "code-shaped model != documented sum")
    else:
      ctx.agree(name + ".model_vs_documented_sum")
    if real[which + "_other"] != r:
      ctx.disagree(name + ".layer_vs_lib", case, r, real[which + "_other"], "object and lattice_lib function differ")
    # ---- oracle on the real result
    if not math.isfinite(r):
      ctx.fail("finite", key, case, r)
      continue
    nz = nz or r != 0.0
    tol = 1e-9 * s
    if abs(r - ref[which]) > tol:
      ctx.fail("documented_sum", key, case, r, "documented sum = %r, regularizer = %r" % (ref[which], r))
    if r < 0.0 and not neg:
      ctx.fail("nonneg", key, case, r)
    if neg:
      ctx.count("lat:negative-amount:%s:%s" % (which, "value<0" if r < 0.0 else "value>=0"))
    rb, rab, r1, r2, rc = (real[which + k] for k in ("_b", "_ab", "_1", "_2", "_c"))
    if any(isinstance(v, str) for v in (rb, rab, r1, r2, rc)):
      ctx.fail("raises", key, case, [rb, rab, r1, r2, rc], "regularizer raised at a derived amount setting")
      continue
    if abs(r - r1 - r2) > tol:
      ctx.fail("linear_split", key, case, [r, r1, r2], "reg(l1,l2) != reg(l1,0) + reg(0,l2)")
    both_scalar = all(case[k]["kind"] == "scalar" for k in ("l1", "l2", "l1b", "l2b"))
    sab = bound_lattice(wf, sizes, units, [l1ab], [l2ab], which == "tor")
    sab = max(sab, bound_lattice(wf, sizes, units, [case["l1"], case["l1b"]], [case["l2"], case["l2b"]], which == "tor"))
    # Laplacian: additive in the amount VECTORS (laplacian_linear); torsion: additive in SCALAR amounts
    # (torsion_linear_scalar) - per-dimension torsion amounts multiply pairwise (torsion_list_not_additive)
    if which == "lap" or both_scalar:
      if abs(rab - r - rb) > 4e-9 * sab:
        ctx.fail("linear_add", key, case, [r, rb, rab], "reg(a+b) != reg(a) + reg(b)")
      ctx.count("lat:linear_add_checked:" + which)
    # ... what holds for every amount kind: the value at the summed amounts is the documented sum there
    # (for list torsion amounts: pair weights (l+l')[i] * (l+l')[j], i.e. the bilinear expansion)
    if abs(rab - ref_ab[which]) > 4e-9 * sab:
      ctx.fail("documented_sum_at_summed_amounts", key, case, [rab, ref_ab[which]],
               "documented sum at l+l' = %r, regularizer = %r" % (ref_ab[which], rab))
    if which == "tor" and not both_scalar:
      ctx.count("lat:tor-list-sum-" + ("nonadditive" if abs(rab - r - rb) > 4e-9 * sab else "additive-here"))
    # homogeneity: Laplacian degree 1 in every amount; torsion degree 1 in a scalar, degree 2 in a list
    # (laplacian_vector_smul, torsion_linear_scalar, torsion_vector_smul_sq), applied to the l1 and l2 parts
    cf = float(case["c"])

    def deg(a):
      return 2 if (which == "tor" and a["kind"] != "scalar") else 1
    sc = bound_lattice(wf, sizes, units, [amt_scale(case["l1"], case["c"])], [amt_scale(case["l2"], case["c"])],
                       which == "tor")
    want = cf ** deg(case["l1"]) * r1 + cf ** deg(case["l2"]) * r2
    if abs(rc - want) > 4e-9 * max(sc, s):
      ctx.fail("homogeneous", key, case, [rc, want, r1, r2, cf],
               "reg(c*l1, c*l2) != c^d1 reg(l1,0) + c^d2 reg(0,l2) (d = 2 for torsion lists, else 1)")
    ctx.count("lat:homogeneous_checked:%s:deg%d%d" % (which, deg(case["l1"]), deg(case["l2"])))
    # torsion, per-dimension affinity (torsion_dim_affine_l1/_l2): f(x + x') + f(0) = f(x) + f(x')
    if which == "tor" and case.get("da") and "tor_da" in real:
      da = case["da"]
      fs = real["tor_da"]
      if any(isinstance(v, str) for v in fs):
        ctx.fail("raises", key, case, fs, "torsion raised at a derived per-dimension amount")
      else:
        alts = [amt_set(case[da["which"]], da["k"], x) for x in (da["x"] + da["xp"], da["x"], da["xp"])]
        o = "l2" if da["which"] == "l1" else "l1"
        sd = bound_lattice(wf, sizes, units, alts if da["which"] == "l1" else [case[o]],
                           alts if da["which"] == "l2" else [case[o]], True)
        if abs(fs[0] + fs[3] - fs[1] - fs[2]) > 8e-9 * sd:
          ctx.fail("dim_affine", key, case, fs, "f(x+x') + f(0) != f(x) + f(x') in dimension %d of %s"
                   % (da["k"], da["which"]))
        ctx.count("lat:dim_affine_checked" + (":const-part-nonzero" if fs[3] != 0.0 else ""))
    if which == "lap" and case["kind"] == "const" and r != 0.0:
      ctx.fail("vanish_constant", key, case, r)
    if which == "tor" and case["kind"] == "separable" and abs(r) > 1e-12 * s:
      ctx.fail("vanish_separable", key, case, r)
    if which == "tor" and case["kind"] == "sep+bump" and rank >= 2 and c1 == "scalar" and r == 0.0:
      ctx.fail("bump_detected", key, case, r, "torsion of a non-separable kernel with scalar l1 > 0 is zero")
  ctx.case(sig=("lat", tuple(sizes), units, c1, c2, case["kind"], vh),
           nontrivial=nz or case["kind"] in ("const", "separable"), sample=dict(case=case, lap=real["lap"], tor=real["tor"]))


# ---------------------------------------------------------------- PWL
PWL_REGS = ("lap", "hess", "wrinkle")
PWL_ORDER = dict(lap=1, hess=2, wrinkle=3)


def gen_pwl_case(rng):
  cyc = rng.random() < 0.5
  rows = rng.choice([2, 2, 3, 3, 4, 5, 6, 7, 8] + ([1] if cyc else []))
  units = rng.choice([1, 1, 2, 2, 3])
  kind = rng.choice(VALUE_KINDS + ["const", "affine", "quadratic", "quadratic", "cubic"])
  if kind in ("const", "affine", "quadratic", "cubic"):
    deg = dict(const=0, affine=1, quadratic=2, cubic=3)[kind]
    cols = []
    for _ in range(units):
      co = [Fraction(rng.randint(-16, 16), 8) for _ in range(deg + 1)]
      if deg:
        co[deg] = Fraction(rng.choice([-1, 1]) * rng.randint(1, 16), 8)
      o = [sum(c * j ** p for p, c in enumerate(co)) for j in range(rows)]
      cols.append([o[0]] + [o[j] - o[j - 1] for j in range(1, rows)])
  else:
    cols = [[gen_value(rng, kind) for _ in range(rows)] for _ in range(units)]

  def amt():
    t = rng.random()
    return Fraction(0) if t < 0.25 else (Fraction(rng.randint(1, 3)) if t < 0.4 else Fraction(rng.randint(1, 12), 4))
  return dict(family="pwl", rows=rows, units=units, cyc=cyc, kind=kind, cols=cols, l1=amt(), l2=amt(),
              l1b=amt(), l2b=amt())


def parse_pwl_case(c):
  c = dict(c)
  c["cols"] = [[Fraction(v) for v in col] for col in c["cols"]]
  for k in ("l1", "l2", "l1b", "l2b"):
    c[k] = Fraction(c[k])
  return c


def call_pwl(which, l1, l2, cyc, xt):
  from tensorflow_lattice.python import pwl_calibration_layer as pcl
  cls = dict(lap=pcl.LaplacianRegularizer, hess=pcl.HessianRegularizer, wrinkle=pcl.WrinkleRegularizer)[which]
  try:
    return float(np.asarray(cls(l1=float(l1), l2=float(l2), is_cyclic=cyc)(xt)))
  except Exception as e:  # noqa
    return classify_exc(e)


def real_pwl(case):
  import tensorflow as tf
  x = np.array([[float(col[i]) for col in case["cols"]] for i in range(case["rows"])], dtype=np.float64)
  xt = tf.constant(x, dtype=tf.float64)
  out = {"x": x}
  for which in PWL_REGS:
    out[which] = call_pwl(which, case["l1"], case["l2"], case["cyc"], xt)
    out[which + "_b"] = call_pwl(which, case["l1b"], case["l2b"], case["cyc"], xt)
    out[which + "_ab"] = call_pwl(which, case["l1"] + case["l1b"], case["l2"] + case["l2b"], case["cyc"], xt)
    out[which + "_1"] = call_pwl(which, case["l1"], Fraction(0), case["cyc"], xt)
    out[which + "_2"] = call_pwl(which, Fraction(0), case["l2"], case["cyc"], xt)
    if case["units"] > 1:
      # per unit: the same regularizer on every single column (the cyclic wrap-around height is per column:
      # -reduce_sum(heights, axis=0))
      out[which + "_units"] = [call_pwl(which, case["l1"], case["l2"], case["cyc"],
                                        tf.constant(x[:, u:u + 1], dtype=tf.float64)) for u in range(case["units"])]
  return out


def pwl_lines(case):
  args = "%s %s %d %s" % (fr(case["l1"]), fr(case["l2"]), int(case["cyc"]), frl2(case["cols"]))
  return ["reg.pwl.%s %s" % (w, args) for w in PWL_REGS]


def ref_pwl(x, m, l1, l2, cyc):
  """documented penalty: l1 * ||D^m out||_1 + l2 * ||D^m out||_2^2 over the keypoint outputs out = bias + running sum
  of heights; a cyclic calibrator has one more keypoint whose output equals the first one, continued periodically."""
  rows, units = x.shape
  tot = 0.0
  for u in range(units):
    out = [x[0, u]]
    for i in range(1, rows):
      out.append(out[-1] + x[i, u])
    k = len(out)
    if cyc:
      # distinct outputs sit on a cycle of k nodes; every node contributes one m-th difference
      stencils = [[out[(j + t) % k] for t in range(m + 1)] for j in range(k)]
    else:
      stencils = [[out[j + t] for t in range(m + 1)] for j in range(k - m)]
    coef = [(-1) ** (m - t) * math.comb(m, t) for t in range(m + 1)]
    for stn in stencils:
      d = sum(c * v for c, v in zip(coef, stn))
      tot += float(l1) * abs(d) + float(l2) * d * d
  return tot


def check_pwl(ctx, case, real, replies):
  x = real["x"]
  rows, units, cyc = case["rows"], case["units"], case["cyc"]
  ctx.count("pwl:rows%d" % rows)
  ctx.count("pwl:units%d" % units)
  ctx.count("pwl:cyclic" if cyc else "pwl:open")
  ctx.count("pwl:kind=%s" % case["kind"])
  ctx.count("pwl:l1%s:l2%s" % ("0" if case["l1"] == 0 else "+", "0" if case["l2"] == 0 else "+"))
  xmax = float(np.max(np.abs(x)))
  nz = False
  nonconst = any(h != 0 for col in case["cols"] for h in col[1:])
  if cyc and units > 1:
    ctx.count("pwl:cyclic-multiunit:" + ("differing-columns" if len({tuple(c) for c in case["cols"]}) > 1
                                         else "equal-columns"))
  for which, reply in zip(PWL_REGS, replies):
    name = "pwl." + dict(lap="laplacian", hess="hessian", wrinkle="wrinkle")[which]
    m = PWL_ORDER[which]
    key = dict(reg=name, cyclic=cyc, rows=min(rows, 4), units=units, kind=case["kind"],
               l1=int(case["l1"] != 0), l2=int(case["l2"] != 0))
    r = real[which]
    toks = reply.split(" ")
    # model = the code-shaped value on the (rows, units) matrix (row slices, wrap-around row -reduce_sum(axis=0),
    # reduce_sum over all entries); model_cols = the column-by-column model (pwl_*_rows_eq_columns: equal)
    model, model_cols, spec = Fraction(toks[0]), Fraction(toks[1]), Fraction(toks[2])
    if model != model_cols:
      ctx.disagree(name + ".rows_vs_columns", case, fr(model), fr(model_cols), "row-shaped model != column-shaped model")
    else:
      ctx.agree(name + ".rows_vs_columns")
    if isinstance(r, str):
      ctx.disagree(name, case, r, fr(model), "real code raised")
      ctx.fail("raises", key, case, r)
      continue
    dmax = (2.0 ** m) * rows * max(xmax, 1e-300)     # outputs are running sums of up to `rows` entries

    def bnd(a1, a2):
      return max((rows + 1) * units * (float(a1) * dmax + float(a2) * dmax * dmax), 1e-300)
    s = bnd(case["l1"], case["l2"])
    ctx.compare(name, case, [r / s], [model / Fraction(s)], 1.0, rtol=1e-9)
    documented = which != "wrinkle" or rows >= 3
    if documented:
      if model_cols != spec:
        ctx.disagree(name + ".model_vs_documented_norm", case, fr(model_cols), fr(spec), "code-shaped model != documented norm")
      else:
        ctx.agree(name + ".model_vs_documented_norm")
    if not math.isfinite(r):
      ctx.fail("finite", key, case, r)
      continue
    nz = nz or r != 0.0
    tol = 1e-9 * s
    if documented:
      ref = ref_pwl(x, m, case["l1"], case["l2"], cyc)
      if abs(r - ref) > tol:
        ctx.fail("documented_norm", key, case, r, "documented = %r, regularizer = %r" % (ref, r))
    if r < 0.0:
      ctx.fail("nonneg", key, case, r)
    rb, rab = real[which + "_b"], real[which + "_ab"]
    if isinstance(rb, str) or isinstance(rab, str):
      ctx.fail("raises", key, case, [rb, rab])
    elif abs(rab - r - rb) > 4e-9 * bnd(case["l1"] + case["l1b"], case["l2"] + case["l2b"]):
      ctx.fail("linear_add", key, case, [r, rb, rab], "reg(a+b) != reg(a) + reg(b)")
    # reg(l1, l2) = reg(l1, 0) + reg(0, l2)   (pwl_split)
    r1, r2 = real[which + "_1"], real[which + "_2"]
    if isinstance(r1, str) or isinstance(r2, str):
      ctx.fail("raises", key, case, [r1, r2])
    elif abs(r - r1 - r2) > tol:
      ctx.fail("linear_split", key, case, [r, r1, r2], "reg(l1,l2) != reg(l1,0) + reg(0,l2)")
    # multi-unit kernels: sum over units of the one-column regularizer (pwl_*_per_unit); for cyclic kernels this is
    # where a wrap-around height summed over the wrong axis would show
    if units > 1:
      ru = real[which + "_units"]
      if any(isinstance(v, str) for v in ru):
        ctx.fail("raises", key, case, ru)
      elif abs(r - sum(ru)) > 4 * tol:
        ctx.fail("per_unit_sum", key, case, [r, ru], "reg(kernel) != sum over units of reg(column)")
      ctx.count("pwl:per_unit_checked:" + ("cyclic" if cyc else "open"))
    # vanishing sets (kernels built exactly in dyadics: the float result is exactly zero).  The clause on outputs
    # linear / quadratic in the index is about the NON-cyclic form (pwl_hessian_affine, pwl_wrinkle_quadratic) ...
    deg = dict(const=0, affine=1, quadratic=2).get(case["kind"])
    if deg is not None and not cyc and deg < m and r != 0.0:
      ctx.fail("vanish_degree_%d" % deg, key, case, r, "outputs are a degree-%d polynomial of the index" % deg)
    # ... the cyclic forms vanish on CONSTANT outputs (pwl_*_const_any) ...
    if cyc and not nonconst:
      ctx.count("pwl:cyclic-constant:" + which)
      if r != 0.0:
        ctx.fail("vanish_constant_cyclic", key, case, r)
    # ... and, with a positive amount, only there (pwl_*_cyclic_zero_iff): the wrap-around terms see the jump back
    # to the first keypoint.  (float: the terms are differences of a list that is not constant, so one is non-zero)
    if cyc and nonconst and rows >= (3 if which == "wrinkle" else 2) and (case["l1"] > 0 or case["l2"] > 0):
      ctx.count("pwl:cyclic-nonconstant:%s:%s" % (which, case["kind"]))
      if not r > 0.0:
        ctx.fail("cyclic_nonconstant_positive", key, case, r,
                 "a cyclic regularizer with a positive amount is zero on non-constant outputs")
    # closed form of the cyclic Hessian on outputs a + b*j, k rows: 2k(l1|b| + l2 k b^2) per unit
    # (pwl_hessian_cyclic_affine; the instance (0,1,2), l1 = 1 is the witness value 6)
    if cyc and which == "hess" and case["kind"] == "affine" and rows >= 2:
      want = sum(2.0 * rows * (float(case["l1"]) * abs(float(col[1])) + float(case["l2"]) * rows * float(col[1]) ** 2)
                 for col in case["cols"])
      ctx.count("pwl:cyclic-hessian-affine-closed-form")
      if abs(r - want) > tol:
        ctx.fail("cyclic_hessian_affine_closed_form", key, case, [r, want],
                 "cyclic Hessian on outputs a + b*j != sum_u 2k(l1|b_u| + l2 k b_u^2)")
    if case["kind"] == "cubic" and not cyc and rows >= 4 and case["l1"] != 0 and r == 0.0:
      ctx.fail("cubic_detected", key, case, r, "a cubic output sequence must have a non-zero penalty")
  ctx.case(sig=("pwl", rows, units, cyc, case["kind"], int(case["l1"] != 0), int(case["l2"] != 0),
                hash(x.tobytes()) % 997),
           nontrivial=nz or case["kind"] in ("const", "affine", "quadratic"),
           sample=dict(case=case, real={k: real[k] for k in PWL_REGS}))


# ---------------------------------------------------------------- witnesses (Props/C13Exact.lean)
W2x2 = [[Fraction(v)] for v in (0, 1, 3, 7)]       # 2 x 2 lattice, one unit, twist 3


def _lat(name, thm, which, l1, l2, expect):
  def a(v):
    return dict(kind="scalar", v=Fraction(v)) if not isinstance(v, list) else dict(kind="list", v=[Fraction(t) for t in v])
  return dict(family="witness", name=name, theorem=thm, sort="lat", which=which, sizes=[2, 2], units=1, w=W2x2,
              l1=a(l1), l2=a(l2), expect=expect)


def _pwl(name, thm, which, l1, l2, cyc, col, expect):
  return dict(family="witness", name=name, theorem=thm, sort="pwl", which=which, l1=Fraction(l1), l2=Fraction(l2),
              cyc=cyc, cols=[[Fraction(v) for v in col]], expect=expect)


WITNESSES = [
    _pwl("hessian-cyclic-on-linear-0,1,2", "pwl_hessian_cyclic_affine_witness", "hess", 1, 0, True, [0, 1, 1], 6),
    _pwl("hessian-open-on-linear-0,1,2", "pwl_hessian_cyclic_affine_witness", "hess", 1, 0, False, [0, 1, 1], 0),
    _pwl("wrinkle-cyclic-on-quadratic-0,1,4,9", "pwl_wrinkle_cyclic_quadratic_witness", "wrinkle", 1, 0, True,
         [0, 1, 3, 5], 48),
    _pwl("wrinkle-open-on-quadratic-0,1,4,9", "pwl_wrinkle_cyclic_quadratic_witness", "wrinkle", 1, 0, False,
         [0, 1, 3, 5], 0),
    _pwl("hessian-cyclic-l2-on-linear-0,1,2", "pwl_cyclic_affine_more_witnesses", "hess", 0, 1, True, [0, 1, 1], 18),
    _pwl("wrinkle-cyclic-on-linear-0,1,2", "pwl_cyclic_affine_more_witnesses", "wrinkle", 1, 0, True, [0, 1, 1], 12),
    _pwl("laplacian-cyclic-on-constant", "pwl_laplacian_const_any", "lap", 1, 1, True, [5, 0, 0, 0], 0),
    _lat("torsion-list-1,1", "torsion_list_not_additive", "tor", [1, 1], 0, 3),
    _lat("torsion-list-2,2", "torsion_list_not_additive", "tor", [2, 2], 0, 12),
    _lat("torsion-list-3,3-is-27-not-15", "torsion_list_not_additive", "tor", [3, 3], 0, 27),
    _lat("torsion-scalar-1", "torsion_list_not_additive", "tor", 1, 0, 3),
    _lat("torsion-scalar-2", "torsion_list_not_additive", "tor", 2, 0, 6),
    _lat("torsion-scalar-3", "torsion_list_not_additive", "tor", 3, 0, 9),
    _lat("torsion-negative-list", "torsion_neg_list_witness", "tor", [-1, 1], 0, -3),
    _lat("torsion-negative-scalar-raises", "torsion_neg_list_witness", "tor", -1, 0, "ERR ValueError"),
    _lat("laplacian-negative-list", "laplacian_neg_witness", "lap", [-1, 1], 0, -4),
    _lat("laplacian-negative-scalar", "laplacian_neg_witness", "lap", -1, 0, -14),
]


def parse_witness_case(c):
  c = dict(c)
  if c["sort"] == "lat":
    c["w"] = [[Fraction(v) for v in row] for row in c["w"]]
    c["l1"], c["l2"] = amt_parse(c["l1"]), amt_parse(c["l2"])
  else:
    c["cols"] = [[Fraction(v) for v in col] for col in c["cols"]]
    c["l1"], c["l2"] = Fraction(c["l1"]), Fraction(c["l2"])
  return c


def real_witness(case):
  import tensorflow as tf
  if case["sort"] == "lat":
    wt = tf.constant(np.array([[float(v) for v in row] for row in case["w"]], dtype=np.float64), dtype=tf.float64)
    return {api: call_lat(case["which"], api, case["sizes"], case["l1"], case["l2"], wt) for api in ("layer", "lib")}
  rows = len(case["cols"][0])
  x = np.array([[float(col[i]) for col in case["cols"]] for i in range(rows)], dtype=np.float64)
  return {"layer": call_pwl(case["which"], case["l1"], case["l2"], case["cyc"], tf.constant(x, dtype=tf.float64))}


def witness_lines(case):
  if case["sort"] == "lat":
    flat = [v for row in case["w"] for v in row]
    return ["reg.lat.%s %s %d %s %s %s" % (case["which"], il(case["sizes"]), case["units"], amt_tok(case["l1"]),
                                           amt_tok(case["l2"]), frl(flat))]
  return ["reg.pwl.%s %s %s %d %s" % (case["which"], fr(case["l1"]), fr(case["l2"]), int(case["cyc"]),
                                       frl2(case["cols"]))]


def check_witness(ctx, case, real, replies):
  """the numbers of the counter-witness theorems: the model returns them exactly (they are `decide`d in Lean) and
  the real code returns them too (small integers: exact in float up to the rounding of sqrt(a)*sqrt(a))."""
  name = "witness." + case["name"]
  key = dict(reg="witness", witness=case["name"])
  exp = case["expect"]
  toks = replies[0].split(" ")
  model = "ERR " + toks[1] if toks[0] == "ERR" else Fraction(toks[0])
  ctx.count("witness:" + case["name"])
  if model != (exp if isinstance(exp, str) else Fraction(exp)):
    ctx.disagree(name + ".model_vs_theorem", case, exp, str(model), "driver value != value proved in " + case["theorem"])
  else:
    ctx.agree(name + ".model_vs_theorem")
  for api, r in real.items():
    ok = (r == exp) if (isinstance(exp, str) or isinstance(r, str)) else abs(r - float(exp)) <= 1e-12 * max(1.0, abs(exp))
    if ok:
      ctx.agree(name)
    else:
      ctx.disagree(name, case, r, exp, "real code (%s) != value of the counter-witness theorem %s" % (api, case["theorem"]))
      ctx.fail("witness_value", key, case, r, "expected %r (theorem %s)" % (exp, case["theorem"]))
  ctx.case(sig=("witness", case["name"]), nontrivial=True, sample=None)


# ---------------------------------------------------------------- run / replay
def run_cases(ctx, cases):
  lines, items = [], []
  for case in cases:
    if case["family"] == "lattice":
      real, ls = real_lattice(case), lattice_lines(case)
    elif case["family"] == "witness":
      real, ls = real_witness(case), witness_lines(case)
    else:
      real, ls = real_pwl(case), pwl_lines(case)
    items.append((case, real, len(lines), len(ls)))
    lines += ls
  replies = run_driver(lines)
  for case, real, pos, k in items:
    if any(r == "bad-op" for r in replies[pos:pos + k]):
      ctx.disagree("driver", case, None, replies[pos:pos + k], "driver rejected the op")
      continue
    dict(lattice=check_lattice, pwl=check_pwl, witness=check_witness)[case["family"]](ctx, case, real,
                                                                                    replies[pos:pos + k])


def run(ctx):
  rng = ctx.rng
  cases = [dict(w) for w in WITNESSES]
  cases += [gen_lattice_case(rng) for _ in range(ctx.n(260, 6000))]
  cases += [gen_pwl_case(rng) for _ in range(ctx.n(400, 12000))]
  run_cases(ctx, cases)


def replay(ctx, failure):
  """Re-executes one recorded failing case on the current tree."""
  c = failure["case"]
  case = dict(lattice=parse_lattice_case, pwl=parse_pwl_case, witness=parse_witness_case)[c["family"]](c)
  run_cases(ctx, [case])
