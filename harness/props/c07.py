"""C07: KroneckerFactoredLattice after its constraints gives monotone, bounded outputs.
Tie: the REAL tfl.layers.KroneckerFactoredLattice under histories of raw updates (`v.assign(values)`) and
constraint calls (`v.assign(v.constraint(v))`, finalize_constraints()) of kernel and scale in ANY interleaving —
no forced constraint tail —, vs Tfl.Kfl.kernelConstraint / scaleConstraint / finalizeConstraints / eval, and the
run bookkeeping Tfl.Kfl.runTracked (driver op kfl.track) vs the same bookkeeping read off the real snapshots;
real Keras optimizer steps (tf_keras SGD and legacy SGD, apply_gradients and train_on_batch) vs the model's
kerasStepBatch / kerasStepPerVar.
Oracle: pairwise monotonicity (ONE coordinate perturbed) and bounds of the real outputs at the end of every run
in which the clause's premise holds (see RULE)."""
import itertools
import numpy as np
from fractions import Fraction
from common import *

RULE = ("configs from one PRNG: lattice_sizes 2-4, dims 1-4, units 1-2, num_terms 1-3, monotonicities None / "
        "all-zero / every subset (ints or strings), bounds {none,min,max,both}, clip_inputs on/off; kernels "
        "dyadic/int(ties)/unit/wide/tiny/big with planted zeros, scale entries of every sign incl. exact zeros. "
        "Histories (three modes): 'tail' = assignments, 0-4 random ops, then a pure constraint tail; 'perm' = every "
        "one of the 24 orders of {raw kernel update, kernel constraint, raw scale update, scale constraint} after "
        "an optional warm-up, the scale update related to the previous one as flip / flip-some / same-signs / "
        "to-zero / from-zero / random; 'free' = 2-8 random ops (raw updates with those sign relations, constraints, "
        "finalize_constraints()) with NO forced tail. Bookkeeping on the real snapshots: ref = scale read by the last "
        "kernel constraint not followed by a raw kernel update, s_fresh = scale constraint after the last raw scale "
        "update. Bounds are checked when ref exists and s_fresh; monotonicity of unit u when ref exists and (every "
        "term of u has ref_t = 0 or now_t = 0 or equal signs [run_class covered] or s_fresh [run_class "
        "kernel_constrained_before_scale_sign_flip = F-C07-c]). Training: real layers under 3 SGD / legacy-SGD steps "
        "with learning rates 0.5-8 and hostile (decreasing, out-of-bounds) targets; both clauses after every step. "
        "Evaluation points: sweeps of one coordinate over vertices, midpoints, ties and out-of-range values from "
        "random base points. Non-trivial = a constraint call moved a variable; distinct = config class x history x "
        "kernel kind x moved x hash.")
ASSUMPTIONS = [
    "KFL hard-casts to float32: model vs code compared with rtol 1e-5 (weights) / 3e-5 (outputs) of the case magnitude",
    "the dims-th root is modelled as division by an arbitrary factor r with 1 <= r and fullFactor <= r^dims; the "
    "harness passes the float32 factor the code computes (tf.pow) as an exact rational and the driver evaluates "
    "the two facts on it (holds up to 1e-5 relative: float pow rounding)",
    "theorems are per unit (units are independent columns of the reshape, C09) and per example",
    "finalize_constraints() is exercised with |kernel| <= 4 only: it writes k + (proj(k) - k) in float32, which "
    "absorbs the projection when |k| >> |proj(k)| (pure rounding, see report)",
    "monotonicity is guaranteed only for runs whose last kernel constraint is not followed by a scale update to the "
    "opposite non-zero sign (theorem layer_after_any_run, tight by sign_condition_tight); the other runs with both "
    "constraints applied are finding F-C07-c (generated, pinned by run_class)",
    "a Keras optimizer step is [raw scale update, raw kernel update, scale constraint, kernel constraint] (current "
    "optimizers) or per variable in trainable_variables order scale < kernel (legacy): checked on the real layer and "
    "the real optimizers, SGD raw update recomputed as v - lr*grad in float32",
]

BMODES = ["none", "min", "max", "both"]
TAILS = [["consK", "consS"], ["consS", "consK"], ["finalize"], ["consK", "consS", "consK"],
         ["consS", "consK", "consS", "consS"], ["finalize", "consS"], ["consK", "finalize"],
         ["consS", "consK", "consK"], ["finalize", "finalize"]]
KINDS = ["dyadic", "dyadic", "int", "int", "unit", "wide", "tiny", "big"]


def gen_k(rng, kind):
  if kind == "big":
    return Fraction(rng.randint(-8, 8) * 2 ** 10)
  if kind == "small":
    return Fraction(rng.randint(-24, 24), 8)
  return gen_value(rng, kind)


def gen_kernel(rng, kind, L, n, T):
  a = [[[gen_k(rng, kind) for _ in range(T)] for _ in range(n)] for _ in range(L)]
  if rng.random() < 0.3:
    for _ in range(rng.randint(1, 3)):
      a[rng.randrange(L)][rng.randrange(n)][rng.randrange(T)] = Fraction(0)
  return a


def gen_scale(rng, U, T):
  pat = rng.choice(["mixed", "mixed", "pos", "neg", "zero", "haszero"])
  out = []
  for _ in range(U):
    row = []
    for _ in range(T):
      mag = rng.choice([Fraction(1, 4), Fraction(1, 2), Fraction(1), Fraction(3, 2), Fraction(5), Fraction(rng.randint(1, 64), 16)])
      sg = {"pos": 1, "neg": -1, "zero": 0}.get(pat, rng.choice([-1, 0, 1, 1, -1]))
      row.append(mag * sg)
    if pat == "haszero":
      row[rng.randrange(T)] = Fraction(0)
    out.append(row)
  return out


MAGS = [Fraction(1, 4), Fraction(1, 2), Fraction(1), Fraction(3, 2), Fraction(5)]
RELS = ["flip", "flip", "flipsome", "same", "zero", "fromzero", "rand"]
OPS4 = ["assignK", "consK", "assignS", "consS"]
PERMS = list(itertools.permutations(OPS4))
WARMUPS = [[], [], ["consK", "consS"], ["consS", "consK"], ["finalize"]]


def rel_scale(rng, prev, rel, U, T):
  """a raw scale update related to the previous raw update `prev` (U x T fractions)"""
  if rel == "rand" or prev is None:
    return gen_scale(rng, U, T)
  out = []
  for u in range(U):
    row = []
    for t in range(T):
      mag = rng.choice(MAGS + [Fraction(rng.randint(1, 64), 16)])
      p = prev[u][t]
      sg = (p > 0) - (p < 0)
      if rel == "flip":
        sg = -sg if sg else rng.choice([-1, 1])
      elif rel == "flipsome":
        sg = (-sg if sg else rng.choice([-1, 1])) if rng.random() < 0.5 else sg
      elif rel == "zero":
        sg = 0 if rng.random() < 0.6 else sg
      elif rel == "fromzero":
        sg = rng.choice([-1, 1]) if sg == 0 else sg
      row.append(mag * sg)
    out.append(row)
  return out


def gen_history(rng):
  """op NAMES of one history: (mode, label, names, rels) — values are filled in by gen_case"""
  mode = rng.choice(["tail", "perm", "perm", "free", "free", "kfirst", "kfirst", "sfirst"])
  names = ["assignK", "assignS"]
  if mode == "kfirst":      # optimizer-like steps in the order kernel, scale (NOT the layer's variable order)
    names += rng.choice(WARMUPS)
    for _ in range(rng.randint(1, 3)):
      names += ["assignK", "consK", "assignS", "consS"]
    return mode, "kernel_first_steps", names
  if mode == "sfirst":      # the layer's variable order, per variable (legacy) or batched (current optimizers)
    per_var = rng.random() < 0.5
    for _ in range(rng.randint(1, 3)):
      names += ["assignS", "consS", "assignK", "consK"] if per_var else ["assignS", "assignK", "consS", "consK"]
    return mode, "scale_first_steps:" + ("per_var" if per_var else "batch"), names
  if mode == "tail":
    for _ in range(rng.randint(0, 4)):
      names.append(rng.choice(["assignK", "assignS", "assignS", "consK", "consS"]))
    tail = rng.choice(TAILS)
    return mode, "+".join(tail), names + list(tail)
  if mode == "perm":
    perm = rng.choice(PERMS)
    names += rng.choice(WARMUPS) + list(perm)
    return mode, "perm:" + ".".join(o[0] + o[-1] for o in perm), names
  for _ in range(rng.randint(2, 8)):
    names.append(rng.choice(["assignK", "assignK", "assignS", "assignS", "assignS", "consK", "consK", "consK",
                             "consS", "consS", "consS", "finalize"]))
  return mode, "free", names


def gen_case(rng):
  L = rng.choice([2, 2, 3, 3, 4])
  dims = rng.randint(1, 4)
  U = rng.randint(1, 2)
  T = rng.randint(1, 3)
  mk = rng.choice(["none", "zeros", "all", "subset", "subset", "subset", "strings"])
  if mk == "none":
    monos = None
  elif mk == "zeros":
    monos = [0] * dims
  elif mk == "all":
    monos = [1] * dims
  elif mk == "strings":
    monos = [rng.choice(["none", "increasing"]) for _ in range(dims)]
  else:
    monos = [rng.randint(0, 1) for _ in range(dims)]
  bmode = rng.choice(BMODES)
  a = Fraction(rng.randint(-8, 8), 4)
  lo = a if bmode in ("min", "both") else None
  hi = a + Fraction(rng.randint(1, 16), 4) if bmode in ("max", "both") else None
  clip = rng.random() < 0.5
  mode, label, names = gen_history(rng)
  has_fin = "finalize" in names
  kind = rng.choice(["small", "int", "unit", "tiny"] if has_fin else KINDS)
  ops, prev, first_s = [], None, True
  rel0 = rng.choice(RELS)
  for o in names:
    if o == "assignK":
      ops.append([o, gen_kernel(rng, kind, L, U * dims, T)])
    elif o == "assignS":
      rel = "rand" if first_s else (rel0 if mode == "perm" else rng.choice(RELS))
      sc = rel_scale(rng, prev, rel, U, T)
      if first_s and rel0 == "fromzero":
        sc[rng.randrange(U)][rng.randrange(T)] = Fraction(0)
      first_s = False
      prev = sc
      ops.append([o, sc])
    else:
      ops.append([o])
  # evaluation points: sweeps of one coordinate from random base points
  vals = sorted({Fraction(v, 4) for v in range(-6, 4 * L + 4)})
  sweep = sorted(set(rng.sample(vals, min(len(vals), 7)) + [Fraction(0), Fraction(L - 1), Fraction(rng.randint(0, 8 * (L - 1)), 8)]))
  bases = []
  for _ in range(3):
    inr = rng.random() < 0.7
    bases.append([[Fraction(rng.randint(0, 8 * (L - 1)), 8) if inr or rng.random() < 0.5
                   else Fraction(rng.randint(-12, 8 * L + 4), 8) for _ in range(dims)] for _ in range(U)])
  cfg = dict(L=L, dims=dims, units=U, T=T, monos=monos, lo=lo, hi=hi, clip=clip)
  return dict(cfg=cfg, kind=kind, ops=ops, sweep=sweep, bases=bases, tail=label, mode=mode,
              rel=rel0 if mode == "perm" else None)


def canon_monos(monos, dims):
  if not monos:
    return [False] * dims
  return [m in (1, "increasing") for m in monos]


def kflat(kern, u, dims, T, L):
  """rows (term, dim) term-major, each the lattice column, for unit u of a (1, L, U*dims, T) kernel"""
  return [[kern[0, i, u * dims + d, t] for i in range(L)] for t in range(T) for d in range(dims)]


def root_factors(tf, kfl_lib, w, scale, cfg, monos_c):
  """the factor tf.pow(full_projection_factor, 1/dims) of _approximately_project_bounds, computed with the
  code's own ops on the code's own monotonicity stage."""
  L, dims, U, T = cfg["L"], cfg["dims"], cfg["units"], cfg["T"]
  if cfg["lo"] is None or cfg["hi"] is None:
    return np.ones([U, T], dtype=np.float32)
  k1 = kfl_lib.finalize_weight_constraints(w, units=U, scale=scale, monotonicities=monos_c,
                                           output_min=None, output_max=None)
  k1 = tf.reshape(k1, [-1, L, U, dims, T])
  mk = tf.reduce_max(tf.abs(k1), axis=1, keepdims=True)
  mo = tf.reduce_prod(mk, axis=3, keepdims=True)
  r = tf.pow(tf.maximum(mo, 1.0), 1.0 / dims)
  return r.numpy().reshape([U, T])


def run_case(ctx, case):
  """Executes the history on the real layer; returns (driver lines, pending item)."""
  import tensorflow as tf
  import tensorflow_lattice as tfl
  from tensorflow_lattice.python import kronecker_factored_lattice_lib as kfl_lib
  from tensorflow_lattice.python import utils
  cfg = case["cfg"]
  L, dims, U, T = cfg["L"], cfg["dims"], cfg["units"], cfg["T"]
  lo, hi = cfg["lo"], cfg["hi"]
  layer = tfl.layers.KroneckerFactoredLattice(
      lattice_sizes=L, units=U, num_terms=T, monotonicities=cfg["monos"],
      output_min=None if lo is None else float(lo), output_max=None if hi is None else float(hi),
      clip_inputs=cfg["clip"])
  layer.build(tf.TensorShape([None, dims] if U == 1 else [None, U, dims]))
  monos_b = canon_monos(cfg["monos"], dims)
  monos_c = utils.canonicalize_monotonicities(cfg["monos"], allow_decreasing=False)
  mtok = il([int(b) for b in monos_b])
  lines, steps = [], []
  lines.append("kfl.bias %s %s" % (opt(lo), opt(hi)))
  moved = False

  def snap():
    return layer.kernel.numpy().copy(), layer.scale.numpy().copy()

  # bookkeeping on the REAL snapshots (mirrors Tfl.Kfl.Track): ref = scale read by the last kernel constraint
  # not followed by a raw kernel update; s_fresh = scale constraint after the last raw scale update
  s_init = layer.scale.numpy().copy()
  ref, s_fresh = None, False
  enc = [[] for _ in range(U)]      # per unit: ops of the run for the driver's kfl.track
  for op in case["ops"]:
    name = op[0]
    if name == "assignK":
      layer.kernel.assign(np.array([[[[float(Fraction(v)) for v in row] for row in plane] for plane in op[1]]], dtype=np.float32))
      ref = None
      for u in range(U):
        enc[u].append("0")
      continue
    if name == "assignS":
      layer.scale.assign(np.array([[float(Fraction(v)) for v in row] for row in op[1]], dtype=np.float32))
      s_fresh = False
      sa = layer.scale.numpy()
      for u in range(U):
        enc[u].append("1," + frl(sa[u]))
      continue
    k0, s0 = snap()
    if name in ("consK", "finalize"):
      ref = s0.copy()
    if name in ("consS", "finalize"):
      s_fresh = True
    for u in range(U):
      enc[u] += {"consK": ["2"], "consS": ["3"], "finalize": ["2", "3"]}[name]
    rs = None
    if name in ("consK", "finalize"):
      rs = root_factors(tf, kfl_lib, layer.kernel, layer.scale, cfg, monos_c)
    if name == "consK":
      c = layer.kernel.constraint
      ctx.count("kernel.constraint:" + ("none" if c is None else "object"))
      if c is not None:
        layer.kernel.assign(c(layer.kernel))
    elif name == "consS":
      c = layer.scale.constraint
      ctx.count("scale.constraint:" + ("none" if c is None else "object"))
      if c is not None:
        layer.scale.assign(c(layer.scale))
    else:
      layer.finalize_constraints()
    k1, s1 = snap()
    moved = moved or bool(np.any(k1 != k0)) or bool(np.any(s1 != s0))
    first = len(lines)
    for u in range(U):
      if name == "consS":
        lines.append("kfl.scale %s %s %s" % (opt(lo), opt(hi), frl(s0[u])))
      else:
        lines.append("kfl.%s %s %s %s %d %s %s %s" % (
            "cons" if name == "consK" else "finalize", mtok, opt(lo), opt(hi), dims, frl(s0[u]), frl(rs[u]),
            frl2(kflat(k0, u, dims, T, L))))
    steps.append((name, k0, s0, k1, s1, first, rs))
  # final evaluation
  kf, sf = snap()
  bias = layer.bias.numpy().copy()
  pts = []     # (base index, dim, sweep index) -> X row
  X = []
  for bi, base in enumerate(case["bases"]):
    for d in range(dims):
      for si, v in enumerate(case["sweep"]):
        row = [list(base[u]) for u in range(U)]
        for u in range(U):
          row[u][d] = v
        pts.append((bi, d, si))
        X.append(row)
  Xf = np.array([[[float(Fraction(v)) for v in r] for r in row] for row in X], dtype=np.float32)
  out = layer(tf.constant(Xf[:, 0, :] if U == 1 else Xf)).numpy().reshape([len(X), U])
  ev_first = len(lines)
  for u in range(U):
    lines.append("kfl.eval %d %d %d %s %s %s %s" % (
        L, int(cfg["clip"]), dims, frl2(kflat(kf, u, dims, T, L)), frl(sf[u]), fr(bias[u]),
        frl2([[Fraction(v) for v in row[u]] for row in X])))
  tr_first = len(lines)
  for u in range(U):
    lines.append("kfl.track %s %s %s %s" % (opt(lo), opt(hi), frl(s_init[u]), ";".join(enc[u]) if enc[u] else "_"))
  item = dict(case=case, steps=steps, kf=kf, sf=sf, bias=bias, pts=pts, X=Xf, out=out, ev_first=ev_first,
              moved=moved, nlines=len(lines), monos_b=monos_b, ref=ref, s_fresh=s_fresh, tr_first=tr_first)
  return lines, item


def sign_ok1(r, f):
  """Tfl.Kfl.signOk1 on floats: the term is still oriented correctly"""
  return r == 0 or f == 0 or (r > 0) == (f > 0)


FLIP_CLASS = "kernel_constrained_before_scale_sign_flip"


def classify(item):
  """per unit: (monotonicity premise holds, run_class or None); and whether the bounds premise holds"""
  ref, s_fresh, sf = item["ref"], item["s_fresh"], item["sf"]
  U = sf.shape[0]
  if ref is None:
    return [(False, "unconstrained")] * U, False
  out = []
  for u in range(U):
    ok = all(sign_ok1(float(r), float(f)) for r, f in zip(ref[u], sf[u]))
    if ok:
      out.append((True, "covered" if s_fresh else "covered_scale_unconstrained"))
    elif s_fresh:
      out.append((True, FLIP_CLASS))
    else:
      out.append((False, "unconstrained"))
  return out, bool(s_fresh)


def magnitude(cfg, kf, sf, bias, Xf):
  """per-point bound of the intermediate magnitudes (for float32 tolerances), shape (P, U)."""
  L, dims, U, T = cfg["L"], cfg["dims"], cfg["units"], cfg["T"]
  x = Xf.astype(np.float64)
  if cfg["clip"]:
    x = np.clip(x, 0.0, L - 1.0)
  if L == 2:
    w = np.stack([1 - x, x], axis=-1)
  else:
    w = 1 - np.minimum(np.abs(np.arange(L)[None, None, None, :] - x[..., None]), 1)
  ka = np.abs(kf[0].astype(np.float64)).reshape([L, U, dims, T])
  f = np.einsum("pudl,ludt->pudt", np.abs(w), ka)
  m = np.prod(f, axis=2) * np.abs(sf.astype(np.float64))[None]
  return np.mean(m, axis=-1) + np.abs(bias.astype(np.float64))[None], w


def check_case(ctx, item, replies):
  case = item["case"]
  cfg = case["cfg"]
  L, dims, U, T = cfg["L"], cfg["dims"], cfg["units"], cfg["T"]
  lo, hi = cfg["lo"], cfg["hi"]
  monos_b = item["monos_b"]
  bmode = "both" if lo is not None and hi is not None else "min" if lo is not None else "max" if hi is not None else "none"
  mcls = "none" if cfg["monos"] is None else "zeros" if not any(monos_b) else "all" if all(monos_b) else "some"
  cls = "kfl:L%d:b%s:m%s:clip%d" % (min(L, 3), bmode, mcls, int(cfg["clip"]))
  ctx.count(cls)
  ctx.count("tail:" + case["tail"])
  ctx.count("kind:" + case["kind"])
  ctx.count("dims:%d units:%d terms:%d" % (dims, U, T))
  ctx.count("mode:%s" % case.get("mode", "tail"))
  if case.get("rel"):
    ctx.count("perm_rel:" + case["rel"])
  key = dict(layer="kfl", bounds=bmode, monos=mcls, clip=bool(cfg["clip"]), tail=case["tail"])
  ctx.case(sig=(cls, case["tail"], case["kind"], item["moved"], dims, U, T, hash(item["kf"].tobytes()) % 997),
           nontrivial=item["moved"], sample=dict(cfg=cfg, tail=case["tail"], kind=case["kind"]))
  small = dict(cfg=cfg, tail=case["tail"], kind=case["kind"])
  # ---- run bookkeeping: the model's (driver, kfl.track) vs the one read off the real snapshots
  unit_cls, bound_prem = classify(item)
  for u in range(U):
    toks = replies[item["tr_first"] + u].split(" ")
    m_ref = None if toks[0] == "none" else parse_rats(toks[0])
    m_fresh, m_mono, m_bound = toks[1] == "1", toks[2] == "1", toks[3] == "1"
    r_ref = None if item["ref"] is None else [Fraction(float(v)) for v in item["ref"][u]]
    r_mono = unit_cls[u][1] in ("covered", "covered_scale_unconstrained")
    r_sig = lambda l: None if l is None else [(v > 0) - (v < 0) for v in l]
    if (r_sig(m_ref), m_fresh, m_mono, m_bound) == (r_sig(r_ref), bool(item["s_fresh"]), r_mono, bound_prem):
      ctx.agree("kfl.track")
    else:
      ctx.disagree("kfl.track", dict(small, ops=[o[0] for o in case["ops"]]),
                   [r_ref, bool(item["s_fresh"]), r_mono, bound_prem], replies[item["tr_first"] + u],
                   "run bookkeeping (ref signs, sFresh, monoCovered, boundCovered) differs")
    ctx.compare("kfl.track.scale", small, item["sf"][u], parse_rats(toks[4]), max_abs(item["sf"].ravel()), rtol=1e-6)
    ctx.count("run_class:" + unit_cls[u][1])
  ctx.count("bounds_premise:%s" % bound_prem)
  # ---- bias
  ctx.compare("kfl.bias", small, [float(b) for b in item["bias"]], [Fraction(replies[0])] * U, 1.0, rtol=1e-6)
  # ---- constraint steps
  for name, k0, s0, k1, s1, first, rs in item["steps"]:
    ksc = max_abs(k0.ravel())
    for u in range(U):
      toks = replies[first + u].split(" ")
      if name == "consS":
        ctx.compare("kfl.scale_constraint", small, s1[u], parse_rats(toks[0]), max_abs(s0.ravel()), rtol=1e-6)
        continue
      mk = [v for row in parse_rats2(toks[0]) for v in row]
      rk = [v for row in kflat(k1, u, dims, T, L) for v in row]
      suite = "kfl.kernel_constraint" if name == "consK" else "kfl.finalize_constraints"
      ctx.compare(suite, dict(small, op=name, k0=k0, s0=s0), rk, mk, ksc, rtol=1e-5)
      if name == "finalize":
        ctx.compare("kfl.finalize_constraints.scale", small, s1[u], parse_rats(toks[1]), max_abs(s0.ravel()), rtol=1e-6)
      elif bmode == "both":
        # the two algebraic facts about the root factor, on the code's own float:
        # exactly (driver flag) and up to float pow rounding (1e-5 relative)
        for t, (okb, ff) in enumerate(zip(toks[2].split(","), parse_rats(toks[1]))):
          ctx.count("rootOk_exact:" + okb)
          r = Fraction(float(rs[u][t]))
          if r >= 1 and r ** dims >= ff * (1 - Fraction(1, 100000)):
            ctx.agree("kfl.root_facts")
          else:
            ctx.disagree("kfl.root_facts", dict(small, k0=k0, s0=s0), float(r), fr(ff),
                         "factor r violates 1 <= r and fullFactor <= r^dims beyond float rounding")
    if name == "consS" and np.any(np.sign(s1) * np.sign(s0) < 0):
      ctx.fail("scale_sign_flipped", key, case, dict(s0=s0, s1=s1))
  # ---- outputs
  out, pts, Xf = item["out"], item["pts"], item["X"]
  M, w = magnitude(cfg, item["kf"], item["sf"], item["bias"], Xf)
  if not np.all(np.isfinite(out)):
    ctx.fail("finite", key, case, out)
    return
  for u in range(U):
    model = parse_rats(replies[item["ev_first"] + u])
    ctx.compare("kfl.eval", dict(small, kf=item["kf"], sf=item["sf"], X=Xf[:, u]), out[:, u], model,
                float(np.max(M[:, u])), rtol=3e-5)
  # ---- oracle on the real outputs
  inr = np.all((Xf >= 0) & (Xf <= L - 1), axis=-1)          # (P, U) in-range points
  ok_pt = np.ones_like(inr) if cfg["clip"] else inr
  tolp = 3e-5 * np.maximum(1.0, M)
  evaluate_clauses(ctx, key, case, cfg, monos_b, out, pts, Xf, ok_pt, tolp, unit_cls, bound_prem)


def evaluate_clauses(ctx, key, case, cfg, monos_b, out, pts, Xf, ok_pt, tolp, unit_cls, bound_prem):
  """the property's clauses on the REAL outputs. Bounds: when each constraint ran after the last raw update of
  its variable. Monotonicity of unit u: when unit_cls[u][0]; the failure key carries run_class (F-C07-c is pinned
  on run_class = FLIP_CLASS only: any other monotonicity failure is reported)."""
  lo, hi, U = cfg["lo"], cfg["hi"], cfg["units"]
  if bound_prem:
    bkey = dict(key, run_class=FLIP_CLASS if any(c == FLIP_CLASS for _, c in unit_cls) else "covered")
    if lo is not None:
      bad = ok_pt & (out < float(lo) - tolp)
      if np.any(bad):
        p, u = np.argwhere(bad)[0]
        ctx.fail("output_min", bkey, case, dict(x=Xf[p, u], out=float(out[p, u]), unit=int(u)),
                 "output %r < output_min %r" % (float(out[p, u]), float(lo)))
    if hi is not None:
      bad = ok_pt & (out > float(hi) + tolp)
      if np.any(bad):
        p, u = np.argwhere(bad)[0]
        ctx.fail("output_max", bkey, case, dict(x=Xf[p, u], out=float(out[p, u]), unit=int(u)),
                 "output %r > output_max %r" % (float(out[p, u]), float(hi)))
    ctx.count("oracle_points", int(np.sum(ok_pt)))
  ns = len(case["sweep"])
  npairs = 0
  failed_units = set()
  for start in range(0, len(pts), ns):
    bi, d, _ = pts[start]
    if not monos_b[d]:
      continue
    for u in range(U):
      if not unit_cls[u][0] or u in failed_units:
        continue
      idx = [start + j for j in range(ns) if ok_pt[start + j, u]]
      for a, b in zip(idx, idx[1:]):
        npairs += 1
        if unit_cls[u][1] == FLIP_CLASS:
          ctx.count("oracle_pairs_flip_class")
        if out[a, u] > out[b, u] + max(tolp[a, u], tolp[b, u]):
          failed_units.add(u)
          ctx.count("monotonicity_failures:" + unit_cls[u][1])
          if unit_cls[u][1] == FLIP_CLASS and ctx.dist["monotonicity_failures:" + FLIP_CLASS] > 60:
            break     # F-C07-c is recorded often enough; keep room in the failure list for anything else
          ctx.fail("monotonicity", dict(key, run_class=unit_cls[u][1]), case,
                   dict(dim=d, unit=u, x_lo=Xf[a, u], x_hi=Xf[b, u], out_lo=float(out[a, u]), out_hi=float(out[b, u])),
                   "output decreases by %g along increasing dim %d" % (float(out[a, u] - out[b, u]), d))
          break
  ctx.count("oracle_pairs", npairs)


# ---------------------------------------------------------------- real Keras training (theorem keras_training_…)
def gen_train(rng):
  L = rng.choice([2, 2, 3])
  dims = rng.randint(1, 3)
  U = rng.randint(1, 2)
  T = rng.randint(1, 3)
  monos = [1] * dims if rng.random() < 0.4 else [rng.randint(0, 1) for _ in range(dims)]
  if not any(monos) and rng.random() < 0.7:
    monos[rng.randrange(dims)] = 1
  bmode = rng.choice(BMODES)
  a = Fraction(rng.randint(-4, 4), 4)
  lo = a if bmode in ("min", "both") else None
  hi = a + Fraction(rng.randint(1, 8), 4) if bmode in ("max", "both") else None
  cfg = dict(L=L, dims=dims, units=U, T=T, monos=monos, lo=lo, hi=hi, clip=rng.random() < 0.5)
  N = rng.randint(3, 6)
  xs = [[[Fraction(rng.randint(0, 8 * (L - 1)), 8) for _ in range(dims)] for _ in range(U)] for _ in range(N)]
  slope = Fraction(rng.choice([2, 5, 20]))
  vals = sorted({Fraction(v, 4) for v in range(-2, 4 * L)})
  sweep = sorted(set(rng.sample(vals, min(len(vals), 6)) + [Fraction(0), Fraction(L - 1)]))
  bases = [[[Fraction(rng.randint(0, 8 * (L - 1)), 8) for _ in range(dims)] for _ in range(U)] for _ in range(2)]
  return dict(cfg=cfg, train=True, opt=rng.choice(["sgd", "legacy_sgd"]), lr=rng.choice([0.5, 2.0, 4.0]),
              steps=3, xs=xs, slope=slope, fit=False, sweep=sweep, bases=bases,
              init=rng.choice(["default", "assigned"]), seed=rng.randrange(1 << 30), tail="keras_training", kind="train")


def sweep_points(case, U, dims):
  pts, X = [], []
  for bi, base in enumerate(case["bases"]):
    for d in range(dims):
      for si, v in enumerate(case["sweep"]):
        row = [list(base[u]) for u in range(U)]
        for u in range(U):
          row[u][d] = v
        pts.append((bi, d, si))
        X.append(row)
  return pts, np.array([[[float(Fraction(v)) for v in r] for r in row] for row in X], dtype=np.float32), X


def run_train_case(ctx, case):
  """A real layer, real Keras optimizer steps on hostile targets; after EVERY step: snapshot, model lines for the
  step read as [raw scale update, raw kernel update, scale constraint, kernel constraint], real outputs."""
  import tensorflow as tf
  import tensorflow_lattice as tfl
  from tensorflow_lattice.python import kronecker_factored_lattice_lib as kfl_lib
  from tensorflow_lattice.python import kronecker_factored_lattice_layer as kfl_layer
  from tensorflow_lattice.python import utils
  keras = kfl_layer.keras
  cfg = case["cfg"]
  L, dims, U, T = cfg["L"], cfg["dims"], cfg["units"], cfg["T"]
  lo, hi = cfg["lo"], cfg["hi"]
  tf.random.set_seed(case["seed"])
  layer = tfl.layers.KroneckerFactoredLattice(
      lattice_sizes=L, units=U, num_terms=T, monotonicities=cfg["monos"],
      output_min=None if lo is None else float(lo), output_max=None if hi is None else float(hi),
      clip_inputs=cfg["clip"])
  inp_shape = [dims] if U == 1 else [U, dims]
  model = keras.Sequential([keras.layers.Input(shape=inp_shape), layer])
  monos_b = canon_monos(cfg["monos"], dims)
  monos_c = utils.canonicalize_monotonicities(cfg["monos"], allow_decreasing=False)
  mtok = il([int(b) for b in monos_b])
  if case["init"] == "assigned":
    r = np.random.RandomState(case["seed"] % (1 << 31))
    layer.kernel.assign(r.randint(-16, 17, size=layer.kernel.shape).astype(np.float32) / 8)
    layer.scale.assign(r.randint(-16, 17, size=layer.scale.shape).astype(np.float32) / 8)
    layer.finalize_constraints()
  names = [v.name.split("/")[-1].split(":")[0] for v in model.trainable_variables]
  order_ok = (len(names) >= 2 and "scale" in names[0] and "kernel" in names[-1] and
              model.trainable_variables[0] is layer.scale and model.trainable_variables[-1] is layer.kernel)
  opt = (keras.optimizers.SGD if case["opt"] == "sgd" else keras.optimizers.legacy.SGD)(learning_rate=case["lr"])
  if case["fit"]:
    model.compile(optimizer=opt, loss="mse", run_eagerly=True)
  x = np.array([[[float(v) for v in r] for r in row] for row in case["xs"]], dtype=np.float32)
  xin = x[:, 0, :] if U == 1 else x
  # hostile targets: strongly DEcreasing in the monotone inputs, far outside the bounds
  y = -float(case["slope"]) * np.sum(x * np.array(monos_b, dtype=np.float32)[None, None, :], axis=-1)
  y = (y - 50.0 * ((np.arange(U) % 2) * 2 - 1)[None, :]).astype(np.float32).reshape([len(x), U])
  pts, Xf, X = sweep_points(case, U, dims)
  lines, steps = ["kfl.bias %s %s" % (opt_(lo), opt_(hi))], []
  lr32 = np.float32(case["lr"])
  for step in range(case["steps"]):
    k0, s0 = layer.kernel.numpy().copy(), layer.scale.numpy().copy()
    with tf.GradientTape() as tape:
      loss = tf.reduce_mean(tf.square(tf.reshape(model(xin, training=True), [len(x), U]) - y))
    tv = model.trainable_variables
    grads = tape.gradient(loss, tv)
    g = {id(v): gr.numpy() for v, gr in zip(tv, grads)}
    if case["fit"]:
      model.train_on_batch(xin, y if U > 1 else y.reshape([-1, 1]))
    else:
      opt.apply_gradients(zip(grads, tv))
    k1, s1 = layer.kernel.numpy().copy(), layer.scale.numpy().copy()
    # the raw SGD updates, recomputed in float32
    ku = (k0 + (-g[id(layer.kernel)] * lr32)).astype(np.float32)
    su = (s0 + (-g[id(layer.scale)] * lr32)).astype(np.float32)
    raw_finite = bool(np.all(np.isfinite(ku)) and np.all(np.isfinite(su)) and np.all(np.isfinite(g[id(layer.kernel)]))
                      and np.all(np.isfinite(g[id(layer.scale)])) and max_abs(ku.ravel()) < 1e12 and max_abs(su.ravel()) < 1e12)
    finite = bool(raw_finite and np.all(np.isfinite(k1)) and np.all(np.isfinite(s1)))
    first = len(lines)
    rs = None
    if finite:
      rs = root_factors(tf, kfl_lib, tf.constant(ku), tf.constant(s1), cfg, monos_c)
      for u in range(U):
        lines.append("kfl.scale %s %s %s" % (opt_(lo), opt_(hi), frl(su[u])))
        lines.append("kfl.cons %s %s %s %d %s %s %s" % (mtok, opt_(lo), opt_(hi), dims, frl(s1[u]), frl(rs[u]),
                                                        frl2(kflat(ku, u, dims, T, L))))
    bias = layer.bias.numpy().copy()
    out = layer(tf.constant(Xf[:, 0, :] if U == 1 else Xf)).numpy().reshape([len(X), U])
    ev_first = len(lines)
    if finite:
      for u in range(U):
        lines.append("kfl.eval %d %d %d %s %s %s %s" % (
            L, int(cfg["clip"]), dims, frl2(kflat(k1, u, dims, T, L)), frl(s1[u]), fr(bias[u]),
            frl2([[Fraction(v) for v in row[u]] for row in X])))
    steps.append(dict(k0=k0, s0=s0, ku=ku, su=su, k1=k1, s1=s1, first=first, ev_first=ev_first, bias=bias, out=out,
                      finite=finite, raw_finite=raw_finite, flipped=bool(np.any(np.sign(su) * np.sign(s0) < 0)),
                      moved=bool(np.any(k1 != ku) or np.any(s1 != su))))
    if not finite:
      break
  item = dict(case=case, train=True, steps=steps, pts=pts, X=Xf, monos_b=monos_b, nlines=len(lines),
              order_ok=order_ok, names=names)
  return lines, item


def opt_(x):
  return "none" if x is None else fr(x)


def check_train_case(ctx, item, replies):
  case = item["case"]
  cfg = case["cfg"]
  L, dims, U, T = cfg["L"], cfg["dims"], cfg["units"], cfg["T"]
  lo, hi = cfg["lo"], cfg["hi"]
  monos_b = item["monos_b"]
  bmode = "both" if lo is not None and hi is not None else "min" if lo is not None else "max" if hi is not None else "none"
  mcls = "zeros" if not any(monos_b) else "all" if all(monos_b) else "some"
  mode = "fit" if case["fit"] else "apply_gradients"
  key = dict(layer="kfl", bounds=bmode, monos=mcls, clip=bool(cfg["clip"]), tail="keras_training",
             optimizer=case["opt"], run_class="keras_training")
  small = dict(cfg=cfg, opt=case["opt"], lr=case["lr"], mode=mode, seed=case["seed"])
  ctx.count("train:%s:%s:b%s" % (case["opt"], mode, bmode))
  any_moved = any(st["moved"] for st in item["steps"])
  ctx.case(sig=("train", case["opt"], mode, bmode, mcls, L, dims, U, T, case["lr"], case["seed"] % 997),
           nontrivial=any_moved, sample=small)
  # the layer creates scale before kernel: the order the positive theorem is about
  if item["order_ok"]:
    ctx.agree("kfl.trainable_variables_order")
  else:
    ctx.disagree("kfl.trainable_variables_order", small, item["names"], "scale < kernel",
                 "layer.trainable_variables is not [scale, (bias,) kernel]")
  for si, st in enumerate(item["steps"]):
    if not st["raw_finite"]:
      # SGD itself diverged (raw update non-finite or beyond 1e12): outside "every finite kernel and scale"
      ctx.count("train_diverged_raw_update")
      return
    if not st["finite"]:
      ctx.fail("finite", key, case, dict(step=si), "finite raw update, non-finite weights after the constraints")
      return
    ctx.count("train_steps")
    if st["flipped"]:
      ctx.count("train_steps_scale_sign_flipped")
    ksc = max(1.0, max_abs(st["ku"].ravel()))
    for u in range(U):
      ms = parse_rats(replies[st["first"] + 2 * u])
      ctx.compare("kfl.keras_step.scale", dict(small, step=si, s0=st["s0"], su=st["su"]), st["s1"][u], ms,
                  max(1.0, max_abs(st["su"].ravel())), rtol=1e-5)
      toks = replies[st["first"] + 2 * u + 1].split(" ")
      mk = [v for row in parse_rats2(toks[0]) for v in row]
      rk = [v for row in kflat(st["k1"], u, dims, T, L) for v in row]
      ctx.compare("kfl.keras_step.kernel", dict(small, step=si, k0=st["k0"], ku=st["ku"], s1=st["s1"]), rk, mk, ksc, rtol=2e-5)
    out, Xf = st["out"], item["X"]
    M, _ = magnitude(cfg, st["k1"], st["s1"], st["bias"], Xf)
    if not np.all(np.isfinite(out)):
      ctx.fail("finite", key, case, dict(step=si))
      return
    for u in range(U):
      model = parse_rats(replies[st["ev_first"] + u])
      ctx.compare("kfl.eval", dict(small, step=si), out[:, u], model, float(np.max(M[:, u])), rtol=3e-5)
    inr = np.all((Xf >= 0) & (Xf <= L - 1), axis=-1)
    ok_pt = np.ones_like(inr) if cfg["clip"] else inr
    tolp = 3e-5 * np.maximum(1.0, M)
    evaluate_clauses(ctx, dict(key, step=si), case, cfg, monos_b, out, item["pts"], Xf, ok_pt, tolp,
                     [(True, "keras_training")] * U, True)


def run(ctx):
  rng = ctx.rng
  n = ctx.n(450, 6000)
  nt = ctx.n(36, 400)
  nfit = ctx.n(3, 12)
  lines, items = [], []
  for _ in range(n):
    case = gen_case(rng)
    ls, item = run_case(ctx, case)
    item["first"] = len(lines)
    lines += ls
    items.append(item)
  for i in range(nt + nfit):
    case = gen_train(rng)
    case["fit"] = i >= nt
    ls, item = run_train_case(ctx, case)
    item["first"] = len(lines)
    lines += ls
    items.append(item)
  replies = run_driver(lines)
  for item in items:
    rep = replies[item["first"]:item["first"] + item["nlines"]]
    if any(r == "bad-op" for r in rep):
      ctx.disagree("kfl.driver", item["case"]["cfg"], None, rep, "bad-op")
      continue
    (check_train_case if item.get("train") else check_case)(ctx, item, rep)


def _unjson(case):
  """a recorded case carries fractions as strings; everything is re-parsed with Fraction()."""
  cfg = case["cfg"]
  for k in ("lo", "hi"):
    cfg[k] = None if cfg[k] is None else Fraction(cfg[k])
  case["sweep"] = [Fraction(v) for v in case["sweep"]]
  case["bases"] = [[[Fraction(v) for v in r] for r in b] for b in case["bases"]]
  return case


def replay(ctx, failure):
  case = _unjson(failure["case"])
  if case.get("train"):
    case["xs"] = [[[Fraction(v) for v in r] for r in row] for row in case["xs"]]
    case["slope"] = Fraction(case["slope"])
    lines, item = run_train_case(ctx, case)
    check_train_case(ctx, item, run_driver(lines))
    return
  lines, item = run_case(ctx, case)
  check_case(ctx, item, run_driver(lines))
