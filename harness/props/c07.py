"""C07: KroneckerFactoredLattice after its constraints gives monotone, bounded outputs.
Tie: the REAL tfl.layers.KroneckerFactoredLattice with assigned kernel / scale, then
`v.assign(v.constraint(v))` for kernel and scale in every order (and repeated) and
finalize_constraints(), vs Tfl.Kfl.kernelConstraint / scaleConstraint / finalizeConstraints / eval.
Oracle: pairwise monotonicity (ONE coordinate perturbed) and bounds of the real outputs after the
real constraints."""
import numpy as np
from fractions import Fraction
from common import *

RULE = ("configs from one PRNG: lattice_sizes 2-4, dims 1-4, units 1-2, num_terms 1-3, monotonicities None / "
        "all-zero / every subset (ints or strings), bounds {none,min,max,both}, clip_inputs on/off; kernels "
        "dyadic/int(ties)/unit/wide/tiny/big with planted zeros, scale entries of every sign incl. exact zeros; "
        "history = assignments, then 0-4 random ops (re-assignments with new signs, constraints), then a tail "
        "containing both constraints in either order / repeated / finalize_constraints(); evaluation points: "
        "sweeps of one coordinate over vertices, midpoints, ties and out-of-range values from random base "
        "points. Non-trivial = a constraint call moved a variable; distinct = config class x history tail x "
        "kernel kind x moved x hash.")
ASSUMPTIONS = [
    "KFL hard-casts to float32: model vs code compared with rtol 1e-5 (weights) / 3e-5 (outputs) of the case magnitude",
    "the dims-th root is modelled as division by an arbitrary factor r with 1 <= r and fullFactor <= r^dims; the "
    "harness passes the float32 factor the code computes (tf.pow) as an exact rational and the driver evaluates "
    "the two facts on it (holds up to 1e-5 relative: float pow rounding)",
    "theorems are per unit (units are independent columns of the reshape, C09) and per example",
    "finalize_constraints() is exercised with |kernel| <= 4 only: it writes k + (proj(k) - k) in float32, which "
    "absorbs the projection when |k| >> |proj(k)| (pure rounding, see report)",
]

BMODES = ["none", "min", "max", "both"]
TAILS = [["consK", "consS"], ["consS", "consK"], ["finalize"], ["consK", "consS", "consK"],
         ["consS", "consK", "consS", "consS"], ["finalize", "consS"], ["consK", "finalize"],
         ["consS", "consK", "consK"], ["finalize", "finalize"]]
KINDS = ["dyadic", "dyadic", "int", "int", "unit", "wide", "tiny", "big"]


def gen_k(rng, kind):
  if kind == "big":
    return Fraction(rng.randint(-8, 8) * 2 ** 10)
  if kind == "small":
    return Fraction(rng.randint(-24, 24), 8)
  return gen_value(rng, kind)


def gen_kernel(rng, kind, L, n, T):
  a = [[[gen_k(rng, kind) for _ in range(T)] for _ in range(n)] for _ in range(L)]
  if rng.random() < 0.3:
    for _ in range(rng.randint(1, 3)):
      a[rng.randrange(L)][rng.randrange(n)][rng.randrange(T)] = Fraction(0)
  return a


def gen_scale(rng, U, T):
  pat = rng.choice(["mixed", "mixed", "pos", "neg", "zero", "haszero"])
  out = []
  for _ in range(U):
    row = []
    for _ in range(T):
      mag = rng.choice([Fraction(1, 4), Fraction(1, 2), Fraction(1), Fraction(3, 2), Fraction(5), Fraction(rng.randint(1, 64), 16)])
      sg = {"pos": 1, "neg": -1, "zero": 0}.get(pat, rng.choice([-1, 0, 1, 1, -1]))
      row.append(mag * sg)
    if pat == "haszero":
      row[rng.randrange(T)] = Fraction(0)
    out.append(row)
  return out


def gen_case(rng):
  L = rng.choice([2, 2, 3, 3, 4])
  dims = rng.randint(1, 4)
  U = rng.randint(1, 2)
  T = rng.randint(1, 3)
  mk = rng.choice(["none", "zeros", "all", "subset", "subset", "subset", "strings"])
  if mk == "none":
    monos = None
  elif mk == "zeros":
    monos = [0] * dims
  elif mk == "all":
    monos = [1] * dims
  elif mk == "strings":
    monos = [rng.choice(["none", "increasing"]) for _ in range(dims)]
  else:
    monos = [rng.randint(0, 1) for _ in range(dims)]
  bmode = rng.choice(BMODES)
  a = Fraction(rng.randint(-8, 8), 4)
  lo = a if bmode in ("min", "both") else None
  hi = a + Fraction(rng.randint(1, 16), 4) if bmode in ("max", "both") else None
  clip = rng.random() < 0.5
  tail = rng.choice(TAILS)
  has_fin = "finalize" in tail
  kind = rng.choice(["small", "int", "unit", "tiny"] if has_fin else KINDS)
  ops = [["assignK", gen_kernel(rng, kind, L, U * dims, T)], ["assignS", gen_scale(rng, U, T)]]
  for _ in range(rng.randint(0, 4)):
    o = rng.choice(["assignK", "assignS", "assignS", "consK", "consS"])
    if o == "assignK":
      ops.append([o, gen_kernel(rng, kind, L, U * dims, T)])
    elif o == "assignS":
      ops.append([o, gen_scale(rng, U, T)])
    else:
      ops.append([o])
  ops += [[t] for t in tail]
  # evaluation points: sweeps of one coordinate from random base points
  vals = sorted({Fraction(v, 4) for v in range(-6, 4 * L + 4)})
  sweep = sorted(set(rng.sample(vals, min(len(vals), 7)) + [Fraction(0), Fraction(L - 1), Fraction(rng.randint(0, 8 * (L - 1)), 8)]))
  bases = []
  for _ in range(3):
    inr = rng.random() < 0.7
    bases.append([[Fraction(rng.randint(0, 8 * (L - 1)), 8) if inr or rng.random() < 0.5
                   else Fraction(rng.randint(-12, 8 * L + 4), 8) for _ in range(dims)] for _ in range(U)])
  cfg = dict(L=L, dims=dims, units=U, T=T, monos=monos, lo=lo, hi=hi, clip=clip)
  return dict(cfg=cfg, kind=kind, ops=ops, sweep=sweep, bases=bases, tail="+".join(tail))


def canon_monos(monos, dims):
  if not monos:
    return [False] * dims
  return [m in (1, "increasing") for m in monos]


def kflat(kern, u, dims, T, L):
  """rows (term, dim) term-major, each the lattice column, for unit u of a (1, L, U*dims, T) kernel"""
  return [[kern[0, i, u * dims + d, t] for i in range(L)] for t in range(T) for d in range(dims)]


def root_factors(tf, kfl_lib, w, scale, cfg, monos_c):
  """the factor tf.pow(full_projection_factor, 1/dims) of _approximately_project_bounds, computed with the
  code's own ops on the code's own monotonicity stage."""
  L, dims, U, T = cfg["L"], cfg["dims"], cfg["units"], cfg["T"]
  if cfg["lo"] is None or cfg["hi"] is None:
    return np.ones([U, T], dtype=np.float32)
  k1 = kfl_lib.finalize_weight_constraints(w, units=U, scale=scale, monotonicities=monos_c,
                                           output_min=None, output_max=None)
  k1 = tf.reshape(k1, [-1, L, U, dims, T])
  mk = tf.reduce_max(tf.abs(k1), axis=1, keepdims=True)
  mo = tf.reduce_prod(mk, axis=3, keepdims=True)
  r = tf.pow(tf.maximum(mo, 1.0), 1.0 / dims)
  return r.numpy().reshape([U, T])


def run_case(ctx, case):
  """Executes the history on the real layer; returns (driver lines, pending item)."""
  import tensorflow as tf
  import tensorflow_lattice as tfl
  from tensorflow_lattice.python import kronecker_factored_lattice_lib as kfl_lib
  from tensorflow_lattice.python import utils
  cfg = case["cfg"]
  L, dims, U, T = cfg["L"], cfg["dims"], cfg["units"], cfg["T"]
  lo, hi = cfg["lo"], cfg["hi"]
  layer = tfl.layers.KroneckerFactoredLattice(
      lattice_sizes=L, units=U, num_terms=T, monotonicities=cfg["monos"],
      output_min=None if lo is None else float(lo), output_max=None if hi is None else float(hi),
      clip_inputs=cfg["clip"])
  layer.build(tf.TensorShape([None, dims] if U == 1 else [None, U, dims]))
  monos_b = canon_monos(cfg["monos"], dims)
  monos_c = utils.canonicalize_monotonicities(cfg["monos"], allow_decreasing=False)
  mtok = il([int(b) for b in monos_b])
  lines, steps = [], []
  lines.append("kfl.bias %s %s" % (opt(lo), opt(hi)))
  moved = False

  def snap():
    return layer.kernel.numpy().copy(), layer.scale.numpy().copy()

  for op in case["ops"]:
    name = op[0]
    if name == "assignK":
      layer.kernel.assign(np.array([[[[float(Fraction(v)) for v in row] for row in plane] for plane in op[1]]], dtype=np.float32))
      continue
    if name == "assignS":
      layer.scale.assign(np.array([[float(Fraction(v)) for v in row] for row in op[1]], dtype=np.float32))
      continue
    k0, s0 = snap()
    rs = None
    if name in ("consK", "finalize"):
      rs = root_factors(tf, kfl_lib, layer.kernel, layer.scale, cfg, monos_c)
    if name == "consK":
      c = layer.kernel.constraint
      ctx.count("kernel.constraint:" + ("none" if c is None else "object"))
      if c is not None:
        layer.kernel.assign(c(layer.kernel))
    elif name == "consS":
      c = layer.scale.constraint
      ctx.count("scale.constraint:" + ("none" if c is None else "object"))
      if c is not None:
        layer.scale.assign(c(layer.scale))
    else:
      layer.finalize_constraints()
    k1, s1 = snap()
    moved = moved or bool(np.any(k1 != k0)) or bool(np.any(s1 != s0))
    first = len(lines)
    for u in range(U):
      if name == "consS":
        lines.append("kfl.scale %s %s %s" % (opt(lo), opt(hi), frl(s0[u])))
      else:
        lines.append("kfl.%s %s %s %s %d %s %s %s" % (
            "cons" if name == "consK" else "finalize", mtok, opt(lo), opt(hi), dims, frl(s0[u]), frl(rs[u]),
            frl2(kflat(k0, u, dims, T, L))))
    steps.append((name, k0, s0, k1, s1, first, rs))
  # final evaluation
  kf, sf = snap()
  bias = layer.bias.numpy().copy()
  pts = []     # (base index, dim, sweep index) -> X row
  X = []
  for bi, base in enumerate(case["bases"]):
    for d in range(dims):
      for si, v in enumerate(case["sweep"]):
        row = [list(base[u]) for u in range(U)]
        for u in range(U):
          row[u][d] = v
        pts.append((bi, d, si))
        X.append(row)
  Xf = np.array([[[float(Fraction(v)) for v in r] for r in row] for row in X], dtype=np.float32)
  out = layer(tf.constant(Xf[:, 0, :] if U == 1 else Xf)).numpy().reshape([len(X), U])
  ev_first = len(lines)
  for u in range(U):
    lines.append("kfl.eval %d %d %d %s %s %s %s" % (
        L, int(cfg["clip"]), dims, frl2(kflat(kf, u, dims, T, L)), frl(sf[u]), fr(bias[u]),
        frl2([[Fraction(v) for v in row[u]] for row in X])))
  item = dict(case=case, steps=steps, kf=kf, sf=sf, bias=bias, pts=pts, X=Xf, out=out, ev_first=ev_first,
              moved=moved, nlines=len(lines), monos_b=monos_b)
  return lines, item


def magnitude(cfg, kf, sf, bias, Xf):
  """per-point bound of the intermediate magnitudes (for float32 tolerances), shape (P, U)."""
  L, dims, U, T = cfg["L"], cfg["dims"], cfg["units"], cfg["T"]
  x = Xf.astype(np.float64)
  if cfg["clip"]:
    x = np.clip(x, 0.0, L - 1.0)
  if L == 2:
    w = np.stack([1 - x, x], axis=-1)
  else:
    w = 1 - np.minimum(np.abs(np.arange(L)[None, None, None, :] - x[..., None]), 1)
  ka = np.abs(kf[0].astype(np.float64)).reshape([L, U, dims, T])
  f = np.einsum("pudl,ludt->pudt", np.abs(w), ka)
  m = np.prod(f, axis=2) * np.abs(sf.astype(np.float64))[None]
  return np.mean(m, axis=-1) + np.abs(bias.astype(np.float64))[None], w


def check_case(ctx, item, replies):
  case = item["case"]
  cfg = case["cfg"]
  L, dims, U, T = cfg["L"], cfg["dims"], cfg["units"], cfg["T"]
  lo, hi = cfg["lo"], cfg["hi"]
  monos_b = item["monos_b"]
  bmode = "both" if lo is not None and hi is not None else "min" if lo is not None else "max" if hi is not None else "none"
  mcls = "none" if cfg["monos"] is None else "zeros" if not any(monos_b) else "all" if all(monos_b) else "some"
  cls = "kfl:L%d:b%s:m%s:clip%d" % (min(L, 3), bmode, mcls, int(cfg["clip"]))
  ctx.count(cls)
  ctx.count("tail:" + case["tail"])
  ctx.count("kind:" + case["kind"])
  ctx.count("dims:%d units:%d terms:%d" % (dims, U, T))
  key = dict(layer="kfl", bounds=bmode, monos=mcls, clip=bool(cfg["clip"]), tail=case["tail"])
  ctx.case(sig=(cls, case["tail"], case["kind"], item["moved"], dims, U, T, hash(item["kf"].tobytes()) % 997),
           nontrivial=item["moved"], sample=dict(cfg=cfg, tail=case["tail"], kind=case["kind"]))
  small = dict(cfg=cfg, tail=case["tail"], kind=case["kind"])
  # ---- bias
  ctx.compare("kfl.bias", small, [float(b) for b in item["bias"]], [Fraction(replies[0])] * U, 1.0, rtol=1e-6)
  # ---- constraint steps
  for name, k0, s0, k1, s1, first, rs in item["steps"]:
    ksc = max_abs(k0.ravel())
    for u in range(U):
      toks = replies[first + u].split(" ")
      if name == "consS":
        ctx.compare("kfl.scale_constraint", small, s1[u], parse_rats(toks[0]), max_abs(s0.ravel()), rtol=1e-6)
        continue
      mk = [v for row in parse_rats2(toks[0]) for v in row]
      rk = [v for row in kflat(k1, u, dims, T, L) for v in row]
      suite = "kfl.kernel_constraint" if name == "consK" else "kfl.finalize_constraints"
      ctx.compare(suite, dict(small, op=name, k0=k0, s0=s0), rk, mk, ksc, rtol=1e-5)
      if name == "finalize":
        ctx.compare("kfl.finalize_constraints.scale", small, s1[u], parse_rats(toks[1]), max_abs(s0.ravel()), rtol=1e-6)
      elif bmode == "both":
        # the two algebraic facts about the root factor, on the code's own float:
        # exactly (driver flag) and up to float pow rounding (1e-5 relative)
        for t, (okb, ff) in enumerate(zip(toks[2].split(","), parse_rats(toks[1]))):
          ctx.count("rootOk_exact:" + okb)
          r = Fraction(float(rs[u][t]))
          if r >= 1 and r ** dims >= ff * (1 - Fraction(1, 100000)):
            ctx.agree("kfl.root_facts")
          else:
            ctx.disagree("kfl.root_facts", dict(small, k0=k0, s0=s0), float(r), fr(ff),
                         "factor r violates 1 <= r and fullFactor <= r^dims beyond float rounding")
    if name == "consS" and np.any(np.sign(s1) * np.sign(s0) < 0):
      ctx.fail("scale_sign_flipped", key, case, dict(s0=s0, s1=s1))
  # ---- outputs
  out, pts, Xf = item["out"], item["pts"], item["X"]
  M, w = magnitude(cfg, item["kf"], item["sf"], item["bias"], Xf)
  if not np.all(np.isfinite(out)):
    ctx.fail("finite", key, case, out)
    return
  for u in range(U):
    model = parse_rats(replies[item["ev_first"] + u])
    ctx.compare("kfl.eval", dict(small, kf=item["kf"], sf=item["sf"], X=Xf[:, u]), out[:, u], model,
                float(np.max(M[:, u])), rtol=3e-5)
  # ---- oracle on the real outputs
  inr = np.all((Xf >= 0) & (Xf <= L - 1), axis=-1)          # (P, U) in-range points
  ok_pt = np.ones_like(inr) if cfg["clip"] else inr
  tolp = 3e-5 * np.maximum(1.0, M)
  if lo is not None:
    bad = ok_pt & (out < float(lo) - tolp)
    if np.any(bad):
      p, u = np.argwhere(bad)[0]
      ctx.fail("output_min", key, case, dict(x=Xf[p, u], out=float(out[p, u]), unit=int(u)),
               "output %r < output_min %r" % (float(out[p, u]), float(lo)))
  if hi is not None:
    bad = ok_pt & (out > float(hi) + tolp)
    if np.any(bad):
      p, u = np.argwhere(bad)[0]
      ctx.fail("output_max", key, case, dict(x=Xf[p, u], out=float(out[p, u]), unit=int(u)),
               "output %r > output_max %r" % (float(out[p, u]), float(hi)))
  ns = len(case["sweep"])
  npairs = 0
  for start in range(0, len(pts), ns):
    bi, d, _ = pts[start]
    if not monos_b[d]:
      continue
    for u in range(U):
      idx = [start + j for j in range(ns) if ok_pt[start + j, u]]
      for a, b in zip(idx, idx[1:]):
        npairs += 1
        if out[a, u] > out[b, u] + max(tolp[a, u], tolp[b, u]):
          ctx.fail("monotonicity", key, case,
                   dict(dim=d, unit=u, x_lo=Xf[a, u], x_hi=Xf[b, u], out_lo=float(out[a, u]), out_hi=float(out[b, u])),
                   "output decreases by %g along increasing dim %d" % (float(out[a, u] - out[b, u]), d))
          break
  ctx.count("oracle_pairs", npairs)
  ctx.count("oracle_points", int(np.sum(ok_pt)))


def run(ctx):
  rng = ctx.rng
  n = ctx.n(450, 6000)
  lines, items = [], []
  for _ in range(n):
    case = gen_case(rng)
    ls, item = run_case(ctx, case)
    item["first"] = len(lines)
    lines += ls
    items.append(item)
  replies = run_driver(lines)
  for item in items:
    rep = replies[item["first"]:item["first"] + item["nlines"]]
    if any(r == "bad-op" for r in rep):
      ctx.disagree("kfl.driver", item["case"]["cfg"], None, rep, "bad-op")
      continue
    check_case(ctx, item, rep)


def _unjson(case):
  """a recorded case carries fractions as strings; everything is re-parsed with Fraction()."""
  cfg = case["cfg"]
  for k in ("lo", "hi"):
    cfg[k] = None if cfg[k] is None else Fraction(cfg[k])
  case["sweep"] = [Fraction(v) for v in case["sweep"]]
  case["bases"] = [[[Fraction(v) for v in r] for r in b] for b in case["bases"]]
  return case


def replay(ctx, failure):
  case = _unjson(failure["case"])
  lines, item = run_case(ctx, case)
  check_case(ctx, item, run_driver(lines))
