"""C14: alternative representations of the same function agree.
Tie: the PAIRED REAL callables on identical inputs -- KroneckerFactoredLattice vs Lattice holding the dense
kernel; pwl_calibration_fn vs PWLCalibration layers (fixed derived keypoints, and learned_interior with the
padded logits); cdf_fn vs CDF layer; ParallelCombination vs its calibrators column by column; Aggregation vs
the python mean over ragged rows; RTL vs a manual gather of `_rtl_structure` into its lattices -- and each
side against the Lean model Tfl.Alt (driver ops `alt.*`).
Oracle: the two real callables agree (key {"pair": ..., "clause": "agree"}).
The pwl_calibration_fn / cdf generators and runners of this file are shared with C15."""
import math, re
import numpy as np
from fractions import Fraction
from common import *

RULE = ("one PRNG drives six paired streams. kfl-lattice: sizes 2-4, dims 1-4, terms 1-3, units 1-2, clip on/off, "
        "dyadic/int/wide kernels, scale, bias; points on vertices, cell interiors, outside the range with clip on "
        "(clipped: in the property) AND with clip off (class outside:clip_off_out_of_range: model vs real only); the "
        "dense Lattice is evaluated through BOTH input forms (one tensor / list of per-feature tensors). "
        "pwlfn-layer: 2-7 keypoints, units 1-3, monotonicity none/increasing, every clamp/cyclic/missing mode, "
        "all documented parameter shapes (omitted, rank 2/3, unit axis 1/units, batch axis 1/B), float32 (float64 "
        "where the code allows), logits zero/small/dyadic/|p|<=12; inputs on derived keypoints, between, outside, at "
        "the missing value. cdffn-layer: input dims 1-6, sparsity 1-3, units, 1-4 keypoints, relu6/sigmoid, mean/none, "
        "fixed/learned_shared/learned_per_input scaling incl. negative raw values through the constraint; fn scaling "
        "None/broadcast shapes/exp transform. cdf-degenerate: sparsity_factor 0/-1/-2/-3 for the layer and the function "
        "(both must raise ValueError, model sparsityOf) and input_dim = 0 (model: no numbers; both forms must agree). parallel: 1-4 PWL/categorical calibrators, tensor or list input, "
        "single_output on/off. aggregation: lattice model over 1-3 ragged features, rows of length 0-5. rtl: dict or "
        "plain inputs, rank 1-3, sizes 2-3, hypercube/simplex, average on/off, random kernels assigned. "
        "Non-trivial = non-constant outputs; distinct = (pair, config class, output hash).")
ASSUMPTIONS = ["EXPLICIT EXCLUSIONS (counted classes, reported in the distribution): "
               "(1) `outside:clip_off_out_of_range` -- KFL vs Lattice with clip_inputs=False and a coordinate outside "
               "[0, L-1]: neither layer interpolates there (no containing cell; the Lattice side is outside C02), the "
               "two representations and even the two input forms of the same dense Lattice are different functions "
               "(Props/C14.lean C14_T1_needs_in_range). Such points ARE generated; KFL, Lattice(tensor) and "
               "Lattice(list) are each compared with the model; the `agree` clause is evaluated on every in-range or "
               "clipped point and on no other. "
               "(2) `outside:cyclic_two_keypoints_no_paired_layer` -- pwl_calibration_fn(is_cyclic=True) with two "
               "keypoints: PWLCalibration.build raises ValueError ('k > 1'), so no layer 'holding the corresponding "
               "keypoints and weights' exists (C14_T2_cyclic_two_keypoints_no_paired_layer); the harness BUILDS the "
               "layer and requires that ValueError (anything else is a failure), the function is still compared with "
               "the model. (3) `outside:collapsed_keypoints_no_paired_layer` -- float softmax underflow makes two "
               "derived keypoints equal (C05/C15 findings F-C05-a / F-C15-b): the PWLCalibration constructor raises "
               "ValueError, checked the same way",
               "float32 wherever the code hard-casts (KFL custom gradient, tf.zeros/tf.fill in pwl_calibration_fn, "
               "tf.constant input scaling of CDF): rtol 1e-4 (KFL) / 1e-5 * magnitude; float64 otherwise with 1e-9",
               "softmax / sigmoid are TF's: the harness evaluates tf.nn.softmax / tf.sigmoid on the padded logits it "
               "builds itself and hands the floats to the model as finite tables (exact rationals)",
               "near a keypoint of a piece of length l the ramp (x-k)/l is ill-conditioned: tolerance adds "
               "|height|*min(1, 16*eps*(|x|+max|kp|)/l) for inputs within that distance (pure rounding)",
               "sigmoid CDF cases: real cdf_fn vs real CDF layer only (no rational model of the float sigmoid of a "
               "rounded pre-activation)"]

EPS = {"float32": 2.0 ** -23, "float64": 2.0 ** -52}
RTOL = {"float32": 1e-5, "float64": 1e-9}
NUM = re.compile(r"^-?\d+(/\d+)?$")


def q32(v):
  return Fraction(float(np.float32(float(v))))


def qd(v, dtype):
  return q32(v) if dtype == "float32" else Fraction(float(v))


def npd(dtype):
  return np.float32 if dtype == "float32" else np.float64


def unjson(x):
  """inverse of common.jsonable for case dicts: numeric strings -> Fraction"""
  if isinstance(x, str) and NUM.match(x):
    return Fraction(x)
  if isinstance(x, list):
    return [unjson(v) for v in x]
  if isinstance(x, dict):
    return {k: unjson(v) for k, v in x.items()}
  return x


def val(rng, kind, dtype="float32"):
  if kind == "dyadic":
    return Fraction(rng.randint(-24, 24), 8)
  if kind == "int":
    return Fraction(rng.randint(-3, 3))
  if kind == "wide":
    return qd(rng.uniform(-4.0, 4.0), dtype)
  if kind == "unit":
    return Fraction(rng.randint(0, 16), 16)
  if kind == "zero":
    return Fraction(0)
  raise ValueError(kind)


def quiet_tf():
  import tensorflow as tf
  tf.get_logger().setLevel("ERROR")
  return tf


def ohash(y):
  return hash(np.asarray(y, dtype=np.float64).round(6).tobytes()) % 9973


# =============================================================================== kfl vs lattice
def gen_kfl(rng):
  L = rng.choice([2, 2, 3, 3, 4])
  dims = rng.randint(1, 4 if L < 4 else 3)
  T, U = rng.randint(1, 3), rng.randint(1, 2)
  clip = rng.random() < 0.5
  kind = rng.choice(["dyadic", "dyadic", "int", "wide", "unit"])
  kern = [[[[val(rng, kind) for _ in range(L)] for _ in range(dims)] for _ in range(T)] for _ in range(U)]
  scale = [[val(rng, rng.choice(["dyadic", "int", "wide"])) for _ in range(T)] for _ in range(U)]
  bias = [val(rng, rng.choice(["dyadic", "zero", "wide"])) for _ in range(U)]
  pts = []
  for _ in range(rng.randint(5, 9)):
    r = rng.random()
    row = []
    for _u in range(U):
      if r < 0.2:
        p = [Fraction(rng.randint(0, L - 1)) for _ in range(dims)]                       # vertex
      elif r < 0.72:
        p = [Fraction(rng.randint(0, 8 * (L - 1)), 8) for _ in range(dims)]              # in range (cell faces too)
      elif r < 0.9 or dims == 1:
        # outside: clipped (clip on) or class outside:clip_off_out_of_range (clip off)
        p = [Fraction(rng.randint(-12, 8 * L + 4), 8) for _ in range(dims)]
      else:
        p = [Fraction(rng.randint(0, 8 * (L - 1)), 8) for _ in range(dims)]              # exactly one coordinate outside
        p[rng.randrange(dims)] = rng.choice([Fraction(-rng.randint(1, 12), 8), L - 1 + Fraction(rng.randint(1, 12), 8)])
      row.append(p)
    pts.append(row)
  if rng.random() < 0.3:
    pts.append([[q32(rng.uniform(0, L - 1)) for _ in range(dims)] for _ in range(U)])
  return dict(pair="kfl-lattice", L=L, dims=dims, T=T, U=U, clip=clip, kind=kind, kern=kern, scale=scale,
              bias=bias, pts=pts)


def run_kfl(case):
  tf = quiet_tf()
  import tensorflow_lattice as tfl
  L, dims, T, U = case["L"], case["dims"], case["T"], case["U"]
  kfl = tfl.layers.KroneckerFactoredLattice(lattice_sizes=L, units=U, num_terms=T, clip_inputs=case["clip"])
  kfl.build(tf.TensorShape([None, dims] if U == 1 else [None, U, dims]))
  k = np.zeros((1, L, U * dims, T), dtype=np.float32)
  for u in range(U):
    for t in range(T):
      for d in range(dims):
        for i in range(L):
          k[0, i, u * dims + d, t] = float(case["kern"][u][t][d][i])
  kfl.kernel.assign(k)
  sc = np.array([[float(v) for v in row] for row in case["scale"]], dtype=np.float32)
  kfl.scale.assign(sc)
  bs = np.array([float(v) for v in case["bias"]], dtype=np.float32)
  kfl.bias.assign(bs.reshape(kfl.bias.shape))
  # dense kernel: bias + mean_t scale_t * outer product, row-major over [L]*dims, in float64
  dense = np.zeros((L ** dims, U), dtype=np.float64)
  for u in range(U):
    acc = np.zeros([L] * dims, dtype=np.float64)
    for t in range(T):
      term = np.ones([L] * dims, dtype=np.float64)
      for d in range(dims):
        shape = [1] * dims
        shape[d] = L
        term = term * k[0, :, u * dims + d, t].astype(np.float64).reshape(shape)
      acc += float(sc[u, t]) * term
    dense[:, u] = (float(bs[u]) + acc / T).reshape(-1)
  lat = tfl.layers.Lattice(lattice_sizes=[L] * dims, units=U, clip_inputs=case["clip"], interpolation="hypercube")
  lat.build(tf.TensorShape([None, dims] if U == 1 else [None, U, dims]))
  lat.kernel.assign(dense.astype(np.float32))
  X = np.array([[[float(v) for v in p] for p in row] for row in case["pts"]], dtype=np.float32)   # (B, U, dims)
  xin = tf.constant(X[:, 0, :] if U == 1 else X)
  xlist = [xin[..., d:d + 1] for d in range(dims)]       # the list-of-per-feature-tensors input form
  real = dict(dense=dense, X=X)
  try:
    real["kfl"] = kfl(xin).numpy().reshape(len(X), U)
    real["lat"] = lat(xin).numpy().reshape(len(X), U)
    real["latlist"] = lat(xlist).numpy().reshape(len(X), U)
    real["err"] = None
  except Exception as e:
    real["err"] = classify_exc(e)
  lines = []
  for u in range(U):
    rows = [case["kern"][u][t][d] for t in range(T) for d in range(dims)]
    lines.append("alt.kfl %d %d %d %s %s %s %s" % (
        L, int(case["clip"]), dims, frl2(rows), frl(case["scale"][u]), fr(case["bias"][u]),
        frl2([[Fraction(float(v)) for v in X[b, u]] for b in range(len(X))])))
  return lines, real


def check_kfl(ctx, case, real, replies):
  key = dict(pair="kfl-lattice")
  cls = "L%d:d%d:T%d:U%d:clip%d" % (case["L"], case["dims"], case["T"], case["U"], case["clip"])
  ctx.count("kfl:" + cls.split(":T")[0] + ":clip%d" % case["clip"])
  ctx.count("kfl-kernel:" + case["kind"])
  if real["err"]:
    ctx.fail("raises", key, case, real["err"], "valid KFL / Lattice pair rejected")
    ctx.case(sig=("kfl", cls, "err"), sample=case)
    return
  yk, yl, yll = real["kfl"], real["lat"], real["latlist"]
  L = case["L"]
  for u in range(case["U"]):
    mag = abs(float(case["bias"][u])) + sum(
        abs(float(case["scale"][u][t])) * float(np.prod([max(abs(float(v)) for v in case["kern"][u][t][d])
                                                            for d in range(case["dims"])]))
        for t in range(case["T"])) / case["T"]
    scale = max(1.0, mag)
    toks = replies[u].split(" ")
    if len(toks) != 4 or toks[2].startswith("ERR") or toks[3].startswith("ERR"):
      ctx.disagree("alt.kfl", case, None, replies[u], "model rejects / malformed")
      continue
    ctx.compare("alt.kfl.dense_kernel", case, real["dense"][:, u], parse_rats(toks[0]), scale, rtol=1e-6)
    mk, ml, mll = parse_rats(toks[1]), parse_rats(toks[2]), parse_rats(toks[3])
    for b in range(len(yk)):
      xb = [float(v) for v in real["X"][b, u]]
      inr = all(0.0 <= v <= L - 1 for v in xb)
      defined = case["clip"] or inr
      # unclipped out-of-range points extrapolate: the magnitude grows with prod(1 + |x_d|)
      sc = scale * (1.0 if defined else float(np.prod([1.0 + abs(v) for v in xb])))
      sub = dict(case, pts=[case["pts"][b]] if b < len(case["pts"]) else case["pts"][-1:])
      # model vs real, point by point, for the KFL and BOTH input forms of the dense Lattice -- also outside the property
      ctx.compare("alt.kfl.eval", sub, [yk[b, u]], [mk[b]], sc, rtol=1e-4)
      ctx.compare("alt.kfl.lattice_on_dense", sub, [yl[b, u]], [ml[b]], sc, rtol=1e-4)
      ctx.compare("alt.kfl.lattice_list_on_dense", sub, [yll[b, u]], [mll[b]], sc, rtol=1e-4)
      a, c, cl = float(yk[b, u]), float(yl[b, u]), float(yll[b, u])
      ctx.count("kfl-scope:" + ("in_range" if inr else ("clipped" if case["clip"] else "outside:clip_off_out_of_range")))
      if not defined:
        # EXPLICIT exclusion (see ASSUMPTIONS): no agreement is claimed; record that the exclusion is not vacuous
        ctx.count("outside:clip_off_out_of_range")
        if abs(a - c) > 1e-4 * sc:
          ctx.count("outside:clip_off_out_of_range:kfl-differs-from-lattice(tensor)")
        if abs(a - cl) > 1e-4 * sc:
          ctx.count("outside:clip_off_out_of_range:kfl-differs-from-lattice(list)")
        if abs(c - cl) > 1e-4 * sc:
          ctx.count("outside:clip_off_out_of_range:lattice-tensor-differs-from-list")
        continue
      # oracle: the real layers agree (in range or clipped), through both input forms of the Lattice
      ctx.count("clause:agree-evaluated:kfl")
      for name, other in (("tensor", c), ("list", cl)):
        if not (math.isfinite(a) and math.isfinite(other)) or abs(a - other) > 1e-4 * scale:
          ctx.fail("agree", key, case, [a, other], "unit %d point %r: KFL %r vs Lattice(dense kernel, %s input) %r tol %g" % (
              u, real["X"][b, u].tolist(), a, name, other, 1e-4 * scale))
  ctx.case(sig=("kfl", cls, case["kind"], ohash(yk)), nontrivial=float(np.ptp(yk)) > 0,
           sample=dict(case=case, kfl=yk, lattice=yl))


# =============================================================================== pwl_calibration_fn
PWL_PARAM_KINDS = ["zero", "small", "small", "dyadic", "dyadic", "moderate"]


def gen_params(rng, kind, size, dtype):
  if kind == "zero":
    return [Fraction(0)] * size
  if kind == "small":
    return [qd(rng.uniform(-3, 3), dtype) for _ in range(size)]
  if kind == "dyadic":
    return [Fraction(rng.randint(-20, 20), 4) for _ in range(size)]
  if kind == "moderate":
    return [qd(rng.uniform(-12, 12), dtype) for _ in range(size)]
  if kind == "huge":
    return [qd(rng.choice([-1, 1]) * rng.uniform(1e3, 1e4) if rng.random() < 0.6 else rng.uniform(-50, 50), dtype)
            for _ in range(size)]
  raise ValueError(kind)


def pwl_out_size(case):
  return (case["n"] - int(case["clamp_max"]) - int(case["clamp_min"]) - int(case["cyclic"])
          + int(case["miss"] != "none") - int(case["miss"] == "fixed"))


def gen_pwlfn(rng, stream="main", shared_only=False):
  """Pure-data case of pwl_calibration_fn. `in_form`: none | r2 | r3_1 | r3_u ; `out_form`: r2 | r3_1 | r3_u;
  `*_batch`: 1 or B."""
  while True:
    n = rng.randint(2, 7)
    units = rng.randint(1, 3)
    mono = rng.choice(["none", "increasing"])
    clamp_min = mono == "increasing" and rng.random() < 0.5
    clamp_max = mono == "increasing" and rng.random() < 0.5
    cyclic = mono == "none" and rng.random() < 0.4
    miss = rng.choice(["none", "none", "derived", "fixed"])
    case = dict(n=n, clamp_min=clamp_min, clamp_max=clamp_max, cyclic=cyclic, miss=miss)
    if pwl_out_size(case) >= 1:
      break
  in_form = "none" if (n == 2 and rng.random() < 0.6) else rng.choice(["r2", "r3_1", "r3_u"])
  # units > 1: (batch, units, size) or the documented broadcast form (batch, 1, size) (accepted since ab7779b)
  out_form = rng.choice(["r2", "r3_u"]) if units == 1 else rng.choice(["r3_u", "r3_u", "r3_1"])
  dtype = "float32"
  if stream == "main" and in_form != "none" and miss != "fixed" and rng.random() < 0.35:
    dtype = "float64"
  B = rng.randint(6, 10)
  in_batch = 1 if (shared_only or rng.random() < 0.6) else B
  out_batch = 1 if (shared_only or rng.random() < 0.6) else B
  r = rng.random()
  imin = Fraction(rng.randint(-16, 16), 4) if r < 0.8 else qd(rng.uniform(-50, 50), dtype)
  imax = imin + (Fraction(rng.randint(1, 32), 4) if r < 0.8 else qd(rng.uniform(0.5, 50), dtype))
  imax = qd(imax, dtype)
  r = rng.random()
  omin = Fraction(rng.randint(-12, 12), 4) if r < 0.8 else qd(rng.uniform(-20, 20), dtype)
  omax = omin + (Fraction(rng.randint(0 if r < 0.1 else 1, 24), 4) if r < 0.8 else qd(rng.uniform(0.5, 20), dtype))
  omax = qd(omax, dtype)
  pk = "huge" if stream == "huge" else rng.choice(PWL_PARAM_KINDS)
  in_units = {"none": 0, "r2": 1, "r3_1": 1, "r3_u": units}[in_form]
  in_params = None if in_form == "none" else [
      [gen_params(rng, pk, n - 2, dtype) for _ in range(in_units)] for _ in range(in_batch)]
  osz = pwl_out_size(case)
  out_units = 1 if out_form in ("r2", "r3_1") else units
  ok = "huge" if stream == "huge" else rng.choice(PWL_PARAM_KINDS)
  out_params = [[gen_params(rng, ok, osz, dtype) for _ in range(out_units)] for _ in range(out_batch)]
  miv, mov = None, None
  if miss != "none":
    rr = rng.random()
    # every value handed to BOTH sides must be representable in the case's dtype (an unrepresentable
    # missing_input_value rounds onto a neighbouring float32 input and the real code then sees `x == missing`)
    miv = qd(imin - rng.randint(1, 5), dtype) if rr < 0.5 else (qd((imin + imax) / 2, dtype) if rr < 0.8 else imin)
    if miss == "fixed":
      mov = Fraction(rng.randint(-40, 40), 4)
  cols = 1 if units == 1 else rng.choice([1, units])
  case.update(pair="pwlfn-layer", stream=stream, units=units, mono=mono, dtype=dtype, B=B, in_form=in_form,
              out_form=out_form, in_batch=in_batch, out_batch=out_batch, imin=imin, imax=imax, omin=omin, omax=omax,
              in_kind=pk, out_kind=ok, in_params=in_params, out_params=out_params, miv=miv, mov=mov, cols=cols,
              x=None, entry=rng.choice(["tf.function", "python", "python", "python"]))
  return case


def padded_in_rows(case, b):
  """the padded logit row of every unit for example b (what the code feeds to softmax)"""
  units = case["units"]
  if case["in_params"] is None:
    return [[Fraction(0)] for _ in range(units)]
  rows = case["in_params"][b if case["in_batch"] > 1 else 0]
  rows = rows * units if len(rows) == 1 and units > 1 else rows
  return [[Fraction(0)] + list(r) for r in rows]


def out_rows(case, b):
  units = case["units"]
  rows = case["out_params"][b if case["out_batch"] > 1 else 0]
  return rows * units if len(rows) == 1 and units > 1 else rows


def softmax_f(tf, row, dtype):
  return [Fraction(float(v)) for v in tf.nn.softmax(tf.constant([float(p) for p in row], dtype=dtype)).numpy()]


def sigmoid_f(tf, vals, dtype):
  if not vals:
    return []
  return [Fraction(float(v)) for v in tf.sigmoid(tf.constant([float(p) for p in vals], dtype=dtype)).numpy()]


def pwl_tables(tf, case):
  """softmax table (padded input rows; padded output rows when increasing) and sigmoid table."""
  dtype = case["dtype"]
  sm, sg_keys = {}, set()
  nb = max(case["in_batch"], case["out_batch"])
  for b in range(nb):
    for row in padded_in_rows(case, b):
      sm.setdefault(tuple(row), None)
    for row in out_rows(case, b):
      row = list(row)
      if case["miss"] == "derived":
        sg_keys.add(row[-1])
        row = row[:-1]
      if case["mono"] == "increasing":
        sm.setdefault(tuple([Fraction(0)] + row), None)
      else:
        sg_keys.update(row)
  for k in sm:
    sm[k] = softmax_f(tf, list(k), dtype)
  sg_keys = sorted(sg_keys)
  return sm, dict(zip(sg_keys, sigmoid_f(tf, sg_keys, dtype)))


def derived_keypoints(case, sm, b, u):
  w = sm[tuple(padded_in_rows(case, b)[u])]
  d = npd(case["dtype"])
  deltas = (np.array([float(v) for v in w], dtype=d) * d(float(case["imax"] - case["imin"]))).astype(d)
  kps = np.concatenate([[d(float(case["imin"]))],
                        (d(float(case["imin"])) + np.cumsum(deltas, dtype=d)).astype(d)])
  return kps, deltas


def gen_pwl_inputs(rng, case, sm):
  dtype = case["dtype"]
  cols = []
  for c in range(case["cols"]):
    kps, _ = derived_keypoints(case, sm, 0, min(c, case["units"] - 1))
    pts = [Fraction(float(v)) for v in kps]
    pts += [qd((a + b) / 2, dtype) for a, b in zip(pts, pts[1:])]
    lo, hi = case["imin"], case["imax"]
    pts += [qd(lo + (hi - lo) * Fraction(rng.randint(1, 63), 64), dtype) for _ in range(3)]
    pts += [qd(lo - Fraction(rng.randint(1, 40), 8), dtype), qd(hi + Fraction(rng.randint(1, 40), 8), dtype),
            Fraction(-2 ** 20), Fraction(2 ** 20)]
    if case["miv"] is not None:
      pts += [case["miv"]] * 2
    rng.shuffle(pts)
    must = [lo, hi] + ([case["miv"]] if case["miv"] is not None else [])
    pts = must + pts
    cols.append(pts[:case["B"]] if len(pts) >= case["B"] else (pts + [lo] * case["B"])[:case["B"]])
  case["x"] = cols


def pwl_kwargs(case):
  kw = dict(keypoint_input_min=float(case["imin"]), keypoint_input_max=float(case["imax"]),
            keypoint_output_min=float(case["omin"]), keypoint_output_max=float(case["omax"]),
            units=case["units"], monotonicity=case["mono"], clamp_min=case["clamp_min"],
            clamp_max=case["clamp_max"], is_cyclic=case["cyclic"])
  if case["miv"] is not None:
    kw["missing_input_value"] = float(case["miv"])
  if case["mov"] is not None:
    kw["missing_output_value"] = float(case["mov"])
  return kw


def pwl_tensors(tf, case):
  d = npd(case["dtype"])
  x = tf.constant(np.array([[float(v) for v in col] for col in case["x"]], dtype=d).T)
  kin = None
  if case["in_params"] is not None:
    a = np.array([[[float(v) for v in r] for r in ex] for ex in case["in_params"]], dtype=d)
    a = a.reshape(a.shape[0], a.shape[1], case["n"] - 2)
    kin = tf.constant(a[:, 0, :] if case["in_form"] == "r2" else a)
  a = np.array([[[float(v) for v in r] for r in ex] for ex in case["out_params"]], dtype=d)
  kout = tf.constant(a[:, 0, :] if case["out_form"] == "r2" else a)
  return x, kin, kout


def run_pwlfn(case, rng=None):
  """Runs the real function; returns dict(err | y (B, units), deltas, kernel, sm, sg)."""
  tf = quiet_tf()
  from tensorflow_lattice.python import conditional_pwl_calibration as cp
  sm, sg = pwl_tables(tf, case)
  if case["x"] is None:
    gen_pwl_inputs(rng, case, sm)
  x, kin, kout = pwl_tensors(tf, case)
  fn = cp.pwl_calibration_fn if case["entry"] == "tf.function" else cp.pwl_calibration_fn.python_function
  real = dict(sm=sm, sg=sg)
  try:
    y, deltas, kernel = fn(x, kin, kout, return_derived_parameters=True, **pwl_kwargs(case))
    real.update(y=y.numpy(), deltas=deltas.numpy(), kernel=kernel.numpy(), err=None)
  except Exception as e:
    real.update(y=None, err=classify_exc(e))
  return real


def cfg_tokens(case):
  return "%s %s %s %s %d %d %d %d %d %s %s" % (
      fr(case["imin"]), fr(case["imax"]), fr(case["omin"]), fr(case["omax"]), case["units"],
      case["mono"] == "increasing", case["clamp_min"], case["clamp_max"], case["cyclic"], opt(case["miv"]),
      opt(case["mov"]))


def table_tokens(sm, sg):
  rows = []
  for k, v in sm.items():
    rows += [list(k), v]
  ks = sorted(sg)
  return "%s %s %s" % (frl2(rows), frl(ks), frl([sg[k] for k in ks]))


def in_rows_token(case, b):
  """`none`, the unit rows of example b, or `emptyN` for N rows of size 0 (two keypoints, parameters given)"""
  if case["in_params"] is None:
    return "none"
  rows = case["in_params"][b if case["in_batch"] > 1 else 0]
  return "empty%d" % len(rows) if case["n"] == 2 else frl2(rows)


def pwlfn_lines(case, real):
  """`alt.pwlfn` (one line when the parameters are shared by the batch, else one per example) followed by one
  `alt.pwlderived` per distinct parameter set."""
  B = case["B"]
  shared = case["in_batch"] == 1 and case["out_batch"] == 1
  tabs = table_tokens(real["sm"], real["sg"])
  rows = [[col[b] for col in case["x"]] for b in range(B)]
  lines = []
  for b in ([0] if shared else range(B)):
    inp = in_rows_token(case, b)
    outp = frl2(case["out_params"][b if case["out_batch"] > 1 else 0])
    xs = frl2(rows if shared else [rows[b]])
    lines.append("alt.pwlfn %s %s %d %s %s %s" % (cfg_tokens(case), inp, case["out_form"] != "r2", outp, xs, tabs))
    lines.append("alt.pwlderived %s %s %s %s" % (cfg_tokens(case), inp, outp, tabs))
  return lines


def pwl_cls(case):
  return "%s:u%d:%s%s%s%s:miss-%s:in-%s/%d:out-%s/%d:cols%d:%s" % (
      case["dtype"], case["units"], case["mono"], ":cmin" if case["clamp_min"] else "",
      ":cmax" if case["clamp_max"] else "", ":cyc" if case["cyclic"] else "", case["miss"], case["in_form"],
      case["in_batch"], case["out_form"], case["out_batch"], case["cols"], case["entry"])


def cond_tol(x, kps, heights, eps):
  d = 16.0 * eps * (abs(x) + float(np.max(np.abs(kps))))
  t = 0.0
  for i, h in enumerate(heights):
    k0, k1 = float(kps[i]), float(kps[i + 1])
    if k0 - d <= x <= k1 + d:
      l = k1 - k0
      t += abs(h) * (1.0 if l <= d else d / l)
  return t


def pwl_example_view(case, real, b, u):
  """(x, keypoints, kernel heights, tolerance pieces) of example b / unit u from the REAL derived parameters"""
  d = npd(case["dtype"])
  deltas, kernel = real["deltas"], real["kernel"]
  db = deltas[b if deltas.shape[0] > 1 else 0, u if deltas.shape[1] > 1 else 0].astype(np.float64)
  kb = kernel[b if kernel.shape[0] > 1 else 0, u if kernel.shape[1] > 1 else 0].astype(np.float64)
  kps = np.concatenate([[float(case["imin"])], float(case["imin"]) + np.cumsum(db)])
  x = float(case["x"][u if case["cols"] > 1 else 0][b])
  return x, kps, kb


def compare_pwlfn_model(ctx, case, real, replies, suite="alt.pwlfn"):
  """model vs real function (outputs and derived parameters). Returns the model rows or None."""
  dtype = case["dtype"]
  eps, rtol = EPS[dtype], RTOL[dtype]
  B, units = case["B"], case["units"]
  shared = case["in_batch"] == 1 and case["out_batch"] == 1
  y = real["y"]
  scale = max_abs([float(case["omin"]), float(case["omax"])], [float(case["mov"] or 0)])
  model_rows = []
  for i, b in enumerate([0] if shared else range(B)):
    r = replies[2 * i]
    if r.startswith("ERR") or r == "bad-op":
      ctx.disagree(suite, case, "ok", r, "model rejects a call the code accepts")
      return None
    model_rows += parse_rats2(r)
    toks = replies[2 * i + 1].split(" ")
    if len(toks) != 4:
      ctx.disagree(suite + ".derived", case, None, replies[2 * i + 1])
      continue
    md, mk = parse_rats2(toks[0]), parse_rats2(toks[1])
    for u in range(units):
      db = real["deltas"][b if real["deltas"].shape[0] > 1 else 0, u if real["deltas"].shape[1] > 1 else 0]
      kb = real["kernel"][b if real["kernel"].shape[0] > 1 else 0, u if real["kernel"].shape[1] > 1 else 0]
      ctx.compare(suite + ".keypoint_deltas", case, db, md[u], max_abs([float(case["imax"] - case["imin"])]), rtol=rtol)
      ctx.compare(suite + ".kernel_outputs", case, kb, mk[u], scale, rtol=rtol * 4)
  if len(model_rows) != B or any(len(r) != units for r in model_rows):
    ctx.disagree(suite, case, list(np.shape(y)), [len(model_rows)], "shape")
    return None
  for u in range(units):
    atols = []
    for b in range(B):
      x, kps, kb = pwl_example_view(case, real, b, u)
      missing = case["miv"] is not None and x == float(case["miv"])
      atols.append(0.0 if missing else cond_tol(x, kps, kb[1:], eps))
    ok = all(close(y[b, u], model_rows[b][u], scale, rtol * 8, atols[b]) for b in range(B))
    if ok:
      ctx.agree(suite)
    else:
      ctx.disagree(suite, case, y[:, u], [fr(model_rows[b][u]) for b in range(B)], "unit %d rtol=%g scale=%g" % (u, rtol * 8, scale))
  return model_rows


def paired_layers(tf, case, real):
  """Builds, per unit, the PWLCalibration layer holding the derived keypoints and weights (fixed keypoints),
  and one learned_interior layer for all units. Returns (outputs_fixed (B, units) | None, outputs_learned | None, note)."""
  import tensorflow_lattice as tfl
  d = npd(case["dtype"])
  units, B, n = case["units"], case["B"], case["n"]
  X = np.array([[float(v) for v in col] for col in case["x"]], dtype=d).T        # (B, cols)
  deltas, kernel = real["deltas"], real["kernel"]
  mo = None
  if case["miss"] == "fixed":
    mo = [d(float(case["mov"]))] * units
  elif case["miss"] == "derived":
    mo = []
    for u in range(units):
      p = out_rows(case, 0)[u][-1]
      s = d(float(real["sg"][p]))
      mo.append(d(d(float(case["omin"])) + s * d(float(case["omax"] - case["omin"]))))
  fixed = np.zeros((B, units), dtype=np.float64)
  note = None
  for u in range(units):
    du = deltas[0, u if deltas.shape[1] > 1 else 0]
    ku = kernel[0, u if kernel.shape[1] > 1 else 0]
    kps = np.concatenate([[d(float(case["imin"]))], (d(float(case["imin"])) + np.cumsum(du, dtype=d)).astype(d)])
    kw = dict(input_keypoints=[float(v) for v in kps], units=1, dtype=case["dtype"], is_cyclic=case["cyclic"])
    if mo is not None:
      kw.update(impute_missing=True, missing_input_value=float(case["miv"]), missing_output_value=float(mo[u]))
    # the two configurations for which NO paired layer exists: the layer is constructed / built anyway and must
    # refuse with a ValueError -- then the case is outside the property (explicit class); if it does NOT refuse, the
    # comparison below runs as for any other case
    expect_refusal = None
    if n - int(case["cyclic"]) < 2:
      expect_refusal = "outside:cyclic_two_keypoints_no_paired_layer"     # build: "weights must have shape [k, units], k > 1"
    elif not np.all(np.diff(kps) > 0) or not np.all(np.isfinite(kps)):
      expect_refusal = "outside:collapsed_keypoints_no_paired_layer"      # __init__: keypoints must be strictly increasing
    try:
      layer = tfl.layers.PWLCalibration(**kw)
      layer.build((None, 1))
    except ValueError:
      if expect_refusal is None:
        raise
      return None, None, expect_refusal
    if expect_refusal is not None:
      note = "unexpectedly-buildable:" + expect_refusal
    kcol = ku[:-1] if case["cyclic"] else ku
    layer.kernel.assign(np.array(kcol, dtype=d).reshape(-1, 1))
    fixed[:, u] = layer(tf.constant(X[:, [u if case["cols"] > 1 else 0]])).numpy()[:, 0]
  learned = None
  # learned_interior hard-casts to float32 (tf.ones in compute_interpolation_weights); one missing output for all units
  if n >= 3 and case["dtype"] == "float32" and n - int(case["cyclic"]) >= 2 and case["miss"] in ("none", "fixed"):
    kw = dict(input_keypoints=[float(v) for v in np.linspace(float(case["imin"]), float(case["imax"]), n)],
              units=units, dtype=case["dtype"], is_cyclic=case["cyclic"], input_keypoints_type="learned_interior")
    if mo is not None:
      kw.update(impute_missing=True, missing_input_value=float(case["miv"]), missing_output_value=float(mo[0]))
    layer = tfl.layers.PWLCalibration(**kw)
    layer.build((None, case["cols"]))
    layer.interpolation_logits.assign(np.array([[float(v) for v in r] for r in padded_in_rows(case, 0)], dtype=d))
    K = np.stack([(kernel[0, u if kernel.shape[1] > 1 else 0][:-1] if case["cyclic"]
                   else kernel[0, u if kernel.shape[1] > 1 else 0]) for u in range(units)], axis=1)
    layer.kernel.assign(K.astype(d))
    learned = layer(tf.constant(X)).numpy().astype(np.float64)
  return fixed, learned, note


def check_pwlfn_pair(ctx, case, real, replies):
  tf = quiet_tf()
  key = dict(pair="pwlfn-layer")
  cls = pwl_cls(case)
  ctx.count("pwlfn:%s:%s:%s" % (case["dtype"], case["mono"], case["entry"]))
  ctx.count("pwlfn-shape:in-%s/%s:out-%s/%s" % (case["in_form"], "B" if case["in_batch"] > 1 else "1", case["out_form"],
                                                "B" if case["out_batch"] > 1 else "1"))
  ctx.count("pwlfn-mode:%s%s%s:miss-%s" % ("cmin" if case["clamp_min"] else "", "cmax" if case["clamp_max"] else "",
                                           "cyc" if case["cyclic"] else "", case["miss"]))
  if real["err"]:
    ctx.fail("raises", key, case, real["err"], "documented call form rejected")
    ctx.case(sig=("pwlfn", cls, "err"), sample=case)
    return
  y = real["y"]
  compare_pwlfn_model(ctx, case, real, replies)
  dtype = case["dtype"]
  eps, rtol = EPS[dtype], RTOL[dtype]
  scale = max_abs([float(case["omin"]), float(case["omax"])], [float(case["mov"] or 0)])
  if case["in_batch"] == 1 and case["out_batch"] == 1 and np.all(np.isfinite(y)):
    try:
      fixed, learned, note = paired_layers(tf, case, real)
    except Exception as e:
      fixed, learned, note = None, None, "layer-build:" + classify_exc(e)
      ctx.fail("agree", key, case, note, "paired PWLCalibration layer cannot be built: %r" % (e,))
    if note and note.startswith("outside:"):
      # EXPLICIT exclusion: the paired layer does not exist (its constructor / build raised the ValueError)
      ctx.count(note)
    elif note and note.startswith("unexpectedly-buildable:"):
      # the layer the model says cannot exist was built: not silently tolerated (the comparison below still runs)
      ctx.disagree("alt.pwlfn.paired_layer_exists", case, "built", "model: not Buildable", note)
    elif note:
      ctx.count("pwlfn-pair:" + note.split(":")[0])
    for name, other in (("fixed", fixed), ("learned_interior", learned)):
      if other is None:
        continue
      ctx.count("pwlfn-pair:" + name)
      for u in range(case["units"]):
        for b in range(case["B"]):
          x, kps, kb = pwl_example_view(case, real, b, u)
          missing = case["miv"] is not None and x == float(case["miv"])
          tol = rtol * 8 * scale + (0.0 if missing else 2 * cond_tol(x, kps, kb[1:], eps))
          a, c = float(y[b, u]), float(other[b, u])
          if not math.isfinite(c) or abs(a - c) > tol:
            ctx.fail("agree", key, case, [a, c], "%s layer, unit %d x=%r: fn %r vs layer %r tol %g" % (name, u, x, a, c, tol))
  ctx.case(sig=("pwlfn", cls, case["in_kind"], case["out_kind"], ohash(y)), nontrivial=float(np.ptp(y)) > 0,
           sample=dict(case=case, y=y))


# =============================================================================== cdf
def gen_cdf(rng, with_geo=False):
  f = rng.choice([1, 1, 2, 3])
  I = f * rng.randint(1, 2 if f > 1 else 4)
  W = rng.randint(1, 3)
  U = f * W
  K = rng.randint(1, 4)
  act = rng.choice(["relu6", "relu6", "sigmoid"])
  red = rng.choice(["mean", "none"] + (["geometric_mean"] if with_geo else []))
  stype = rng.choice(["fixed", "learned_shared", "learned_per_input"])
  smono = rng.choice(["increasing", "increasing", "none"])
  kkind = rng.choice(["dyadic", "unit", "wide"])
  kernel = [[[val(rng, kkind) for _ in range(W)] for _ in range(K)] for _ in range(I)]
  init = Fraction(rng.choice([K * 4, 4, 2, 8, 1]), 4) if rng.random() < 0.9 else Fraction(0)
  raw = None
  if stype != "fixed":
    m = 1 if stype == "learned_shared" else I
    raw = [Fraction(rng.randint(-12, 24), 4) for _ in range(m)]
  B = rng.randint(4, 8)
  X = [[Fraction(rng.randint(-16, 24), 8) for _ in range(I)] for _ in range(B)]
  # function-side scaling forms (for fn vs model): none | broadcast shape | exp
  fmode = rng.choice(["layer", "layer", "none", "bcast", "exp"])
  sshape, sc, mult = None, None, None
  if fmode in ("bcast", "exp"):
    sshape = (rng.choice([1, B]), I, rng.choice([1, K]), rng.choice([1, W]))
    sc = [Fraction(rng.randint(-8 if fmode == "exp" else 0, 16), 8) for _ in range(int(np.prod(sshape)))]
    if fmode == "exp":
      mult = Fraction(rng.choice([1, 2, -1, 4]), 2)
  loc_batch = rng.choice([1, 1, B])
  if sshape is not None and loc_batch == 1 and sshape[0] != 1:
    sshape = (1,) + sshape[1:]
    sc = sc[:int(np.prod(sshape))]
  loc_extra = None
  if loc_batch > 1:
    loc_extra = [[[[val(rng, kkind) for _ in range(W)] for _ in range(K)] for _ in range(I)] for _ in range(B - 1)]
  return dict(pair="cdffn-layer", f=f, I=I, W=W, U=U, K=K, act=act, red=red, stype=stype, smono=smono, kkind=kkind,
              kernel=kernel, init=init, raw=raw, B=B, X=X, fmode=fmode, sshape=sshape, sc=sc, mult=mult,
              loc_batch=loc_batch, loc_extra=loc_extra, entry=rng.choice(["tf.function", "python", "python"]))


def run_cdf(case):
  """Real CDF layer (after assigning the raw scaling and applying its constraint like an optimizer step), the
  real cdf_fn on the layer's own parameters, and cdf_fn on its own scaling form."""
  tf = quiet_tf()
  import tensorflow_lattice as tfl
  from tensorflow_lattice.python import conditional_cdf as cc
  I, K, W, U, f, B = case["I"], case["K"], case["W"], case["U"], case["f"], case["B"]
  real = dict()
  X = np.array([[float(v) for v in row] for row in case["X"]], dtype=np.float32)
  kern = np.array([[[float(v) for v in r] for r in kk] for kk in case["kernel"]], dtype=np.float32).reshape(1, I, K, W)
  fn = cc.cdf_fn if case["entry"] == "tf.function" else cc.cdf_fn.python_function
  try:
    layer = tfl.layers.CDF(num_keypoints=K, units=U, activation=case["act"], reduction=case["red"],
                           input_scaling_init=float(case["init"]), input_scaling_type=case["stype"],
                           input_scaling_monotonicity=case["smono"], sparsity_factor=f)
    layer(tf.constant(X))            # CDF.build does not mark the layer built: build by calling
    layer.kernel.assign(kern)
    constrained = False
    if case["raw"] is not None:
      layer.input_scaling.assign(np.array([float(v) for v in case["raw"]], dtype=np.float32).reshape(layer.input_scaling.shape))
      c = layer.input_scaling.constraint
      if c is not None:
        layer.input_scaling.assign(c(layer.input_scaling))
        constrained = True
    real["constrained"] = constrained
    s = np.array(layer.input_scaling.numpy() if hasattr(layer.input_scaling, "numpy") else layer.input_scaling,
                 dtype=np.float32).reshape(-1)
    real["scale"] = s
    real["layer"] = layer(tf.constant(X)).numpy()
    # the functional form on the layer's own parameters
    s4 = np.broadcast_to(s.reshape(1, -1, 1, 1) if len(s) == I and I > 1 else s.reshape(1, 1, 1, 1)[:, :1], (1, I, 1, 1))
    real["fn_layer"] = fn(tf.constant(X), tf.constant(kern), tf.constant(np.array(s4, dtype=np.float32)), units=U,
                          activation=case["act"], reduction=case["red"], sparsity_factor=f).numpy()
    real["err"] = None
  except Exception as e:
    real["err"] = classify_exc(e) + ":" + str(e)[:200]
    return real
  # the function with its own scaling / per-example locations
  loc = kern
  if case["loc_batch"] > 1:
    extra = np.array([[[[float(v) for v in r] for r in kk] for kk in ex] for ex in case["loc_extra"]], dtype=np.float32)
    loc = np.concatenate([kern, extra.reshape(B - 1, I, K, W)], axis=0)
  real["loc"] = loc
  if case["fmode"] != "layer":
    kw = dict(units=U, activation=case["act"], reduction=case["red"], sparsity_factor=f, return_derived_parameters=True)
    sc = None
    if case["sc"] is not None:
      sc = tf.constant(np.array([float(v) for v in case["sc"]], dtype=np.float32).reshape(case["sshape"]))
      if case["mult"] is not None:
        kw["scaling_exp_transform_multiplier"] = float(case["mult"])
    try:
      y, _, sder = fn(tf.constant(X), tf.constant(loc), sc, **kw)
      real["fn_own"] = y.numpy()
      real["fn_scaling"] = None if sc is None else np.broadcast_to(sder.numpy(), (B, I, K, W))
    except Exception as e:
      real["err"] = classify_exc(e) + ":" + str(e)[:200]
  return real


def cdf_lines(case, real):
  if real["err"] or case["act"] != "relu6" or case["red"] == "geometric_mean":
    return []
  I, K, W, U, f, B = case["I"], case["K"], case["W"], case["U"], case["f"], case["B"]
  rows = [case["kernel"][i][k] for i in range(I) for k in range(K)]
  if case["raw"] is None:
    mono, raw = 0, [case["init"]]
  else:
    # what the CONFIGURATION promises (NonNeg iff input_scaling_monotonicity is increasing), not what the
    # layer happened to attach: a dropped constraint must show up as a disagreement
    mono, raw = int(case["smono"] == "increasing"), case["raw"]
  lines = ["alt.cdflayer relu6 %s %d %d %d %d %d %s %s %s" % (
      case["red"], f, U, K, W, mono, frl(raw), frl2(rows), frl2(case["X"]))]
  if case["fmode"] != "layer":
    for b in range(B):
      loc = real["loc"][b if real["loc"].shape[0] > 1 else 0]
      lrows = [[Fraction(float(v)) for v in loc[i, k]] for i in range(I) for k in range(K)]
      if real["fn_scaling"] is None:
        stoks = "none none none _"
      else:
        stoks = "%d %d %d %s" % (I, K, W, frl([Fraction(float(v)) for v in real["fn_scaling"][b].reshape(-1)]))
      lines.append("alt.cdffn relu6 %s %d %d %d %d %s %s %s" % (case["red"], f, U, K, W, stoks, frl2(lrows), frl(case["X"][b])))
  return lines


def cdf_cls(case):
  return "%s:%s:f%d:I%d:U%d:K%d:%s:%s" % (case["act"], case["red"], case["f"], case["I"], case["U"], case["K"],
                                          case["stype"], case["smono"])


def cdf_zmax(case, real):
  smax = float(np.max(np.abs(real["scale"]))) if len(real["scale"]) else 1.0
  if real.get("fn_scaling") is not None:
    smax = max(smax, float(np.max(np.abs(real["fn_scaling"]))))
  xm = max(abs(float(v)) for row in case["X"] for v in row)
  km = float(np.max(np.abs(real.get("loc", np.zeros(1))))) if "loc" in real else 4.0
  return max(1.0, smax) * (xm + km + 1.0)


def compare_cdf_model(ctx, case, real, replies):
  if not replies:
    return
  B = case["B"]
  atol = 4e-6 * cdf_zmax(case, real)
  r = replies[0]
  if r.startswith("ERR") or r == "bad-op":
    ctx.disagree("alt.cdflayer", case, "ok", r)
  else:
    rows = parse_rats2(r)
    ctx.compare("alt.cdflayer", case, real["layer"].reshape(-1), [v for row in rows for v in row], 1.0, rtol=1e-6, atol=atol)
  if case["fmode"] != "layer" and "fn_own" in real:
    vals, bad = [], None
    for b in range(B):
      rb = replies[1 + b]
      if rb.startswith("ERR") or rb == "bad-op":
        bad = rb
        break
      vals += parse_rats(rb)
    if bad:
      ctx.disagree("alt.cdffn", case, "ok", bad)
    else:
      ctx.compare("alt.cdffn", case, real["fn_own"].reshape(-1), vals, 1.0, rtol=1e-6, atol=atol)


def check_cdf_pair(ctx, case, real, replies):
  key = dict(pair="cdffn-layer")
  cls = cdf_cls(case)
  ctx.count("cdf:%s:%s:f%d:%s" % (case["act"], case["red"], case["f"], case["stype"]))
  ctx.count("cdf-fn-scaling:" + case["fmode"])
  if real["err"]:
    ctx.fail("raises", key, case, real["err"], "valid CDF / cdf_fn configuration rejected")
    ctx.case(sig=("cdf", cls, "err"), sample=case)
    return
  compare_cdf_model(ctx, case, real, replies)
  a, c = real["layer"], real["fn_layer"]
  tol = 4e-6 * cdf_zmax(case, real)
  if a.shape != c.shape or not np.all(np.isfinite(a)) or float(np.max(np.abs(a - c))) > tol:
    ctx.fail("agree", key, case, dict(layer=a, fn=c), "CDF layer vs cdf_fn on the same kernel / scaling, tol %g" % tol)
  exp_shape = (case["B"], case["I"] // case["f"], case["U"]) if case["red"] == "none" else (case["B"], case["U"])
  if tuple(a.shape) != exp_shape:
    ctx.fail("shape", key, case, list(a.shape), "expected %r" % (exp_shape,))
  ctx.case(sig=("cdf", cls, case["fmode"], ohash(a)), nontrivial=float(np.ptp(a)) > 0, sample=dict(case=case, layer=a, fn=c))


# =============================================================================== cdf: degenerate configurations
def gen_cdf_degenerate(rng, kind=None):
  """sparsity_factor < 1 (0 and negative: both entry points must raise ValueError since 1677739 / 75478be) and
  inputs without columns (input_dim = 0: mean over an empty axis)"""
  kind = kind or rng.choice(["bad_sparsity", "bad_sparsity", "bad_sparsity", "zero_width"])
  K = rng.randint(1, 3)
  B = rng.randint(1, 3)
  if kind == "bad_sparsity":
    f = rng.choice([0, 0, 0, -1, -2, -3])
    I, U, W = rng.randint(1, 4), rng.randint(1, 4), rng.randint(1, 3)
    if rng.random() < 0.5:
      W = U                                   # the shape a caller who ignores the factor would pass
  else:
    f = rng.choice([1, 1, 2, 3])
    I, W = 0, rng.randint(1, 2)
    U = f * W
    B = rng.randint(2, 3)                     # wire format: a single empty row "_" would read as zero examples
  kernel = [[[val(rng, "dyadic") for _ in range(W)] for _ in range(K)] for _ in range(I)]
  X = [[Fraction(rng.randint(-16, 24), 8) for _ in range(I)] for _ in range(B)]
  return dict(pair="cdf-degenerate", kind=kind, f=f, I=I, U=U, W=W, K=K, B=B, kernel=kernel, X=X,
              act=rng.choice(["relu6", "relu6", "sigmoid"]), red=rng.choice(["mean", "mean", "none", "geometric_mean"]),
              stype=rng.choice(["fixed", "learned_shared", "learned_per_input"]),
              entry=rng.choice(["tf.function", "python", "python"]))


def degenerate_status(exc, y):
  """error class of a call; a call that returns no numbers (NaN entries or an empty tensor) is the model's
  `.error .other` ("the code does not raise a ValueError but does not return numbers either")"""
  if exc is not None:
    return classify_exc(exc).split(":")[0] if classify_exc(exc).startswith("ERR Other") else classify_exc(exc)
  if y.size == 0 or not np.all(np.isfinite(y)):
    return "ERR Other"
  return "ok"


def run_cdf_degenerate(case):
  tf = quiet_tf()
  import tensorflow_lattice as tfl
  from tensorflow_lattice.python import conditional_cdf as cc
  I, K, W, U, f, B = case["I"], case["K"], case["W"], case["U"], case["f"], case["B"]
  X = np.array([[float(v) for v in row] for row in case["X"]], dtype=np.float32).reshape(B, I)
  kern = np.array([float(v) for kk in case["kernel"] for r in kk for v in r], dtype=np.float32).reshape(1, I, K, W)
  fn = cc.cdf_fn if case["entry"] == "tf.function" else cc.cdf_fn.python_function
  real = {}

  def layer_call():
    layer = tfl.layers.CDF(num_keypoints=K, units=U, activation=case["act"], reduction=case["red"],
                           input_scaling_type=case["stype"], sparsity_factor=f)
    layer(tf.constant(X))
    layer.kernel.assign(kern)
    return layer(tf.constant(X)).numpy()

  for which, call in (("CDF", layer_call),
                      ("cdf_fn", lambda: fn(tf.constant(X), tf.constant(kern), None, units=U, activation=case["act"],
                                            reduction=case["red"], sparsity_factor=f).numpy())):
    try:
      y = call()
      real[which] = dict(status=degenerate_status(None, y), y=y, exc=None)
    except Exception as e:
      real[which] = dict(status=degenerate_status(e, None), y=None, exc=type(e).__name__ + ": " + str(e)[:160])
  red = "none" if case["red"] == "none" else "mean"       # error paths do not depend on the reduction
  rows = [case["kernel"][i][k] for i in range(I) for k in range(K)]
  lines = ["alt.cdflayer relu6 %s %d %d %d %d 0 1 %s %s" % (red, f, U, K, W, frl2(rows), frl2(case["X"])),
           "alt.cdffn relu6 %s %d %d %d %d none none none _ %s %s" % (red, f, U, K, W, frl2(rows), frl(case["X"][0]))]
  return lines, real


def check_cdf_degenerate(ctx, case, real, replies, keyf=None, fail=None, c15=False):
  """C14: sparsity < 1 must be a ValueError of BOTH entry points (model: sparsityOf); a zero-width input is
  outside the numbers the model returns (`.error .other`) and both forms must still agree (NaN pattern, shape).
  C15 (c15=True): the zero-width NaN breaks "outputs lie in [0, 1]" (finding F-C15-f)."""
  keyf = keyf or (lambda which, cls: dict(pair="cdffn-layer", cls=cls, fn=which))
  fail = fail or (lambda clause, key, case, obs, detail="": ctx.fail(clause, key, case, obs, detail))
  kind = case["kind"]
  for which, reply in zip(("CDF", "cdf_fn"), replies):
    r = real[which]
    model = reply if reply.startswith("ERR") or reply == "bad-op" else "ok"
    ctx.count("cdf-degenerate:%s:f%d:%s:%s" % (kind, case["f"], which, r["status"]))
    if model != r["status"]:
      ctx.disagree("alt.cdf.errors", dict(case, which=which), r["status"] + " " + str(r["exc"]), model,
                   "accept / reject of a degenerate CDF configuration")
    else:
      ctx.agree("alt.cdf.errors")
    if kind == "bad_sparsity":
      if r["status"] != "ERR ValueError":
        fail("must_reject", keyf(which, "sparsity_below_one"), dict(case, which=which),
             r["exc"] if r["exc"] else r["y"],
             "%s with sparsity_factor=%d must be rejected with a ValueError; got %s" % (which, case["f"], r["exc"] or "an output"))
    elif c15:
      if r["exc"] is not None and r["status"] != "ERR ValueError":
        fail("raises", keyf(which, "zero_input_dim"), dict(case, which=which), r["exc"], "%s over zero input dimensions" % which)
      elif r["y"] is not None and not np.all(np.isfinite(r["y"])):
        fail("finite", keyf(which, "zero_input_dim"), dict(case, which=which), r["y"],
             "%s over zero input dimensions (reduction %s) returns NaN: not in [0, 1]" % (which, case["red"]))
  if kind == "zero_width" and not c15:
    a, c = real["CDF"], real["cdf_fn"]
    same = a["status"] == c["status"] and (a["y"] is None) == (c["y"] is None) and (
        a["y"] is None or (a["y"].shape == c["y"].shape and np.array_equal(a["y"], c["y"], equal_nan=True)))
    if not same:
      ctx.fail("agree", keyf("both", "zero_input_dim"), case, dict(layer=a["y"] if a["exc"] is None else a["exc"],
                                                                     fn=c["y"] if c["exc"] is None else c["exc"]),
               "CDF layer vs cdf_fn over zero input dimensions")
  ctx.case(sig=("cdf-degenerate", kind, case["f"], case["U"], case["K"], case["red"], real["CDF"]["status"]),
           nontrivial=False, sample=case)


# =============================================================================== parallel combination
def gen_par(rng):
  n = rng.randint(1, 4)
  cals = []
  for _ in range(n):
    if rng.random() < 0.75:
      m = rng.randint(2, 5)
      kps = [Fraction(rng.randint(-8, 8), 4)]
      for _ in range(m - 1):
        kps.append(kps[-1] + Fraction(rng.randint(1, 8), 4))
      cyc = m >= 3 and rng.random() < 0.3
      cals.append(dict(kind="pwl", kps=kps, cyclic=cyc, kernel=[val(rng, "dyadic") for _ in range(m - int(cyc))]))
    else:
      nb = rng.randint(2, 5)
      cals.append(dict(kind="cat", buckets=nb, kernel=[val(rng, "dyadic") for _ in range(nb)]))
  B = rng.randint(3, 7)
  X = []
  for _ in range(B):
    row = []
    for c in cals:
      if c["kind"] == "pwl":
        row.append(Fraction(rng.randint(-24, 40), 8))
      else:
        row.append(Fraction(rng.randint(0, c["buckets"] - 1)))
    X.append(row)
  return dict(pair="parallel", cals=cals, X=X, single=rng.random() < 0.6, as_list=rng.random() < 0.4)


def run_par(case):
  tf = quiet_tf()
  import tensorflow_lattice as tfl
  layers = []
  for c in case["cals"]:
    if c["kind"] == "pwl":
      l = tfl.layers.PWLCalibration(input_keypoints=[float(k) for k in c["kps"]], units=1, is_cyclic=c["cyclic"])
      l.build((None, 1))
      l.kernel.assign(np.array([float(v) for v in c["kernel"]], dtype=np.float32).reshape(-1, 1))
    else:
      l = tfl.layers.CategoricalCalibration(num_buckets=c["buckets"], units=1)
      l.build((None, 1))
      l.kernel.assign(np.array([float(v) for v in c["kernel"]], dtype=np.float32).reshape(-1, 1))
    layers.append(l)
  X = np.array([[float(v) for v in row] for row in case["X"]], dtype=np.float32)
  real = dict()
  try:
    pc = tfl.layers.ParallelCombination(layers, single_output=case["single"])
    xin = [tf.constant(X[:, [c]]) for c in range(X.shape[1])] if case["as_list"] else tf.constant(X)
    out = pc(xin)
    if case["single"]:
      real["shape_ok"] = tuple(out.shape) == X.shape
      real["y"] = out.numpy()
    else:
      real["shape_ok"] = isinstance(out, list) and len(out) == X.shape[1] and all(tuple(t.shape) == (len(X), 1) for t in out)
      real["y"] = np.concatenate([t.numpy() for t in out], axis=1)
    real["cols"] = np.concatenate([layers[c](tf.constant(X[:, [c]])).numpy() for c in range(X.shape[1])], axis=1)
    real["err"] = None
  except Exception as e:
    real["err"] = classify_exc(e) + ":" + str(e)[:200]
  lines = []
  if all(c["kind"] == "pwl" for c in case["cals"]):
    toks = " ".join("%s %d %s" % (frl(c["kps"]), c["cyclic"], frl2([c["kernel"]])) for c in case["cals"])
    lines.append("alt.par %s %d %s" % (frl2(case["X"]), len(case["cals"]), toks))
  return lines, real


def check_par(ctx, case, real, replies):
  key = dict(pair="parallel")
  cls = "n%d:%s:single%d:list%d" % (len(case["cals"]), "".join(c["kind"][0] for c in case["cals"]), case["single"], case["as_list"])
  ctx.count("parallel:single%d:list%d" % (case["single"], case["as_list"]))
  if real["err"]:
    ctx.fail("raises", key, case, real["err"])
    ctx.case(sig=("par", cls, "err"), sample=case)
    return
  y, cols = real["y"], real["cols"]
  scale = max_abs(np.abs(cols).reshape(-1))
  if y.shape != cols.shape or float(np.max(np.abs(y - cols))) > 1e-6 * scale:
    ctx.fail("agree", key, case, dict(combined=y, columnwise=cols), "ParallelCombination vs per-column calibrators")
  if not real["shape_ok"]:
    ctx.fail("shape", key, case, list(np.shape(y)), "single_output / list form")
  if replies:
    r = replies[0]
    if r.startswith("ERR") or r == "bad-op":
      ctx.disagree("alt.par", case, "ok", r)
    else:
      ctx.compare("alt.par", case, y.reshape(-1), [v for row in parse_rats2(r) for v in row], scale, rtol=1e-5)
  ctx.case(sig=("par", cls, ohash(y)), nontrivial=float(np.ptp(y)) > 0, sample=dict(case=case, y=y))


# =============================================================================== aggregation
def gen_agg(rng):
  d = rng.randint(1, 3)
  sizes = [rng.choice([2, 2, 3]) for _ in range(d)]
  kernel = [val(rng, "dyadic") for _ in range(int(np.prod(sizes)))]
  B = rng.randint(2, 5)
  lens = [rng.choice([1, 2, 3, 4, 5]) for _ in range(B)]
  if rng.random() < 0.15:
    lens[rng.randrange(B)] = 0
  if len(set(lens)) == 1 and B > 1:
    lens[0] = lens[0] % 5 + 1
  rows = [[[Fraction(rng.randint(-4, 8 * (sizes[f] - 1) + 4), 8) for f in range(d)] for _ in range(n)] for n in lens]
  return dict(pair="aggregation", sizes=sizes, kernel=kernel, lens=lens, rows=rows, as_dict=rng.random() < 0.3)


def run_agg(case):
  tf = quiet_tf()
  import tensorflow_lattice as tfl
  from tensorflow_lattice.python import aggregation_layer
  keras = aggregation_layer.keras
  d, sizes = len(case["sizes"]), case["sizes"]
  real = dict()
  try:
    ins = [keras.Input(shape=(1,), name="f%d" % f) for f in range(d)]
    lat = tfl.layers.Lattice(lattice_sizes=sizes, units=1, clip_inputs=True)
    cat = ins[0] if d == 1 else keras.layers.Concatenate(axis=1)(ins)
    model = keras.Model(inputs=ins, outputs=lat(cat))
    lat.kernel.assign(np.array([float(v) for v in case["kernel"]], dtype=np.float32).reshape(-1, 1))
    agg = tfl.layers.Aggregation(model)
    feats = [tf.ragged.constant([[float(e[f]) for e in ex] for ex in case["rows"]], dtype=tf.float32, ragged_rank=1)
             for f in range(d)]
    y = agg(feats).numpy().reshape(-1)
    flat = [np.array([[float(e[f])] for ex in case["rows"] for e in ex], dtype=np.float32) for f in range(d)]
    if len(flat[0]):
      outs = model([tf.constant(a) for a in flat]).numpy().reshape(-1)
    else:
      outs = np.zeros(0, dtype=np.float32)
    ref, pos = [], 0
    for n in case["lens"]:
      ref.append(float("nan") if n == 0 else float(np.mean(outs[pos:pos + n].astype(np.float64))))
      pos += n
    real.update(y=y, ref=np.array(ref), err=None)
  except Exception as e:
    real["err"] = classify_exc(e) + ":" + str(e)[:300]
  elems = [e for ex in case["rows"] for e in ex]
  lines = ["alt.agg %s 1 %s %s %s" % (il(sizes), frl(case["kernel"]), il(case["lens"]), frl2(elems))]
  return lines, real


def check_agg(ctx, case, real, replies):
  key = dict(pair="aggregation")
  cls = "d%d:%s:lens%s" % (len(case["sizes"]), il(case["sizes"]), il(sorted(set(case["lens"]))))
  ctx.count("aggregation:d%d:%s" % (len(case["sizes"]), "empty-row" if 0 in case["lens"] else "nonempty"))
  if real["err"]:
    ctx.fail("raises", key, case, real["err"])
    ctx.case(sig=("agg", cls, "err"), sample=case)
    return
  y, ref = real["y"], real["ref"]
  scale = max_abs([float(v) for v in case["kernel"]])
  model = replies[0].split(",") if replies[0] != "_" else []
  bad = len(y) != len(ref) or len(model) != len(y)
  for b in range(min(len(y), len(ref))):
    if math.isnan(ref[b]) != math.isnan(float(y[b])) or (not math.isnan(ref[b]) and abs(float(y[b]) - ref[b]) > 1e-5 * scale):
      ctx.fail("agree", key, case, [float(y[b]), ref[b]], "example %d (%d elements): Aggregation vs python mean" % (b, case["lens"][b]))
  if len(y) != len(ref):
    ctx.fail("shape", key, case, list(y.shape), "one output per example expected")
  if bad:
    ctx.disagree("alt.agg", case, y, replies[0], "length")
  else:
    ok = all((m == "nan") == math.isnan(float(v)) and (m == "nan" or close(v, Fraction(m), scale, 1e-5)) for v, m in zip(y, model))
    (ctx.agree if ok else lambda s: ctx.disagree(s, case, y, replies[0]))("alt.agg")
  ctx.case(sig=("agg", cls, ohash(np.nan_to_num(y))), nontrivial=len(set(case["lens"])) > 1, sample=dict(case=case, y=y))


# =============================================================================== rtl
def gen_rtl(rng):
  fmt = rng.choice(["dict", "dict", "plain"])
  if fmt == "plain":
    inc, unc = [], [1] * rng.randint(2, 6)
  else:
    inc = [rng.choice([1, 1, 2]) for _ in range(rng.randint(0, 3))]
    unc = [rng.choice([1, 1, 2]) for _ in range(rng.randint(0, 3))]
    if not inc and not unc:
      inc = [2]
  n = sum(inc) + sum(unc)
  r = rng.randint(1, 3)
  L = max(1, -(-n // r)) + rng.choice([0, 0, 1, 2])
  size = rng.choice([2, 2, 3])
  B = rng.randint(3, 6)
  X = [[Fraction(rng.randint(-2, 8 * (size - 1) + 2), 8) for _ in range(n)] for _ in range(B)]
  return dict(pair="rtl", fmt=fmt, inc=inc, unc=unc, L=L, r=r, size=size, seed=rng.randint(0, 10 ** 6),
              interp=rng.choice(["hypercube", "hypercube", "simplex"]), avg=rng.random() < 0.3,
              kseed=rng.randint(0, 10 ** 6), X=X, kernels=None)


def plain(x):
  if isinstance(x, (list, tuple)) or type(x).__name__ in ("ListWrapper", "_TupleWrapper"):
    return [plain(v) for v in x]
  return int(x)


def run_rtl(case):
  tf = quiet_tf()
  import random as _random
  import tensorflow_lattice as tfl
  inc, unc = case["inc"], case["unc"]
  X = np.array([[float(v) for v in row] for row in case["X"]], dtype=np.float32)
  real = dict()
  try:
    layer = tfl.layers.RTL(num_lattices=case["L"], lattice_rank=case["r"], lattice_size=case["size"],
                           interpolation=case["interp"], average_outputs=case["avg"], random_seed=case["seed"],
                           clip_inputs=True)
    if case["fmt"] == "plain":
      xin = tf.constant(X)
    else:
      xin, pos = {}, 0
      for keyname, sizes in (("increasing", inc), ("unconstrained", unc)):     # sorted key order = flatten order
        if sizes:
          ts = []
          for s in sizes:
            ts.append(tf.constant(X[:, pos:pos + s]))
            pos += s
          xin[keyname] = ts
    layer(xin)                                                                   # builds
    structure = [(plain(m), plain(i)) for m, i in layer._rtl_structure]
    kr = _random.Random(case["kseed"])
    kernels = []
    for monos, idxs in layer._rtl_structure:
      lat = layer._lattice_layers[str(monos)]
      shape = tuple(lat.kernel.shape)
      if case["kernels"] is None:
        k = np.array([[kr.randint(-16, 16) / 8.0 for _ in range(shape[1])] for _ in range(shape[0])], dtype=np.float32)
      else:
        k = np.array([[float(v) for v in col] for col in case["kernels"][len(kernels)]], dtype=np.float32).T
      lat.kernel.assign(k)
      kernels.append([[Fraction(float(v)) for v in k[:, u]] for u in range(shape[1])])
    y = layer(xin).numpy()
    outs = [[], []]
    for monos, idxs in layer._rtl_structure:
      idxs_p = plain(idxs)
      lat = layer._lattice_layers[str(monos)]
      g = X[:, idxs_p[0]] if len(idxs_p) == 1 else X[:, np.array(idxs_p)]         # manual gather
      outs[max(plain(monos))].append(lat(tf.constant(g)).numpy())
    ref = np.concatenate(outs[0] + outs[1], axis=1)
    if case["avg"]:
      ref = np.mean(ref, axis=-1, keepdims=True)
    real.update(y=y, ref=ref, structure=structure, kernels=kernels, err=None)
  except Exception as e:
    real["err"] = classify_exc(e) + ":" + str(e)[:300]
    return [], real
  toks = " ".join("%s %s %s" % (il(m), il2(i), frl2(k)) for (m, i), k in zip(structure, kernels))
  lines = ["alt.rtl %d 1 %d %d %d %s %d %s" % (case["interp"] == "simplex", case["size"], case["r"], case["avg"],
                                             frl2(case["X"]), len(structure), toks)]
  return lines, real


def check_rtl(ctx, case, real, replies):
  key = dict(pair="rtl")
  cls = "%s:L%d:r%d:s%d:%s:avg%d" % (case["fmt"], case["L"], case["r"], case["size"], case["interp"], case["avg"])
  ctx.count("rtl:%s:%s:avg%d" % (case["fmt"], case["interp"], case["avg"]))
  if real["err"]:
    ctx.fail("raises", key, case, real["err"])
    ctx.case(sig=("rtl", cls, "err"), sample=case)
    return
  y, ref = real["y"], real["ref"]
  scale = max_abs([float(v) for g in real["kernels"] for col in g for v in col])
  ctx.count("rtl-groups:%d" % len(real["structure"]))
  if y.shape != ref.shape or float(np.max(np.abs(y - ref))) > 1e-5 * scale:
    ctx.fail("agree", key, case, dict(rtl=y, manual=ref, structure=real["structure"]),
             "RTL vs manual gather of _rtl_structure into its lattices")
  exp_cols = 1 if case["avg"] else case["L"]
  if y.shape != (len(case["X"]), exp_cols):
    ctx.fail("shape", key, case, list(y.shape), "expected (%d, %d)" % (len(case["X"]), exp_cols))
  r = replies[0] if replies else "bad-op"
  if r.startswith("ERR") or r == "bad-op":
    ctx.disagree("alt.rtl", case, "ok", r)
  else:
    ctx.compare("alt.rtl", case, y.reshape(-1), [v for row in parse_rats2(r) for v in row], scale, rtol=1e-5)
  ctx.case(sig=("rtl", cls, ohash(y)), nontrivial=float(np.ptp(y)) > 0,
           sample=dict(case=dict(case, kernels=real["kernels"]), y=y, structure=real["structure"]))


# =============================================================================== driver of the run
def do_case(case, rng=None):
  """-> (lines, real)"""
  p = case["pair"]
  if p == "kfl-lattice":
    return run_kfl(case)
  if p == "pwlfn-layer":
    real = run_pwlfn(case, rng)
    return ([] if real["err"] else pwlfn_lines(case, real)), real
  if p == "cdffn-layer":
    real = run_cdf(case)
    return cdf_lines(case, real), real
  if p == "cdf-degenerate":
    return run_cdf_degenerate(case)
  if p == "parallel":
    return run_par(case)
  if p == "aggregation":
    return run_agg(case)
  if p == "rtl":
    return run_rtl(case)
  raise ValueError(p)


CHECK = {"kfl-lattice": check_kfl, "pwlfn-layer": check_pwlfn_pair, "cdffn-layer": check_cdf_pair,
         "cdf-degenerate": check_cdf_degenerate,
         "parallel": check_par, "aggregation": check_agg, "rtl": check_rtl}


def run(ctx):
  rng = ctx.rng
  plan = [(gen_kfl, ctx.n(140, 2500)), (lambda r: gen_pwlfn(r), ctx.n(260, 5000)), (gen_cdf, ctx.n(220, 4000)),
          (gen_cdf_degenerate, ctx.n(24, 300)),
          (gen_par, ctx.n(70, 1200)), (gen_agg, ctx.n(50, 800)), (gen_rtl, ctx.n(60, 1000))]
  items, lines = [], []
  for gen, count in plan:
    for _ in range(count):
      case = gen(rng)
      ls, real = do_case(case, rng)
      items.append((case, real, len(ls)))
      lines += ls
  replies = run_driver(lines)
  pos = 0
  for case, real, k in items:
    CHECK[case["pair"]](ctx, case, real, replies[pos:pos + k])
    pos += k
  bad = [r for r in replies if r == "bad-op"]
  if bad:
    ctx.disagree("driver.bad-op", {}, None, None, "%d malformed op lines" % len(bad))


def replay(ctx, failure):
  case = unjson(failure["case"])
  if case.get("pair") == "rtl" and case.get("kernels") is None:
    pass
  ls, real = do_case(case)
  CHECK[case["pair"]](ctx, case, real, run_driver(ls) if ls else [])
