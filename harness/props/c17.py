"""C17: ensemble structures (RTL arrangement, random ensemble, Crystals cover + final lattices).

Tie: real `tfl.layers.RTL(...).build(shape)._rtl_structure`, `set_random_lattice_ensemble`,
`construct_prefitting_model_config` (all-pairs cover) and `set_crystals_lattice_ensemble` (with
generated torsion/Laplacian scores) vs `Tfl.Ensembles.*` given the replayed permutations/draws.
Oracle: every clause of C17 read directly on the real structures + determinism in the seed: every stream runs the
real code TWICE per (configuration, seed), with the global NumPy generator re-seeded to an unrelated value in
between (`scramble`), and compares the two structures (clause `deterministic`; Lean: `Tfl.C17.*_deterministic` state
the model side -- a structure is a function of (config, draws), draws = gen(seed) with NumPy's generator a parameter).
cscore stream: the REAL `premade_lib._get_torsions_and_laplacians` (+ the importance formula) on prefitting models with
assigned dyadic kernels vs `Tfl.CrystalsScore.torsionsAndLaplacians` / `importanceScores` (op `cscore.tl`).
crystals_real stream: the UN-PATCHED `set_crystals_lattice_ensemble` (real `_get_torsions_and_laplacians`, whose
per-lattice normalisation is modelled by `Tfl.CrystalsScore`, see cscore) on small prefitting models with assigned lattice kernels --
oracle only. RTL layers without inputs: error class vs the model only (outside the quantifier)."""
import itertools
import numpy as np
from fractions import Fraction
from common import *

RULE = ("one PRNG drives: RTL layers (0-4 increasing groups and 0-4 unconstrained groups of 1-3 units, "
        "three input-shape formats, num_lattices 1-12, lattice_rank 1-5, seeds, avoid_intragroup_interaction "
        "on/off, incl. too-small layers); random ensembles (2-9 features, 1-8 lattices, rank 1-5, incl. rank > "
        "features and too few slots); all-pairs covers (3-10 features, rank 2-6, plus a rank-1 stream of 2-7 "
        "features: a pair cannot fit a rank-1 lattice, every lattice has two features); Crystals final lattices "
        "(3-8 features, rank 2..n-1, 1-8 lattices with enough slots, plus a rank-1 stream; symmetric dyadic "
        "torsions, dyadic Laplacians: positive / sparse / one dominant / tied / some-zero / all-zero); Crystals "
        "REAL scoring path "
        "(un-patched set_crystals_lattice_ensemble on prefitting models of 3-5 features with ASSIGNED lattice "
        "kernels: random / dyadic / constant / constant per lattice / one constant lattice / flat in one feature; "
        "rank 2-3, plus two rank-1 configurations); Crystals scoring vs model (cscore: one prefitting model of 3-5 "
        "features per case, 4 assigned kernel sets each: dyadic k/8 in [-1,1] / [-8,8], 0-1 valued, flat in one "
        "feature, one constant lattice, a truncated cover leaving a feature in no lattice); "
        "RTL layers without any input (correspondence only). Non-trivial = structure "
        "with >1 lattice; distinct = (kind, sizes, seed-dependent structure hash).")
ASSUMPTIONS = [
    "shuffles / choices are recovered by replaying RandomState(seed).shuffle on range(n) (RTL, cover) and by "
    "recording np.random.choice in the harness process (random ensemble); np.argsort(-scores) is replayed",
    "python sets in the all-pairs cover are compared as sets (iteration order of a set is not modelled)",
    "Crystals scores are small dyadic rationals so every float sum/product/comparison in the real code is exact; "
    "np.mean(torsions)*rank**2/2 is passed to the model as the exact rational of the float the code computes",
    "the torsion / Laplacian scoring of the prefitting lattices (_get_torsions_and_laplacians: per-lattice "
    "normalisation weights -= min; weights /= max, regularizer calls, means) is modelled by Tfl.CrystalsScore "
    "(torsionsAndLaplacians / importanceScores / crystalsFromKernels; theorems Props/C17Score*.lean): the cscore "
    "stream compares the REAL function on assigned dyadic kernels with the model (float32 regularizers, rtol 1e-5; "
    "NaN scores of the real code <-> the model's error value: constant kernel = F-C17-b, feature in no lattice = "
    "np.mean([])); the crystals_real stream still runs the whole un-patched path, oracle only (rank, coverage, "
    "pair cover of the prefitting config, determinism)",
    "an RTL layer without inputs admits no arrangement (outside the quantifier); its ZeroDivisionError is only "
    "compared with the model's `.error .other`",
    "Crystals theorems take 'all importance scores > 0' (strictly positive: a zero score is F-C17-a), 'order is a "
    "descending sort', 'torsions >= 0' as hypotheses; the driver evaluates them on every case",
    "determinism in the seed: NumPy's generator is outside the Lean model (a parameter `gen seed cfg` of "
    "Tfl.C17.*_deterministic); the real code is run twice per (config, seed) with the global generator re-seeded "
    "to an unrelated value in between, and RandomState(seed) / np.random.seed(seed) are replayed in the harness",
    "all-pairs cover: the size oracle is len(lattice) <= max(rank, 2) (Tfl.C17.pair_cover_any_rank); at rank 1 "
    "every cover lattice has exactly two features (pair_cover_rank_le_one) -- C17 only states the cover clause",
]


def scramble(case):
  """re-seed the GLOBAL NumPy generator with a value unrelated to case['seed'] (a function of the case, not of
  ctx.rng): between the two runs of the determinism check, so that a structure that depends on ambient generator
  state -- rather than on (config, random_seed) alone -- differs between the runs"""
  import zlib
  np.random.seed((zlib.crc32(repr(sorted((k, repr(v)) for k, v in case.items())).encode()) ^ 0x9E3779B9) & 0xFFFFFFFF)


def shash(x):
  import hashlib, json
  return hashlib.md5(json.dumps(jsonable(x), sort_keys=True).encode()).hexdigest()[:8]


# ------------------------------------------------------------------ RTL
def gen_rtl(rng):
  fmt = rng.choice(["dict_lists", "dict_lists", "dict_mixed", "plain"])
  if fmt == "plain":
    inc, unc = [], [1] * rng.randint(1, 8)
  else:
    inc = [rng.choice([1, 1, 2, 3]) for _ in range(rng.randint(0, 4))]
    unc = [rng.choice([1, 1, 2, 3]) for _ in range(rng.randint(0, 4))]
    if not inc and not unc:
      unc = [1, 2]
    if fmt == "dict_mixed":
      # a single dense tensor per key: every unit is its own group
      if rng.random() < 0.5:
        inc = [1] * sum(inc)
      else:
        unc = [1] * sum(unc)
  n = sum(inc) + sum(unc)
  r = rng.randint(1, 5)
  if rng.random() < 0.1:
    L = max(1, (n - 1) // r)  # possibly too small
  else:
    L = max(1, -(-n // r)) + rng.choice([0, 0, 1, 2, 3, 5])
  L = min(L, 12)
  return dict(fmt=fmt, inc=inc, unc=unc, L=L, r=r, seed=rng.randint(0, 10 ** 6),
              avoid=rng.random() < 0.7, unc_first=rng.random() < 0.5)


def gen_rtl_zero(rng):
  """a layer without any input feature: no arrangement exists (outside C17's quantifier); the code raises
  ZeroDivisionError at `total_usage // len(rtl_inputs)`, the model `.error .other` -- correspondence only"""
  return dict(fmt=rng.choice(["plain", "dict_zero"]), inc=[], unc=[], L=rng.randint(1, 4), r=rng.randint(1, 3),
              seed=rng.randint(0, 10 ** 6), avoid=rng.random() < 0.7, unc_first=False)


def rtl_shape(case):
  inc, unc, fmt = case["inc"], case["unc"], case["fmt"]
  if fmt == "dict_zero":
    return {"unconstrained": (None, 0)}
  if fmt == "plain":
    return (None, sum(unc))
  shape = {}
  if inc:
    shape["increasing"] = (None, sum(inc)) if (fmt == "dict_mixed" and all(s == 1 for s in inc)) \
        else [(None, s) for s in inc]
  if unc:
    shape["unconstrained"] = (None, sum(unc)) if (fmt == "dict_mixed" and all(s == 1 for s in unc)) \
        else [(None, s) for s in unc]
  if case.get("unc_first"):
    # dict INSERTION order: the layer must number the flattened inputs by sorted key (as call() concatenates
    # them), whatever order the caller built the dict in (premade models list features in config order)
    shape = {k: shape[k] for k in reversed(list(shape))}
  return shape


def plain(x):
  """ListWrapper/_TupleWrapper -> python lists"""
  if isinstance(x, (list, tuple)) or type(x).__name__ in ("ListWrapper", "_TupleWrapper"):
    return [plain(v) for v in x]
  return int(x)


def real_rtl(case, call=False):
  import tensorflow as tf
  import tensorflow_lattice as tfl
  shape = rtl_shape(case)
  layer = tfl.layers.RTL(num_lattices=case["L"], lattice_rank=case["r"], lattice_size=2,
                         separate_outputs=True, random_seed=case["seed"],
                         avoid_intragroup_interaction=case["avoid"])
  try:
    if call:
      if isinstance(shape, dict):
        x = {k: (tf.zeros((2, v[1])) if isinstance(v, tuple) else [tf.zeros((2, s[1])) for s in v])
             for k, v in shape.items()}
      else:
        x = tf.zeros((2, shape[1]))
      out = layer(x)
      outshape = {k: int(v.shape[1]) for k, v in out.items()}
    else:
      layer.build(shape)
      os_ = layer.compute_output_shape(shape)
      outshape = {k: int(v[1]) for k, v in os_.items()}
    return plain(layer._rtl_structure), outshape, None
  except Exception as e:
    return None, None, classify_exc(e)


def rtl_line(case):
  n = sum(case["inc"]) + sum(case["unc"])
  total = case["L"] * case["r"]
  rs = np.random.RandomState(case["seed"])
  p1 = list(range(n))
  rs.shuffle(p1)
  p2 = list(range(total))
  if total >= n:
    rs.shuffle(p2)
  return "ens.rtl %s %s %d %d %d %s %s" % (il(case["inc"]), il(case["unc"]), case["L"], case["r"],
                                          int(case["avoid"]), il(p1), il(p2))


def parse_structure(reply):
  toks = reply.split(" ")
  cap = toks[0]
  st = []
  rest = toks[1:]
  if rest == ["_"]:
    rest = []
  for i in range(0, len(rest), 2):
    st.append([parse_ints(rest[i]), parse_ints2(rest[i + 1])])
  return cap, st


def check_rtl(ctx, case, real, reply):
  st, outshape, err = real
  n_inc, n = sum(case["inc"]), sum(case["inc"]) + sum(case["unc"])
  L, r = case["L"], case["r"]
  cls = "rtl:%s:inc%d:unc%d:grp%d:avoid%d" % (case["fmt"], min(n_inc, 1), min(n - n_inc, 1),
                                              int(any(s > 1 for s in case["inc"] + case["unc"])), case["avoid"])
  ctx.count(cls)
  key = dict(kind="rtl", cls=cls)
  if err is not None:
    ctx.count("rtl:" + err)
    # n = 0: ZeroDivisionError (rtl_layer.py:570) is the model's `.error .other`
    if reply == err or (n == 0 and err == "ERR Other:ZeroDivisionError" and reply == "ERR Other"):
      ctx.agree("rtl.structure")
    else:
      ctx.disagree("rtl.structure", case, err, reply, "error class")
    if L * r >= n and n > 0:
      ctx.fail("raises", key, case, err, "layer with enough slots rejected")
    ctx.case(sig=("rtl", "err", n, L, r), nontrivial=False, sample=case)
    return
  ctx.case(sig=("rtl", n, L, r, shash(st)), nontrivial=L > 1, sample=dict(case=case, structure=st))
  if reply.startswith("ERR"):
    ctx.disagree("rtl.structure", case, st, reply, "model rejects, code accepts")
  else:
    cap, mst = parse_structure(reply)
    ctx.count("rtl:cap_hit:" + cap)
    if mst == st:
      ctx.agree("rtl.structure")
    else:
      ctx.disagree("rtl.structure", case, st, mst)
  # ---- oracle: every clause of C17 on the real structure
  lats = [(tuple(m), lat) for m, ls in st for lat in ls]
  if len(lats) != L:
    ctx.fail("lattice_count", key, case, st, "%d lattices, expected %d" % (len(lats), L))
  if any(len(lat) != r or len(m) != r for m, lat in lats):
    ctx.fail("exact_rank", key, case, st)
  counts = [0] * n
  for _, lat in lats:
    for i in lat:
      if 0 <= i < n:
        counts[i] += 1
      else:
        ctx.fail("index_range", key, case, st)
  if min(counts) < 1:
    ctx.fail("every_input_used", key, case, st, "counts %r" % counts)
  if max(counts) - min(counts) > 1:
    ctx.fail("uniform_usage", key, case, st, "counts %r" % counts)
  for m, lat in lats:
    for p, i in enumerate(lat):
      if (m[p] == 1) != (i < n_inc):
        ctx.fail("monotone_wiring", key, case, st, "lattice %r monotonicities %r" % (lat, m))
  n_mono = sum(1 for m, _ in lats if any(v == 1 for v in m))
  want = {}
  if n_mono:
    want["increasing"] = n_mono
  if len(lats) - n_mono:
    want["unconstrained"] = len(lats) - n_mono
  if outshape != want:
    ctx.fail("output_label", key, case, dict(outshape=outshape, want=want, structure=st))
  if [m for m, _ in st] != sorted(set(tuple(m) for m, _ in st)) and \
      [tuple(m) for m, _ in st] != sorted(set(tuple(m) for m, _ in st)):
    ctx.fail("group_keys_sorted_distinct", key, case, st)


# ------------------------------------------------------------------ random ensemble
class ChoiceRecorder:
  """records what np.random.choice drew, as indices into its candidate list"""

  def __init__(self):
    self.first, self.fill = [], []

  def __enter__(self):
    self.orig = np.random.choice
    rec = self

    def choice(a, size=None, replace=True, p=None):
      res = rec.orig(a, size=size, replace=replace, p=p)
      cands = list(a)
      if size is None:
        rec.first.append(cands.index(res))
      else:
        rec.fill.append([cands.index(x) for x in res])
      return res
    np.random.choice = choice
    return self

  def __exit__(self, *a):
    np.random.choice = self.orig


def real_random(case, record):
  from tensorflow_lattice.python import premade_lib, configs
  n = case["n"]
  mc = configs.CalibratedLatticeEnsembleConfig(
      feature_configs=[configs.FeatureConfig(name="f%d" % i) for i in range(n)], lattices="random",
      num_lattices=case["L"], lattice_rank=case["r"], random_seed=case["seed"])
  rec = ChoiceRecorder()
  try:
    if record:
      with rec:
        premade_lib.set_random_lattice_ensemble(mc)
    else:
      premade_lib.set_random_lattice_ensemble(mc)
    return [[int(str(f)[1:]) for f in lat] for lat in mc.lattices], None, rec
  except Exception as e:
    return None, classify_exc(e), rec


def check_random(ctx, case, real, reply):
  lats, err, rec = real
  n, L, r = case["n"], case["L"], case["r"]
  enough = L * r >= n and r <= n
  cls = "random:enough%d" % enough
  ctx.count(cls)
  key = dict(kind="random", cls=cls)
  if err is not None:
    ctx.count("random:" + err)
    # the draws after the failing call do not exist: the model must fail in the same class
    if reply.startswith(err) or (reply.startswith("ERR") and not enough):
      ctx.agree("random.ensemble")
    else:
      ctx.disagree("random.ensemble", case, err, reply, "error class")
    if enough:
      ctx.fail("raises", key, case, err)
    ctx.case(sig=("random", "err", n, L, r), nontrivial=False, sample=case)
    return
  ctx.case(sig=("random", n, L, r, shash(lats)), nontrivial=L > 1, sample=dict(case=case, lattices=lats))
  if reply.startswith("ERR") or parse_ints2(reply) != lats:
    ctx.disagree("random.ensemble", case, lats, reply)
  else:
    ctx.agree("random.ensemble")
  if len(lats) != L or any(len(l) != r for l in lats):
    ctx.fail("exact_rank", key, case, lats)
  if any(len(set(l)) != len(l) for l in lats):
    ctx.fail("no_repeats", key, case, lats)
  if set(f for l in lats for f in l) != set(range(n)):
    ctx.fail("every_feature_used", key, case, lats)


# ------------------------------------------------------------------ all-pairs cover
def real_cover(case):
  from tensorflow_lattice.python import premade_lib, configs
  n = case["n"]
  mc = configs.CalibratedLatticeEnsembleConfig(
      feature_configs=[configs.FeatureConfig(name="f%d" % i) for i in range(n)], lattices="crystals",
      num_lattices=case["L"], lattice_rank=case["r"], random_seed=case["seed"])
  try:
    pc = premade_lib.construct_prefitting_model_config(mc)
    return [sorted(int(f[1:]) for f in lat) for lat in pc.lattices], None
  except Exception as e:
    return None, classify_exc(e)


def cover_line(case):
  m = case["n"] * (case["n"] - 1) // 2
  np.random.seed(case["seed"])
  perm = list(range(m))
  np.random.shuffle(perm)
  return "ens.cover %d %d %s" % (case["n"], case["r"], il(perm))


def check_cover(ctx, case, real, reply):
  lats, err = real
  n, r = case["n"], case["r"]
  cls = "cover:valid%d" % (n > r)
  ctx.count(cls)
  key = dict(kind="cover", cls=cls)
  if err is not None:
    if n > r:
      ctx.fail("raises", key, case, err)
    elif err != "ERR ValueError":
      ctx.fail("rejects_with", key, case, err)
    ctx.case(sig=("cover", "err", n, r), nontrivial=False, sample=case)
    return
  if n <= r:
    ctx.fail("accepts_rank_ge_features", key, case, lats)
  ctx.case(sig=("cover", n, r, shash(lats)), nontrivial=True, sample=dict(case=case, lattices=lats))
  model = [sorted(l) for l in parse_ints2(reply)]
  if model == lats:
    ctx.agree("cover.lattices")
  else:
    ctx.disagree("cover.lattices", case, lats, model)
  for i, j in itertools.combinations(range(n), 2):
    if not any(i in l and j in l for l in lats):
      ctx.fail("pair_covered", key, case, lats, "pair (%d,%d)" % (i, j))
  ctx.count("cover:rank%s" % ("1" if r == 1 else ">=2"))
  # a pair cannot fit a lattice of rank 1: the code then makes one two-feature lattice per pair
  # (Tfl.C17.pair_cover_any_rank: size <= max(rank, 2); pair_cover_rank_le_one: exactly 2 at rank <= 1)
  if any(len(l) > max(r, 2) for l in lats):
    ctx.fail("size_le_rank", key, case, lats)
  if r <= 1 and any(len(l) != 2 for l in lats):
    ctx.fail("rank1_two_feature_lattices", key, case, lats)
  if any(len(set(l)) != len(l) for l in lats):
    ctx.fail("no_repeats", key, case, lats)
  if set(f for l in lats for f in l) != set(range(n)):
    ctx.fail("every_feature_used", key, case, lats)


# ------------------------------------------------------------------ Crystals
def gen_scores(rng, n):
  kind = rng.choice(["positive"] * 6 + ["sparse", "sparse", "dominant", "tied", "tied", "lap_only",
                                        "some_zero", "all_zero"])
  t = [[Fraction(0)] * n for _ in range(n)]
  lap = [Fraction(0)] * n
  def sym(i, j, v):
    t[i][j] = t[j][i] = v
  if kind in ("positive", "dominant", "some_zero"):
    for i, j in itertools.combinations(range(n), 2):
      sym(i, j, Fraction(rng.randint(0, 16), 8))
    lap = [Fraction(rng.randint(1, 16), 8) for _ in range(n)]
    if kind == "dominant":
      lap[rng.randrange(n)] = Fraction(rng.randint(50, 400))
    if kind == "some_zero":
      for f in rng.sample(range(n), rng.randint(1, max(1, n // 2))):
        lap[f] = Fraction(0)
        for g in range(n):
          sym(f, g, Fraction(0))
  elif kind == "sparse":
    for i, j in itertools.combinations(range(n), 2):
      if rng.random() < 0.3:
        sym(i, j, Fraction(rng.randint(1, 16), 8))
    lap = [Fraction(rng.randint(1, 4), 16) for _ in range(n)]
  elif kind == "tied":
    v = Fraction(rng.randint(1, 8), 8)
    for i, j in itertools.combinations(range(n), 2):
      sym(i, j, v if rng.random() < 0.8 else Fraction(0))
    lap = [Fraction(1, 2)] * n
  elif kind == "lap_only":
    lap = [Fraction(rng.randint(1, 16), 8) for _ in range(n)]
  return kind, t, lap


def real_crystals(case):
  from tensorflow_lattice.python import premade_lib, configs
  n = case["n"]
  names = ["f%d" % i for i in range(n)]
  mc = configs.CalibratedLatticeEnsembleConfig(
      feature_configs=[configs.FeatureConfig(name=f) for f in names], lattices="crystals",
      num_lattices=case["L"], lattice_rank=case["r"], random_seed=case["seed"])
  t = [[np.float64(float(Fraction(v))) for v in row] for row in case["t"]]
  lap = [np.float64(float(Fraction(v))) for v in case["lap"]]
  o1, o2 = premade_lib._get_torsions_and_laplacians, premade_lib._verify_prefitting_model
  premade_lib._get_torsions_and_laplacians = lambda **kw: ([list(row) for row in t], list(lap))
  premade_lib._verify_prefitting_model = lambda *a, **kw: None
  try:
    import warnings
    with warnings.catch_warnings():
      warnings.simplefilter("ignore")
      premade_lib.set_crystals_lattice_ensemble(mc, mc, None)
    return [[int(f[1:]) for f in lat] for lat in mc.lattices], None
  except Exception as e:
    return None, ("ERR Other:AssertionError" if isinstance(e, AssertionError) else classify_exc(e)) + \
        ":" + str(e)[:60]
  finally:
    premade_lib._get_torsions_and_laplacians, premade_lib._verify_prefitting_model = o1, o2


def crystals_line(case):
  n, r = case["n"], case["r"]
  t = np.array([[float(Fraction(v)) for v in row] for row in case["t"]], dtype=np.float64)
  lap = np.array([float(Fraction(v)) for v in case["lap"]], dtype=np.float64)
  # replay of the two numpy expressions whose result depends on float ties / rounding
  scores = lap * 6.0
  for f0, f1 in itertools.combinations(range(n), 2):
    scores[f0] += t[f0][f1]
    scores[f1] += t[f0][f1]
  order = [int(i) for i in np.argsort(-scores)]
  empty = np.mean([list(row) for row in t]) * r ** 2 / 2
  return "ens.crystals %d %d %d %s %s %s %s" % (n, case["L"], r, frl2([[Fraction(v) for v in row] for row in case["t"]]),
                                               frl([Fraction(v) for v in case["lap"]]),
                                               il(order), fr(Fraction(float(empty))))


def check_crystals(ctx, case, real, reply):
  lats, err = real
  n, L, r = case["n"], case["L"], case["r"]
  kind = case["kind"]
  ctx.count("crystals:" + kind)
  ctx.count("crystals:rank%s" % ("1" if r == 1 else ">=2"))
  toks = reply.split(" ")
  flags = toks[-3:]
  ctx.count("crystals:order_sorted:" + flags[0])
  ctx.count("crystals:scores_positive:" + flags[1])
  ctx.count("crystals:nonneg:" + flags[2])
  if err is not None:
    allzero = all(Fraction(v) == 0 for row in case["t"] for v in row) and all(Fraction(v) == 0 for v in case["lap"])
    if "NaN" in err and allzero:
      cls = "crystals_all_zero_scores"
    elif "NaN" in err and flags[1] == "0":
      cls = "crystals_zero_score_feature"
    else:
      cls = "crystals:" + kind
    ctx.count("crystals_err:" + cls)
    key = dict(kind="crystals", cls=cls)
    ctx.fail("raises", key, case, err)
    short = err.split(":")[0] if not err.startswith("ERR Other") else "ERR Other"
    if reply.startswith(short):
      ctx.agree("crystals.lattices")
    else:
      ctx.disagree("crystals.lattices", case, err, reply, "error class")
    ctx.case(sig=("crystals", "err", cls, n, L, r), nontrivial=False, sample=case)
    return
  key = dict(kind="crystals", cls="crystals:" + kind)
  ctx.case(sig=("crystals", n, L, r, shash(lats)), nontrivial=L > 1, sample=dict(case=case, lattices=lats))
  if toks[0] == "ERR":
    ctx.disagree("crystals.lattices", case, lats, reply, "model rejects, code accepts")
  else:
    ctx.count("crystals:cap_hit:" + toks[1])
    if parse_ints2(toks[0]) == lats:
      ctx.agree("crystals.lattices")
    else:
      ctx.disagree("crystals.lattices", case, lats, parse_ints2(toks[0]))
  if len(lats) != L or any(len(l) != r for l in lats):
    ctx.fail("exact_rank", key, case, lats)
  if set(f for l in lats for f in l) != set(range(n)):
    ctx.fail("every_feature_used", key, case, lats)
  # not a clause of C17 and not guaranteed by the code (Props/C17.lean `CrystalsNoRepeats`): only made visible
  ctx.count("crystals:repeat_inside_lattice:%d" % int(any(len(set(l)) != len(l) for l in lats)))


# ------------------------------------------------------------------ Crystals, REAL scoring path
REAL_KINDS = ["random", "random", "random", "dyadic", "constant", "constant_per_lattice", "one_constant", "flat_feature"]
CONSTANT_KINDS = ("constant", "constant_per_lattice", "one_constant")


def gen_crystals_real(rng, kind=None, rank1=False):
  """small prefitting models whose lattice kernels are ASSIGNED (no training): the un-patched
  set_crystals_lattice_ensemble -> _get_final_crystal_lattices -> _get_torsions_and_laplacians path, i.e. the
  per-lattice normalisation `weights -= min; weights /= max` that the score-driven stream replaces"""
  n = rng.randint(3, 5)
  r = 1 if rank1 else rng.randint(2, min(3, n - 1))
  L = max(2, -(-n // r)) + rng.choice([0, 0, 1, 2])
  return dict(n=n, L=L, r=r, seed=rng.randint(0, 999), kind=kind or rng.choice(REAL_KINDS),
              kseed=rng.randint(0, 10 ** 6))


def real_kernels(case, pc_lattices):
  """kernel column (2**len(lattice) floats) per prefitting lattice, by kind"""
  import random
  rng = random.Random(case["kseed"])
  kind, n = case["kind"], case["n"]
  flat = rng.randrange(n) if kind == "flat_feature" else None
  which = rng.randrange(len(pc_lattices)) if kind == "one_constant" else None
  const = rng.randint(-8, 8) / 8.0
  out = []
  for li, lat in enumerate(pc_lattices):
    d = len(lat)
    if kind == "constant" or (kind == "one_constant" and li == which):
      k = [const] * (2 ** d)
    elif kind == "constant_per_lattice":
      k = [rng.randint(-8, 8) / 8.0] * (2 ** d)
    elif kind == "dyadic":
      k = [rng.randint(0, 8) / 8.0 for _ in range(2 ** d)]
      if len(set(k)) == 1:
        k[0] = k[0] + 0.5
    elif kind == "flat_feature" and flat in lat:
      # does not depend on feature `flat`: its Laplacian and all its torsions are exactly 0
      p = lat.index(flat)
      base = {}
      k = []
      for v in itertools.product([0, 1], repeat=d):
        rest = v[:p] + v[p + 1:]
        if rest not in base:
          base[rest] = rng.random()
        k.append(base[rest])
    else:
      k = [rng.random() for _ in range(2 ** d)]
    out.append(k)
  return out, flat


def real_crystals_path(case):
  import copy, warnings
  import tensorflow as tf
  import tensorflow_lattice as tfl
  from tensorflow_lattice.python import premade_lib, configs
  n = case["n"]
  names = ["f%d" % i for i in range(n)]

  def config():
    return configs.CalibratedLatticeEnsembleConfig(
        feature_configs=[configs.FeatureConfig(name=f, pwl_calibration_input_keypoints=[0.0, 1.0]) for f in names],
        lattices="crystals", num_lattices=case["L"], lattice_rank=case["r"], random_seed=case["seed"],
        output_initialization=[0.0, 1.0])
  res = dict(err=None, lats=None, again=None, cover=None, scores=None, flat=None, const_kernel=False, importance=None, zero_mass=False)
  try:
    mc = config()
    pc = premade_lib.construct_prefitting_model_config(mc)
    cover = [[int(f[1:]) for f in lat] for lat in pc.lattices]
    res["cover"] = cover
    pm = tfl.premade.CalibratedLatticeEnsemble(pc)
    kernels, res["flat"] = real_kernels(case, cover)
    res["const_kernel"] = any(len(set(np.float32(v) for v in k)) == 1 for k in kernels)
    for li, k in enumerate(kernels):
      layer = pm.get_layer("%s_%d" % (premade_lib.LATTICE_LAYER_NAME, li))
      layer.kernel.assign(np.array(k, dtype=np.float32).reshape(layer.kernel.shape))
  except Exception as e:
    res["err"] = "setup:" + classify_exc(e) + ":" + str(e)[:80]
    return res
  with warnings.catch_warnings():
    warnings.simplefilter("ignore")
    try:
      t, lap = premade_lib._get_torsions_and_laplacians(
          prefitting_model_config=pc, prefitting_model=pm, feature_names=names)
      res["scores"] = dict(t=[[float(v) for v in row] for row in t], lap=[float(v) for v in lap])
      # the code's own importance scores and running "remaining score mass" (same objects, same dtypes, same ops):
      # does the use-allocation loop reach a division by a remaining mass of exactly 0?
      imp = np.array(lap) * premade_lib._LAPLACIAN_WEIGHT_IN_IMPORTANCE
      for f0, f1 in itertools.combinations(range(n), 2):
        imp[f0] += t[f0][f1]
        imp[f1] += t[f0][f1]
      rs, zero_mass = np.sum(imp), False
      if np.all(np.isfinite(imp)):
        for f in np.argsort(-imp):
          if rs == 0:
            zero_mass = True
            break
          rs -= imp[f]
      res["importance"], res["zero_mass"] = [float(v) for v in imp], zero_mass
    except Exception as e:
      res["scores"] = "raises " + type(e).__name__
    for slot in ("lats", "again"):
      if slot == "again":
        scramble(case)
      mc = config()
      try:
        premade_lib.set_crystals_lattice_ensemble(mc, pc, pm)
        res[slot] = [[int(f[1:]) for f in lat] for lat in mc.lattices]
      except Exception as e:
        res["err"] = ("ERR Other:AssertionError" if isinstance(e, AssertionError) else classify_exc(e)) + ":" + str(e)[:60]
        break
  return res


def check_crystals_real(ctx, case, res):
  n, L, r, kind = case["n"], case["L"], case["r"], case["kind"]
  ctx.count("crystals_real:" + kind)
  if res["err"] is not None and res["err"].startswith("setup:"):
    ctx.fail("raises", dict(kind="crystals", cls="crystals_real_setup", path="real"), case, res["err"],
             "prefitting model of a valid crystals configuration could not be built")
    ctx.case(sig=("crystals_real", "setup-err", n, L, r), nontrivial=False, sample=case)
    return
  cover = res["cover"]
  # ---- the prefitting cover (real construct_prefitting_model_config): every pair together, size <= rank
  ckey = dict(kind="cover", cls="cover:valid1", path="real")
  for i, j in itertools.combinations(range(n), 2):
    if not any(i in l and j in l for l in cover):
      ctx.fail("pair_covered", ckey, case, cover, "pair (%d,%d)" % (i, j))
  if any(len(l) > max(r, 2) or len(set(l)) != len(l) for l in cover):
    ctx.fail("size_le_rank", ckey, case, cover)
  nan_scores = isinstance(res["scores"], dict) and not (
      np.all(np.isfinite(np.array(res["scores"]["t"]))) and np.all(np.isfinite(np.array(res["scores"]["lap"]))))
  ctx.count("crystals_real:nan_scores:%d" % int(nan_scores))
  if res["err"] is not None:
    # classes the findings are pinned to: the ROOT of the failure, read off the real scores
    zero_mass = bool(res.get("zero_mass")) and not nan_scores
    if res.get("const_kernel") and nan_scores and "NaN" in res["err"]:
      cls = "crystals_constant_prefitting_kernel"       # F-C17-b: 0/0 in the per-lattice normalisation
    elif zero_mass and ("NaN" in res["err"] or "infinity" in res["err"]):
      # F-C17-a reached through the real scoring path: a feature no prefitting lattice depends on has importance
      # score 0, or a rounding residue (~1e-15) that the running `remaining_scores -= score` absorbs; either way
      # the allocation divides by a remaining score mass of exactly 0
      cls = "crystals_zero_score_feature" if min(res["importance"]) == 0 else "crystals_absorbed_score_feature"
    else:
      cls = "crystals_real:" + kind
    ctx.count("crystals_real_err:" + cls)
    ctx.fail("raises", dict(kind="crystals", cls=cls, path="real"), case, res["err"],
             "set_crystals_lattice_ensemble on assigned prefitting kernels (%s); importance %r zero_mass %r scores %r" % (
                 kind, res.get("importance"), res.get("zero_mass"), res["scores"]))
    ctx.case(sig=("crystals_real", "err", cls, n, L, r), nontrivial=False, sample=case)
    return
  lats = res["lats"]
  key = dict(kind="crystals", cls="crystals_real:" + kind, path="real")
  ctx.case(sig=("crystals_real", n, L, r, shash(lats)), nontrivial=True, sample=dict(case=case, lattices=lats, cover=cover))
  if nan_scores:
    ctx.fail("finite_scores", key, case, res["scores"], "NaN torsion / Laplacian scores went through unnoticed")
  if lats != res["again"]:
    ctx.fail("deterministic", key, case, dict(first=lats, second=res["again"]))
  if len(lats) != L or any(len(l) != r for l in lats):
    ctx.fail("exact_rank", key, case, lats)
  if set(f for l in lats for f in l) != set(range(n)):
    ctx.fail("every_feature_used", key, case, lats)
  ctx.count("crystals_real:repeat_inside_lattice:%d" % int(any(len(set(l)) != len(l) for l in lats)))


def gen_crystals(rng, rank1=False):
  n = rng.randint(3, 8)
  r = 1 if rank1 else rng.randint(2, n - 1)
  L = max(1, -(-n // r)) + rng.choice([0, 0, 1, 2, 3, 4])
  L = min(L, 8)
  while L * r < n:
    L += 1
  kind, t, lap = gen_scores(rng, n)
  return dict(n=n, L=L, r=r, seed=rng.randint(0, 999), kind=kind, t=[[fr(v) for v in row] for row in t],
              lap=[fr(v) for v in lap])


# ------------------------------------------------------------------ Crystals scoring path vs Tfl.CrystalsScore
CSCORE_KINDS = ["dyadic", "dyadic_wide", "binary", "flat_feature", "one_constant", "uncovered"]


def gen_cscore(rng, kinds=None, rank1=False):
  """one prefitting model (all-pairs cover of n features), several ASSIGNED dyadic kernel sets: the REAL
  `_get_torsions_and_laplacians` vs `Tfl.CrystalsScore.torsionsAndLaplacians` (op `cscore.tl`)"""
  n = rng.randint(3, 5)
  r = 1 if rank1 else rng.randint(2, min(3, n - 1))
  return dict(stream="cscore", n=n, L=max(2, -(-n // r)), r=r, seed=rng.randint(0, 999),
              kinds=kinds or [rng.choice(CSCORE_KINDS) for _ in range(4)], kseed=rng.randint(0, 10 ** 6))


def cscore_kernels(rng, kind, n, cover):
  """dyadic kernels (k/8: exact in float32) per prefitting lattice; returns (kernels, lattices used)"""
  flat = rng.randrange(n) if kind == "flat_feature" else None
  which = rng.randrange(len(cover)) if kind == "one_constant" else None
  used = cover[:1] if kind == "uncovered" else cover
  out = []
  for li, lat in enumerate(cover):
    d = len(lat)
    if kind == "one_constant" and li == which:
      k = [Fraction(rng.randint(-8, 8), 8)] * (2 ** d)
    elif kind == "binary":
      k = [Fraction(rng.randint(0, 1)) for _ in range(2 ** d)]
      if len(set(k)) == 1:
        k[rng.randrange(2 ** d)] = 1 - k[0]
    elif kind == "flat_feature" and flat in lat:
      p, base, k = lat.index(flat), {}, []
      for v in itertools.product([0, 1], repeat=d):
        rest = v[:p] + v[p + 1:]
        if rest not in base:
          base[rest] = Fraction(rng.randint(-16, 16), 8)
        k.append(base[rest])
      if len(set(k)) == 1:
        k = [x + Fraction(v[(p + 1) % d], 2) for x, v in zip(k, itertools.product([0, 1], repeat=d))]
    else:
      hi = 64 if kind == "dyadic_wide" else 8
      k = [Fraction(rng.randint(-hi, hi), 8) for _ in range(2 ** d)]
      if len(set(k)) == 1:
        k[0] = k[0] + Fraction(1, 2)
    out.append(k)
  return out, used


def real_cscore(case):
  """returns a list of sub-results dict(kind, lattices, kernels, t, lap, imp, err)"""
  import copy, random, warnings
  import tensorflow_lattice as tfl
  from tensorflow_lattice.python import premade_lib, configs
  n = case["n"]
  names = ["f%d" % i for i in range(n)]
  mc = configs.CalibratedLatticeEnsembleConfig(
      feature_configs=[configs.FeatureConfig(name=f, pwl_calibration_input_keypoints=[0.0, 1.0]) for f in names],
      lattices="crystals", num_lattices=case["L"], lattice_rank=case["r"], random_seed=case["seed"],
      output_initialization=[0.0, 1.0])
  try:
    pc = premade_lib.construct_prefitting_model_config(mc)
    cover = [[int(f[1:]) for f in lat] for lat in pc.lattices]
    pm = tfl.premade.CalibratedLatticeEnsemble(pc)
  except Exception as e:
    return [dict(kind="setup", err="setup:" + classify_exc(e) + ":" + str(e)[:80])]
  rng = random.Random(case["kseed"])
  out = []
  for kind in case["kinds"]:
    kernels, used = cscore_kernels(rng, kind, n, cover)
    sub = dict(kind=kind, lattices=used, kernels=kernels[:len(used)], err=None)
    try:
      for li, k in enumerate(kernels):
        layer = pm.get_layer("%s_%d" % (premade_lib.LATTICE_LAYER_NAME, li))
        layer.kernel.assign(np.array([float(v) for v in k], dtype=np.float32).reshape(layer.kernel.shape))
      pc2 = copy.copy(pc)
      pc2.lattices = [list(l) for l in pc.lattices[:len(used)]]
      with warnings.catch_warnings():
        warnings.simplefilter("ignore")
        t, lap = premade_lib._get_torsions_and_laplacians(
            prefitting_model_config=pc2, prefitting_model=pm, feature_names=names)
        # importance scores: the statements of _get_final_crystal_lattices (same objects, dtypes, constant)
        imp = np.array(lap) * premade_lib._LAPLACIAN_WEIGHT_IN_IMPORTANCE
        for f0, f1 in itertools.combinations(range(n), 2):
          imp[f0] += t[f0][f1]
          imp[f1] += t[f0][f1]
      sub.update(t=[[float(v) for v in row] for row in t], lap=[float(v) for v in lap], imp=[float(v) for v in imp])
    except Exception as e:
      sub["err"] = classify_exc(e) + ":" + str(e)[:80]
    out.append(sub)
  return out


def cscore_lines(case, subs):
  return ["cscore.tl %d %s %s" % (case["n"], il2(s["lattices"]), frl2(s["kernels"])) for s in subs if "lattices" in s]


def check_cscore(ctx, case, subs, replies):
  n = case["n"]
  replies = list(replies)
  for s in subs:
    kind = s["kind"]
    ctx.count("cscore:" + kind)
    sub_case = dict(case, kinds=[kind], sub=dict(kind=kind, lattices=s.get("lattices"),
                                                 kernels=[[str(v) for v in k] for k in s.get("kernels", [])]))
    key = dict(kind="crystals", cls="cscore:" + kind, path="score")
    if "lattices" not in s:
      ctx.fail("raises", dict(key, cls="cscore_setup"), case, s["err"])
      ctx.case(sig=("cscore", "setup-err"), nontrivial=False, sample=case)
      continue
    reply = replies.pop(0)
    ctx.count("cscore:rank%d" % case["r"])
    ctx.count("cscore:lattice_dims:" + ",".join(str(d) for d in sorted(set(len(l) for l in s["lattices"]))))
    if s["err"] is not None:
      ctx.count("cscore:real_raises")
      ctx.compare("cscore", sub_case, [0.0], [Fraction(1)], 1.0) if not reply.startswith("ERR") else ctx.agree("cscore")
      ctx.fail("raises", key, sub_case, s["err"])
      ctx.case(sig=("cscore", "raises", kind), nontrivial=False, sample=sub_case)
      continue
    flat_real = [v for row in s["t"] for v in row] + s["lap"] + s["imp"]
    nan = any(not np.isfinite(v) for v in flat_real)
    ctx.count("cscore:real_nan:%d" % int(nan))
    ctx.count("cscore:model_error:%d" % int(reply.startswith("ERR")))
    if nan or reply.startswith("ERR"):
      # NaN scores of the real code (constant kernel: 0/0, F-C17-b; feature in no lattice: np.mean([])) <-> error value
      if nan and reply == "ERR ValueError":
        ctx.agree("cscore")
      else:
        ctx.disagree("cscore", sub_case, flat_real, reply, "NaN scores <-> ERR ValueError")
      ctx.case(sig=("cscore", "nan", kind, n), nontrivial=False, sample=sub_case)
      continue
    toks = reply.split(" ")
    mt, mlap, mimp = parse_rats2(toks[0]), parse_rats(toks[1]), parse_rats(toks[2])
    ctx.count("cscore:model_nonneg:" + toks[3])
    model_flat = [v for row in mt for v in row] + mlap + mimp
    scale = max(1.0, max_abs(flat_real))
    ctx.compare("cscore", sub_case, flat_real, model_flat, scale, rtol=1e-5)
    ctx.count("cscore:zero_torsion_pairs:%d" % int(any(v == 0 for i, row in enumerate(mt) for j, v in enumerate(row) if i != j)))
    ctx.count("cscore:zero_laplacian:%d" % int(any(v == 0 for v in mlap)))
    ctx.count("cscore:zero_importance:%d" % int(any(v == 0 for v in mimp)))
    # oracle on the REAL scores: what `crystals_structure` assumes of them (Tfl.C17Score.scores_nonneg)
    tol = 1e-6 * scale
    tt = np.array(s["t"])
    if (tt < -tol).any() or (np.array(s["lap"]) < -tol).any() or (np.array(s["imp"]) < -tol).any():
      ctx.fail("score_nonneg", key, sub_case, dict(t=s["t"], lap=s["lap"], imp=s["imp"]))
    if np.abs(tt - tt.T).max() > tol:
      ctx.fail("torsion_symmetric", key, sub_case, dict(t=s["t"]))
    ctx.case(sig=("cscore", kind, n, case["r"], shash([s["lattices"], [[str(v) for v in k] for k in s["kernels"]]])),
             nontrivial=True, sample=sub_case)


# ------------------------------------------------------------------ run / replay
def run_cases(ctx, cases):
  """cases: list of (kind, case). Executes the real code, one driver call, then checks."""
  lines, reals = [], []
  for kind, case in [kc for kc in cases if kc[0] == "crystals_real"]:
    check_crystals_real(ctx, case, real_crystals_path(case))
  cs = [(case, real_cscore(case)) for kind, case in cases if kind == "cscore"]
  if cs:
    cs_lines = [cscore_lines(case, subs) for case, subs in cs]
    cs_replies = run_driver([l for ls in cs_lines for l in ls])
    for (case, subs), ls in zip(cs, cs_lines):
      check_cscore(ctx, case, subs, cs_replies[:len(ls)])
      cs_replies = cs_replies[len(ls):]
  cases = [kc for kc in cases if kc[0] not in ("crystals_real", "cscore")]
  for kind, case in cases:
    if kind == "rtl":
      real = real_rtl(case, call=case.get("call", False))
      scramble(case)
      again = real_rtl(case)
      if (real[0], real[2]) != (again[0], again[2]):
        ctx.fail("deterministic", dict(kind="rtl", cls="rtl"), case, dict(first=real[0], second=again[0]))
      lines.append(rtl_line(case))
    elif kind == "random":
      real = real_random(case, record=True)
      scramble(case)
      again = real_random(case, record=False)
      if (real[0], real[1]) != (again[0], again[1]):
        ctx.fail("deterministic", dict(kind="random", cls="random"), case, dict(first=real[0], second=again[0]))
      rec = real[2]
      lines.append("ens.random %d %d %d %s %s" % (case["n"], case["L"], case["r"], il(rec.first), il2(rec.fill)))
    elif kind == "cover":
      real = real_cover(case)
      scramble(case)
      again = real_cover(case)
      if real != again:
        ctx.fail("deterministic", dict(kind="cover", cls="cover"), case, dict(first=real[0], second=again[0]))
      lines.append(cover_line(case))
    else:
      real = real_crystals(case)
      scramble(case)
      again = real_crystals(case)
      if real != again:
        ctx.fail("deterministic", dict(kind="crystals", cls="crystals"), case, dict(first=real[0], second=again[0]))
      lines.append(crystals_line(case))
    reals.append(real)
  replies = run_driver(lines)
  for (kind, case), real, reply in zip(cases, reals, replies):
    dict(rtl=check_rtl, random=check_random, cover=check_cover, crystals=check_crystals)[kind](ctx, case, real, reply)


def run(ctx):
  rng = ctx.rng
  cases = []
  for k in range(ctx.n(220, 4000)):
    c = gen_rtl(rng)
    c["call"] = (k % 12 == 0)
    cases.append(("rtl", c))
  for _ in range(ctx.n(200, 4000)):
    n = rng.randint(2, 9)
    r = rng.randint(1, 5)
    L = rng.randint(1, 8)
    if rng.random() < 0.85:
      r = min(r, n)
      while L * r < n:
        L += 1
    cases.append(("random", dict(n=n, L=L, r=r, seed=rng.randint(0, 10 ** 6))))
  for _ in range(ctx.n(120, 2500)):
    n = rng.randint(3, 10)
    r = rng.randint(2, 6)
    cases.append(("cover", dict(n=n, L=rng.randint(1, 5), r=r, seed=rng.randint(0, 10 ** 6))))
  for _ in range(ctx.n(220, 4000)):
    cases.append(("crystals", gen_crystals(rng)))
  for _ in range(ctx.n(4, 40)):
    cases.append(("rtl", dict(gen_rtl_zero(rng), call=rng.random() < 0.5)))
  nreal = ctx.n(24, 400)
  for k in range(nreal):
    # every kind at least once per run, the rest drawn
    cases.append(("crystals_real", gen_crystals_real(rng, kind=sorted(set(REAL_KINDS))[k] if k < len(set(REAL_KINDS)) else None)))
  # ---- rank 1 (appended AFTER the older streams so that their cases stay the same per seed): the cover clause has
  # no rank hypothesis (pair_cover_any_rank), the final Crystals theorem covers r = 1 (r < n <= L*r)
  for _ in range(ctx.n(16, 300)):
    cases.append(("cover", dict(n=rng.randint(2, 7), L=rng.randint(1, 5), r=1, seed=rng.randint(0, 10 ** 6))))
  for _ in range(ctx.n(16, 300)):
    cases.append(("crystals", gen_crystals(rng, rank1=True)))
  for _ in range(ctx.n(2, 20)):
    cases.append(("crystals_real", gen_crystals_real(rng, kind=rng.choice(["random", "dyadic"]), rank1=True)))
  # ---- scoring path vs the Lean model (appended last: the older streams keep their cases per seed)
  for k in range(ctx.n(10, 150)):
    cases.append(("cscore", gen_cscore(rng, kinds=CSCORE_KINDS if k == 0 else None, rank1=(k == 1))))
  run_cases(ctx, cases)


def replay(ctx, failure):
  case = failure["case"]
  kind = failure["key"].get("kind", "rtl")
  if failure["key"].get("path") == "real":
    kind = "crystals_real"
  if case.get("stream") == "cscore":
    kind = "cscore"
  run_cases(ctx, [(kind, case)])
