"""C01: Lattice weight constraint (strict mode) / finalize_constraints return kernels meeting every
strict shape constraint.  Tie: lattice_lib.finalize_constraints, LatticeConstraints(...)(w) and
Lattice.finalize_constraints() vs Tfl.Lat.finalizeT / latticeConstraintT (one line per unit column).
Oracle: every configured inequality per unit on the REAL output, bounds, feasible => unchanged."""
import itertools
import numpy as np
from fractions import Fraction
from common import *

RULE = ("lattice configs from one PRNG: rank 1-4, sizes 2-4 (<= 81 vertices), units 1-3, random monotone axes, "
        "Edgeworth / trapezoid trusts of both directions (matching or not, monotone or free conditional axis, "
        "shared conditionals, DUPLICATED identical trusts), extra approximately-enforced families (unimodality, monotonic/range dominance, joint "
        "monotonicity), bounds none/min/max/both, iterations {0,1,3,20}; kernels dyadic / int ties / wide / tiny / "
        "huge / sorted / anti-sorted / feasible (additive or with trust-direction interaction terms; projected twice); "
        "entry points lattice_lib.finalize_constraints, LatticeConstraints strict AND non-strict, Lattice.finalize_constraints. Non-trivial = the constraint moved the kernel or "
        "the kernel was feasible by construction; distinct = (entry point, config class, kernel kind, moved, hash).")
ASSUMPTIONS = ["float64 kernels, tolerance 1e-9*scale for the model comparison and 1e-7*scale for the oracle",
               "joint unimodalities are configured alongside in ~20% of the extra-family configurations (LatticeConstraints / layer entries; lattice_lib.finalize_constraints does not take them)"]


def gen_cfg(rng, allow_extra=True):
  rank = rng.choice([1, 2, 2, 3, 3, 4])
  while True:
    sizes = [rng.randint(2, 4) for _ in range(rank)]
    if int(np.prod(sizes)) <= 81:
      break
  mono = [1 if rng.random() < 0.6 else 0 for _ in range(rank)]
  ew, tz = [], []
  mains = [d for d in range(rank) if mono[d]]
  if mains and rank >= 2 and rng.random() < 0.75:
    # main features never serve as conditional features and vice versa
    rng.shuffle(mains)
    k = rng.randint(1, max(1, len(mains) - (1 if len(mains) == rank else 0)))
    main_set = mains[:k]
    cond_set = [d for d in range(rank) if d not in main_set]
    direction = {}
    if cond_set:
      for lst in (ew, tz):
        for _ in range(rng.choice([0, 1, 1, 2])):
          m, c = rng.choice(main_set), rng.choice(cond_set)
          d = direction.setdefault((m, c), rng.choice([1, -1]))
          # an identical trust listed twice is ACCEPTED by verify_hyperparameters (only a second trust on
          # the same pair with the opposite direction is rejected): duplicates are generated on purpose
          if (m, c, d) not in lst or rng.random() < 0.5:
            lst.append((m, c, d))
      if ew and rng.random() < 0.4:   # matching trapezoid
        t = rng.choice(ew)
        if t not in tz or rng.random() < 0.25:
          tz.append(t)
  uni = [0] * rank
  md, rd, jm = [], [], []
  if allow_extra and rng.random() < 0.3:
    for d in range(rank):
      if not mono[d] and sizes[d] >= 3 and rng.random() < 0.4:
        uni[d] = rng.choice([1, -1])
    ms = [d for d in range(rank) if mono[d]]
    if len(ms) >= 2 and rng.random() < 0.5:
      a, b = rng.sample(ms, 2)
      (md if rng.random() < 0.5 else rd).append((a, b))
    if rank >= 2 and rng.random() < 0.3:
      a, b = rng.sample(range(rank), 2)
      jm.append((a, b))
  ju = []
  if allow_extra and rng.random() < 0.2:
    # an approximately enforced family configured ALONGSIDE: joint unimodality on free dimensions
    cand = [d for d in range(rank) if not mono[d] and not uni[d] and sizes[d] >= 3
            and all(d not in p for p in jm)]
    if cand:
      k = rng.randint(1, min(2, len(cand)))
      ju.append((rng.sample(cand, k), rng.choice(["valley", "peak"])))
  bmode = rng.choice(["none", "none", "min", "max", "both"])
  a = Fraction(rng.randint(-8, 8), 4)
  if rng.random() < 0.2:
    a = Fraction(0)     # falsy bound: `if output_min:` style slips only show at exactly 0
  lo = a if bmode in ("min", "both") else None
  hi = a + Fraction(rng.randint(1, 16), 4) if bmode in ("max", "both") else None
  return dict(sizes=sizes, mono=mono, ew=ew, tz=tz, uni=uni, md=md, rd=rd, jm=jm, ju=ju, lo=lo, hi=hi)


def gen_kernel(rng, n, units):
  kind = rng.choice(VALUE_KINDS + ["sorted", "antisorted"])
  base = "dyadic" if kind in ("sorted", "antisorted") else kind
  cols = []
  for _ in range(units):
    col = [gen_value(rng, base) for _ in range(n)]
    if kind == "sorted":
      col.sort()
    if kind == "antisorted":
      col.sort(reverse=True)
    cols.append(col)
  return kind, [[cols[u][i] for u in range(units)] for i in range(n)]


def htrap_class(cfg):
  """Config classes of DESIGN.md C01: `excluded` = Edgeworth present, a trapezoid trust whose conditional
  axis is monotone, and a third axis (finding F-C01-a); `shared` = the documented tolerated exception."""
  shared = bool(cfg["ew"]) and len({c for _, c, _ in cfg["tz"]}) < len(cfg["tz"])
  excl = bool(cfg["ew"]) and len(cfg["sizes"]) >= 3 and any(cfg["mono"][c] for _, c, _ in cfg["tz"])
  return ("shared" if shared else "") + ("excluded" if excl else "") or "plain"


def cfg_class(cfg):
  return "r%d:m%d:ew%d:tz%d:x%d:b%s%s:%s" % (
      len(cfg["sizes"]), sum(cfg["mono"]), len(cfg["ew"]), len(cfg["tz"]),
      int(any(cfg["uni"]) or bool(cfg["md"]) or bool(cfg["rd"]) or bool(cfg["jm"])) + 2 * int(bool(cfg.get("ju"))),
      "L" if cfg["lo"] is not None else "", "H" if cfg["hi"] is not None else "", htrap_class(cfg))


def fl(x):
  return None if x is None else float(x)


def trusts_tok(ts):
  return il2(ts)


def model_line(op, cfg, col, iters=None, strict=None):
  if op == "lat.finalize":
    return "lat.finalize %s %s %s %s %s %s %s" % (il(cfg["sizes"]), il(cfg["mono"]), trusts_tok(cfg["ew"]),
                                                   trusts_tok(cfg["tz"]), opt(cfg["lo"]), opt(cfg["hi"]), frl(col))
  if cfg.get("ju"):
    # optional extra token after `jm`: joint unimodalities `d1,d2,...,flag;...` (flag 1 = valley, 0 = peak)
    ju = il2([list(d) + [1 if dr == "valley" else 0] for d, dr in cfg["ju"]])
    return "lat.constraint %s %s %s %s %s %s %s %s %s %s %s %d %d %s" % (
        il(cfg["sizes"]), il(cfg["mono"]), il(cfg["uni"]), trusts_tok(cfg["ew"]), trusts_tok(cfg["tz"]),
        il2(cfg["md"]), il2(cfg["rd"]), il2(cfg["jm"]), ju, opt(cfg["lo"]), opt(cfg["hi"]), iters, int(strict),
        frl(col))
  return "lat.constraint %s %s %s %s %s %s %s %s %s %s %d %d %s" % (
      il(cfg["sizes"]), il(cfg["mono"]), il(cfg["uni"]), trusts_tok(cfg["ew"]), trusts_tok(cfg["tz"]),
      il2(cfg["md"]), il2(cfg["rd"]), il2(cfg["jm"]), opt(cfg["lo"]), opt(cfg["hi"]), iters, int(strict), frl(col))


def real_call(entry, cfg, wf, iters):
  import tensorflow as tf
  from tensorflow_lattice.python import lattice_lib, lattice_layer
  w = tf.constant(wf, dtype=tf.float64)
  if entry == "lib.finalize":
    return lattice_lib.finalize_constraints(
        w, lattice_sizes=list(cfg["sizes"]), monotonicities=list(cfg["mono"]),
        edgeworth_trusts=[tuple(t) for t in cfg["ew"]] or None, trapezoid_trusts=[tuple(t) for t in cfg["tz"]] or None,
        output_min=fl(cfg["lo"]), output_max=fl(cfg["hi"])).numpy()
  kw = dict(lattice_sizes=list(cfg["sizes"]), monotonicities=list(cfg["mono"]),
            unimodalities=list(cfg["uni"]) if any(cfg["uni"]) else None,
            edgeworth_trusts=[tuple(t) for t in cfg["ew"]] or None,
            trapezoid_trusts=[tuple(t) for t in cfg["tz"]] or None,
            monotonic_dominances=[tuple(t) for t in cfg["md"]] or None,
            range_dominances=[tuple(t) for t in cfg["rd"]] or None,
            joint_monotonicities=[tuple(t) for t in cfg["jm"]] or None,
            joint_unimodalities=[(tuple(d), dr) for d, dr in cfg.get("ju", [])] or None,
            output_min=fl(cfg["lo"]), output_max=fl(cfg["hi"]))
  if entry in ("constraint", "constraint.nonstrict"):
    cons = lattice_layer.LatticeConstraints(num_projection_iterations=iters,
                                            enforce_strict_monotonicity=(entry == "constraint"), **kw)
    return cons(w).numpy()
  if entry == "layer.finalize":
    units = wf.shape[1]
    layer = lattice_layer.Lattice(units=units, num_projection_iterations=iters, monotonic_at_every_step=False,
                                  kernel_initializer="zeros", dtype="float64", **kw)
    layer.build((None, units, len(cfg["sizes"])) if units > 1 else (None, len(cfg["sizes"])))
    layer.kernel.assign(w)
    layer.finalize_constraints()
    return layer.kernel.numpy()
  raise ValueError(entry)


def max_violation(cfg, t):
  """Largest violation of ANY configured constraint (strict and approximately enforced families) by the
  unit tensor `t`; <= 0 means feasible. Independent numpy reading of the constraint definitions."""
  v = [0.0]
  rank = len(cfg["sizes"])
  for d in range(rank):
    df = np.diff(t, axis=d)
    if cfg["mono"][d] and df.size:
      v.append(float(-df.min()))
    if cfg["uni"][d]:
      n = cfg["sizes"][d]
      dd = np.moveaxis(df, d, 0)
      for i in range(n - 1):
        first = i < n // 2
        incr = (cfg["uni"][d] == -1 and first) or (cfg["uni"][d] == 1 and not first)
        v.append(float((-dd[i]).max() if incr else dd[i].max()))
  for (m, c, dr) in cfg["ew"]:
    tt = np.moveaxis(t, [m, c], [0, 1])
    dm = tt[1:, :] - tt[:-1, :]
    dd = (dm[:, 1:] - dm[:, :-1]) * dr
    if dd.size:
      v.append(float(-dd.min()))
  for (m, c, dr) in cfg["tz"]:
    tt = np.moveaxis(t, [m, c], [0, 1])
    v.append(float(((tt[0, 1:] - tt[0, :-1]) * dr).max()))
    v.append(float((-(tt[-1, 1:] - tt[-1, :-1]) * dr).max()))
  for (a, b) in cfg["md"]:
    tt = np.moveaxis(t, [a, b], [0, 1])
    # effect along dominant >= effect along weak on both triangles of each square
    v.append(float(((tt[1:, 1:] - tt[1:, :-1]) - (tt[1:, :-1] - tt[:-1, :-1])).max()))   # g2 = 1 triangle
    v.append(float(((tt[:-1, 1:] - tt[:-1, :-1]) - (tt[1:, 1:] - tt[:-1, 1:])).max()))   # g2 = 0 triangle
  for (a, b) in cfg["rd"]:
    tt = np.moveaxis(t, [a, b], [0, 1])
    dom = tt[-1, :] - tt[0, :]          # range along dominant, per weak index j
    weak = tt[:, -1] - tt[:, 0]         # range along weak, per dominant index i
    v.append(float((weak[:, None] - dom[None, :]).max()))
  for (a, b) in cfg["jm"]:
    tt = np.moveaxis(t, [a, b], [0, 1])
    mid = (tt[1:, :-1] + tt[:-1, 1:]) / 2
    v.append(float((mid - tt[1:, 1:]).max()))
    v.append(float((tt[:-1, :-1] - mid).max()))
  if cfg.get("ju"):
    from props import c08   # lazy: c08 imports this module
    v.append(c08.ju_violation(cfg, t))
  if cfg["lo"] is not None:
    v.append(float(cfg["lo"]) - float(t.min()))
  if cfg["hi"] is not None:
    v.append(float(t.max()) - float(cfg["hi"]))
  return max(v)


ctx_counts = {}


def feasible_kernel(rng, cfg, units):
  """A kernel that satisfies EVERY configured constraint exactly: constant, or additive with slopes chosen
  to respect the configuration; verified with `max_violation` (falls back to constant)."""
  sizes = cfg["sizes"]
  rank = len(sizes)
  lo = cfg["lo"] if cfg["lo"] is not None else (cfg["hi"] - 4 if cfg["hi"] is not None else Fraction(-1))
  hi = cfg["hi"] if cfg["hi"] is not None else lo + 4
  cols = []
  for _ in range(units):
    base = lo + (hi - lo) * Fraction(rng.randint(0, 4), 8)
    slopes = [Fraction(0)] * rank
    if rng.random() < 0.7:
      room = (hi - base)
      blocked = {c for _, c, _ in cfg["tz"]} | {d for d in range(rank) if cfg["uni"][d] or not cfg["mono"][d]}
      blocked |= {i for p in cfg["md"] + cfg["rd"] + cfg["jm"] for i in p}
      blocked |= {d for ds, _ in cfg.get("ju", []) for d in ds}
      free = [d for d in range(rank) if d not in blocked]
      for d in free:
        slopes[d] = room * Fraction(rng.randint(0, 4), 8) / (len(free) * (sizes[d] - 1))
    # interaction terms a * i_main * i_cond in the direction of a trust (non-additive feasible kernels: the
    # Edgeworth inequalities are strict-slack, trapezoid high side sloped), kept only if the independent
    # checker finds the kernel feasible
    inter = []
    if (cfg["ew"] or cfg["tz"]) and rng.random() < 0.6:
      for (m, c, dr) in set(cfg["ew"]) | set(cfg["tz"]):
        if rng.random() < 0.7:
          inter.append((m, c, dr * Fraction(rng.randint(1, 4), 16)))
    def build(inter):
      col = []
      for idx in itertools.product(*[range(s) for s in sizes]):
        col.append(base + sum(slopes[d] * idx[d] for d in range(rank)) + sum(a * idx[m] * idx[c] for m, c, a in inter))
      return col
    col = build(inter)
    if inter:
      # shift / scale into the bounds: an affine map with positive scale keeps every shape constraint
      mn, mx = min(col), max(col)
      if mx > mn and (mn < lo or mx > hi):
        sc = min(Fraction(1), (hi - lo) / (mx - mn))
        col = [lo + (x - mn) * sc for x in col]
      t = np.array([float(x) for x in col]).reshape(sizes)
      if max_violation(cfg, t) > 0:
        col = build([])
    t = np.array([float(x) for x in col]).reshape(sizes)
    if max_violation(cfg, t) > 0:
      col = [base] * len(col)
    elif inter and col != build([]):
      ctx_counts["feasible.interaction"] = ctx_counts.get("feasible.interaction", 0) + 1
    cols.append(col)
  n = len(cols[0])
  return [[cols[u][i] for u in range(units)] for i in range(n)]


def unit_tensor(out, cfg, u):
  return out[:, u].reshape(cfg["sizes"])


def oracle(ctx, entry, cfg, kind, wf, out, case, key):
  scale = max_abs(wf.ravel())
  if not np.all(np.isfinite(out)):
    ctx.fail("finite", key, case, out)
    return
  tol = 1e-7 * max(scale, max_abs(out.ravel()))
  rank = len(cfg["sizes"])
  shared_conds = set()
  if cfg["ew"]:
    cs = [c for _, c, _ in cfg["tz"]]
    shared_conds = {c for c in cs if cs.count(c) > 1}
  any_mono = any(cfg["mono"])
  for u in range(out.shape[1] if entry != "constraint.nonstrict" else 0):
    # (non-strict mode, monotonic_at_every_step=False: only the bounds and feasible => unchanged are
    # guaranteed after finitely many Dykstra passes — C01_constraint_nonstrict_bounds / _not_monotone)
    t = unit_tensor(out, cfg, u)
    if any_mono:
      for d in range(rank):
        if cfg["mono"][d]:
          df = np.diff(t, axis=d)
          if df.size and df.min() < -tol:
            ctx.fail("monotonicity", key, case, out, "unit %d axis %d min diff %g" % (u, d, df.min()))
      for (m, c, dr) in cfg["ew"]:
        tt = np.moveaxis(t, [m, c], [0, 1])
        dm = tt[1:, :] - tt[:-1, :]          # slope along main
        dd = (dm[:, 1:] - dm[:, :-1]) * dr   # must be >= 0
        if dd.size and dd.min() < -tol:
          ctx.fail("edgeworth", key, case, out, "unit %d trust %s min %g" % (u, (m, c, dr), dd.min()))
      for (m, c, dr) in cfg["tz"]:
        if c in shared_conds:
          continue  # the documented tolerated exception
        tt = np.moveaxis(t, [m, c], [0, 1])
        lo_side = (tt[0, 1:] - tt[0, :-1]) * dr      # must be <= 0
        hi_side = (tt[-1, 1:] - tt[-1, :-1]) * dr    # must be >= 0
        if lo_side.size and lo_side.max() > tol:
          ctx.fail("trapezoid", key, case, out, "unit %d trust %s low side %g" % (u, (m, c, dr), lo_side.max()))
        if hi_side.size and hi_side.min() < -tol:
          ctx.fail("trapezoid", key, case, out, "unit %d trust %s high side %g" % (u, (m, c, dr), hi_side.min()))
  if cfg["lo"] is not None and out.min() < float(cfg["lo"]) - tol and (entry != "lib.finalize" or (any_mono and (cfg["ew"] or cfg["tz"]))):
    ctx.fail("bounds", key, case, out, "min %g < %g" % (out.min(), float(cfg["lo"])))
  if cfg["hi"] is not None and out.max() > float(cfg["hi"]) + tol and (entry != "lib.finalize" or (any_mono and (cfg["ew"] or cfg["tz"]))):
    ctx.fail("bounds", key, case, out, "max %g > %g" % (out.max(), float(cfg["hi"])))
  if kind == "feasible":
    mv = float(np.max(np.abs(out - wf)))
    if mv > 1e-7 * scale:
      ctx.fail("fixpoint", key, case, out, "feasible kernel moved by %g" % mv)


def one_case(ctx, entry, cfg, kind, w, iters, lines, pending):
  wf = np.array([[float(v) for v in row] for row in w], dtype=np.float64)
  units = wf.shape[1]
  case = dict(entry=entry, cfg=cfg, kind=kind, iters=iters, w=w)
  try:
    if kind == "projected":
      # strict constraint applied twice with many iterations; counts as feasible only if the independent
      # checker finds no violation of ANY configured family
      mid = real_call("constraint", cfg, wf, 20)
      wf = real_call("constraint", cfg, mid, 20)
      w = [[Fraction(float(v)) for v in row] for row in wf]
      case["w"] = w
      if all(max_violation(cfg, unit_tensor(wf, cfg, u)) <= 0 for u in range(units)):
        kind = case["kind"] = "feasible"
    out, err = real_call(entry, cfg, wf, iters), None
  except Exception as e:
    out, err = None, classify_exc(e) + ": " + str(e)[:200]
  n = wf.shape[0]
  for u in range(units):
    col = [w[i][u] for i in range(n)]
    if entry == "lib.finalize":
      lines.append(model_line("lat.finalize", cfg, col))
    else:
      lines.append(model_line("lat.constraint", cfg, col, iters, entry != "constraint.nonstrict"))
  pending.append((case, wf, out, err, units))


def run(ctx):
  rng = ctx.rng
  lines, pending = [], []
  plan = [("lib.finalize", ctx.n(160, 6000)), ("constraint", ctx.n(140, 6000)), ("layer.finalize", ctx.n(25, 600)),
          ("constraint.nonstrict", ctx.n(40, 1500))]
  for entry, count in plan:
    for _ in range(count):
      cfg = gen_cfg(rng, allow_extra=(entry != "lib.finalize"))
      n = int(np.prod(cfg["sizes"]))
      units = rng.choice([1, 1, 2, 3])
      kind, w = gen_kernel(rng, n, units)
      r = rng.random()
      if r < 0.08:
        kind = "projected"
      elif r < 0.2:
        kind, w = "feasible", feasible_kernel(rng, cfg, units)
      iters = 20 if entry == "layer.finalize" else rng.choice([0, 1, 1, 3, 20])
      one_case(ctx, entry, cfg, kind, w, iters, lines, pending)
  for k, v in ctx_counts.items():
    for _ in range(v):
      ctx.count(k)
  ctx_counts.clear()
  finish(ctx, lines, pending)


def finish(ctx, lines, pending):
  replies = run_driver(lines, timeout=1500)
  pos = 0
  for case, wf, out, err, units in pending:
    cfg, entry, kind = case["cfg"], case["entry"], case["kind"]
    if kind == "feasible" and entry == "lib.finalize":
      pass
    cls = cfg_class(cfg)
    ctx.count(entry)
    ctx.count("cls:" + cls)
    ctx.count("kind:" + kind)
    key = dict(entry=entry, cls=cls, htrap=htrap_class(cfg), kind=kind)
    rs = replies[pos:pos + units]
    pos += units
    if err is not None:
      ctx.fail("raises", key, case, err)
      ctx.case(sig=(entry, cls, "err"), sample=case)
      continue
    moved = bool(np.any(out != wf))
    ctx.case(sig=(entry, cls, kind, moved, hash(wf.tobytes()) % 9973), nontrivial=moved or kind == "feasible",
             sample=dict(case=case, out=out))
    scale = max_abs(wf.ravel())
    for u in range(units):
      if rs[u].startswith("ERR") or rs[u] == "bad-op":
        ctx.disagree(entry, case, out[:, u], rs[u], "model rejects")
        continue
      ctx.compare(entry, case, out[:, u], parse_rats(rs[u]), scale, rtol=1e-9)
    oracle(ctx, entry, cfg, kind, wf, out, case, key)


def replay(ctx, failure):
  case = failure["case"]
  cfg = case["cfg"]
  for k in ("ew", "tz", "md", "rd", "jm"):
    cfg[k] = [tuple(t) for t in cfg[k]]
  cfg["ju"] = [(list(d), dr) for d, dr in cfg.get("ju", [])]
  cfg["lo"] = None if cfg["lo"] is None else Fraction(cfg["lo"])
  cfg["hi"] = None if cfg["hi"] is None else Fraction(cfg["hi"])
  w = [[Fraction(v) for v in row] for row in case["w"]]
  lines, pending = [], []
  cfg["uni"] = list(cfg["uni"])
  one_case(ctx, case["entry"], cfg, case["kind"], w, case["iters"], lines, pending)
  finish(ctx, lines, pending)
