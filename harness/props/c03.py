"""C03: premade / composed models stay monotone and bounded after any training history.

Tie: REAL `tfl.premade.CalibratedLinear / CalibratedLattice / CalibratedLatticeEnsemble` (explicit,
'random', 'rtl_layer'; all_vertices / kronecker_factored; with / without output calibration) and
hand-assembled Keras stacks PWL/Categorical -> Lattice and -> Linear, over a generated family of
small configs:
  (1) correspondence: every real layer's hyper-parameters and wiring (walk of the Keras graph: which
      calibrator unit feeds which lattice / linear axis, monotonicities, bounds, clamps, RTL
      structure) vs `Tfl.Premade.buildSpec` through the driver (`pm.build`), as canonical strings;
  (2) hostile histories on the real model (init, random assignment x{1,10,100} + constraints,
      all-negative + constraints, SGD/Adam lr 50 on adversarial targets via GradientTape or
      model.fit, set_weights(get_weights()) on a fresh model);
  (3) oracle on the real model after the real history: pairwise monotonicity on input pairs
      differing in ONE constrained feature (in and out of range, never missing vs non-missing),
      categorical pairs, output bounds incl. missing inputs, finiteness;
  (4) numeric tie of the COMPOSITE: the weights of the real model after the real history (every calibrator
      unit, lattice / KFL unit, Linear kernels, output calibrator) are read as exact rationals and fed to
      `forward g (realise g P w)` of the Lean model (`pm.forward`, g = buildSpec(config), keypoints taken
      from the CONFIG, output-calibrator keypoints computed as linspace(0, 1, n) by the model); its outputs
      on pair-grid points of the oracle batch are compared with the real model's outputs. The reply also
      carries the model's verdict on `layersAccept` (every real model that builds must be accepted by the
      model's layer checks) and on H_trap (C01), from which the class key of F-C01-a is derived.
Failure key: {"model": family, "clause": monotone|categorical_pair|bounds|finite, "cls": ...};
"cls" = "trap_mono_cond_with_edgeworth" exactly when the Lean model says the configuration has an
all-vertices lattice with Edgeworth trusts, a third axis and a trapezoid trust on a monotone conditional
axis (outside H_trap: finding F-C01-a), the failing feature is such a conditional feature, and the failing clause
is `monotone` (numeric conditional feature) or `categorical_pair` (categorical conditional feature with pairs)."""
import json
import numpy as np
from fractions import Fraction
from common import *

RULE = ("configs drawn from one PRNG over 15 families (calibrated linear +/- bounds / output calibration; "
        "calibrated lattice all_vertices / KFL / simplex / output calibration; ensembles explicit / random / "
        "RTL x average / linear combination x all_vertices / KFL x shared / separate calibrators; hand-assembled "
        "PWL->Lattice and PWL->Linear stacks): 2-5 features (numeric increasing / decreasing / none, spelled as "
        "strings, ints or non-lowercase strings; categorical with list / tuple / set / no ordering pairs; default_value "
        "on numeric and categorical features; clamps, convexity, always-monotonic, learned keypoints, unimodality, "
        "Edgeworth and trapezoid trusts (alone, together inside H_trap, and the F-C01-a class: Edgeworth + trapezoid "
        "on a monotone conditional axis + a third axis), dominance where the layers allow them), 2-4 keypoints, lattice sizes 2-3, bounds none / both / "
        "one-sided. Each config x history is one case. Non-trivial = at least one constrained feature or an "
        "output bound, and the model output is not constant over the probe batch; distinct = distinct (family, "
        "feature-class multiset, bounds class, history) signature.")
ASSUMPTIONS = [
    "float32 models (the public default dtype); oracle tolerance 2e-5 * max(1, max|output|)",
    "structural correspondence (layer hyper-parameters + wiring) plus a numeric tie of the composite forward "
    "function on the weights the real history left behind (float32: |real - model| <= 2e-5 * 8 * max(1, max|weight|, "
    "max|output|)); the numeric behaviour of every single layer and of every constraint is tied by C01/C02/C04-C07/C20",
    "numeric tie skipped (counted as numeric_skip:*) when a learned-interior softmax weight is below 1e-3 (a tiny "
    "piece makes float32 keypoint positions ill-conditioned: F-C05-a territory) or the structural walk already "
    "disagrees",
    "histories whose weights overflow to inf/nan or exceed 1e8 in magnitude (lr 50 on unbounded models; float32 "
    "products of a few such weights overflow) are counted as history_overflow and not judged: the theorems speak "
    "about finite weights and exact arithmetic",
    "learned-interior keypoint logits are kept within +-30 (F-C05-a softmax underflow belongs to C05)",
    "Keras re-applies var.constraint after every optimizer step for every variable that received a gradient "
    "(runtime behaviour of tf_keras, exercised by histories d/f, not proved)",
    "RTL shuffles are recovered by replaying RandomState(random_seed).shuffle on range(n)",
]

FAMILIES = ["linear_bounded", "linear_unbounded", "linear_outcal", "lattice", "lattice_kfl", "lattice_outcal",
            "lattice_simplex", "ens_explicit_avg", "ens_explicit_lincomb", "ens_random", "ens_rtl", "ens_rtl_kfl",
            "ens_rtl_lincomb", "stack_lattice", "stack_linear"]
QUICK_FAMILIES = ["linear_bounded", "lattice", "lattice_kfl", "ens_explicit_lincomb", "ens_rtl", "stack_lattice"]


# ------------------------------------------------------------------ config generation (JSON-able spec)
def gen_feature(rng, i, fam, allow_extras):
  name = "f%d" % i
  f = dict(name=name, nb=0, mono="none", ls=2, default=None, always=False, conv=0, cmin=False, cmax=False,
           kps=[0.0, 1.0], learned=False, unimod=0, trusts=[], doms=[])
  r = rng.random()
  if r < 0.3:
    f["nb"] = rng.randint(2, 4)
    q = rng.random()
    if q < 0.62:
      nodes = list(range(f["nb"]))
      rng.shuffle(nodes)
      k = rng.randint(2, f["nb"])
      pairs = [[nodes[j], nodes[j + 1]] for j in range(k - 1)]
      if f["nb"] >= 3 and rng.random() < 0.3:
        pairs.append([nodes[0], nodes[2]])
      f["mono"] = pairs
    elif q < 0.72:
      # regression inputs for F-C03-e (tuple, fixed f70b866) and F-C03-f (a set: rejected by verify_config
      # since e8dafc0 -- both sides must answer ValueError)
      nodes = list(range(f["nb"]))
      rng.shuffle(nodes)
      prs = [[nodes[0], nodes[1]]] + ([[nodes[1], nodes[2]]] if f["nb"] >= 3 and rng.random() < 0.5 else [])
      f["mono"] = {("tuple" if rng.random() < 0.7 else "set"): prs}
    else:
      f["mono"] = rng.choice(["none", None, []])
    if rng.random() < 0.35:
      f["default"] = -1
  else:
    q = rng.random()
    if q < 0.36:
      f["mono"] = rng.choice(["increasing", "increasing", 1])
    elif q < 0.72:
      f["mono"] = rng.choice(["decreasing", "decreasing", -1])
    elif q < 0.78:
      f["mono"] = rng.choice(["Increasing", "DECREASING"])
    else:
      f["mono"] = rng.choice(["none", 0, "None"])   # None is rejected by PWLCalibration for numeric features
    nk = rng.randint(2, 4)
    start = Fraction(rng.randint(-8, 8), 4)
    kps = [start]
    for _ in range(nk - 1):
      kps.append(kps[-1] + Fraction(rng.randint(1, 8), 4))
    f["kps"] = [float(k) for k in kps]
    if rng.random() < 0.35:
      f["default"] = float(rng.choice([-5.0, kps[0] - 1, kps[0], kps[-1], (kps[0] + kps[1]) / 2]))
    mono_dir = _dir(f["mono"])
    # the flag only matters for an unconstrained feature, but it is legal (and merely redundant) together with a
    # monotonicity: a builder that lets it override the configured direction must show up
    if rng.random() < (0.25 if mono_dir == 0 else 0.3):
      f["always"] = True
    if rng.random() < 0.15 and nk >= 3:
      f["learned"] = True
    elif rng.random() < 0.2 and nk >= 3:
      f["conv"] = rng.choice([1, -1])
    if (mono_dir != 0 or f["always"]) and rng.random() < 0.3:
      f["cmin"] = rng.random() < 0.6
      f["cmax"] = rng.random() < 0.6
    if allow_extras and mono_dir == 0 and not f["always"] and rng.random() < 0.15:
      f["unimod"] = rng.choice([1, -1])
  return f


def _dir(mono):
  if isinstance(mono, str):
    return {"increasing": 1, "decreasing": -1}.get(mono.lower(), 0)
  if isinstance(mono, int) and not isinstance(mono, bool):
    return mono
  return 0


def _pairs(mono):
  if isinstance(mono, dict):
    return [tuple(p) for p in list(mono.values())[0]]
  if isinstance(mono, list):
    return [tuple(p) for p in mono]
  return []


def gen_spec(rng, fam):
  kind = {"linear": "linear", "lattice": "lattice", "ens": "ensemble", "stack": "stack"}[fam.split("_")[0]]
  if kind == "stack":
    kind = fam
  rtl = fam.startswith("ens_rtl")
  kfl = fam.endswith("kfl")
  n = rng.randint(2, 5 if not fam.startswith("lattice") else 4)
  allow_extras = not (rtl or kfl) and kind in ("lattice", "ensemble", "stack_lattice")
  feats = [gen_feature(rng, i, fam, allow_extras) for i in range(n)]
  ls_common = rng.choice([2, 2, 3])
  for f in feats:
    f["ls"] = ls_common if (rtl or kfl or rng.random() < 0.5) else rng.choice([2, 3])
    if f["unimod"] != 0:
      f["ls"] = 3          # Lattice rejects unimodal dimensions of size 2
  # at least one constrained feature most of the time
  if not any(_dir(f["mono"]) != 0 or _pairs(f["mono"]) for f in feats) and rng.random() < 0.8:
    feats[0].update(nb=0, mono="increasing", kps=[0.0, 1.0, 2.0], default=None, conv=0, learned=False,
                    unimod=0, always=False)
  if kind.startswith("stack"):
    for f in feats:
      if isinstance(f["mono"], dict):
        f["mono"] = list(f["mono"].values())[0]
  spec = dict(family=fam, kind=kind, features=feats, out_min=None, out_max=None, out_cal=False,
              out_init=[0.0, 1.0], use_bias=False, kfl=kfl, num_terms=rng.randint(1, 3), simplex=False,
              lattices=None, num_lattices=0, rank=0, sep=True, lincomb=False, seed=rng.randint(0, 99),
              hseed=rng.randint(0, 2 ** 30))
  b = rng.random()
  if fam in ("linear_unbounded",):
    b = 2.0
  elif fam in ("linear_bounded",):
    b = min(b, 0.95) * 0.84
  lo = Fraction(rng.randint(-8, 8), 4)
  hi = lo + Fraction(rng.randint(1, 12), 4)
  if b < 0.6:
    spec["out_min"], spec["out_max"] = float(lo), float(hi)
  elif b < 0.7:
    spec["out_min"] = float(lo)
  elif b < 0.8:
    spec["out_max"] = float(hi)
  ilo = spec["out_min"] if spec["out_min"] is not None else (spec["out_max"] - 2 if spec["out_max"] is not None else -1.0)
  ihi = spec["out_max"] if spec["out_max"] is not None else ilo + 2.0
  spec["out_init"] = [ilo, ihi] if rng.random() < 0.7 else [ilo, (ilo + ihi) / 2, ihi]
  if fam.endswith("outcal") or (kind in ("ensemble",) and rng.random() < 0.25) or \
      (fam in ("stack_lattice", "stack_linear") and rng.random() < 0.3):
    spec["out_cal"] = True
  if fam == "lattice_simplex" or (kind in ("lattice", "ensemble") and not kfl and rng.random() < 0.15):
    spec["simplex"] = True
  bounded = spec["out_min"] is not None or spec["out_max"] is not None or spec["out_cal"]
  if kind == "linear" or kind == "stack_linear":
    spec["use_bias"] = rng.random() < 0.5
  if kind == "ensemble":
    spec["lincomb"] = fam.endswith("lincomb") or (fam in ("ens_random", "ens_rtl_kfl") and rng.random() < 0.4)
    spec["use_bias"] = spec["lincomb"] and not bounded and rng.random() < 0.5
    spec["sep"] = rng.random() < 0.6
    names = [f["name"] for f in feats]
    if rtl:
      spec["lattices"] = "rtl"
      spec["rank"] = rng.randint(2, 3)
      need = n * (2 if spec["sep"] and rng.random() < 0.3 else 1)
      spec["num_lattices"] = max(2, -(-need // spec["rank"]) + rng.randint(0, 1))
    elif fam == "ens_random":
      spec["lattices"] = "random"
      spec["rank"] = rng.randint(2, min(3, n))
      spec["num_lattices"] = max(2, -(-n // spec["rank"]) + rng.randint(0, 1))
    else:
      L = rng.randint(2, 3)
      lats = []
      for _ in range(L):
        r = rng.randint(1, min(3, n))
        lats.append(rng.sample(names, r))
      if rng.random() < 0.15:
        lats[0] = lats[0] + [lats[0][0]]     # the same feature on two axes of one lattice
      spec["lattices"] = lats
  # shape extras that only all-vertices, non-RTL lattices accept
  if allow_extras and kind in ("lattice", "stack_lattice", "ensemble") and rng.random() < 0.5:
    inc = [f for f in feats if f["nb"] == 0 and _dir(f["mono"]) != 0]
    if len(inc) >= 1 and len(feats) >= 2:
      main = rng.choice(inc)
      cond = rng.choice([f for f in feats if f is not main])
      if cond["unimod"] == 0:
        # trust classes: Edgeworth alone (C01 class A), trapezoid alone (class B), both on the same pair (the
        # common "matching" configuration, class C). Whether the pair lies inside H_trap depends on the rest of
        # the config (conditional axis monotone? third axis?) and is decided by the Lean model (reply of pm.forward)
        tclass = rng.choice(["edgeworth", "edgeworth", "trapezoid", "trapezoid", "both"])
        direction = rng.choice([1, -1])
        if tclass in ("edgeworth", "both"):
          cond["trusts"].append([main["name"], "edgeworth", direction])
        if tclass in ("trapezoid", "both"):
          cond["trusts"].append([main["name"], "trapezoid", direction])
        spec["trust_class"] = tclass
    if len(inc) >= 2 and rng.random() < 0.5:
      a, b_ = rng.sample(inc, 2)
      a["doms"].append(b_["name"])
  if kind in ("linear", "stack_linear") and rng.random() < 0.25:
    inc = [f for f in feats if _dir(f["mono"]) != 0 or _pairs(f["mono"])]
    if len(inc) >= 2:
      a, b_ = rng.sample(inc, 2)
      a["doms"].append(b_["name"])
  return spec


def gen_trap_spec(rng, which):
  """calibrated lattice / lattice stack with a trapezoid trust, by class:
  `alone`            trapezoid trust only (C01 class B): must hold;
  `free_cond`        Edgeworth + trapezoid on the same pair, conditional feature NOT monotone, a third feature
                     (inside H_trap, class C): must hold;
  `rank2`            Edgeworth + trapezoid, monotone conditional feature, only two features (inside H_trap);
  `mono_cond`        Edgeworth + trapezoid, MONOTONE conditional feature and a third feature: outside H_trap,
                     the class of finding F-C01-a."""
  fam = rng.choice(["lattice", "lattice", "stack_lattice"])
  ls = rng.choice([2, 3])

  def num(i, mono):
    nk = rng.randint(2, 3)
    kps = [Fraction(rng.randint(-4, 4), 4)]
    for _ in range(nk - 1):
      kps.append(kps[-1] + Fraction(rng.randint(1, 8), 4))
    return dict(name="f%d" % i, nb=0, mono=mono, ls=ls if rng.random() < 0.7 else rng.choice([2, 3]), default=None,
                always=False, conv=0, cmin=False, cmax=False, kps=[float(k) for k in kps], learned=False, unimod=0,
                trusts=[], doms=[])
  inc = lambda: rng.choice(["increasing", "decreasing", 1, -1])
  main = num(0, inc())
  cond = num(1, inc() if which in ("rank2", "mono_cond") else (rng.choice(["none", 0]) if which == "free_cond" else
                                                               rng.choice(["none", "increasing", "decreasing"])))
  if which in ("mono_cond", "rank2", "alone") and rng.random() < 0.3:
    # a categorical conditional feature with an ordering pair also sits on a monotone lattice axis
    a, b = rng.sample(range(3), 2)
    cond.update(nb=3, mono=[[a, b]], kps=[0.0, 1.0], default=rng.choice([None, -1]))
  feats = [main, cond]
  if which in ("free_cond", "mono_cond") or (which == "alone" and rng.random() < 0.6):
    feats.append(num(2, rng.choice(["none", "increasing", "decreasing"])))
  direction = rng.choice([1, -1])
  if which != "alone":
    cond["trusts"].append([main["name"], "edgeworth", direction])
  cond["trusts"].append([main["name"], "trapezoid", direction])
  order = list(range(len(feats)))
  rng.shuffle(order)
  feats = [feats[i] for i in order]
  for i, f in enumerate(feats):      # names follow positions; trusts name the main feature
    f["_old"] = f["name"]
  ren = {f["_old"]: "f%d" % i for i, f in enumerate(feats)}
  for i, f in enumerate(feats):
    f["name"] = "f%d" % i
    f["trusts"] = [[ren[t[0]], t[1], t[2]] for t in f["trusts"]]
    del f["_old"]
  lo = Fraction(rng.randint(-8, 8), 4)
  hi = lo + Fraction(rng.randint(1, 12), 4)
  bounded = rng.random() < 0.7
  spec = dict(family=fam, kind="lattice" if fam == "lattice" else fam, features=feats,
              out_min=float(lo) if bounded else None, out_max=float(hi) if bounded else None, out_cal=False,
              out_init=[float(lo), float(hi)], use_bias=False, kfl=False, num_terms=1, simplex=rng.random() < 0.15,
              lattices=None, num_lattices=0, rank=0, sep=True, lincomb=False, seed=rng.randint(0, 99),
              hseed=rng.randint(0, 2 ** 30), trust_class="trap_" + which)
  return spec


# fresh models with a user-given output_initialization list (F-C03-g): verify_config relates the list neither to
# [output_min, output_max] nor to an order, so the FRESH model starts outside its bounds / decreasing
FRESH_OUT_INIT_CLS = "output_initialization_outside_bounds_or_descending"
FRESH_OUT_INIT_BAD = ["lattice_outside", "linear_outside", "lattice_descending"]
FRESH_OUT_INIT_CONTROL = ["control_lattice", "control_linear", "control_outcal"]


def gen_fresh_out_init_spec(rng, which):
  """premade CalibratedLattice / CalibratedLinear, numeric monotone features only (no categorical feature: the
  random categorical initialisation is F-C03-b), by class:
  `lattice_outside` / `linear_outside`  no output calibration, output_initialization=[a, b] with a < output_min
                                        or b > output_max: accepted, fresh model leaves its bounds;
  `lattice_descending`                  output_calibration=True and a descending list: fresh model decreasing;
  `control_*`                           the same shapes with the list inside the bounds and ascending: must hold."""
  lin = "linear" in which
  outcal = which in ("lattice_descending", "control_outcal")
  fam = "linear_bounded" if lin else ("lattice_outcal" if outcal else "lattice")
  n = rng.randint(2, 3)
  feats = []
  for i in range(n):
    f = dict(name="f%d" % i, nb=0, mono=rng.choice(["increasing", "decreasing"]), ls=2, default=None, always=False,
             conv=0, cmin=False, cmax=False, kps=[0.0, 1.0], learned=False, unimod=0, trusts=[], doms=[])
    start = Fraction(rng.randint(-8, 8), 4)
    kps = [start]
    for _ in range(rng.randint(1, 3)):
      kps.append(kps[-1] + Fraction(rng.randint(1, 8), 4))
    f["kps"] = [float(k) for k in kps]
    feats.append(f)
  lo = Fraction(rng.randint(-8, 8), 4)
  hi = lo + Fraction(rng.randint(2, 12), 4)
  below = Fraction(rng.choice([1, 2, 4, 8, 16]), 2)
  above = Fraction(rng.choice([1, 2, 4, 8, 16]), 2)
  bounded = True
  if which in ("lattice_outside", "linear_outside"):
    side = rng.choice(["low", "high", "both"])
    a = lo - below if side in ("low", "both") else lo
    b = hi + above if side in ("high", "both") else hi
    init = [a, b]
  elif which == "lattice_descending":
    bounded = rng.random() < 0.5          # with bounds the descending list lies inside them
    init = [hi, lo] if rng.random() < 0.6 else [hi, (lo + hi) / 2, lo]
  else:
    q = (hi - lo) / 4
    init = rng.choice([[lo, hi], [lo + q, hi - q], [lo, lo + q, hi]])
    if which == "control_outcal":
      bounded = rng.random() < 0.5
  return dict(family=fam, kind="linear" if lin else "lattice", features=feats,
              out_min=float(lo) if bounded else None, out_max=float(hi) if bounded else None, out_cal=outcal,
              out_init=[float(v) for v in init], use_bias=False, kfl=False, num_terms=1, simplex=False,
              lattices=None, num_lattices=0, rank=0, sep=True, lincomb=False, seed=rng.randint(0, 99),
              hseed=rng.randint(0, 2 ** 30), fresh_out_init=which)


def out_init_class(spec):
  """'bad' iff the user-given output_initialization of a premade config has an entry outside [output_min,
  output_max] or (with output calibration) is not ascending -- the class of F-C03-g"""
  if spec["kind"].startswith("stack"):
    return "ok"
  init = [float(v) for v in spec["out_init"]]
  if spec["out_min"] is not None and min(init) < spec["out_min"]:
    return "bad"
  if spec["out_max"] is not None and max(init) > spec["out_max"]:
    return "bad"
  if spec["out_cal"] and any(a > b for a, b in zip(init[:-1], init[1:])):
    return "bad"
  return "ok"


def gen_invalid(rng):
  """configs `verify_config` / the builders reject with ValueError (both sides must reject)."""
  which = rng.choice(["rtl_sizes", "kfl_unimod", "one_lattice", "pair_range", "numeric_list", "cat_string",
                      "rtl_small", "lincomb_bias", "rtl_trust", "cat_set"])
  fam = {"rtl_sizes": "ens_rtl", "kfl_unimod": "lattice_kfl", "one_lattice": "ens_explicit_avg",
         "pair_range": "lattice", "numeric_list": "lattice", "cat_string": "linear_bounded",
         "rtl_small": "ens_rtl", "lincomb_bias": "ens_explicit_lincomb", "rtl_trust": "ens_rtl",
         "cat_set": "ens_rtl"}[which]
  spec = gen_spec(rng, fam)
  f0 = spec["features"][0]
  if which == "rtl_sizes":
    f0["ls"] = 5
  elif which == "kfl_unimod":
    f0.update(nb=0, mono="none", always=False, unimod=1, kps=[0.0, 1.0], conv=0, learned=False, cmin=False, cmax=False)
  elif which == "one_lattice":
    spec["lattices"] = spec["lattices"][:1]
  elif which == "pair_range":
    f0.update(nb=2, mono=[[0, 2]], default=None)
  elif which == "numeric_list":
    f0.update(nb=0, mono=[[0, 1]], kps=[0.0, 1.0], conv=0, learned=False, cmin=False, cmax=False, unimod=0)
  elif which == "cat_string":
    f0.update(nb=3, mono="increasing", default=None)
  elif which == "cat_set":
    f0.update(nb=3, mono={"set": [[0, 1], [1, 2]]}, default=None)
  elif which == "rtl_small":
    spec["num_lattices"], spec["rank"], spec["sep"] = 2, 1, False
    while len(spec["features"]) < 3:
      spec["features"].append(gen_feature(rng, len(spec["features"]), fam, False))
      spec["features"][-1]["ls"] = spec["features"][0]["ls"]
  elif which == "lincomb_bias":
    spec["out_min"], spec["out_max"], spec["use_bias"], spec["lincomb"] = 0.0, 1.0, True, True
  elif which == "rtl_trust":
    f0.update(nb=0, mono="increasing", kps=[0.0, 1.0], conv=0, learned=False, unimod=0)
    spec["features"][1]["trusts"] = [[f0["name"], "edgeworth", 1]]
  spec["invalid"] = which
  return spec


LAYER_INVALID = ["cyclic_pairs", "bounds_inverted", "bounds_equal", "kps_not_increasing", "one_keypoint", "lattice_size_1"]


def gen_layer_invalid(rng, which):
  """configs that pass `verify_config` but that a LAYER constructor may reject (`verify_hyperparameters` of the
  layer the builders create) -- or not, when the offending value never reaches a layer (an unused feature, a model
  without lattice, output calibration taking the bounds). The model's `layersAccept` must agree either way."""
  fam = rng.choice(["lattice", "linear_bounded", "ens_explicit_avg", "lattice_kfl", "ens_rtl", "lattice_outcal",
                    "linear_unbounded", "ens_explicit_lincomb"])
  while True:
    spec = gen_spec(rng, fam)
    if all(not isinstance(f["mono"], dict) for f in spec["features"]):
      break
  f0 = rng.choice(spec["features"])
  if which == "cyclic_pairs":
    f0.update(nb=3, mono=rng.choice([[[0, 1], [1, 0]], [[0, 1], [1, 2], [2, 0]], [[1, 1]]]), default=None, trusts=[],
              unimod=0)
  elif which == "bounds_inverted":
    spec["out_min"], spec["out_max"] = 2.0, 1.0
  elif which == "bounds_equal":
    spec["out_min"], spec["out_max"] = 1.0, 1.0
  elif which == "kps_not_increasing":
    f0.update(nb=0, mono="increasing", kps=rng.choice([[1.0, 0.0, 2.0], [0.0, 0.0, 1.0], [0.0, 1.0, 1.0]]),
              learned=False, conv=0, default=None)
  elif which == "one_keypoint":
    f0.update(nb=0, mono="increasing", kps=[1.0], learned=False, conv=0, default=None)
  elif which == "lattice_size_1":
    for f in spec["features"]:
      f["ls"] = 1
  spec["layer_invalid"] = which
  return spec


# ------------------------------------------------------------------ spec -> real objects
def py_mono(mono):
  if isinstance(mono, dict):
    if "set" in mono:
      return {tuple(p) for p in mono["set"]}
    return tuple(tuple(p) for p in mono["tuple"])
  if isinstance(mono, list):
    return [tuple(p) for p in mono]
  return mono


def feature_configs(spec):
  from tensorflow_lattice.python import configs
  out = []
  for f in spec["features"]:
    kw = dict(name=f["name"], lattice_size=f["ls"], monotonicity=py_mono(f["mono"]), default_value=f["default"],
              unimodality=f["unimod"],
              reflects_trust_in=[configs.TrustConfig(feature_name=t[0], trust_type=t[1], direction=t[2])
                                 for t in f["trusts"]] or None,
              dominates=[configs.DominanceConfig(feature_name=d) for d in f["doms"]] or None)
    if f["nb"]:
      kw.update(num_buckets=f["nb"])
    else:
      kw.update(pwl_calibration_input_keypoints=list(f["kps"]), pwl_calibration_num_keypoints=len(f["kps"]),
                pwl_calibration_always_monotonic=f["always"], pwl_calibration_convexity=f["conv"],
                pwl_calibration_clamp_min=f["cmin"], pwl_calibration_clamp_max=f["cmax"],
                pwl_calibration_input_keypoints_type="learned_interior" if f["learned"] else "fixed")
    out.append(configs.FeatureConfig(**kw))
  return out


def model_config(spec):
  from tensorflow_lattice.python import configs, premade_lib
  fcs = feature_configs(spec)
  common = dict(feature_configs=fcs, output_min=spec["out_min"], output_max=spec["out_max"],
                output_calibration=spec["out_cal"], output_initialization=list(spec["out_init"]),
                output_calibration_num_keypoints=len(spec["out_init"]))
  if spec["kind"] == "linear":
    return configs.CalibratedLinearConfig(use_bias=spec["use_bias"], **common)
  lat = dict(parameterization="kronecker_factored" if spec["kfl"] else "all_vertices",
             num_terms=spec["num_terms"], interpolation="simplex" if spec["simplex"] else "hypercube")
  if spec["kind"] == "lattice":
    return configs.CalibratedLatticeConfig(random_seed=spec["seed"], **lat, **common)
  lattices = spec["lattices"]
  cfg = configs.CalibratedLatticeEnsembleConfig(
      lattices={"rtl": "rtl_layer", "random": "random"}.get(lattices, lattices) if isinstance(lattices, str) else lattices,
      num_lattices=spec["num_lattices"] or None, lattice_rank=spec["rank"] or None,
      separate_calibrators=spec["sep"], use_linear_combination=spec["lincomb"], use_bias=spec["use_bias"],
      random_seed=spec["seed"], **lat, **common)
  if lattices == "random":
    premade_lib.set_random_lattice_ensemble(cfg)
    spec["lattices_resolved"] = [[str(x) for x in l] for l in cfg.lattices]
  return cfg


def build_stack(spec):
  """Hand-assembled Keras model from tfl.layers following the documented recipe: one calibrator per
  feature with output range = lattice input range (resp. the model range), monotone features on
  monotone lattice axes / non-negative linear weights, optional increasing output calibrator."""
  import tensorflow as tf
  import tf_keras as keras
  import tensorflow_lattice as tfl
  from tensorflow_lattice.python import utils
  feats = spec["features"]
  to_lattice = spec["kind"] == "stack_lattice"
  inputs, cal = [], []
  names = [f["name"] for f in feats]
  bounded = spec["out_min"] is not None or spec["out_max"] is not None or spec["out_cal"]
  for f in feats:
    if to_lattice:
      lo, hi = 0.0, f["ls"] - 1.0
    elif spec["out_cal"]:
      lo, hi = 0.0, 1.0
    else:
      lo, hi = spec["out_min"], spec["out_max"]
    if f["nb"]:
      x = keras.Input(shape=(1,), dtype=tf.int32, name="tfl_input_" + f["name"])
      pairs = _pairs(f["mono"])
      y = tfl.layers.CategoricalCalibration(
          num_buckets=f["nb"], output_min=lo, output_max=hi, monotonicities=pairs or None,
          default_input_value=f["default"],
          # as premade_lib does: an explicit initial range (the layer's default 'uniform' falls back to Keras'
          # RandomUniform(-0.05, 0.05) when only one bound is given, which may lie outside that bound: C10)
          kernel_initializer=keras.initializers.RandomUniform(
              lo if to_lattice or spec["out_cal"] else min(spec["out_init"]),
              hi if to_lattice or spec["out_cal"] else max(spec["out_init"])),
          name="tfl_calib_" + f["name"])(x)
    else:
      x = keras.Input(shape=(1,), name="tfl_input_" + f["name"])
      d = _dir(f["mono"])
      y = tfl.layers.PWLCalibration(
          input_keypoints=list(f["kps"]), output_min=lo, output_max=hi, monotonicity=1 if (d == 0 and f["always"]) else d,
          convexity=f["conv"], clamp_min=f["cmin"], clamp_max=f["cmax"],
          missing_input_value=f["default"], impute_missing=f["default"] is not None,
          input_keypoints_type="learned_interior" if f["learned"] else "fixed",
          name="tfl_calib_" + f["name"])(x)
    inputs.append(x)
    cal.append(y)
  axis = [1 if (_dir(f["mono"]) != 0 or _pairs(f["mono"])) else 0 for f in feats]
  doms = [(i, names.index(d)) for i, f in enumerate(feats) for d in f["doms"]]
  if to_lattice:
    lo, hi = (0.0, 1.0) if spec["out_cal"] else (spec["out_min"], spec["out_max"])
    ed = [(names.index(t[0]), i, t[2]) for i, f in enumerate(feats) for t in f["trusts"] if t[1] == "edgeworth"]
    tz = [(names.index(t[0]), i, t[2]) for i, f in enumerate(feats) for t in f["trusts"] if t[1] == "trapezoid"]
    init = tfl.lattice_layer.LinearInitializer(
        lattice_sizes=[f["ls"] for f in feats], monotonicities=axis, unimodalities=[f["unimod"] for f in feats],
        output_min=0.0 if spec["out_cal"] else min(spec["out_init"]), output_max=1.0 if spec["out_cal"] else max(spec["out_init"]))
    z = tfl.layers.Lattice(
        lattice_sizes=[f["ls"] for f in feats], monotonicities=axis, unimodalities=[f["unimod"] for f in feats],
        edgeworth_trusts=ed or None, trapezoid_trusts=tz or None, monotonic_dominances=doms or None,
        output_min=lo, output_max=hi,
        clip_inputs=bool(spec["seed"] % 2), interpolation="simplex" if spec["simplex"] else "hypercube",
        kernel_initializer=init, name="tfl_lattice_0")(cal)
  else:
    cat = keras.layers.Concatenate(axis=1)(cal)
    z = tfl.layers.Linear(
        num_input_dims=len(feats), monotonicities=[1] * len(feats) if bounded else axis,
        monotonic_dominances=doms or None, normalization_order=1 if bounded else None,
        use_bias=(not bounded) and spec["use_bias"], kernel_initializer=keras.initializers.Constant(1.0 / len(feats)),
        name="tfl_linear_0")(cat)
  if spec["out_cal"]:
    init = np.ediff1d(spec["out_init"], to_begin=spec["out_init"][0])
    z = tfl.layers.PWLCalibration(
        input_keypoints=np.linspace(0.0, 1.0, num=len(init)), output_min=spec["out_min"], output_max=spec["out_max"],
        monotonicity=1, kernel_initializer=keras.initializers.Constant(init), name="tfl_output_calib")(z)
  return keras.Model(inputs=inputs, outputs=z)


def build_model(spec):
  import tensorflow as tf
  import tf_keras as keras
  from tensorflow_lattice.python import premade
  keras.utils.set_random_seed(spec["hseed"] % (2 ** 31))
  if spec["kind"].startswith("stack"):
    return build_stack(spec)
  cfg = model_config(spec)
  cls = {"linear": premade.CalibratedLinear, "lattice": premade.CalibratedLattice,
         "ensemble": premade.CalibratedLatticeEnsemble}[spec["kind"]]
  return cls(cfg)


# ------------------------------------------------------------------ spec -> wire
def wire_mono(f):
  m = f["mono"]
  if isinstance(m, dict):
    kind = list(m.keys())[0]
    return {"tuple": "T", "set": "S"}[kind] + "+".join("%d-%d" % tuple(p) for p in m[kind])
  if isinstance(m, list):
    return "L" + "+".join("%d-%d" % tuple(p) for p in m)
  if m is None or m == 0 or (isinstance(m, str) and m.lower() == "none"):
    return "n"
  d = _dir(m)
  canon = m in (1, -1, "increasing", "decreasing")
  return ("i" if d == 1 else "d") + ("1" if canon else "0")


def wire_line(spec, op="pm.build"):
  feats = spec["features"]
  names = [f["name"] for f in feats]
  idx = lambda nm: names.index(nm) if nm in names else len(names) + 7
  toks = []
  for f in feats:
    trusts = "+".join("%d.%d.%d" % (idx(t[0]), int(t[1] == "trapezoid"), t[2]) for t in f["trusts"]) or "_"
    doms = "+".join(str(idx(d)) for d in f["doms"]) or "_"
    toks.append(":".join([str(f["nb"]), wire_mono(f), str(f["ls"]), opt(f["default"]), str(int(f["always"])),
                          str(f["conv"]), str(int(f["cmin"])), str(int(f["cmax"])), str(len(f["kps"])),
                          str(int(f["learned"])), str(f["unimod"]), trusts, doms]))
  kind = {"linear": "lin", "lattice": "lat", "ensemble": "ens", "stack_lattice": "lat", "stack_linear": "lin"}[spec["kind"]]
  lattices = spec["lattices"]
  rtl = lattices == "rtl"
  if lattices == "random":
    lattices = spec.get("lattices_resolved", [])
  p1, p2 = [], []
  if rtl:
    n = len(feats)
    tot = spec["num_lattices"] * spec["rank"]
    units = [((i + 1) * tot // n - i * tot // n) if spec["sep"] else 1 for i in range(n)]
    nin = sum(units)
    rs = np.random.RandomState(spec["seed"])
    p1 = list(range(nin))
    rs.shuffle(p1)
    p2 = list(range(tot))
    if tot >= nin:
      rs.shuffle(p2)
  lat_tok = "_" if (rtl or not lattices) else ";".join(il([idx(x) for x in l]) for l in lattices)
  return " ".join([op, kind, opt(spec["out_min"]), opt(spec["out_max"]), str(int(spec["out_cal"])),
                   str(len(spec["out_init"])), str(int(spec["use_bias"])), str(int(spec["kfl"])),
                   str(spec["num_terms"]), str(int(spec["simplex"])), str(int(rtl)), lat_tok,
                   str(spec["num_lattices"]), str(spec["rank"]), str(int(spec["sep"])), str(int(spec["lincomb"])),
                   il(p1), il(p2), "|".join(toks)])


# ------------------------------------------------------------------ introspection of the REAL model
def _plus(xs):
  xs = list(xs)
  return "+".join(str(x) for x in xs) if xs else "_"


def _src(t):
  h = t._keras_history
  return h.layer, h.tensor_index


def _through_identity(t):
  """follow tf.identity pass-through nodes back to the producing calibrator"""
  layer, ti = _src(t)
  while type(layer).__name__ == "TFOpLambda":
    layer, ti = _src(layer.input)
  return layer, ti


def _aslist(x):
  return list(x) if isinstance(x, (list, tuple)) else [x]


def introspect(model, spec):
  """canonical string of the real model's layer graph, same format as `pm.build`'s reply"""
  from tensorflow_lattice.python import utils
  names = [f["name"] for f in spec["features"]]
  fidx = lambda layer: names.index(layer.name[len("tfl_calib_"):])
  cals, blocks = [], []
  rtl_flag, combine, outcal = 0, "S", "none"
  for l in model.layers:
    tn = type(l).__name__
    if tn in ("PWLCalibration", "CategoricalCalibration") and l.name.startswith("tfl_calib_"):
      if tn == "PWLCalibration":
        cals.append((fidx(l), ",".join([
            str(fidx(l)), "p", str(l.units), str(utils.canonicalize_monotonicity(l.monotonicity) or 0), "_", "0",
            str(len(l.input_keypoints)), opt(l.output_min), opt(l.output_max), str(int(bool(l.clamp_min))),
            str(int(bool(l.clamp_max))), str(utils.canonicalize_convexity(l.convexity) or 0),
            opt(l.missing_input_value if l.impute_missing else None),
            str(int(l.input_keypoints_type == "learned_interior"))])))
      else:
        pairs = "+".join("%d-%d" % (int(a), int(b)) for a, b in (l.monotonicities or [])) or "_"
        cals.append((fidx(l), ",".join([
            str(fidx(l)), "c", str(l.units), "0", pairs, str(l.num_buckets), "0", opt(l.output_min),
            opt(l.output_max), "0", "0", "0", opt(l.default_input_value), "0"])))
    elif tn in ("Lattice", "KroneckerFactoredLattice"):
      ins = []
      for t in _aslist(l.input):
        src, ti = _through_identity(t)
        ins.append("%d.%d" % (fidx(src), ti))
      blocks.append(_lattice_block(l, ins, None))
    elif tn == "Linear" and l.name.startswith("tfl_linear"):
      cat = _src(l.input)[0]
      ins = []
      for t in _aslist(cat.input):
        src, ti = _through_identity(t)
        ins.append("%d.%d" % (fidx(src), ti))
      monos = [utils.canonicalize_monotonicity(m) or 0 for m in l.monotonicities]
      blocks.append(",".join(["N", _plus(ins), "_", _plus(monos), "_", "_", "_",
                              _plus("%d.%d" % tuple(p) for p in (l.monotonic_dominances or [])), "none", "none",
                              str(int(l.normalization_order == 1)), str(int(bool(l.use_bias))), "0", "0"]))
    elif tn == "Linear":
      monos = [utils.canonicalize_monotonicity(m) for m in l.monotonicities]
      combine = "L%d%d" % (int(l.normalization_order == 1), int(bool(l.use_bias)))
      if not all(m == 1 for m in monos):
        combine += ":monotonicities=" + _plus(monos)     # the model has all-increasing weights here
    elif tn == "Average":
      combine = "A"
    elif tn == "RTL":
      rtl_flag = 1
      if l.average_outputs:
        combine = "A"
      flat = []
      x = l.input
      for key in sorted(x.keys()):
        for t in _aslist(x[key]):
          src, _ = _through_identity(t)
          for u in range(int(t.shape[1])):
            flat.append("%d.%d" % (fidx(src), u))
      for monos, lats in l._rtl_structure:
        inner = l._lattice_layers[str(tuple(monos))]
        if inner.units != len(lats):
          blocks.append("units-mismatch:%d:%d" % (inner.units, len(lats)))
        for lat in lats:
          blocks.append(_lattice_block(inner, [flat[i] for i in lat], len(lat)))
    elif tn == "PWLCalibration" and l.name == "tfl_output_calib":
      outcal = "%d,%s,%s" % (len(l.input_keypoints), opt(l.output_min), opt(l.output_max))
      if utils.canonicalize_monotonicity(l.monotonicity) != 1:
        outcal += ":monotonicity=%s" % l.monotonicity   # the model's output calibrator is increasing
  cals.sort()
  return "OK C %s B %s R %d M %s O %s" % (";".join(c for _, c in cals) or "_", ";".join(blocks) or "_", rtl_flag,
                                       combine, outcal)


def _lattice_block(l, ins, rank):
  from tensorflow_lattice.python import utils
  monos = [utils.canonicalize_monotonicity(m) or 0 for m in (l.monotonicities or [0] * len(ins))]
  if type(l).__name__ == "KroneckerFactoredLattice":
    return ",".join(["K", _plus(ins), _plus([l.lattice_sizes] * len(ins)), _plus(monos), "_", "_", "_", "_",
                     opt(l.output_min), opt(l.output_max), "0", "0", str(l.num_terms), "0"])
  uni = utils.canonicalize_unimodalities(l.unimodalities) or [0] * len(ins)
  trip = lambda ts: _plus("%d.%d.%d" % tuple(t) for t in (utils.canonicalize_trust(ts) or []))
  return ",".join(["L", _plus(ins), _plus(l.lattice_sizes), _plus(monos),
                   "_" if rank is not None else _plus(uni), trip(l.edgeworth_trusts), trip(l.trapezoid_trusts),
                   _plus("%d.%d" % tuple(p) for p in (l.monotonic_dominances or [])), opt(l.output_min),
                   opt(l.output_max), "0", "0", "0", str(int(l.interpolation == "simplex"))])


# ------------------------------------------------------------------ numeric tie of the composite
def _kfl_tok(l, u, dims):
  """`K:dims:rows:scale:bias` of unit `u` of a KroneckerFactoredLattice: rows (term, dim) term-major"""
  kern = l.kernel.numpy()
  L, T = int(l.lattice_sizes), int(l.num_terms)
  rows = [[kern[0, i, u * dims + d, t] for i in range(L)] for t in range(T) for d in range(dims)]
  return "K:%d:%s:%s:%s" % (dims, frl2(rows), frl(l.scale.numpy()[u]), fr(l.bias.numpy().ravel()[u]))


def extract_weights(model, spec):
  """the weights of the real model in the wire format of `pm.forward`; also the largest weight magnitude and
  the smallest learned-interior softmax weight"""
  names = [f["name"] for f in spec["features"]]
  cal, blks = [], []
  lin = comb = "_:0"
  out = "_"
  mag, min_ws = [1.0], [1.0]

  def see(a):
    a = np.asarray(a, dtype=np.float64)
    if a.size:
      mag[0] = max(mag[0], float(np.max(np.abs(a))))
    return a

  for l in model.layers:
    tn = type(l).__name__
    if tn in ("PWLCalibration", "CategoricalCalibration") and l.name.startswith("tfl_calib_"):
      fi = names.index(l.name[len("tfl_calib_"):])
      K = see(l.kernel.numpy())
      for u in range(K.shape[1]):
        if tn == "PWLCalibration":
          see(np.cumsum(K[:, u]))
          ws = "_"
          if l.input_keypoints_type == "learned_interior":
            lg = l.interpolation_logits.numpy()[u].astype(np.float64)
            e = np.exp(lg - lg.max())
            sm = e / e.sum()
            min_ws[0] = min(min_ws[0], float(sm.min()))
            ws = frl(sm)
          mo = float(see(l.missing_output.numpy())[0, u]) if l.impute_missing else 0.0
          cal.append("%d.%d:%s:%s:%s" % (fi, u, frl(K[:, u]), ws, fr(mo)))
        else:
          cal.append("%d.%d:%s:_:0" % (fi, u, frl(K[:, u])))
    elif tn == "Lattice":
      blks.append("T:" + frl(see(l.kernel.numpy())[:, 0]))
    elif tn == "KroneckerFactoredLattice":
      see(l.kernel.numpy()); see(l.scale.numpy()); see(l.bias.numpy())
      blks.append(_kfl_tok(l, 0, len(_aslist(l.input))))
    elif tn == "Linear" and l.name.startswith("tfl_linear"):
      b = float(see(l.bias.numpy()).ravel()[0]) if l.use_bias else 0.0
      lin = "%s:%s" % (frl(see(l.kernel.numpy())[:, 0]), fr(b))
      blks.append("N")
    elif tn == "Linear":
      b = float(see(l.bias.numpy()).ravel()[0]) if l.use_bias else 0.0
      comb = "%s:%s" % (frl(see(l.kernel.numpy())[:, 0]), fr(b))
    elif tn == "RTL":
      for monos, lats in l._rtl_structure:
        inner = l._lattice_layers[str(tuple(monos))]
        for u, lat in enumerate(lats):
          if type(inner).__name__ == "Lattice":
            blks.append("T:" + frl(see(inner.kernel.numpy())[:, u]))
          else:
            see(inner.kernel.numpy()); see(inner.scale.numpy()); see(inner.bias.numpy())
            blks.append(_kfl_tok(inner, u, len(lat)))
    elif tn == "PWLCalibration" and l.name == "tfl_output_calib":
      K = see(l.kernel.numpy())
      see(np.cumsum(K[:, 0]))
      out = frl(K[:, 0])
  return dict(cal="|".join(cal) or "_", blk="|".join(blks) or "_", lin=lin, comb=comb, out=out,
              mag=mag[0], min_ws=min_ws[0])


def forward_line(spec, wts, rows):
  """`pm.forward` op: config tokens of `pm.build`, keypoints FROM THE CONFIG, weights, points"""
  cfg = wire_line(spec, "pm.forward")
  kps = ";".join(("_" if f["nb"] else frl(f["kps"])) for f in spec["features"])
  return " ".join([cfg, kps, wts["cal"], wts["blk"], wts["lin"], wts["comb"], wts["out"], frl2(rows)])


def htrap_class(spec):
  """python reading of H_trap (C01) for every all-vertices lattice of the config:
  `ok` | `shared_cond` (Edgeworth present and two trapezoid trusts share a conditional axis) |
  `mono_cond` (Edgeworth present, a third axis, a trapezoid trust on a monotone conditional axis: F-C01-a).
  Returns (class, set of the monotone trapezoid-conditional features of the offending lattices: the axes along
  which the finalisation of F-C01-a loses monotonicity)."""
  feats = spec["features"]
  names = [f["name"] for f in feats]
  if spec["kfl"] or spec["lattices"] == "rtl" or spec["kind"] in ("linear", "stack_linear"):
    return "ok", set()
  if spec["kind"] in ("lattice", "stack_lattice"):
    lats = [list(names)]
  else:
    lats = spec.get("lattices_resolved") if spec["lattices"] == "random" else spec["lattices"]
  cls, hit = "ok", set()
  for lat in lats or []:
    ed = [(t[0], nm) for nm in lat for t in feats[names.index(nm)]["trusts"] if t[1] == "edgeworth" and t[0] in lat]
    tz = [(t[0], nm) for nm in lat for t in feats[names.index(nm)]["trusts"] if t[1] == "trapezoid" and t[0] in lat]
    if not ed or not tz:
      continue
    monotone = lambda nm: _dir(feats[names.index(nm)]["mono"]) != 0 or bool(_pairs(feats[names.index(nm)]["mono"]))
    if len(lat) != 2 and any(monotone(c) for _, c in tz):
      cls = "mono_cond"
      hit |= {names.index(c) for _, c in tz if monotone(c)}
    elif len({c for _, c in tz}) < len(tz) and cls == "ok":
      cls = "shared_cond"
  return cls, hit


# ------------------------------------------------------------------ histories
HISTORIES = ["init", "assign1", "assign10", "assign100", "assignmix", "negative", "sgd", "adam", "fit", "restore"]


def _constrain_all(model, passes=1):
  for _ in range(passes):
    for v in model.trainable_variables:
      if getattr(v, "constraint", None) is not None:
        v.assign(v.constraint(v))


def _assign_random(model, nrng, scale):
  import tensorflow as tf
  for v in model.trainable_variables:
    s = scale if scale else float(nrng.choice([1.0, 10.0, 100.0]))
    if "interpolation_logits" in v.name:
      s = min(s, 10.0)
    val = nrng.randn(*v.shape) * s
    if "interpolation_logits" in v.name:
      val = np.clip(val, -30, 30)
    v.assign(tf.constant(val, dtype=v.dtype))


def _clip_logits(model):
  """keeps learned-interior logits out of the float32 softmax-underflow region (F-C05-a, property C05)"""
  import tensorflow as tf
  for v in model.trainable_variables:
    if "interpolation_logits" in v.name:
      v.assign(tf.clip_by_value(tf.where(tf.math.is_nan(v), tf.zeros_like(v), v), -30.0, 30.0))


def _train_batch(spec, nrng, n=48):
  cols = probe_columns(spec, nrng, n)
  t = np.zeros(n)
  for f, c in zip(spec["features"], cols):
    d = _dir(f["mono"])
    if f["nb"]:
      rank = {}
      for a, b in _pairs(f["mono"]):
        rank[b] = rank.get(b, 0) - 1.0
        rank[a] = rank.get(a, 0) + 1.0
      t += np.array([rank.get(int(v), 0.0) for v in c]) * 3.0
    else:
      t += -3.0 * d * c + (nrng.randn() * c if d == 0 else 0.0)
  return cols, (t * 10.0 + 100.0 * nrng.randn()).reshape(-1, 1)


def to_inputs(spec, cols):
  import tensorflow as tf
  out = []
  for f, c in zip(spec["features"], cols):
    c = np.asarray(c).reshape(-1, 1)
    out.append(tf.constant(c.astype(np.int32)) if f["nb"] else tf.constant(c.astype(np.float32)))
  return out


def apply_history(model, spec, hist, nrng):
  """returns the model to judge (a fresh one for `restore`)"""
  import tensorflow as tf
  import tf_keras as keras
  if hist == "init":
    return model
  if hist.startswith("assign"):
    scale = {"assign1": 1.0, "assign10": 10.0, "assign100": 100.0, "assignmix": 0.0}[hist]
    for _ in range(1 + int(nrng.randint(0, 2))):
      _assign_random(model, nrng, scale)
      _constrain_all(model)
    return model
  if hist == "negative":
    for v in model.trainable_variables:
      if "interpolation_logits" in v.name:
        continue
      v.assign(-tf.abs(v) - float(nrng.choice([0.0, 1.0, 50.0])))
    _constrain_all(model)
    return model
  if hist in ("sgd", "adam"):
    opt_ = keras.optimizers.SGD(learning_rate=50.0) if hist == "sgd" else keras.optimizers.Adam(learning_rate=50.0)
    for step in range(int(nrng.randint(2, 6))):
      cols, target = _train_batch(spec, nrng)
      xs = to_inputs(spec, cols)
      with tf.GradientTape() as tape:
        loss = tf.reduce_mean((model(xs) - tf.constant(target, tf.float32)) ** 2)
      vs = model.trainable_variables
      gs = tape.gradient(loss, vs)
      opt_.apply_gradients([(g, v) for g, v in zip(gs, vs) if g is not None])
      _clip_logits(model)
    return model
  if hist == "fit":
    if any(f["learned"] for f in spec["features"]):
      return apply_history(model, spec, "sgd", nrng)
    cols, target = _train_batch(spec, nrng, 64)
    model.compile(loss="mse", optimizer=keras.optimizers.SGD(learning_rate=50.0))
    model.fit(to_inputs(spec, cols), target.astype(np.float32), batch_size=16, epochs=2, verbose=0)
    return model
  if hist == "restore":
    _assign_random(model, nrng, 0.0)
    _constrain_all(model)
    fresh = build_model(spec)
    fresh.set_weights(model.get_weights())
    cols = probe_columns(spec, nrng, 16)
    a = model(to_inputs(spec, cols)).numpy()
    b = fresh(to_inputs(spec, cols)).numpy()
    fresh._restore_diff = float(np.max(np.abs(a - b))) if np.all(np.isfinite(a)) and np.all(np.isfinite(b)) else 0.0
    return fresh
  raise ValueError(hist)


# ------------------------------------------------------------------ probe inputs and oracle
def numeric_values(f, nrng, n):
  kps = f["kps"]
  lo, hi = kps[0], kps[-1]
  span = max(hi - lo, 1.0)
  grid = list(kps) + [lo - span, lo - 0.25, hi + 0.25, hi + span, lo - 1e6, hi + 1e6]
  grid += [(a + b) / 2 for a, b in zip(kps[:-1], kps[1:])]
  vals = np.where(nrng.rand(n) < 0.5, nrng.choice(grid, size=n), lo - 0.5 * span + nrng.rand(n) * 2 * span)
  return np.round(vals * 64) / 64


def probe_columns(spec, nrng, n, missing=True):
  cols = []
  for f in spec["features"]:
    if f["nb"]:
      c = nrng.randint(0, f["nb"], size=n).astype(np.float64)
      if missing and f["default"] is not None:
        c[nrng.rand(n) < 0.2] = f["default"]
    else:
      c = numeric_values(f, nrng, n)
      if missing and f["default"] is not None:
        c[nrng.rand(n) < 0.25] = f["default"]
    cols.append(c)
  return cols


def failure_class(model, spec, clause, feature, hist):
  """stable class of a failure: the known finding classes, or 'other'"""
  if hist == "init" and clause in ("bounds", "monotone") and out_init_class(spec) == "bad":
    return FRESH_OUT_INIT_CLS
  if clause == "bounds":
    for l in model.layers:
      if type(l).__name__ == "Linear" and l.normalization_order == 1:
        k = l.kernel.numpy()
        if np.all(np.isfinite(k)) and float(np.sum(np.abs(k))) < 1e-8:
          return "linear_all_nonpositive"
  if feature is not None:
    f = spec["features"][feature]
    if clause == "categorical_pair" and hist == "init":
      return "categorical_pairs_random_init"
    if clause in ("monotone", "categorical_pair"):
      # a categorical feature with ordering pairs sits on a monotone lattice axis: when it is the conditional
      # feature of the trapezoid trust the lost monotonicity shows as a violated category pair
      cls, hit = htrap_class(spec)
      if cls == "mono_cond" and feature in hit:
        return "trap_mono_cond_with_edgeworth"
  return "other"


def record_fail(ctx, clause, key, case, observed, detail=""):
  """ctx.fail keeps at most 200 failures: failures of a classified (known) class are recorded only 3 times
  per (clause, class, family) and counted beyond that, so that they can never crowd out an unclassified one."""
  if key.get("cls") != "other":
    k = "failclass:%s:%s:%s" % (clause, key.get("cls"), key.get("model"))
    ctx.count(k)
    if ctx.dist[k] > 3:
      return
  ctx.fail(clause, key, case, observed, detail)


def oracle(ctx, model, spec, hist, nrng, case):
  """pairwise monotonicity / categorical pairs / bounds / finiteness on the REAL model"""
  n = 48
  base = probe_columns(spec, nrng, n)
  batches = [base]
  checks = []     # (clause, feature, lo_slice_index, hi_slice_index, valid_mask, sign)
  for i, f in enumerate(spec["features"]):
    d = _dir(f["mono"])
    if f["nb"] == 0 and d != 0:
      lo = [c.copy() for c in base]
      hi = [c.copy() for c in base]
      x = numeric_values(f, nrng, n)
      delta = np.where(nrng.rand(n) < 0.5, nrng.choice([0.015625, 0.25, 1.0, 4.0, 1e6], size=n), nrng.rand(n) * 3)
      x2 = x + delta
      valid = np.ones(n, bool)
      if f["default"] is not None:
        valid = (x != f["default"]) & (x2 != f["default"])
      lo[i], hi[i] = x, x2
      batches += [lo, hi]
      checks.append(("monotone", i, len(batches) - 2, len(batches) - 1, valid, d))
    for a, b in _pairs(f["mono"]):
      lo = [c.copy() for c in base]
      hi = [c.copy() for c in base]
      lo[i] = np.full(n, float(a))
      hi[i] = np.full(n, float(b))
      batches += [lo, hi]
      checks.append(("categorical_pair", i, len(batches) - 2, len(batches) - 1, np.ones(n, bool), 1))
  cols = [np.concatenate([b[j] for b in batches]) for j in range(len(spec["features"]))]
  y = model(to_inputs(spec, cols)).numpy().astype(np.float64).ravel()
  ys = [y[k * n:(k + 1) * n] for k in range(len(batches))]
  key = dict(model=spec["family"], history=hist)
  if not np.all(np.isfinite(y)):
    bad = int(np.argmin(np.isfinite(y)))
    record_fail(ctx, "finite", dict(key, cls=failure_class(model, spec, "finite", None, hist)),
             dict(case, inputs=[float(c[bad]) for c in cols]), float(y[bad]) if np.isfinite(y[bad]) else repr(y[bad]),
             "non-finite output")
    return False
  scale = max(1.0, float(np.max(np.abs(y))))
  tol = 2e-5 * scale
  ok = True
  # points of the numeric tie: the first rows of the base batch and of every (low, high) pair batch
  take = 3 if len(batches) <= 9 else 2
  idx = [k * n + j for k in range(len(batches)) for j in range(take)][:36]
  case["_tie"] = dict(
      rows=[[int(cols[f][i]) if spec["features"][f]["nb"] else Fraction(float(np.float32(cols[f][i])))
             for f in range(len(spec["features"]))] for i in idx],
      ys=[float(y[i]) for i in idx], ymax=scale)
  for clause, i, a, b, valid, sign in checks:
    diff = (ys[a] - ys[b]) * sign          # must be <= tol
    diff = np.where(valid, diff, -np.inf)
    j = int(np.argmax(diff))
    if diff[j] > tol:
      ok = False
      record_fail(ctx, clause, dict(key, cls=failure_class(model, spec, clause, i, hist)),
               dict(case, feature=i, low=[float(c[j]) for c in batches[a]], high=[float(c[j]) for c in batches[b]]),
               dict(y_low=float(ys[a][j]), y_high=float(ys[b][j]), violation=float(diff[j]), tol=tol),
               "feature %d (%s) %s" % (i, spec["features"][i]["mono"], clause))
  lo_, hi_ = spec["out_min"], spec["out_max"]
  j = None
  if lo_ is not None and float(np.min(y)) < lo_ - tol:
    j = int(np.argmin(y))
  if hi_ is not None and float(np.max(y)) > hi_ + tol:
    j = int(np.argmax(y))
  if j is not None:
    ok = False
    record_fail(ctx, "bounds", dict(key, cls=failure_class(model, spec, "bounds", None, hist)),
             dict(case, inputs=[float(c[j]) for c in cols]),
             dict(y=float(y[j]), output_min=lo_, output_max=hi_, tol=tol), "output outside [output_min, output_max]")
  d = getattr(model, "_restore_diff", 0.0)
  if d > 1e-6 * scale:
    ok = False
    record_fail(ctx, "restore", dict(key, cls="other"), case, d, "restored model differs from the saved one")
  case["_ok"] = ok
  return bool(np.max(y) - np.min(y) > 1e-9)


# ------------------------------------------------------------------ one case = config x history
def feature_class(f):
  w = wire_mono(f)
  return ("c" if f["nb"] else "p") + w[:2 if w[0] in "id" else 1] + ("m" if f["default"] is not None else "")


def _weights_ok(model):
  """finite weights small enough that float32 products of a few of them cannot overflow"""
  return all(np.all(np.isfinite(w)) and (w.size == 0 or float(np.max(np.abs(w))) < 1e8)
             for w in model.get_weights())


def pending_fw(ctx):
  if not hasattr(ctx, "_fw"):
    ctx._fw = []
  return ctx._fw


def run_case(ctx, spec, hist, tie_wanted=True):
  """builds the real model, applies the history, runs the oracle, records the numeric tie of the composite
  (sent to the driver by the caller); returns (model, real_graph or error)"""
  import tensorflow as tf
  nrng = np.random.RandomState((spec["hseed"] + HISTORIES.index(hist) * 7919) % (2 ** 31))
  case = dict(spec=spec, history=hist)
  try:
    model = build_model(spec)
  except Exception as e:
    return None, classify_exc(e) + " " + str(e)[:160]
  try:
    real = introspect(model, spec)
  except Exception as e:    # a graph the walker does not understand is a correspondence break, not a crash
    real = "OK introspection-failed %s %s" % (type(e).__name__, str(e)[:200])
  fam = spec["family"]
  try:
    judged = apply_history(model, spec, hist, nrng)
  except InfraError:
    raise
  except Exception as e:   # the model cannot be evaluated / trained on valid inputs any more
    ctx.count("history:" + hist)
    if not _weights_ok(model):
      # the optimizer already drove the weights to inf/nan/huge values (lr 50, unbounded model); a NaN
      # coordinate then makes e.g. the simplex gather index garbage: float overflow, not judged
      ctx.count("history_overflow:" + fam + ":" + hist)
      ctx.case(sig=None, nontrivial=False)
      return model, real
    ctx.fail("finite", dict(model=fam, history=hist, cls="raises"), case, classify_exc(e),
             "model raises during the history on valid inputs: " + str(e)[:300])
    ctx.case(sig=None, nontrivial=False)
    return model, real
  weights_ok = _weights_ok(judged)
  ctx.count("history:" + hist)
  if not weights_ok:
    ctx.count("history_overflow:" + fam + ":" + hist)
    ctx.case(sig=None, nontrivial=False)
    return model, real
  try:
    varies = oracle(ctx, judged, spec, hist, nrng, case)
  except InfraError:
    raise
  except Exception as e:
    ctx.fail("finite", dict(model=fam, history=hist, cls="raises"), case, classify_exc(e),
             "model raises on valid probe inputs: " + str(e)[:300])
    varies = False
  ctx._last_ok = case.pop("_ok", None)     # verdict of the oracle on this case (None: it raised / returned early)
  tie = case.pop("_tie", None)
  if tie is not None and tie_wanted:
    try:
      wts = extract_weights(judged, spec)
    except InfraError:
      raise
    except Exception as e:     # a layer the extractor does not understand: a correspondence break, not a crash
      wts = None
      ctx.disagree("premade.forward", dict(spec=spec, history=hist), "weights-not-extracted %s %s" % (type(e).__name__, str(e)[:200]),
                   "", "the weights of the real model could not be read")
    if wts is not None:
      if wts["min_ws"] < 1e-3:
        ctx.count("numeric_skip:learned_tiny_piece")
      else:
        pending_fw(ctx).append(dict(spec=spec, history=hist, line=forward_line(spec, wts, tie["rows"]), ys=tie["ys"],
                                    scale=8.0 * max(1.0, wts["mag"], tie["ymax"]), real_graph=real,
                                    rows=tie["rows"]))
  constrained = any(_dir(f["mono"]) != 0 or _pairs(f["mono"]) for f in spec["features"]) or \
      spec["out_min"] is not None or spec["out_max"] is not None
  bclass = "%d%d%d" % (spec["out_min"] is not None, spec["out_max"] is not None, spec["out_cal"])
  sig = (fam, tuple(sorted(feature_class(f) for f in spec["features"])), bclass, hist, spec["seed"] % 5)
  ctx.case(sig=sig, nontrivial=constrained and varies,
           sample=dict(family=fam, history=hist, features=[feature_class(f) for f in spec["features"]],
                       bounds=[spec["out_min"], spec["out_max"]], graph=real[:300]))
  return model, real


def run_fresh_out_init_case(ctx, spec):
  """one case of the stream `fresh_output_init`: the real premade model right after construction (history
  "init") under the common oracle; a control case (list inside the bounds, ascending) must pass"""
  which = spec["fresh_out_init"]
  ctx.count("fresh_output_init:" + which)
  ctx._last_ok = None
  model, real = run_case(ctx, spec, "init")
  if model is None:
    ctx.count("fresh_output_init:%s:rejected" % which)
    if which.startswith("control"):
      ctx.fail("finite", dict(model=spec["family"], history="init", cls="raises"), dict(spec=spec, history="init"),
               str(real)[:200], "a premade config with output_initialization inside the bounds does not build")
    return model, real
  verdict = {True: "holds", False: "violates", None: "not_judged"}[ctx._last_ok]
  ctx.count("fresh_output_init:%s:%s" % (which, verdict))
  if which.startswith("control"):
    ctx.count("fresh_output_init:control:" + ("pass" if ctx._last_ok else "FAIL"))
  return model, real


def fresh_output_init(ctx, rng, pending):
  """stream F-C03-g: 3 + ctx.n(1, 5) configs of the violating classes, ctx.n(3, 6) controls"""
  import tf_keras
  kinds = list(FRESH_OUT_INIT_BAD) + [rng.choice(FRESH_OUT_INIT_BAD) for _ in range(ctx.n(1, 5))]
  nc = ctx.n(3, 6)
  kinds += [FRESH_OUT_INIT_CONTROL[k % 3] for k in range(nc)]
  for which in kinds:
    spec = gen_fresh_out_init_spec(rng, which)
    ctx.count("family:" + spec["family"])
    model, real = run_fresh_out_init_case(ctx, spec)
    del model
    pending.append((spec, "valid", real))
    tf_keras.backend.clear_session()


def run(ctx):
  import tensorflow as tf
  rng = ctx.rng
  quick = ctx.tier == "quick"
  n_cfg = ctx.n(45, 330)
  specs, lines = [], []
  fams = []
  for k in range(n_cfg):
    if quick and k < len(QUICK_FAMILIES):
      fams.append(QUICK_FAMILIES[k])
    else:
      fams.append(FAMILIES[k % len(FAMILIES)])
  for fam in fams:
    specs.append(gen_spec(rng, fam))
  # trapezoid trusts by class (alone / inside H_trap / the F-C01-a class)
  n_trap = ctx.n(8, 40)
  for k in range(n_trap):
    specs.append(gen_trap_spec(rng, ["alone", "free_cond", "mono_cond", "rank2"][k % 4]))
  n_inv = ctx.n(10, 60)
  for _ in range(n_inv):
    specs.append(gen_invalid(rng))
  # layer-level acceptance: real constructors vs the model's layersAccept
  accept_cases = []
  for k in range(ctx.n(12, 60)):
    sp = gen_layer_invalid(rng, LAYER_INVALID[k % len(LAYER_INVALID)])
    try:
      build_model(sp)
      real = "OK"
    except InfraError:
      raise
    except Exception as e:
      real = classify_exc(e)
    ctx.count("layer_invalid:%s:%s" % (sp["layer_invalid"], "built" if real == "OK" else "rejected"))
    accept_cases.append((sp, real))
  import tf_keras
  tf_keras.backend.clear_session()
  pending = []
  for spec in specs:
    ctx.count("family:" + spec["family"])
    for f in spec["features"]:
      ctx.count("feature:" + feature_class(f))
    if spec.get("invalid"):
      try:
        m = build_model(spec)
      except Exception as e:
        real = classify_exc(e)
      else:
        try:
          real = introspect(m, spec)
        except Exception as e:
          real = "OK introspection-failed %s %s" % (type(e).__name__, str(e)[:200])
      pending.append((spec, "invalid", real))
      continue
    hists = ["init"]
    pool = ["assign1", "assign10", "assign100", "assignmix", "negative", "sgd", "adam", "restore"]
    k = 3 if quick else 6
    hists += rng.sample(pool, k)
    if rng.random() < (0.12 if quick else 0.3):
      hists.append("fit")
    first = None
    if spec.get("trust_class", "").startswith("trap_"):
      ctx.count("trust_class:" + spec["trust_class"])
      # the finalisation defect shows on large infeasible kernels: always include the widest assignment
      hists = ["init", "assign100", "assign10"] + [h for h in hists[1:] if h not in ("assign100", "assign10")][:1]
    elif spec.get("trust_class"):
      ctx.count("trust_class:" + spec["trust_class"])
    ctx.count("htrap:" + htrap_class(spec)[0])
    for h in hists:
      model, real = run_case(ctx, spec, h)
      if first is None:
        first = real
      if model is None:
        break
      del model
    pending.append((spec, "valid", first))
    import tf_keras
    tf_keras.backend.clear_session()
  # last, so that the configs of the older streams are the same per seed as before the stream existed
  fresh_output_init(ctx, rng, pending)
  for spec, _, _ in pending:
    lines.append(wire_line(spec))
  fws = pending_fw(ctx)
  acc_lines = [accept_line(sp) for sp, _ in accept_cases]
  replies = run_driver(lines + [fw["line"] for fw in fws] + acc_lines, timeout=1200)
  for (spec, kind, real), reply in zip(pending, replies):
    compare_graph(ctx, spec, kind, real, reply)
  for fw, reply in zip(fws, replies[len(lines):]):
    compare_forward(ctx, fw, reply)
  for (sp, real), reply in zip(accept_cases, replies[len(lines) + len(fws):]):
    if real == reply:
      ctx.agree("premade.layersAccept.invalid")
    else:
      ctx.disagree("premade.layersAccept.invalid", dict(spec=sp), real, reply,
                   "acceptance by the real layer constructors != buildSpec + layersAccept of the model")
  ctx._fw = []


def accept_line(spec):
  kps = ";".join(("_" if f["nb"] else frl(f["kps"])) for f in spec["features"])
  return wire_line(spec, "pm.accept") + " " + kps


def compare_forward(ctx, fw, reply):
  """numeric tie of the composite + the model's verdicts on the layer checks and on H_trap"""
  spec = fw["spec"]
  suite = "premade.forward" if not spec["kind"].startswith("stack") else "stack.forward"
  case = dict(spec=spec, history=fw["history"], rows=fw["rows"])
  toks = reply.split(" ")
  if toks[0] != "OK" or len(toks) != 5:
    # the real model was built, so the model must build it too (a structural disagreement is reported by
    # compare_graph; here the numeric tie has nothing to compare)
    ctx.count("numeric_skip:model_rejects")
    if fw["real_graph"].startswith("OK"):
      ctx.disagree(suite, case, fw["ys"], reply, "the Lean composite is not defined on a config the real builder accepts")
    return
  accept, distinct, condfree = toks[1] == "1", toks[2] == "1", toks[3] == "1"
  if not accept:
    ctx.disagree("premade.layersAccept", case, "built", reply[:40],
                 "the real layer constructors accepted the config, the model's layer checks do not")
  else:
    ctx.agree("premade.layersAccept")
  cls = htrap_class(spec)[0]
  want = {"ok": distinct and condfree, "shared_cond": (not distinct) and condfree, "mono_cond": not condfree}[cls]
  if want:
    ctx.agree("premade.htrap")
  else:
    ctx.disagree("premade.htrap", case, cls, "trapDistinct=%s trapCondFree=%s" % (distinct, condfree),
                 "H_trap class computed from the config != the model's trapDistinct / trapCondFree")
  ctx.count("model:htrap:%d%d" % (distinct, condfree))
  ctx.compare(suite, case, fw["ys"], parse_rats(toks[4]), fw["scale"], rtol=2e-5)


def compare_graph(ctx, spec, kind, real, reply):
  suite = "premade.buildSpec" if not spec["kind"].startswith("stack") else "stack.buildSpec"
  if kind == "invalid":
    suite = "premade.verify_config"
    ctx.count("invalid:" + spec["invalid"])
  real_c = real if real.startswith("OK") else real.split(" ")[0] + " " + real.split(" ")[1]
  if real_c == reply:
    ctx.agree(suite)
    mtoks = reply.split(" ")
    if mtoks[0] == "OK":
      ctx.count("model:combine:" + mtoks[8])
      ctx.count("model:outcal:" + str(mtoks[10] != "none"))
      ctx.count("model:rtl:" + mtoks[6])
      for b in mtoks[4].split(";"):
        ctx.count("model:block:" + b[0])
  else:
    ctx.disagree(suite, dict(spec=spec), real, reply, "layer graph of the real model != buildSpec")


def replay(ctx, failure):
  """re-executes one recorded failing case (config x history) on the current tree"""
  case = failure["case"]
  spec, hist = case["spec"], case["history"]
  if spec.get("fresh_out_init"):      # stream fresh_output_init: same oracle on the fresh model + its counters
    model, real = run_fresh_out_init_case(ctx, spec)
  else:
    model, real = run_case(ctx, spec, hist)
  if model is None:
    ctx.notes.append("replay: model does not build: " + str(real))   # must then be rejected by the model too
  fws = pending_fw(ctx)
  replies = run_driver([wire_line(spec)] + [fw["line"] for fw in fws])
  compare_graph(ctx, spec, "valid", real, replies[0])
  for fw, reply in zip(fws, replies[1:]):
    compare_forward(ctx, fw, reply)
  ctx._fw = []
