"""C20: the Linear layer computes the clipped affine function its weights describe.
Tie: tfl.layers.Linear(...)(x) (float64, assigned kernel / bias) vs Tfl.Linear.call (driver op `lin.call`),
one line per (example, unit).  Oracle: independent exact-rational formula on the real outputs; on kernels
produced by the layer's own LinearConstraints the monotonicity / dominance / range-dominance /
weighted-average consequences evaluated on real outputs of input pairs.  The weighted-average consequence is
evaluated on EVERY column of an all-increasing order-1 layer, the degenerate ones included (pre-normalisation
1-norm below the guard 1e-8: the constraint returns them un-normalised — all weights <= 0, clipped to 0, is the
pinned finding F-C03-a seen through C20; a positive column below the guard is F-C20-a)."""
import itertools
import numpy as np
from fractions import Fraction
from common import *
from props.c06 import rand_dag_pairs

RULE = ("every bound pattern (none / min only / max only / both, per input) for 1-3 inputs enumerated, plus "
        "random patterns for 4-6 inputs; units 1-3 (units>1 through the 3-D input form, a different input row "
        "per unit), with and without bias; kernels dyadic/int/wide/tiny/huge/zero or produced by the layer's "
        "own LinearConstraints (monotonicities, monotonic / range dominances, norm order 1/2/inf) from a random "
        "kernel — on all-increasing order-1 layers also from kernels whose weights are all <= 0 and from positive "
        "kernels with 1-norm below 1e-8 (the degenerate cases of the normalisation); every example places each input inside / exactly on / outside its bounds; also at +-2^24..2^80 "
        "(no finite stand-in for a missing bound goes unnoticed); input pairs for the consequences are extra "
        "examples of the same batch. Non-trivial = some input is actually clipped or a "
        "consequence pair was evaluated; distinct = (bound pattern, units, bias, kernel kind, clipped-position "
        "class) signature.")
ASSUMPTIONS = ["float64 layer; comparison tolerance 1e-12 * (|bias| + sum_i |kernel_i * clip(x_i)|)",
               "units are independent kernel columns in the model; the 3-D input form gives unit u its own input row"]

PAT = ["none", "lo", "hi", "both"]


def gen_bounds(rng, pattern):
  lo, hi = [], []
  for p in pattern:
    a = Fraction(rng.randint(-16, 16), 4)
    # an empty input range (input_min == input_max) is accepted on every input that takes no part in a range
    # dominance: the layer clips it to a point, the constraint must leave its weight finite (F-C06-a)
    r = Fraction(rng.randint(1, 24), 8) if rng.random() < 0.85 else Fraction(0)
    lo.append(a if p in ("lo", "both") else None)
    hi.append(a + r if p == "both" else (a if p == "hi" else None))
  return lo, hi


def gen_coord(rng, lo, hi, where):
  """one input value relative to its bounds."""
  if where == "on_lo" and lo is not None:
    return lo
  if where == "on_hi" and hi is not None:
    return hi
  if where == "below" and lo is not None:
    return lo - Fraction(rng.randint(1, 40), 8)
  if where == "above" and hi is not None:
    return hi + Fraction(rng.randint(1, 40), 8)
  if where == "wide":
    return Fraction(rng.uniform(-50.0, 50.0))
  if where == "huge":       # far beyond any bound: a finite stand-in for a missing bound would clip here
    return Fraction(rng.choice([-1, 1]) * rng.randint(1, 8) * 2 ** rng.choice([24, 40, 80]))
  if lo is not None and hi is not None:      # inside
    return lo + (hi - lo) * Fraction(rng.randint(0, 8), 8)
  if lo is not None:
    return lo + Fraction(rng.randint(0, 40), 8)
  if hi is not None:
    return hi - Fraction(rng.randint(0, 40), 8)
  return Fraction(rng.randint(-40, 40), 8)


WHERE = ["inside", "inside", "on_lo", "on_hi", "below", "above", "wide", "huge"]


def clipf(v, lo, hi):
  if lo is not None and v < lo:
    v = lo
  if hi is not None and v > hi:
    v = hi
  return v


def gen_case(rng, pattern, constrained):
  n = len(pattern)
  units = rng.randint(1, 3)
  use_bias = rng.random() < 0.6
  lo, hi = gen_bounds(rng, pattern)
  monos = [0] * n
  md, rd, order = [], [], None
  if constrained:
    monos = [rng.choice([-1, 0, 1, 1]) for _ in range(n)]
    if rng.random() < 0.3:
      monos = [1] * n
    inc = [i for i in range(n) if monos[i] == 1]
    if len(inc) >= 2 and rng.random() < 0.6:
      md = rand_dag_pairs(rng, inc, 3)
    used = {i for p in md for i in p}
    for sign in (1, -1):
      cand = [i for i in range(n) if monos[i] == sign and i not in used and pattern[i] == "both" and lo[i] < hi[i]]
      if len(cand) >= 2 and rng.random() < 0.7:
        rd += rand_dag_pairs(rng, cand, 3)
    order = rng.choice([None, 1, 1, 2, "inf"])
  kind = rng.choice(VALUE_KINDS + ["zero", "unit"])
  if constrained and rng.random() < 0.12:
    # the degenerate cases of the order-1 normalisation on an all-increasing layer (weighted average)
    monos, order = [1] * n, 1
    kind = rng.choice(["nonpos", "nonpos", "subguard"])
  if kind == "zero":
    kernel = [[Fraction(0)] * units for _ in range(n)]
  elif kind == "nonpos":
    kernel = [[-abs(gen_value(rng, rng.choice(["dyadic", "int", "wide"]))) for _ in range(units)] for _ in range(n)]
  elif kind == "subguard":
    kernel = [[Fraction(rng.randint(0, 4), 2 ** 34) for _ in range(units)] for _ in range(n)]
    kernel[rng.randrange(n)] = [Fraction(rng.randint(1, 4), 2 ** 34) for _ in range(units)]
  else:
    kernel = [[gen_value(rng, kind) for _ in range(units)] for _ in range(n)]
  bias = [gen_value(rng, rng.choice(["dyadic", "int", "wide"])) for _ in range(units)] if use_bias else None
  # ---- examples: every unit has its own input row
  X = []
  for _ in range(6):
    X.append([[gen_coord(rng, lo[i], hi[i], rng.choice(WHERE)) for i in range(n)] for _ in range(units)])
  # all-on-bounds and all-outside examples
  X.append([[gen_coord(rng, lo[i], hi[i], rng.choice(["on_lo", "on_hi"])) for i in range(n)] for _ in range(units)])
  X.append([[gen_coord(rng, lo[i], hi[i], rng.choice(["below", "above"])) for i in range(n)] for _ in range(units)])
  checks = []

  def derive(base, i, v):
    ex = [[(v if j == i else row[j]) for j in range(n)] for row in X[base]]
    X.append(ex)
    return len(X) - 1

  if constrained:
    for i in range(n):
      if monos[i] != 0:
        for _ in range(2):
          base = rng.randrange(8)
          v1 = gen_coord(rng, lo[i], hi[i], rng.choice(WHERE))
          v2 = gen_coord(rng, lo[i], hi[i], rng.choice(WHERE))
          v1, v2 = min(v1, v2), max(v1, v2)
          checks.append(["mono", i, derive(base, i, v1), derive(base, i, v2)])
    for d, w in md:
      # a step delta >= 0 that keeps both inputs unclipped
      def room(i):
        s = lo[i] if lo[i] is not None else (hi[i] - 4 if hi[i] is not None else Fraction(rng.randint(-8, 8), 4))
        return s, (hi[i] - s if hi[i] is not None else Fraction(4))
      sd, rdm = room(d)
      sw, rwm = room(w)
      delta = min(rdm, rwm) * Fraction(rng.randint(1, 4), 4)
      base = rng.randrange(8)
      b0 = derive(derive(base, d, sd), w, sw)
      checks.append(["mdom", [d, w], b0, derive(b0, d, sd + delta), derive(b0, w, sw + delta)])
    for d, w in rd:
      bx, by = rng.randrange(8), rng.randrange(8)
      checks.append(["rdom", [d, w], derive(bx, d, lo[d]), derive(bx, d, hi[d]),
                     derive(by, w, lo[w]), derive(by, w, hi[w])])
  cfg = dict(n=n, units=units, use_bias=use_bias, pattern=list(pattern), input_min=lo, input_max=hi,
             monotonicities=monos, monotonic_dominances=[list(p) for p in md],
             range_dominances=[list(p) for p in rd], normalization_order=order, constrained=constrained)
  return dict(cfg=cfg, kind=kind, kernel=kernel, bias=bias, X=X, checks=checks)


def _fr(v):
  return None if v is None else Fraction(v)


def normalize_case(case):
  """after a JSON round trip: strings back to Fractions"""
  cfg = case["cfg"]
  cfg["input_min"] = [_fr(v) for v in cfg["input_min"]]
  cfg["input_max"] = [_fr(v) for v in cfg["input_max"]]
  case["kernel"] = [[Fraction(v) for v in row] for row in case["kernel"]]
  case["bias"] = None if case["bias"] is None else [Fraction(v) for v in case["bias"]]
  if case.get("pre") is not None:
    case["pre"] = [[Fraction(v) for v in row] for row in case["pre"]]
  case["X"] = [[[Fraction(v) for v in row] for row in ex] for ex in case["X"]]
  return case


def evaluate(case):
  """runs the REAL layer; returns (out [B, units] or None, err, kernel used (Fractions), lines)."""
  import tensorflow as tf
  import tensorflow_lattice as tfl
  cfg = case["cfg"]
  n, units = cfg["n"], cfg["units"]
  lo, hi = cfg["input_min"], cfg["input_max"]
  kw = dict(num_input_dims=n, units=units, use_bias=cfg["use_bias"], dtype=tf.float64,
            input_min=None if all(v is None for v in lo) else [None if v is None else float(v) for v in lo],
            input_max=None if all(v is None for v in hi) else [None if v is None else float(v) for v in hi])
  if cfg["constrained"]:
    o = cfg["normalization_order"]
    kw.update(monotonicities=list(cfg["monotonicities"]),
              monotonic_dominances=[tuple(p) for p in cfg["monotonic_dominances"]] or None,
              range_dominances=[tuple(p) for p in cfg["range_dominances"]] or None,
              normalization_order=np.inf if o == "inf" else o)
  X = np.array([[[float(v) for v in row] for row in ex] for ex in case["X"]], dtype=np.float64)
  xin = X[:, 0, :] if units == 1 else X
  try:
    layer = tfl.layers.Linear(**kw)
    layer.build(xin.shape)
    kf = np.array([[float(v) for v in row] for row in case["kernel"]], dtype=np.float64)
    if cfg["constrained"] and layer.kernel.constraint is not None and not case.get("projected"):
      # the PRE-normalisation column (same real constraint, normalization_order=None): classifies the degenerate
      # case of the weighted-average consequence
      from tensorflow_lattice.python import linear_layer
      c0 = layer.kernel.constraint
      pre = linear_layer.LinearConstraints(
          monotonicities=c0.monotonicities, monotonic_dominances=c0.monotonic_dominances,
          range_dominances=c0.range_dominances, input_min=c0.input_min, input_max=c0.input_max,
          normalization_order=None)(tf.constant(kf)).numpy()
      if np.all(np.isfinite(pre)):
        case["pre"] = [[Fraction(float(v)) for v in row] for row in pre]
      kf = layer.kernel.constraint(tf.constant(kf)).numpy()
      if not np.all(np.isfinite(kf)):
        return None, "nonfinite kernel returned by the layer's constraint: %r" % kf.tolist(), []
      case["kernel"] = [[Fraction(float(v)) for v in row] for row in kf]
      case["projected"] = True
    layer.kernel.assign(kf)
    if cfg["use_bias"]:
      bf = np.array([float(v) for v in case["bias"]], dtype=np.float64)
      layer.bias.assign(bf[0] if units == 1 else bf)
    out = layer(tf.constant(xin)).numpy()
    err = None
  except Exception as e:
    out, err = None, classify_exc(e)
  lines = []
  for ex in case["X"]:
    for u in range(units):
      lines.append("lin.call %s %s %s %s %s" % (
          frl([case["kernel"][i][u] for i in range(n)]), opt(None if case["bias"] is None else case["bias"][u]),
          ",".join(opt(v) for v in lo), ",".join(opt(v) for v in hi), frl(ex[u])))
  return out, err, lines


def fail_limited(ctx, tag, limit, clause, key, case, observed, detail):
  """failures of a PINNED class (degenerate normalisation) are listed `limit` times per run and counted beyond that:
  the failure list of a run is capped, and a flood of one known finding must not crowd out other failures."""
  seen = ctx.__dict__.setdefault("_limited", {})
  seen[tag] = seen.get(tag, 0) + 1
  if seen[tag] <= limit:
    ctx.fail(clause, key, case, observed, detail)
  else:
    ctx.count("not-listed:" + tag)


def check_case(ctx, case, out, err, replies):
  cfg = case["cfg"]
  n, units = cfg["n"], cfg["units"]
  lo, hi = cfg["input_min"], cfg["input_max"]
  K, bias, X = case["kernel"], case["bias"], case["X"]
  cls = "pat:%s:u%d:b%d:c%d" % ("".join(p[0] for p in cfg["pattern"]) if n <= 3 else "n%d" % n, units,
                                cfg["use_bias"], cfg["constrained"])
  ctx.count("units:%d" % units)
  ctx.count("bias:%d" % cfg["use_bias"])
  ctx.count("kind:" + case["kind"])
  ctx.count("n:%d" % n)
  for p in cfg["pattern"]:
    ctx.count("bound:" + p)
  key = dict(layer="linear", units=min(units, 2), bias=bool(cfg["use_bias"]),
             bounded=any(p != "none" for p in cfg["pattern"]), kind=case["kind"])
  if err is not None:
    ctx.fail("finite" if err.startswith("nonfinite") else "raises", key, case, err)
    ctx.case(sig=(cls, "err"), sample=case)
    return
  if out.shape != (len(X), units):
    ctx.fail("shape", key, case, list(out.shape), "expected (%d, %d)" % (len(X), units))
    return
  nclip = [0, 0, 0]    # below / on / above counts
  exact = np.zeros((len(X), units), dtype=object)
  scale = np.zeros((len(X), units))
  for b, ex in enumerate(X):
    for u in range(units):
      tot = Fraction(0) if bias is None else bias[u]
      sc = abs(tot)
      for i in range(n):
        v = ex[u][i]
        if (lo[i] is not None and v < lo[i]):
          nclip[0] += 1
        elif (hi[i] is not None and v > hi[i]):
          nclip[2] += 1
        elif v == lo[i] or v == hi[i]:
          nclip[1] += 1
        t = K[i][u] * clipf(v, lo[i], hi[i])
        tot += t
        sc += abs(t)
      exact[b, u] = tot
      scale[b, u] = max(float(sc), 1e-300)
  ctx.count("coord:below", nclip[0]); ctx.count("coord:on", nclip[1]); ctx.count("coord:above", nclip[2])
  ctx.case(sig=(cls, case["kind"], nclip[0] > 0, nclip[2] > 0, len(case["checks"]) > 0),
           nontrivial=(nclip[0] + nclip[2] > 0) or bool(case["checks"]),
           sample=dict(cfg=cfg, kernel=K, bias=bias, x0=X[0], out0=out[0]))
  if not np.all(np.isfinite(out)):
    ctx.fail("finite", key, case, out)
    return
  # ---- correspondence (model) and oracle (independent exact formula), entry by entry
  pos = 0
  bad_model, bad_formula = [], []
  for b in range(len(X)):
    for u in range(units):
      tol = Fraction(1e-12) * Fraction(scale[b, u]) + Fraction(1, 10 ** 300)
      m = Fraction(replies[pos]) if "/" in replies[pos] or replies[pos].lstrip("-").isdigit() else None
      pos += 1
      if m is None or abs(Fraction(float(out[b, u])) - m) > tol:
        bad_model.append((b, u, float(out[b, u]), None if m is None else fr(m)))
      if abs(Fraction(float(out[b, u])) - exact[b, u]) > tol:
        bad_formula.append((b, u, float(out[b, u]), float(exact[b, u])))
  if bad_model:
    ctx.disagree("linear.call", case, out, [r for r in replies], "entries (example, unit, real, model): %r" % bad_model[:4])
  else:
    ctx.agree("linear.call")
    ctx.traces += len(X) * units - 1
  if bad_formula:
    ctx.fail("clipped_affine", key, case, out,
             "(example, unit, real, bias+sum k*clip(x)): %r" % bad_formula[:4])
  # ---- consequences on the real outputs (kernel came from the real constraint)
  if not cfg["constrained"]:
    return
  monos = cfg["monotonicities"]
  ckey = dict(key, cls="constrained")
  for chk in case["checks"]:
    kind = chk[0]
    ctx.count("consequence:" + kind)
    for u in range(units):
      if kind == "mono":
        _, i, a, b2 = chk
        tol = 1e-12 * max(scale[a, u], scale[b2, u])
        diff = (out[b2, u] - out[a, u]) * monos[i]
        if diff < -tol:
          ctx.fail("monotone", ckey, case, out, "input %d unit %d: f(x[i:=%s]) - f(x[i:=%s]) = %g against direction %d"
                   % (i, u, fr(X[b2][u][i]), fr(X[a][u][i]), out[b2, u] - out[a, u], monos[i]))
      elif kind == "mdom":
        _, (d, w), b0, bd, bw = chk
        tol = 1e-7 * max(scale[b0, u], scale[bd, u], scale[bw, u])   # 1e-7: the projection's own float slack
        if (out[bd, u] - out[b0, u]) - (out[bw, u] - out[b0, u]) < -tol:
          ctx.fail("monotonic_dominance", ckey, case, out, "dominant %d weak %d unit %d: %g < %g" % (
              d, w, u, out[bd, u] - out[b0, u], out[bw, u] - out[b0, u]))
      elif kind == "rdom":
        _, (d, w), dl, dh, wl, wh = chk
        tol = 1e-7 * max(scale[dl, u], scale[dh, u], scale[wl, u], scale[wh, u])
        s = -1.0 if monos[d] == -1 else 1.0
        if s * (out[dh, u] - out[dl, u]) - s * (out[wh, u] - out[wl, u]) < -tol:
          ctx.fail("range_dominance", ckey, case, out, "dominant %d weak %d unit %d: %g < %g" % (
              d, w, u, s * (out[dh, u] - out[dl, u]), s * (out[wh, u] - out[wl, u])))
  if cfg["normalization_order"] == 1 and all(m == 1 for m in monos):
    for u in range(units):
      # the degenerate case is EVALUATED, not skipped: pre-normalisation 1-norm below _NORMALIZATION_EPS
      pre = case.get("pre")
      degenerate = None
      if pre is not None:
        pcol = [pre[i][u] for i in range(n)]
        if sum(abs(c) for c in pcol) < Fraction(1, 10 ** 8):
          degenerate = "all_nonpositive" if all(c <= 0 for c in pcol) else "below_guard"
      wkey = dict(ckey) if degenerate is None else dict(ckey, degenerate=degenerate)
      ctx.count("consequence:wavg" if degenerate is None else "consequence:wavg:degenerate:" + degenerate)
      for b, ex in enumerate(X):
        cl = [float(clipf(ex[u][i], lo[i], hi[i])) for i in range(n)]
        v = out[b, u] - (0.0 if bias is None else float(bias[u]))
        tol = 1e-6 * max(1.0, max(abs(c) for c in cl), 0.0 if bias is None else abs(float(bias[u])))
        if v < min(cl) - tol or v > max(cl) + tol:
          detail = "example %d unit %d: out-bias=%g outside [%g, %g]%s" % (
              b, u, v, min(cl), max(cl), "" if degenerate is None else " (degenerate column: " + degenerate + ")")
          if degenerate is None:
            ctx.fail("weighted_average", wkey, case, out, detail)
          else:
            fail_limited(ctx, "wavg:" + degenerate, 8, "weighted_average", wkey, case, out, detail)
          break


def run(ctx):
  rng = ctx.rng
  cases = []
  reps = ctx.n(1, 12)
  for _ in range(reps):
    for n in (1, 2, 3):
      for pattern in itertools.product(PAT, repeat=n):
        cases.append(gen_case(rng, pattern, constrained=False))
  for _ in range(ctx.n(60, 2000)):
    n = rng.randint(4, 6)
    cases.append(gen_case(rng, [rng.choice(PAT) for _ in range(n)], constrained=False))
  for _ in range(ctx.n(300, 6000)):
    n = rng.randint(1, 6)
    cases.append(gen_case(rng, [rng.choice(PAT + ["both", "both"]) for _ in range(n)], constrained=True))
  pend, lines = [], []
  for case in cases:
    out, err, ls = evaluate(case)
    pend.append((case, out, err, len(ls)))
    lines += ls
  replies = run_driver(lines)
  pos = 0
  for case, out, err, k in pend:
    check_case(ctx, case, out, err, replies[pos:pos + k])
    pos += k


def replay(ctx, failure):
  case = normalize_case(failure["case"])
  out, err, lines = evaluate(case)
  check_case(ctx, case, out, err, run_driver(lines))
