"""C04: PWLCalibration weight constraint returns keypoint outputs meeting all its limits.

Tie: PWLCalibrationConstraints(...)(w) (directly, and as wired by PWLCalibration.build()),
tfl.pwl_calibration_lib.project_all_constraints(...) and the anchored private stages
(_finalize_constraints from ARBITRARY input, _project_bounds_considering_monotonicity,
_project_convexity, _squeeze_by_scaling, _approximately_project_convexity,
_approximately_project_bounds_only, convert_all_constraints, NaiveBoundsConstraints)
vs Tfl.PwlProj.* through the driver ops `pwlp.*`.
Oracle: each clause of the property on cumsum(out) of the REAL result."""
import itertools
import numpy as np
from fractions import Fraction
from common import *

RULE = ("PWLCalibrationConstraints with Python-list lengths (positive control; zero / negative / all-zero entries must be "
        "rejected at construction, anything accepted is applied to a kernel and must stay finite); systematic sweep of the full cross product monotonicity{-1,0,1} x convexity{-1,0,1} x bounds{none,min,max,both} "
        "x clamp_min x clamp_max (+ is_cyclic for monotonicity=convexity=0), each cell repeated with random 2-8 keypoints "
        "(dyadic positive spacing), 1-3 units, num_projection_iterations in {0,1,2,8,50}, entry point in {constraint object, "
        "layer.build() wiring + keypoints_outputs(), project_all_constraints}; kernels dyadic / ints with ties / wide doubles / "
        "huge / bias far outside the bounds / heights of the wrong sign / feasible by construction / projected twice; "
        "layer entry point: the imputed missing output is LEARNED (NaiveBoundsConstraints applied to 3*bias: must lie in the "
        "bounds) or a FIXED missing_output_value inside / outside / on the bounds (the layer is called at the missing "
        "input: the output must be exactly the configured value; model op pwl.layer). "
        "Non-trivial = the projection moved the kernel or the kernel was feasible; distinct = (class, kind, iters, moved, hash).")
ASSUMPTIONS = ["float64 kernels; correspondence tolerance 1e-9*scale, oracle tolerance 1e-7*scale",
               "lengths positive (verify_hyperparameters: strictly increasing keypoints) and output_min <= output_max",
               "clamp without monotonicity is rejected by the real code with ValueError when the constraint is applied "
               "(model agrees); that rejection is C16's subject and is not an oracle failure here",
               "theorems are per unit column over exact rationals; units are independent columns (C09)",
               "a FIXED missing_output_value is not constrained (a tf.constant, by design: upstream's tests use values outside "
               "the output range): the clause checked is 'imputed output == configured value', the bounds clause applies to "
               "the LEARNED missing output only (theorems missing_output_in_bounds / missing_output_fixed_is_value)"]

ITERS = [0, 1, 2, 8, 50]
MISSING_INPUT = -7.0    # left of every generated keypoint (they start at 0)
BCT_NAMES = {0: "NONE", 1: "BOUND", 2: "CLAMPED"}


def lib():
  from tensorflow_lattice.python import pwl_calibration_lib
  return pwl_calibration_lib


def bct_of(x):
  return {"NONE": 0, "BOUND": 1, "CLAMPED": 2}[x.name]


def to_bct(i):
  return getattr(lib().BoundConstraintsType, BCT_NAMES[i])


# ---------------------------------------------------------------- generators
def gen_lengths(rng, n):
  mode = rng.choice(["unit", "dyadic", "dyadic", "uneven"])
  if mode == "unit":
    return [Fraction(1)] * n
  if mode == "dyadic":
    return [Fraction(rng.randint(1, 16), 4) for _ in range(n)]
  return [Fraction(rng.choice([1, 1, 2, 64, 1024]), rng.choice([1, 8, 256])) for _ in range(n)]


def feasible_column(rng, cfg, lengths, nh):
  """A column that satisfies every clause by construction (exact rationals)."""
  mono, conv = cfg["mono"], cfg["conv"]
  lo_s, hi_s = (0, 16) if mono == 1 else ((-16, 0) if mono == -1 else (-16, 16))
  slopes = [Fraction(rng.randint(lo_s, hi_s), 4) for _ in range(nh)]
  if conv == 1:
    slopes.sort()
  elif conv == -1:
    slopes.sort(reverse=True)
  hs = [s * l for s, l in zip(slopes, lengths[:nh])]
  cs = [Fraction(0)]
  for h in hs:
    cs.append(cs[-1] + h)
  lo_c, hi_c = min(cs), max(cs)
  omin, omax = cfg["omin"], cfg["omax"]
  if omin is not None and omax is not None:
    room = omax - omin
    both_clamped = cfg["cmin"] and cfg["cmax"]
    if hi_c - lo_c > room or (both_clamped and hi_c - lo_c > 0):
      f = room / (hi_c - lo_c)
      hs = [h * f for h in hs]
      lo_c, hi_c = lo_c * f, hi_c * f
    elif both_clamped and room > 0:
      return None  # flat function cannot hit two different clamps
  if omin is not None and (cfg["cmin"] or omax is None):
    bias = omin - lo_c + (0 if cfg["cmin"] else Fraction(rng.randint(0, 8), 4))
  elif omax is not None and (cfg["cmax"] or omin is None):
    bias = omax - hi_c - (0 if cfg["cmax"] else Fraction(rng.randint(0, 8), 4))
  elif omin is not None:
    slack = (omax - hi_c) - (omin - lo_c)
    bias = omin - lo_c + slack * Fraction(rng.randint(0, 4), 4)
  else:
    bias = Fraction(rng.randint(-16, 16), 4)
  return [bias] + hs


def gen_column(rng, kind, cfg, lengths, nh):
  omin, omax, mono = cfg["omin"], cfg["omax"], cfg["mono"]
  if kind == "feasible":
    col = feasible_column(rng, cfg, lengths, nh)
    if col is not None:
      return col
    kind = "dyadic"
  if kind in ("dyadic", "int", "wide", "huge", "tiny"):
    return [gen_value(rng, kind) for _ in range(nh + 1)]
  if kind == "farbias":
    col = [gen_value(rng, "dyadic") for _ in range(nh + 1)]
    col[0] = Fraction(rng.choice([-1, 1]) * rng.choice([50, 1000, 2 ** 20])) + Fraction(rng.randint(-8, 8), 8)
    return col
  if kind == "wrongsign":
    s = -mono if mono != 0 else rng.choice([-1, 1])
    return [gen_value(rng, "dyadic")] + [s * abs(gen_value(rng, rng.choice(["dyadic", "int", "wide"]))) for _ in range(nh)]
  if kind == "inside":
    # bias inside the bounds, small heights: exercises the "nothing to squeeze" arms
    a = omin if omin is not None else (omax - 2 if omax is not None else Fraction(0))
    return [a + Fraction(rng.randint(0, 4), 8)] + [Fraction(rng.randint(-2, 6), 16) * (mono if mono else 1) for _ in range(nh)]
  raise ValueError(kind)


KINDS = ["dyadic", "dyadic", "int", "int", "wide", "huge", "farbias", "farbias", "wrongsign", "wrongsign",
         "feasible", "feasible", "twice", "inside"]


def gen_cases(ctx, reps):
  rng = ctx.rng
  cells = []
  for mono, conv, bmode, cmin, cmax in itertools.product([-1, 0, 1], [-1, 0, 1], ["none", "min", "max", "both"],
                                                         [False, True], [False, True]):
    cells.append((mono, conv, bmode, cmin, cmax, False))
    if mono == 0 and conv == 0:
      cells.append((mono, conv, bmode, cmin, cmax, True))
  cases = []
  for cell in cells:
    mono, conv, bmode, cmin, cmax, cyclic = cell
    # clamp flags without the bound they refer to are ignored by convert_all_constraints: sample them less
    eff_cmin = cmin and bmode in ("min", "both")
    eff_cmax = cmax and bmode in ("max", "both")
    r = reps if (eff_cmin == cmin and eff_cmax == cmax) else max(1, reps // 4)
    if mono == 0 and (eff_cmin or eff_cmax):
      r = max(1, reps // 4)          # rejected with ValueError: a few suffice
    for _ in range(r):
      k = rng.choice([2, 2, 3, 3, 4, 5, 6, 7, 8])
      if cyclic and k == 2:
        k = 3                        # a cyclic calibrator with 2 keypoints has a 1-row kernel: build() rejects it
      units = rng.randint(1, 3)
      a = Fraction(rng.randint(-8, 8), 4)
      omin = a if bmode in ("min", "both") else None
      omax = (a + Fraction(rng.choice([0, 1, 2, 4, 8, 12, 40]), 4) if bmode == "both" else a) if bmode in ("max", "both") else None
      lengths = gen_lengths(rng, k - 1)
      iters = rng.choice(ITERS)
      nrows = k - 1 if cyclic else k
      cfg = dict(mono=mono, conv=conv, omin=omin, omax=omax, cmin=cmin, cmax=cmax, cyclic=cyclic)
      kind = rng.choice(KINDS)
      w_cols = [gen_column(rng, "dyadic" if kind == "twice" else kind, cfg, lengths, nrows - 1) for _ in range(units)]
      w = [[w_cols[u][i] for u in range(units)] for i in range(nrows)]
      via = "layer" if cyclic else rng.choice(["constraint", "constraint", "layer", "lib"])
      mov = None
      if via == "layer" and rng.random() < 0.5:
        # a FIXED missing_output_value: inside / on / outside the output range (accepted in every case)
        lo_b = omin if omin is not None else (omax - 4 if omax is not None else Fraction(-2))
        hi_b = omax if omax is not None else lo_b + 4
        mov = rng.choice([lo_b + (hi_b - lo_b) * Fraction(rng.randint(0, 4), 4), lo_b, hi_b,
                          hi_b + Fraction(rng.randint(1, 40), 4), lo_b - Fraction(rng.randint(1, 40), 4),
                          Fraction(rng.choice([-1, 1]) * 2 ** 20)])
      cases.append(dict(cfg=cfg, lengths=lengths, iters=iters, kind=kind, w=w, via=via, mov=mov))
  rng.shuffle(cases)
  return cases


# ---------------------------------------------------------------- real code
def wired(cfg):
  return lib().convert_all_constraints(
      None if cfg["omin"] is None else float(cfg["omin"]), None if cfg["omax"] is None else float(cfg["omax"]),
      cfg["cmin"], cfg["cmax"])


def make_constraint(case):
  """Returns (callable w -> projected w, layer or None)."""
  import tensorflow as tf
  from tensorflow_lattice.python import pwl_calibration_layer as pl
  cfg = case["cfg"]
  lengths = [float(l) for l in case["lengths"]]
  omin = None if cfg["omin"] is None else float(cfg["omin"])
  omax = None if cfg["omax"] is None else float(cfg["omax"])
  _, _, minc, maxc = wired(cfg)
  if case["via"] == "layer":
    kp = [0.0]
    for l in lengths:
      kp.append(kp[-1] + l)
    units = len(case["w"][0])
    layer = pl.PWLCalibration(input_keypoints=kp, units=units, output_min=omin, output_max=omax,
                              clamp_min=cfg["cmin"], clamp_max=cfg["cmax"], monotonicity=cfg["mono"],
                              convexity=cfg["conv"], is_cyclic=cfg["cyclic"],
                              num_projection_iterations=case["iters"], impute_missing=True, dtype="float64",
                              **({} if case.get("mov") is None else dict(
                                  missing_input_value=MISSING_INPUT, missing_output_value=float(case["mov"]))))
    layer.build(input_shape=(None, units))
    return layer.kernel.constraint, layer
  if case["via"] == "lib":
    L = lib()
    lt = tf.constant(lengths, dtype=tf.float64)

    def f(w):
      return L.project_all_constraints(weights=w, monotonicity=cfg["mono"], output_min=omin, output_max=omax,
                                       output_min_constraints=minc, output_max_constraints=maxc,
                                       convexity=cfg["conv"], lengths=lt,
                                       num_projection_iterations=case["iters"])
    return f, None
  cons = pl.PWLCalibrationConstraints(
      monotonicity=cfg["mono"], convexity=cfg["conv"], lengths=tf.constant(lengths, dtype=tf.float64),
      output_min=omin, output_max=omax, output_min_constraints=minc, output_max_constraints=maxc,
      num_projection_iterations=case["iters"])
  return cons, None


def run_real(case):
  """-> (wf used as input, out or None, err or None, keypoints_outputs or None, missing or None)"""
  import tensorflow as tf
  wf = np.array([[float(v) for v in row] for row in case["w"]], dtype=np.float64)
  try:
    cons, layer = make_constraint(case)
  except Exception as e:
    return wf, None, "build:" + classify_exc(e), None, None
  kpo, missing = None, None
  try:
    if case["kind"] == "twice":
      wf = cons(tf.constant(wf)).numpy()
      wf = cons(tf.constant(wf)).numpy()
    out = cons(tf.constant(wf, dtype=tf.float64)).numpy()
    err = None
    if layer is not None:
      layer.kernel.assign(out)
      kpo = layer.keypoints_outputs().numpy()
      if case.get("mov") is None:
        mv = np.array([[float(case["w"][0][u]) * 3.0 for u in range(wf.shape[1])]])
        missing = ("learned", mv, layer.missing_output.constraint(tf.constant(mv)).numpy())
      else:
        # fixed missing_output_value: the layer evaluated AT the missing input (and at an ordinary one)
        xq = np.array([[MISSING_INPUT], [0.5]], dtype=np.float64)
        missing = ("fixed", xq, layer(tf.constant(xq)).numpy())
  except Exception as e:
    out, err = None, classify_exc(e)
  return wf, out, err, kpo, missing


def model_line(case, wf, u):
  cfg = case["cfg"]
  return "pwlp.call %d %d %s %s %d %d %s %d %s" % (
      cfg["mono"], cfg["conv"], opt(cfg["omin"]), opt(cfg["omax"]), cfg["cmin"], cfg["cmax"],
      frl(case["lengths"]), case["iters"], frl(Fraction(float(v)) for v in wf[:, u]))


# ---------------------------------------------------------------- oracle
def clauses(cfg, lengths, col, tol, strict=False):
  """Violated clauses of the property on one kernel column (floats). `strict` ignores the two
  tolerated relaxations (used to decide whether an INPUT is feasible)."""
  bad = []
  s = np.cumsum(col)
  hs = col[1:]
  mono, conv = cfg["mono"], cfg["conv"]
  omin, omax = cfg["omin"], cfg["omax"]
  if not np.all(np.isfinite(col)):
    return [("finite", "non-finite output")]
  if mono != 0 and len(hs) and np.min(mono * hs) < (-tol if strict else 0.0):
    bad.append(("monotonicity", "height %r has the wrong sign" % float(mono * np.min(mono * hs))))
  if omin is not None and np.min(s) < float(omin) - tol:
    bad.append(("bounds", "min output %r < output_min %r" % (float(np.min(s)), float(omin))))
  if omax is not None and np.max(s) > float(omax) + tol:
    bad.append(("bounds", "max output %r > output_max %r" % (float(np.max(s)), float(omax))))
  relaxed_conv = (mono == 0 and (omin is not None or omax is not None))
  if conv != 0 and len(hs) >= 2 and (strict or not relaxed_conv):
    ls = np.array([float(l) for l in lengths[:len(hs)]])
    sl = hs / ls
    viol = float(np.min(conv * (sl[1:] - sl[:-1])))
    if viol < -tol * max(1.0, 1.0 / float(np.min(ls))):
      bad.append(("convexity", "slope order violated by %r" % viol))
  if conv == 0 or strict:
    if cfg["cmin"] and omin is not None and abs(float(np.min(s)) - float(omin)) > tol:
      bad.append(("clamp", "clamp_min: min output %r != %r" % (float(np.min(s)), float(omin))))
    if cfg["cmax"] and omax is not None and abs(float(np.max(s)) - float(omax)) > tol:
      bad.append(("clamp", "clamp_max: max output %r != %r" % (float(np.max(s)), float(omax))))
  return bad


def cls_of(cfg):
  b = ("both" if cfg["omax"] is not None else "min") if cfg["omin"] is not None else ("max" if cfg["omax"] is not None else "none")
  return "m%d:c%d:b%s" % (cfg["mono"], cfg["conv"], b)


def check_case(ctx, case, real, replies):
  wf, out, err, kpo, missing = real
  cfg = case["cfg"]
  units = wf.shape[1]
  cls = cls_of(cfg)
  eff_cmin = bool(cfg["cmin"] and cfg["omin"] is not None)
  eff_cmax = bool(cfg["cmax"] and cfg["omax"] is not None)
  ctx.count(cls)
  ctx.count("kind:" + case["kind"])
  ctx.count("iters:%d" % case["iters"])
  ctx.count("via:" + case["via"])
  ctx.count("keypoints:%d" % (len(case["lengths"]) + 1))
  if cfg["cyclic"]:
    ctx.count("cyclic")
  key = dict(cls=cls, clamp=("min" if eff_cmin else "") + ("max" if eff_cmax else ""), iters0=(case["iters"] == 0),
             cyclic=cfg["cyclic"])
  rec = dict(case, w=[[Fraction(float(v)) for v in row] for row in wf], kind="replay" if case["kind"] == "twice" else case["kind"])
  expect_reject = cfg["mono"] == 0 and (eff_cmin or eff_cmax)
  if err is not None and err.startswith("build:"):
    # an effective clamp on a non-monotonic calibrator is rejected by the constraint object when applied;
    # a rejection already at layer construction (tried in a22154b/35f6090, taken back by 0029d95 — C16's
    # subject, F-C16-m) counts as the same expected rejection
    if expect_reject and err == "build:ERR ValueError":
      err = "ERR ValueError"
  if err is not None:
    ctx.count("real:" + err)
    ctx.case(sig=(cls, "err", err), nontrivial=False, sample=rec)
    for u in range(units):
      if replies[u].split(" ")[0:2] == err.split(" ")[0:2] or replies[u].startswith(err):
        ctx.agree("constraint.call")
      else:
        ctx.disagree("constraint.call", rec, err, replies[u], "real code raises, model does not agree")
    if not (expect_reject and err == "ERR ValueError"):
      ctx.fail("raises", key, rec, err, "constraint raised on a valid configuration")
    return
  moved = bool(np.any(out != wf))
  scale = max_abs(wf.ravel(), [cfg["omin"] or 0, cfg["omax"] or 0])
  ctx.case(sig=(cls, case["kind"], case["iters"], moved, hash(wf.tobytes()) % 9973),
           nontrivial=moved or case["kind"] in ("feasible", "twice"), sample=dict(case=rec, out=out))
  # ---- correspondence, column by column
  for u in range(units):
    toks = replies[u].split(" ")
    if toks[0] == "ERR":
      ctx.disagree("constraint.call", rec, out[:, u], replies[u], "model rejects, code accepts")
      continue
    ctx.count("model:" + toks[-2])
    ctx.count("model:ok" + toks[-1])
    ctx.compare("constraint.call", rec, out[:, u], parse_rats(toks[0]), scale, rtol=1e-9)
  # ---- oracle on the real result
  tol = 1e-7 * scale
  lengths = case["lengths"]
  for u in range(units):
    for clause, detail in clauses(cfg, lengths, out[:, u], tol):
      ctx.fail(clause, key, rec, out[:, u], "unit %d: %s" % (u, detail))
    feas_in = not clauses(cfg, lengths, wf[:, u], 1e-12 * scale, strict=True)
    if feas_in:
      ctx.count("feasible_in")
      d = float(np.max(np.abs(out[:, u] - wf[:, u])))
      if d > tol:
        ctx.fail("fixpoint", key, rec, out[:, u], "unit %d: feasible kernel moved by %g" % (u, d))
  if kpo is not None:
    # layer.keypoints_outputs(): cumulative sums (+ the closing point of a cyclic calibrator)
    want = np.cumsum(out, axis=0)
    if cfg["cyclic"]:
      want = np.concatenate([want, want[0:1]], axis=0)
    if kpo.shape != want.shape or float(np.max(np.abs(kpo - want))) > tol:
      ctx.fail("keypoints_outputs", key, rec, kpo, "keypoints_outputs() is not cumsum(kernel)")
    if cfg["omin"] is not None and np.min(kpo) < float(cfg["omin"]) - tol:
      ctx.fail("bounds", key, rec, kpo, "keypoints_outputs below output_min")
    if cfg["omax"] is not None and np.max(kpo) > float(cfg["omax"]) + tol:
      ctx.fail("bounds", key, rec, kpo, "keypoints_outputs above output_max")
  if missing is not None and missing[0] == "learned":
    _, mv, mo = missing
    ctx.count("missing_checked")
    ctx.count("missing:learned")
    mrep = parse_rats(replies[units].split(" ")[0])
    ctx.compare("naive_bounds", rec, mo.ravel(), mrep, scale, rtol=1e-12)
    if cfg["omin"] is not None and np.min(mo) < float(cfg["omin"]):
      ctx.fail("missing_bounds", key, rec, mo, "imputed missing output below output_min")
    if cfg["omax"] is not None and np.max(mo) > float(cfg["omax"]):
      ctx.fail("missing_bounds", key, rec, mo, "imputed missing output above output_max")
  elif missing is not None:
    _, xq, yq = missing
    mov = float(case["mov"])
    inside = ((cfg["omin"] is None or float(cfg["omin"]) <= mov) and (cfg["omax"] is None or mov <= float(cfg["omax"])))
    ctx.count("missing_checked")
    ctx.count("missing:fixed:%s" % ("inside-bounds" if inside else "outside-bounds"))
    mkey = dict(key, missing="fixed-" + ("inside" if inside else "outside"))
    # clause: the imputed output IS the configured value, exactly, for every unit -- inside the bounds or not
    if yq.shape != (2, units) or not np.all(yq[0] == mov):
      ctx.fail("missing_fixed_value", mkey, rec, yq[0], "missing input -> %r expected exactly missing_output_value=%r" % (
          yq[0].tolist(), mov))
    # the ordinary input next to it is calibrated: within the bounds (projected kernel)
    if cfg["omin"] is not None and np.min(yq[1]) < float(cfg["omin"]) - tol:
      ctx.fail("bounds", mkey, rec, yq[1], "calibrated output below output_min")
    if cfg["omax"] is not None and np.max(yq[1]) > float(cfg["omax"]) + tol:
      ctx.fail("bounds", mkey, rec, yq[1], "calibrated output above output_max")
    rep = replies[units]
    if rep.startswith("ERR") or rep == "bad-op":
      ctx.disagree("layer.missing_fixed", rec, yq, rep, "model rejects")
    else:
      rows = parse_rats2(rep)
      for b in range(2):
        ctx.compare("layer.missing_fixed", rec, yq[b], rows[b], max(scale, abs(mov)), rtol=1e-9)


def lines_of(case, real):
  wf, out, err, kpo, missing = real
  ls = [model_line(case, wf, u) for u in range(wf.shape[1])]
  if missing is not None and missing[0] == "learned":
    ls.append("pwlp.naive %s %s %s" % (opt(case["cfg"]["omin"]), opt(case["cfg"]["omax"]),
                                       frl(Fraction(float(v)) for v in missing[1].ravel())))
  elif missing is not None:
    # the layer holding the PROJECTED kernel, evaluated by the C05 model at the missing input and at 0.5
    kp = [Fraction(0)]
    for l in case["lengths"]:
      kp.append(kp[-1] + l)
    units = wf.shape[1]
    ls.append("pwl.layer %s 0 %d 1 %s %s _ %s %s none" % (
        frl(kp), case["cfg"]["cyclic"], fr(Fraction(MISSING_INPUT)),
        frl2([[Fraction(float(v)) for v in out[:, u]] for u in range(units)]),
        frl([case["mov"]] * units), frl2([[Fraction(float(x))] for x in missing[1][:, 0]])))
  return ls


# ---------------------------------------------------------------- stage-level correspondence
def run_stages(ctx, n):
  """The anchored private stages against the model on ARBITRARY inputs (the finalisation theorems
  quantify over every Dykstra result)."""
  import tensorflow as tf
  L = lib()
  rng = ctx.rng
  items, lines = [], []

  def col_tensor(col):
    return tf.constant([[float(v)] for v in col], dtype=tf.float64)

  for _ in range(n):
    nh = rng.randint(1, 7)
    kind = rng.choice(["dyadic", "int", "wide", "huge", "farbias", "wrongsign"])
    mono, conv = rng.choice([-1, 0, 1]), rng.choice([-1, 0, 1])
    cfg = dict(mono=mono, conv=conv, omin=Fraction(rng.randint(-8, 8), 4), omax=None, cmin=False, cmax=False)
    cfg["omax"] = cfg["omin"] + Fraction(rng.choice([0, 1, 2, 4, 8, 12, 40]), 4)
    lengths = gen_lengths(rng, nh)
    col = [Fraction(float(v)) for v in gen_column(rng, kind, cfg, lengths, nh)]
    minc, maxc = rng.choice([0, 1, 2]), rng.choice([0, 1, 2])
    lo, hi = float(cfg["omin"]), float(cfg["omax"])
    lt = tf.constant([float(l) for l in lengths], dtype=tf.float64)
    stage = rng.choice(["finalize", "finalize", "pbcm", "bonly", "squeeze", "conv", "aconv", "convert"])
    ctx.count("stage:" + stage)
    desc = dict(stage=stage, mono=mono, conv=conv, omin=cfg["omin"], omax=cfg["omax"], minc=minc, maxc=maxc,
                lengths=lengths, col=col)
    bias, heights = col_tensor(col[:1]), col_tensor(col[1:])
    try:
      if stage == "finalize":
        r = L._finalize_constraints(bias=bias, heights=heights, monotonicity=mono, output_min=lo, output_max=hi,
                                    output_min_constraints=to_bct(minc), output_max_constraints=to_bct(maxc),
                                    convexity=conv, lengths=lt).numpy().ravel()
        lines.append("pwlp.finalize %d %d %s %s %d %d %s %s" % (mono, conv, fr(cfg["omin"]), fr(cfg["omax"]), minc, maxc,
                                                                frl(lengths), frl(col)))
      elif stage == "pbcm":
        b, h = L._project_bounds_considering_monotonicity(bias, heights, mono, lo, hi, to_bct(minc), to_bct(maxc))
        r = np.concatenate([np.asarray(b).ravel(), np.asarray(h).ravel()])
        lines.append("pwlp.pbcm %d %s %s %d %d %s" % (mono, fr(cfg["omin"]), fr(cfg["omax"]), minc, maxc, frl(col)))
      elif stage == "bonly":
        b, h = L._approximately_project_bounds_only(bias, heights, lo, hi, to_bct(minc), to_bct(maxc))
        r = np.concatenate([np.asarray(b).ravel(), np.asarray(h).ravel()])
        lines.append("pwlp.bonly %s %s %d %d %s" % (fr(cfg["omin"]), fr(cfg["omax"]), minc, maxc, frl(col)))
      elif stage == "squeeze":
        m = mono if mono != 0 else 1
        desc["mono"] = m
        b, h = L._squeeze_by_scaling(bias, heights, m, lo, hi, to_bct(minc), to_bct(maxc))
        r = np.concatenate([np.asarray(b).ravel(), np.asarray(h).ravel()])
        lines.append("pwlp.squeeze %d %s %s %d %d %s" % (m, fr(cfg["omin"]), fr(cfg["omax"]), minc, maxc, frl(col)))
      elif stage == "conv":
        g = rng.choice([0, 1])
        desc["group"] = g
        r = np.asarray(L._project_convexity(heights, lt, conv, g)).ravel()
        lines.append("pwlp.conv %d %d %s %s" % (conv, g, frl(lengths), frl(col[1:])))
      elif stage == "aconv":
        r = np.asarray(L._approximately_project_convexity(heights, lt, conv)).ravel()
        lines.append("pwlp.aconv %d %s %s" % (conv, frl(lengths), frl(col[1:])))
      else:
        a = None if rng.random() < 0.3 else cfg["omin"]
        b_ = None if rng.random() < 0.3 else cfg["omax"]
        cm, cx = rng.random() < 0.5, rng.random() < 0.5
        desc.update(a=a, b=b_, cm=cm, cx=cx)
        v = L.convert_all_constraints(None if a is None else float(a), None if b_ is None else float(b_), cm, cx)
        r = [v[0], v[1], float(bct_of(v[2])), float(bct_of(v[3]))]
        lines.append("pwlp.convert %s %s %d %d" % (opt(a), opt(b_), cm, cx))
      err = None
    except Exception as e:
      r, err = None, classify_exc(e)
      if stage == "finalize":
        lines.append("pwlp.finalize %d %d %s %s %d %d %s %s" % (mono, conv, fr(cfg["omin"]), fr(cfg["omax"]), minc, maxc,
                                                                frl(lengths), frl(col)))
      elif stage == "pbcm":
        lines.append("pwlp.pbcm %d %s %s %d %d %s" % (mono, fr(cfg["omin"]), fr(cfg["omax"]), minc, maxc, frl(col)))
      elif stage == "bonly":
        lines.append("pwlp.bonly %s %s %d %d %s" % (fr(cfg["omin"]), fr(cfg["omax"]), minc, maxc, frl(col)))
      else:
        lines.append("pwlp.bad")
    items.append((desc, r, err))
  return items, lines


def check_stages(ctx, items, replies):
  for (desc, r, err), rep in zip(items, replies):
    suite = "stage." + desc["stage"]
    ctx.case(sig=("stage", desc["stage"], desc["mono"], desc["conv"], desc["minc"], desc["maxc"], len(desc["col"])),
             nontrivial=True)
    if err is not None:
      if rep.startswith(err):
        ctx.agree(suite)
      else:
        ctx.disagree(suite, desc, err, rep, "real stage raises")
      continue
    if rep.startswith("ERR") or rep == "bad-op":
      ctx.disagree(suite, desc, list(map(float, r)), rep, "model rejects")
      continue
    if desc["stage"] == "convert":
      model = [Fraction(t) for t in rep.split(" ")]
    else:
      model = parse_rats(rep.split(" ")[0])
    scale = max_abs(desc["col"], [desc["omin"], desc["omax"]])
    ctx.compare(suite, desc, r, model, scale, rtol=1e-9)
    if desc["stage"] == "finalize":
      # the finalisation alone establishes monotonicity / bounds / convexity from any input
      cfg = dict(mono=desc["mono"], conv=desc["conv"], omin=desc["omin"] if desc["minc"] else None,
                 omax=desc["omax"] if desc["maxc"] else None, cmin=False, cmax=False)
      for clause, detail in clauses(cfg, desc["lengths"], np.asarray(r, dtype=np.float64), 1e-7 * scale):
        ctx.fail(clause, dict(cls=cls_of(cfg), stage="finalize", clamp="", iters0=False, cyclic=False),
                 dict(stage_case=desc), list(map(float, r)), "finalize alone: " + detail)


# ---------------------------------------------------------------- entry points
# ---------------------------------------------------------------- list lengths handed to the constraints class
def gen_list_lengths(rng):
  """PWLCalibrationConstraints with PYTHON-LIST lengths (the form `verify_hyperparameters` can inspect): positive
  (control) or with zero / negative entries at any position (fix e215d06), any monotonicity / convexity / bounds."""
  k = rng.randint(2, 7)
  kind = rng.choice(["positive", "zero", "zero", "negative", "all_zero"])
  lengths = [Fraction(rng.randint(1, 16), 4) for _ in range(k - 1)]
  if kind == "zero":
    for i in rng.sample(range(k - 1), rng.randint(1, k - 1)):
      lengths[i] = Fraction(0)
  elif kind == "negative":
    lengths[rng.randrange(k - 1)] = -Fraction(rng.randint(1, 8), 4)
  elif kind == "all_zero":
    lengths = [Fraction(0)] * (k - 1)
  mono = rng.choice([-1, 0, 1])
  conv = rng.choice([-1, 1, 1, 0])
  bmode = rng.choice(["none", "none", "both", "min"])
  a = Fraction(rng.randint(-4, 4), 2)
  omin = a if bmode in ("both", "min") else None
  omax = a + Fraction(rng.randint(1, 8), 2) if bmode == "both" else None
  units = rng.randint(1, 2)
  w = [[gen_value(rng, rng.choice(["dyadic", "int"])) for _ in range(units)] for _ in range(k)]
  return dict(list_lengths=kind, lengths=lengths, mono=mono, conv=conv, omin=omin, omax=omax, iters=rng.choice([0, 1, 8]), w=w,
              as_tuple=rng.random() < 0.3, form=rng.choice(["list", "list", "tensor", "ndarray"]),
              wdtype=rng.choice(["float32", "float64"]))


def check_list_lengths(ctx, case):
  """property: non-positive piece lengths are rejected with ValueError when the constraint is constructed; whatever
  is accepted is then APPLIED and must return finite keypoint outputs meeting the clauses of the property."""
  import tensorflow as tf
  from tensorflow_lattice.python import pwl_calibration_layer as pl
  kind = case["list_lengths"]
  lengths = [Fraction(v) for v in case["lengths"]]
  cfg = dict(mono=case["mono"], conv=case["conv"], omin=None if case["omin"] is None else Fraction(case["omin"]),
             omax=None if case["omax"] is None else Fraction(case["omax"]), cmin=False, cmax=False, cyclic=False)
  key = dict(cls="list_lengths:" + kind, clamp="", iters0=(case["iters"] == 0), cyclic=False)
  ctx.case(sig=("list_lengths", kind, case["mono"], case["conv"], len(lengths)), nontrivial=True, sample=case)
  _, _, minc, maxc = wired(cfg)
  ls = [float(l) for l in lengths]
  try:
    cons = pl.PWLCalibrationConstraints(
        monotonicity=cfg["mono"], convexity=cfg["conv"],
        lengths=(tf.constant(ls, dtype=tf.float32) if case.get("form") == "tensor" else
                 np.array(ls, dtype=np.float64) if case.get("form") == "ndarray" else
                 tuple(ls) if case.get("as_tuple") else ls),
        output_min=None if cfg["omin"] is None else float(cfg["omin"]),
        output_max=None if cfg["omax"] is None else float(cfg["omax"]),
        output_min_constraints=minc, output_max_constraints=maxc, num_projection_iterations=int(case["iters"]))
  except ValueError as e:
    ctx.count("list_lengths:%s:rejected" % kind)
    if isinstance(e, tf.errors.OpError) or kind == "positive":
      ctx.fail("raises", key, case, classify_exc(e), "constructor rejected positive list lengths")
    return
  except Exception as e:  # pylint: disable=broad-except
    ctx.fail("raises", key, case, classify_exc(e), "constructor raised something else than ValueError")
    return
  ctx.count("list_lengths:%s:accepted" % kind)
  # weights of either dtype: the projection casts the lengths to the weights' dtype (fixes e9fee6c/efc1442; before,
  # list lengths against float64 weights raised TypeError), lengths as list / tuple / constant tensor / ndarray
  wdt = np.float64 if case.get("wdtype") == "float64" else np.float32
  wf = np.array([[float(Fraction(v)) for v in row] for row in case["w"]], dtype=wdt)
  ctx.count("list_lengths:form:%s:%s" % (case.get("form", "list"), case.get("wdtype", "float32")))
  try:
    out = cons(tf.constant(wf, dtype=tf.as_dtype(wdt))).numpy().astype(np.float64)
  except Exception as e:  # pylint: disable=broad-except
    ctx.fail("raises", key, case, classify_exc(e), "accepted lengths, the constraint raises when applied")
    return
  if not np.all(np.isfinite(out)):
    ctx.fail("finite", key, case, out, "accepted piece lengths %s: the applied constraint returns non-finite weights" % ls)
    return
  if kind != "positive":
    ctx.fail("lengths", key, case, out, "non-positive piece lengths %s were accepted" % ls)
    return
  scale = max_abs(wf.ravel(), [cfg["omin"] or 0, cfg["omax"] or 0])
  for u in range(wf.shape[1]):
    for clause, detail in clauses(cfg, lengths, out[:, u], 1e-4 * scale):
      ctx.fail(clause, key, case, out[:, u], "unit %d: %s" % (u, detail))


def run(ctx):
  for _ in range(ctx.n(60, 1500)):
    check_list_lengths(ctx, gen_list_lengths(ctx.rng))
  reps = ctx.n(8, 160)
  cases = gen_cases(ctx, reps)
  reals, lines, spans = [], [], []
  for case in cases:
    real = run_real(case)
    ls = lines_of(case, real)
    spans.append((len(lines), len(ls)))
    lines += ls
    reals.append(real)
  items, slines = run_stages(ctx, ctx.n(300, 8000))
  replies = run_driver(lines + slines)
  for case, real, (a, k) in zip(cases, reals, spans):
    check_case(ctx, case, real, replies[a:a + k])
  check_stages(ctx, items, replies[len(lines):])


def replay(ctx, failure):
  """Re-executes one recorded failing case on the current tree."""
  case = failure["case"]
  if "list_lengths" in case:
    check_list_lengths(ctx, case)
    return
  if "stage_case" in case:
    import tensorflow as tf
    d = case["stage_case"]
    L = lib()
    col = [Fraction(v) for v in d["col"]]
    lengths = [Fraction(v) for v in d["lengths"]]
    omin, omax = Fraction(d["omin"]), Fraction(d["omax"])
    desc = dict(d, col=col, lengths=lengths, omin=omin, omax=omax)
    t = lambda xs: tf.constant([[float(v)] for v in xs], dtype=tf.float64)
    try:
      r = L._finalize_constraints(bias=t(col[:1]), heights=t(col[1:]), monotonicity=d["mono"], output_min=float(omin),
                                  output_max=float(omax), output_min_constraints=to_bct(d["minc"]),
                                  output_max_constraints=to_bct(d["maxc"]), convexity=d["conv"],
                                  lengths=tf.constant([float(l) for l in lengths], dtype=tf.float64)).numpy().ravel()
      err = None
    except Exception as e:
      r, err = None, classify_exc(e)
    line = "pwlp.finalize %d %d %s %s %d %d %s %s" % (d["mono"], d["conv"], fr(omin), fr(omax), d["minc"], d["maxc"],
                                                      frl(lengths), frl(col))
    check_stages(ctx, [(desc, r, err)], run_driver([line]))
    return
  cfg = dict(case["cfg"])
  cfg["omin"] = None if cfg["omin"] is None else Fraction(cfg["omin"])
  cfg["omax"] = None if cfg["omax"] is None else Fraction(cfg["omax"])
  c = dict(cfg=cfg, lengths=[Fraction(v) for v in case["lengths"]], iters=int(case["iters"]), kind="replay",
           w=[[Fraction(v) for v in row] for row in case["w"]], via=case["via"],
           mov=None if case.get("mov") is None else Fraction(case["mov"]))
  real = run_real(c)
  check_case(ctx, c, real, run_driver(lines_of(c, real)))
