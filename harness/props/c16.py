"""C16: configurations are either rejected up front (ValueError) or handled totally and finitely;
synonymous spellings configure identical behaviour.

Tie (model = Tfl.Verify.*, lean/TflModel/Model/Verify.lean):
  * accept.<class>   REAL constructor outcome (accept / ValueError / TypeError / other) on rows drawn
                     from the small-domain cross products of translate_accept.py vs the driver op
                     `vfy.<class>` (the kernel-checked table Generated/Accept.lean is a fixed sample /
                     the exhaustive product of the same domains; these rows are drawn with the run's
                     seed; thorough tier enumerates every product up to 2*10^5 rows).
  * canon.<fn>       REAL utils.canonicalize_* vs `vfy.canon` (value AND tuple/list shape).
  * build.<layer>    the layer's build/first-call outcome vs the model of the constraints class it
                     constructs (composition: Lattice -> LatticeConstraints, Linear ->
                     LinearConstraints + canonicalize_input_bounds, Categorical -> its constraints).
Oracle (on the real objects only):
  * every rejection that is not a ValueError at constructor / build / first call,
  * every accepted configuration whose projection / finalisation / regulariser / evaluation on
    finite weights and inputs raises or returns a non-finite value,
  * synonymous spellings that give different projected weights or outputs,
  * canonicalisers that are not idempotent / not tuple-list insensitive / not synonym-equal.
  Failures are keyed (layer, stage, exc, pred): pred is a predicate of the configuration."""
import ast, copy, itertools, os, sys
import numpy as np
from fractions import Fraction
from common import *

HERE = os.path.dirname(os.path.abspath(__file__))
sys.path.insert(0, os.path.dirname(HERE))
import translate_accept as TA  # noqa: E402

RULE = ("rows of the per-class argument cross products (valid and invalid spellings, wrong lengths, "
        "out-of-range indices, crossed bounds, single tuples, strings) drawn with the run's PRNG; layers "
        "(Lattice, PWLCalibration, Linear, CategoricalCalibration, KroneckerFactoredLattice, RTL, CDF; "
        "float32 and float64) built on finite inputs, given hostile finite weights, projected, finalised, "
        "regularised and evaluated. Non-trivial = a row whose outcome is not the baseline's (a rejection) "
        "or an accepted layer whose projection moved the hostile weights; distinct = (class, outcome, "
        "argument that differs from the baseline) resp. (layer, config-class signature).")
ASSUMPTIONS = [
    "the arguments the constructors only store (units, num_projection_iterations, split_outputs, normalization_order, "
    "the constraint arguments of Lattice.__init__) range over small domains of ints (positive, 0, negative), a float, "
    "None (np.inf / -np.inf / 'euclidean' / 'fro' / a string / a list for normalization_order): their FIRST USE (build, "
    "first projection) is observed on the real layers by the layer stream; the kernel-checked tables tabulate the "
    "CONSTRUCTOR outcome (KroneckerFactoredLatticeBuild: constructor + build on the layer's own input shape)",
    "hyper-parameter values range over the finite spellings of translate_accept.py (ints, floats, the "
    "strings the code compares against in exact / other case, lists and tuples nested <= 2); other "
    "Python objects (numpy arrays, tensors, bools, custom classes) are exercised only where listed",
    "finite weights |w| <= 10 and inputs inside / slightly outside the input range: float overflow is excluded by the property",
    "the kernel-checked table is a fixed-seed sample for the eight classes whose cross product exceeds 8000 rows "
    "(sizes in evidence.notes); the driver comparison of this run samples the same products with the run's seed",
]
TRUSTED_EXTRA = ["harness/translate_accept.py: the encoding of Python values as Tfl.Verify.Val terms / wire tokens "
                 "(lower-cased string tokens with an exact-case flag)",
                 "harness/translate_accept.py (_FEAT_FACTS, pm_codes): premade_lib.verify_config is modelled on a TYPED "
                 "description of the model config — each FeatureConfig / lattices / output_initialization value is classified "
                 "in Python into the facts verify_config reads; the classification itself is not modelled in Lean"]


def regenerate():
  """refreshes Generated/Accept.lean (and Generated/Configs.lean: `lake build` builds every module)"""
  import translate_configs as TC
  TC.regenerate()
  return TA.regenerate()


# ------------------------------------------------------------------ predicates of a failing configuration
def _has_single_tuple(cfg, keys):
  for k in keys:
    v = cfg.get(k)
    if isinstance(v, tuple) and v and not isinstance(v[0], (list, tuple)):
      return True
  return False


def _bad_units(cfg):
  u = cfg.get("units", 1)
  return isinstance(u, bool) or not isinstance(u, int) or u < 1


def _non_int(cfg, keys):
  return any(k in cfg and (isinstance(cfg[k], bool) or not isinstance(cfg[k], int)) for k in keys)


_EMPTY_TUPLE_KEYS = ("edgeworth_trusts", "trapezoid_trusts", "monotonic_dominances", "range_dominances", "joint_monotonicities")
_STAGES = ["ctor", "build", "project", "regularizer", "eval", "nonfinite", "ok"]


def _control_passes(layer, cfg, fix, stage, table):
  """Attribution of a late failure to ONE stored argument: the SAME configuration with that argument at a valid value
  (`fix`) must get past `stage` (or be rejected with a ValueError). The first use of a bad `units` surfaces through many
  TensorFlow messages (ConcatOp, Incompatible shapes, num_split, Dimension value, np.tile ...): the control run is the
  discriminating test, not the message text."""
  import tensorflow as tf
  c2 = dict(cfg)
  c2.update(fix)
  if table:
    spec = [sp for sp in TA.specs() if sp.name == layer]
    if not spec:
      return False
    return TA.evaluate(spec[0], c2)[0] in ("accept", "ValueError")
  st, e, _ = exercise("LatticeValid" if layer == "Lattice" else layer, c2, 0)
  if e is not None and isinstance(e, ValueError) and not isinstance(e, tf.errors.OpError):
    return True
  return _STAGES.index(st) > _STAGES.index(stage)


def predicate(layer, cfg, stage, exc, msg, table=False):
  """A stable class of the configuration that explains the failure (key of known findings)."""
  m = msg or ""
  # ---- arguments that the constructors only store (audit row 5): the predicate needs the offending VALUE in the
  # configuration, the stage / exception class of its first use, and a passing CONTROL with that one value repaired
  if layer == "Lattice" and stage == "ctor" and exc == "IndexError" and "tuple index out of range" in m and \
      any(isinstance(cfg.get(k), tuple) and not cfg.get(k) for k in _EMPTY_TUPLE_KEYS):
    return "empty_tuple_constraint"
  if layer in ("Lattice", "PWLCalibration", "Linear", "CategoricalCalibration", "CategoricalCalibrationFull") and \
      _bad_units(cfg) and stage in ("ctor", "build", "project", "regularizer", "eval") and \
      exc in ("TypeError", "InvalidArgumentError", "AssertionError", "ValueError") and \
      _control_passes(layer, cfg, dict(units=1), stage, table):
    return "units_not_positive_int"
  if layer in ("Lattice", "PWLCalibration") and _non_int(cfg, ["num_projection_iterations"]) and stage == "project" and \
      exc in ("TypeError", "ValueError") and _control_passes(layer, cfg, dict(num_projection_iterations=8), stage, table):
    return "iterations_not_int"
  if layer in ("Linear", "LinearConstraints") and stage == "project" and \
      ((exc == "ValueError" and "'ord' must be a supported vector norm" in m) or
       (exc == "TypeError" and "'<=' not supported between instances of 'list' and 'int'" in m)):
    return "normalization_order_unsupported"
  if layer == "KroneckerFactoredLattice" and stage == "build" and exc == "TypeError" and \
      _non_int(cfg, ["lattice_sizes", "units", "num_terms"]) and \
      _control_passes(layer, cfg, {k: (2 if k != "units" else 1) for k in ("lattice_sizes", "units", "num_terms")
                                   if _non_int(cfg, [k])}, stage, table):
    return "kfl_non_integer_size"
  if layer in ("LatticeConstraints",) and exc == "TypeError" and _has_single_tuple(
      cfg, ["edgeworth_trusts", "trapezoid_trusts", "monotonic_dominances", "range_dominances", "joint_monotonicities"]):
    return "single_tuple"
  if layer in ("LinearConstraints", "Linear") and exc == "TypeError" and _has_single_tuple(
      cfg, ["monotonic_dominances", "range_dominances"]):
    return "single_tuple"
  if exc == "TypeError" and "unhashable" in m:
    return "list_valued_pair"
  if layer in ("LinearConstraints", "Linear") and exc == "AssertionError":
    return "dominance_without_monotonicities"
  if layer in ("LinearConstraints", "Linear") and exc == "IndexError":
    return "input_bounds_shorter_than_monotonicities"
  if layer == "Lattice" and exc == "TypeError" and isinstance(cfg.get("lattice_sizes"), tuple) and \
      cfg.get("interpolation") == "simplex" and "concatenate" in m:
    return "tuple_lattice_sizes_simplex"
  if layer == "Linear" and stage in ("nonfinite", "project") and cfg.get("range_dominances"):
    lo, hi = cfg.get("input_min"), cfg.get("input_max")
    if lo and hi and any(a is not None and b is not None and a == b for a, b in zip(lo, hi)):
      return "zero_input_range"
  if exc == "TypeError" and "not all arguments converted during string formatting" in m:
    return "error_message_formatting"
  if layer == "PWLCalibration" and cfg.get("is_cyclic") and cfg.get("kernel_initializer") == "equal_slopes" and exc == "TypeError":
    return "cyclic_equal_slopes"
  if layer == "PWLCalibration" and "Clamping is not implemented" in m:
    return "clamp_without_monotonicity"
  if cfg.get("dtype") == "float64" and ("float" in m or "double" in m or "dtype" in m.lower()) and \
      exc in ("InvalidArgumentError", "TypeError", "ValueError"):
    return "dtype_float64"
  if layer == "Lattice" and stage == "nonfinite" and cfg.get("output_min") is not None and \
      cfg.get("output_max") is not None and cfg["output_min"] >= cfg["output_max"]:
    return "output_bounds_unverified"
  if layer == "CDF" and stage == "nonfinite" and (cfg.get("num_keypoints") or 0) < 1:
    return "cdf_zero_keypoints"
  if layer == "Lattice" and exc == "IndexError" and cfg.get("kernel_regularizer") and stage in ("regularizer", "build", "eval"):
    return "regularizer_amounts_too_short"
  if layer in ("TorsionRegularizer", "LaplacianRegularizer") and exc == "IndexError":
    return "regularizer_amounts_too_short"
  return "other:" + " ".join(m.split()[:6])


def exc_msg(e):
  """first informative line of an exception message (Keras prefixes a line naming the layer instance)"""
  if e is None:
    return ""
  ls = [l.strip() for l in str(e).splitlines() if l.strip()]
  ls = [l for l in ls if not l.startswith("Exception encountered when calling") and not l.startswith("Call arguments")]
  return (ls or [""])[0][:300]


def fail(ctx, layer, stage, exc, cfg, msg, extra=None):
  key = dict(layer=layer, stage=stage, exc=exc, pred=predicate(layer, cfg, stage, exc, msg, table=(extra == "table")))
  tag = "oracle:%s/%s/%s/%s" % (layer, stage, exc, key["pred"])
  ctx.count(tag)
  if ctx.dist[tag] > 4:
    return   # at most 4 witnesses per bucket are kept (the count stays in the distribution)
  case = dict(stream="layer" if extra is None else extra, layer=layer, cfg=repr(cfg))
  ctx.fail("rejected_or_total", key, case, dict(exc=exc, msg=msg[:300]))


# ------------------------------------------------------------------ stream A: constructor tables through the driver
def run_tables(ctx):
  lines, pend = [], []
  for spec in TA.specs():
    prod = spec.product_size()
    if ctx.tier == "thorough" and prod <= 200000:
      rows = []
      names = [a for a, _ in spec.args]
      seen = set()
      for b in spec.baselines:
        f = spec.factors(b)
        for combo in itertools.product(*[f[a] for a in names]):
          c = dict(zip(names, combo))
          k = repr(sorted(c.items()))
          if k not in seen:
            seen.add(k)
            rows.append(c)
      ctx.notes.append("accept.%s: exhaustive %d rows" % (spec.name, len(rows)))
    else:
      n = ctx.n(150, 20000)
      rows = []
      names = [a for a, _ in spec.args]
      for _ in range(n):
        b = ctx.rng.choice(spec.baselines)
        f = spec.factors(b)
        c = dict(b)
        for a in names:
          if ctx.rng.random() < 0.5:
            c[a] = ctx.rng.choice(f[a])
        rows.append(c)
      ctx.notes.append("accept.%s: %d sampled rows of a product of %d" % (spec.name, len(rows), prod))
    for c in rows:
      outc, exc, msg = TA.evaluate(spec, c)
      lines.append("vfy.%s %s" % (spec.name, " ".join(spec.enc(c, "wire"))))
      pend.append((spec, c, outc, exc, msg))
  replies = run_driver(lines)
  for (spec, c, outc, exc, msg), rep, line in zip(pend, replies, lines):
    check_table_row(ctx, spec, c, outc, exc, msg, rep, line)


def check_table_row(ctx, spec, c, outc, exc, msg, rep, line):
  base = spec.baselines[0]
  diff = sorted(a for a, _ in spec.args if repr(c.get(a)) != repr(base.get(a)))
  ctx.count("accept:%s:%s" % (spec.name, outc))
  ctx.case(sig=(spec.name, outc, exc, tuple(diff[:3])), nontrivial=outc != "accept" or bool(diff),
           sample=dict(cls=spec.name, cfg=repr(c), outcome=outc, exc=exc))
  case = dict(stream="table", layer=spec.name, cfg=repr(c))
  want = str(TA.OUTCOMES.index(outc))
  if rep == want:
    ctx.agree("accept." + spec.name)
  else:
    ctx.disagree("accept." + spec.name, case, "%s (%s: %s)" % (outc, exc, msg), rep, line)
  if outc not in ("accept", "ValueError"):
    fail(ctx, spec.name, "ctor", exc, c, msg, extra="table")


# ------------------------------------------------------------------ stream B: canonicalisers
CANON_VALUES = {
    "monotonicities": [None, [], [0, 0], [1, 0], ["increasing", "none"], ("decreasing", 1), ["Increasing", -1], [2], ["peak"],
                       [1.0, 0], [[1], 0], 1, (1,), [None, 1]],
    "unimodalities": [None, [], [0, 0], ["valley", 0], ("peak", "none"), [1, -1], ["Valley"], [2], ["increasing"], [[1]], 1],
    "trust": [None, [], [(0, 1, 1)], [(0, 1, "positive")], [[0, 1, "negative"]], ([1, 0, -1],), [(0, 1, "Positive"), (2, 1, -1)],
              (0, 1, 1), [(0, 1)], [(0, 1, 2)], [(0, 1, "up")], [(0, 1, 1.0)], [0]],
    "input_bounds": [None, [], [0.0, 1.0], [0.0, None], ["none", 1.0], ("None", 0.5), [0], [1, 2.0], ["x"], [[0.0]], 0.0],
    "monotonicity": [None, 0, 1, -1, "increasing", "decreasing", "none", "Increasing", 2, "peak", 1.0, [1]],
    "convexity": [None, 0, 1, -1, "convex", "concave", "none", "Convex", 2, "increasing", [1]],
}
SYNONYMS = {
    "monotonicities": [(["increasing", "none", "decreasing"], [1, 0, -1]), (("increasing",), [1])],
    "unimodalities": [(["valley", "none", "peak"], [1, 0, -1])],
    "trust": [([(0, 1, "positive"), (2, 1, "negative")], [(0, 1, 1), (2, 1, -1)])],
    "monotonicity": [("increasing", 1), ("decreasing", -1), ("none", 0)],
    "convexity": [("convex", 1), ("concave", -1), ("none", 0)],
}


def _real_canon(which, v):
  from tensorflow_lattice.python import utils
  fn = {"monotonicities": utils.canonicalize_monotonicities, "unimodalities": utils.canonicalize_unimodalities,
        "trust": utils.canonicalize_trust, "input_bounds": utils.canonicalize_input_bounds,
        "monotonicity": utils.canonicalize_monotonicity, "convexity": utils.canonicalize_convexity}[which]
  try:
    return ("ok", fn(v))
  except Exception as e:  # pylint: disable=broad-except
    return ("err", classify_exc(e))


def _jsonify(v):
  if isinstance(v, (list, tuple)):
    return [_jsonify(x) for x in v]
  return v


def run_canon(ctx):
  from tensorflow_lattice.python import utils
  lines, pend = [], []
  for which, vals in sorted(CANON_VALUES.items()):
    for v in vals:
      real = _real_canon(which, v)
      lines.append("vfy.canon %s %s" % (which, TA.wire_val(v)))
      pend.append((which, v, real, None))
    if which == "monotonicities":
      for v in vals:
        try:
          real = ("ok", utils.canonicalize_monotonicities(v, allow_decreasing=False))
        except Exception as e:  # pylint: disable=broad-except
          real = ("err", classify_exc(e))
        lines.append("vfy.canon monotonicities_nodecr %s" % TA.wire_val(v))
        pend.append((which + "_nodecr", v, real, None))
  replies = run_driver(lines)
  for (which, v, real, _), rep in zip(pend, replies):
    case = dict(stream="canon", which=which, value=repr(v))
    ctx.case(sig=("canon", which, repr(v)), sample=case)
    val = real[1]
    if which == "trust" and real[0] == "ok" and val is not None:
      # a direction given as 1.0 is kept as 1.0 by the code; 1.0 == 1 (and hashes alike): compared as int
      val = [tuple(int(x) if isinstance(x, float) and k == 2 else x for k, x in enumerate(t)) for t in val]
    got = TA.wire_val(val) if real[0] == "ok" else real[1]
    if got == rep:
      ctx.agree("canon." + which)
    else:
      ctx.disagree("canon." + which, case, got, rep)
  # oracle on the real functions: idempotence, tuple/list insensitivity, synonyms
  for which, vals in sorted(CANON_VALUES.items()):
    for v in vals:
      r1 = _real_canon(which, v)
      key = dict(layer="utils.canonicalize_" + which, stage="canon", exc="", pred="")
      case = dict(stream="canon", which=which, value=repr(v))
      if r1[0] == "ok":
        r2 = _real_canon(which, r1[1])
        if r2 != r1:
          ctx.fail("canon_idempotent", dict(key, pred="idempotence"), case, dict(first=repr(r1), second=repr(r2)))
        if which == "trust" and r1[1] is not None:
          try:
            hash(tuple(r1[1]))
          except TypeError:
            ctx.fail("canon_idempotent", dict(key, pred="unhashable_trust"), case, dict(first=repr(r1)))
      rj = _real_canon(which, _jsonify(v))
      if r1[0] == "ok" and not (rj[0] == "ok" and _jsonify(rj[1]) == _jsonify(r1[1])):
        ctx.fail("canon_idempotent", dict(key, pred="tuple_list"), case, dict(tuple_form=repr(r1), list_form=repr(rj)))
  for which, pairs in sorted(SYNONYMS.items()):
    for a, b in pairs:
      ra, rb = _real_canon(which, a), _real_canon(which, b)
      ctx.case(sig=("syn", which, repr(a)))
      if ra != rb and not (ra[0] == "ok" and rb[0] == "ok" and _jsonify(ra[1]) == _jsonify(rb[1])):
        ctx.fail("synonyms", dict(layer="utils.canonicalize_" + which, stage="canon", exc="", pred="synonym"),
                 dict(stream="canon", which=which, value=repr(a)), dict(a=repr(ra), b=repr(rb)))


# ------------------------------------------------------------------ stream C: layers
def _tmpl_mono(n):
  return [None, [0] * n, [1] * n, ["increasing"] + [0] * (n - 1), [1] + ["none"] * (n - 1), tuple([1] * n), [-1] * n,
          [1] * (n + 1), ["peak"] * n]


def _tmpl_uni(n):
  return [None, None, [0] * n, ["valley"] + [0] * (n - 1), [0] * (n - 1) + [-1], [1] * n]


H_UNITS = [1, 1, 1, 2, 2, 0, -1, 2.0, None]
H_ITERS = [-1, 2.5, None]
L_TRUSTS = [None, None, (), [(0, 1, 1)], (0, 1, "positive"), [(0, 1, -1)], [(0, 1, "negative")], [[0, 1, 1]], [(1, 0, 1)],
            [(0, 1, 1), (1, 0, 1)], [(0, 0, 1)], [(0, 1, 2)], [(0, 1, 1), (0, 1, 1)], [(0, 1, 1), (0, 2, -1)], [(0, 5, 1)]]
L_DOMS = [None, None, (), [(0, 1)], (0, 1), [(1, 0)], [(0, 1), (1, 0)], [(0, 5)], [[0, 1]],
          [(0, 1), (1, 2), (2, 0)], [(0, 0)], [(0, 1), (1, 1)], [(0, 1), (1, 2)]]
L_JM = [None, None, [(0, 1)], (0, 1), [(0, 9)], (), [(0, 0)], [(0, 1), (1, 1)]]
L_JU = [None, None, None, ([0, 1], "valley"), [([0], "peak")], [([0, 1], "peak")], [([0, 0], "peak")], [([0], "up")],
        [([7], "peak")], [([1, 2], "valley")], [([0], "valley"), ([1, 0, 1], "peak")], ([0, 9], "peak")]
L_BOUNDS = [(None, None), (None, None), (0.0, 1.0), (-1.0, 2.0), (1.0, 0.0), (0.0, 0.0), (None, 1.0), (0.0, None), (0, 1)]
L_REGS = [None, None, ("torsion", 0.1, 0.2), [("laplacian", 0.1, 0.0)], [("torsion", "dim", 0.0)], [("laplacian", "dimt", 0.1)],
          [("torsion", "short", 0.0)], [("laplacian", "short", 0.0)], [("torsion", "long", 0.0)], ("unknown", 0.1, 0.1)]


def gen_lattice(rng):
  sizes = rng.choice([[2], [2, 2], [2, 2], [3, 3], [3, 2], [2, 3, 2], [3, 3, 3], (2, 2), (3, 3), [1, 2], [], ()])
  n = len(sizes)
  b = rng.choice(L_BOUNDS)
  reg = rng.choice(L_REGS)
  if reg is not None:
    def amt(a):
      return {"dim": [0.1] * n, "dimt": tuple([0.1] * n), "short": [0.1] * max(0, n - 1), "long": [0.1] * (n + 1)}.get(a, a) \
          if isinstance(a, str) else a
    if isinstance(reg, tuple):
      reg = (reg[0], amt(reg[1]), amt(reg[2]))
    else:
      reg = [(r[0], amt(r[1]), amt(r[2])) for r in reg]
  return dict(lattice_sizes=sizes, units=rng.choice(H_UNITS), monotonicities=rng.choice(_tmpl_mono(n)),
              unimodalities=rng.choice(_tmpl_uni(n)), edgeworth_trusts=rng.choice(L_TRUSTS),
              trapezoid_trusts=rng.choice(L_TRUSTS[:8]), monotonic_dominances=rng.choice(L_DOMS),
              range_dominances=rng.choice(L_DOMS[:6] + [[(0, 0)], [(1, 1)]]), joint_monotonicities=rng.choice(L_JM),
              joint_unimodalities=rng.choice(L_JU), output_min=b[0], output_max=b[1],
              num_projection_iterations=rng.choice([10, 10, 1, 0] + H_ITERS), monotonic_at_every_step=rng.choice([True, False]),
              clip_inputs=rng.choice([True, False]), interpolation=rng.choice(["hypercube", "simplex", "simplex", "cubic"]),
              kernel_initializer=rng.choice(["random_uniform_or_linear_initializer", "linear_initializer",
                                             "random_monotonic_initializer", "zeros"]),
              kernel_regularizer=reg, dtype=rng.choice(["float32", "float32", "float64"]))


def gen_lattice_valid(rng):
  """mostly valid lattice configurations (so that the accepted branch is exercised heavily)"""
  sizes = rng.choice([[2, 2], [3, 3], [3, 2], [2, 3, 2], [3, 3, 3], (3, 3)])
  n = len(sizes)
  mono = rng.choice([[1] * n, ["increasing"] * n, [1] + [0] * (n - 1), tuple([1] * n)])
  b = rng.choice([(None, None), (0.0, 1.0), (-1.0, 2.0), (None, 1.0), (0.0, None)])
  c = dict(lattice_sizes=sizes, units=rng.choice([1, 2]), monotonicities=mono, unimodalities=None,
           edgeworth_trusts=None, trapezoid_trusts=None, monotonic_dominances=None, range_dominances=None,
           joint_monotonicities=None, joint_unimodalities=None, output_min=b[0], output_max=b[1],
           num_projection_iterations=rng.choice([10, 1, 0]), monotonic_at_every_step=rng.choice([True, False]),
           clip_inputs=True, interpolation=rng.choice(["hypercube", "simplex"]),
           kernel_initializer="random_uniform_or_linear_initializer", kernel_regularizer=None,
           dtype=rng.choice(["float32", "float64"]))
  if n >= 2 and mono[1] in (1, "increasing"):
    k = rng.random()
    if k < 0.3:
      c["edgeworth_trusts"] = rng.choice([[(0, 1, 1)], (0, 1, "positive"), [(0, 1, "negative")]])
    elif k < 0.5:
      c["trapezoid_trusts"] = rng.choice([[(0, 1, 1)], (0, 1, -1)])
    elif k < 0.65:
      c["monotonic_dominances"] = rng.choice([[(0, 1)], (0, 1)])
    elif k < 0.8:
      c["range_dominances"] = [(1, 0)]
    elif k < 0.9:
      c["joint_monotonicities"] = rng.choice([[(0, 1)], (0, 1)])
  # the stored arguments at hostile values in an otherwise valid layer (F-C16-af, F-C16-ag): first use at build /
  # in the first projection that iterates
  if rng.random() < 0.12:
    c["units"] = rng.choice([0, 2.0, None])
  if rng.random() < 0.15:
    c["num_projection_iterations"] = rng.choice(H_ITERS)
  return c


def gen_pwl(rng):
  b = rng.choice(L_BOUNDS)
  return dict(input_keypoints=rng.choice([[0.0, 1.0], [0.0, 1.0, 3.0], [0.0, 0.5, 1.0, 4.0], [0.0, 0.0, 1.0], [1.0, 0.0], [0.0],
                                          [0, 1, 2], (0.0, 1.0, 2.0), "nparray"]),
              units=rng.choice(H_UNITS), output_min=b[0], output_max=b[1], clamp_min=rng.choice([False, True]),
              clamp_max=rng.choice([False, True]),
              monotonicity=rng.choice(["none", 0, 1, -1, "increasing", "decreasing", 2, None]),
              convexity=rng.choice(["none", "none", 0, "convex", -1, 1, "concave"]), is_cyclic=rng.choice([False, False, True]),
              kernel_initializer=rng.choice(["equal_heights", "equal_slopes", "zeros"]),
              kernel_regularizer=rng.choice([None, None, ("hessian", 0.1, 0.2), [("laplacian", 0.1, 0.0), ("wrinkle", 0.0, 0.1)],
                                             ("unknown", 0.1, 0.1)]),
              impute_missing=rng.choice([False, False, True]), missing_input_value=rng.choice([None, None, -1.0]),
              missing_output_value=rng.choice([None, None, 0.5]),
              num_projection_iterations=rng.choice([8, 8, 1, 0] + H_ITERS),
              split_outputs=rng.choice([False, False, True, None, 1]),
              input_keypoints_type=rng.choice(["fixed", "fixed", "learned_interior", "other"]),
              dtype=rng.choice(["float32", "float32", "float64"]))


def gen_linear(rng):
  n = rng.choice([1, 2, 3, 3])
  def bounds(v):
    return rng.choice([None, None, [v] * n, [v] + [None] * (n - 1), [v] + ["none"] * (n - 1), [int(v)] * n, [0.5] * n, tuple([v] * n),
                       [v] * (n + 1), [v] * (n - 1), [1.0 - v] * n])
  return dict(num_input_dims=n, units=rng.choice(H_UNITS),
              monotonicities=rng.choice([None, 1, "increasing", "decreasing", [1] * n, [1, 0, -1][:n], [-1] * n, [1] * (n + 1),
                                         tuple([1] * n), "peak", [None] * n, [None, None, 1][:n]]),
              monotonic_dominances=rng.choice(L_DOMS), range_dominances=rng.choice(L_DOMS[:5] + L_DOMS[8:]),
              input_min=bounds(0.0), input_max=bounds(1.0), use_bias=rng.choice([True, False]),
              normalization_order=rng.choice([None, None, 1, 2, "inf", 0.5, 0, 3, -1, "-inf", "fro", "euclidean", "1", [1]]),
              dtype=rng.choice(["float32", "float32", "float64"]))


def gen_categorical(rng):
  b = rng.choice(L_BOUNDS)
  return dict(num_buckets=rng.choice([1, 2, 3, 4, 0, -1]), units=rng.choice(H_UNITS), output_min=b[0], output_max=b[1],
              monotonicities=rng.choice([None, None, [(0, 1)], [[0, 1]], [(0, 1), (1, 2)], [(0, 1), (1, 0)],
                                         [(0, 1), (1, 2), (2, 1)], [(0, 1), (2, 3), (3, 2)], [(0, 0)], [(0, 7)], (0, 1), [(0, 1, 2)],
                                         [(0, 1), (0, 2), (1, 3), (2, 3)], [(0, 1), (1, 2), (2, 0)], [(0, 1), (1, 1)], [(2, 1), (1, 0)],
                                         [(0, 1.0)], [(0, 1.5)], [(0.0, 1)], [(0, 1), (1, 2.0)], [(False, True)], [(None, 1)]]),
              kernel_initializer=rng.choice(["uniform", "constant", "zeros"]), default_input_value=rng.choice([None, -1]),
              split_outputs=rng.choice([False, False, True, None, 1]), dtype=rng.choice(["float32", "float32", "float64"]))


def gen_kfl(rng):
  b = rng.choice(L_BOUNDS)
  return dict(lattice_sizes=rng.choice([2, 2, 3, 1, 0, 2.0, 2.5, None]), units=rng.choice([1, 1, 2, 0, 2.0, None]),
              num_terms=rng.choice([1, 2, 2, 0, 2.0, None]),
              monotonicities=rng.choice([None, [0, 0], [1, 0], ["increasing", 1], [1], [-1, 0], (1, 1)]),
              output_min=b[0], output_max=b[1], clip_inputs=rng.choice([True, False]),
              dtype=rng.choice(["float32", "float32", "float64"]))


def gen_rtl(rng):
  b = rng.choice(L_BOUNDS)
  return dict(num_lattices=rng.choice([2, 3, 1]), lattice_rank=rng.choice([2, 2, 3]), lattice_size=rng.choice([2, 2, 3, 1]),
              output_min=b[0], output_max=b[1], separate_outputs=rng.choice([False, True]), random_seed=rng.choice([42, 7]),
              interpolation=rng.choice(["hypercube", "simplex", "cubic"]),
              parameterization=rng.choice(["all_vertices", "all_vertices", "kronecker_factored", "other"]),
              kernel_initializer=rng.choice(["random_monotonic_initializer", "linear_initializer"]),
              kernel_regularizer=rng.choice([None, None, ("torsion", 0.1, 0.2), [("laplacian", 0.1, 0.0)], ["torsion", 0.1, 0.2],
                                             [("torsion", 1, 0.2)]]),
              avoid_intragroup_interaction=rng.choice([True, False]), average_outputs=rng.choice([False, True]),
              dtype="float32")


def gen_cdf(rng):
  return dict(num_keypoints=rng.choice([2, 4, 1, 0]), units=rng.choice([1, 2]), activation=rng.choice(["relu6", "sigmoid", "tanh"]),
              reduction=rng.choice(["mean", "geometric_mean", "none", "other"]),
              input_scaling_init=rng.choice([None, 2.0]), input_scaling_type=rng.choice(["fixed", "learned_shared", "learned_per_input", "x"]),
              input_scaling_monotonicity=rng.choice(["increasing", "none", 1, "peak"]), sparsity_factor=rng.choice([1, 1, 2, 3]),
              dtype="float32")


GENS = {"Lattice": gen_lattice, "LatticeValid": gen_lattice_valid, "PWLCalibration": gen_pwl, "Linear": gen_linear,
        "CategoricalCalibration": gen_categorical, "KroneckerFactoredLattice": gen_kfl, "RTL": gen_rtl, "CDF": gen_cdf}


VALID = {}


def _valid_pwl(rng):
  mono = rng.choice(["none", 0, 1, -1, "increasing", "decreasing"])
  cyc = mono in ("none", 0) and rng.random() < 0.3
  conv = "none" if cyc else rng.choice(["none", "none", 0, "convex", -1])
  kpt = "fixed" if conv not in ("none", 0) else rng.choice(["fixed", "fixed", "learned_interior"])
  b = rng.choice([(None, None), (0.0, 1.0), (-1.0, 2.0), (None, 1.0), (0.0, None), (0.0, 0.0)])
  imp = rng.choice([False, True])
  return dict(input_keypoints=rng.choice([[0.0, 1.0], [0.0, 1.0, 3.0], [0.0, 0.5, 1.0, 4.0], (0.0, 1.0, 2.0), "nparray", [0, 1, 2]]),
              units=rng.choice([1, 2]), output_min=b[0], output_max=b[1],
              clamp_min=b[0] is not None and rng.random() < 0.5, clamp_max=b[1] is not None and rng.random() < 0.5,
              monotonicity=mono, convexity=conv, is_cyclic=cyc,
              kernel_initializer=rng.choice(["equal_heights", "equal_slopes", "zeros"]),
              kernel_regularizer=rng.choice([None, ("hessian", 0.1, 0.2), [("laplacian", 0.1, 0.0), ("wrinkle", 0.0, 0.1)]]),
              impute_missing=imp, missing_input_value=rng.choice([None, -1.0]) if imp else None,
              missing_output_value=rng.choice([None, 0.5]) if imp else None,
              num_projection_iterations=rng.choice([8, 1, 0]), split_outputs=rng.choice([False, True]),
              input_keypoints_type=kpt, dtype=rng.choice(["float32", "float64"]))


def _valid_linear(rng):
  n = rng.choice([2, 3, 3])
  mono = rng.choice([[1] * n, "increasing", 1, [1, 1, -1][:n], [-1] * n, ["decreasing"] * n, [1, 0, -1][:n], None, tuple([1] * n)])
  c = dict(num_input_dims=n, units=rng.choice([1, 2]), monotonicities=mono, monotonic_dominances=None, range_dominances=None,
           input_min=None, input_max=None, use_bias=rng.choice([True, False]),
           normalization_order=rng.choice([None, 1, 2, "inf"]), dtype=rng.choice(["float32", "float64"]))
  allinc = mono in ([1] * n, "increasing", 1, tuple([1] * n))
  same01 = allinc or mono in ([1, 1, -1][:n], [-1] * n, ["decreasing"] * n)
  k = rng.random()
  if allinc and k < 0.3:
    c["monotonic_dominances"] = rng.choice([[(0, 1)], [(1, 0)], [(0, 1), (0, 1)], [(0, 1), (1, 2)][:n - 1], [(0, 1), (1, 2), (0, 2)][:2 * n - 3],
                                            [(0, 1), (1, 2), (2, 0)][:n] if n == 3 else [(0, 0)]])
  elif same01 and k < 0.7:
    c["range_dominances"] = [(0, 1)]
    # the dimension 2 (n = 3) is outside the range dominance: empty range (input_min == input_max, the scaling
    # 0 of F-C06-a), missing bounds, mixtures
    c["input_min"] = rng.choice([[0.0] * n, [0.0, -1.0, 0.0][:n], [0.5] * n, [0.0, 0.0, 1.0][:n], [0.0, 0.0, None][:n],
                                 [0.0, -1.0, 2.0][:n]])
    c["input_max"] = rng.choice([[1.0] * n, [2.0, 1.0, 1.0][:n], [0.5, 1.0, 1.0][:n], [1.0, 2.0, 2.0][:n], [1.0, 1.0, None][:n]])
  elif k < 0.9:
    c["input_min"] = rng.choice([[0.0] * n, [0.0] + [None] * (n - 1), [0.0] + ["none"] * (n - 1)])
    c["input_max"] = rng.choice([None, [1.0] * n])
  return c


def _valid_cat(rng):
  nb = rng.choice([2, 3, 4])
  b = rng.choice([(None, None), (0.0, 1.0), (-1.0, 2.0), (None, 1.0), (0.0, None), (0.0, 0.0)])
  pairs = rng.choice([None, [(0, 1)], [[0, 1]], [(0, 1), (1, 2)], [(0, 1), (0, 1)], [(0, 1), (1, 2), (2, 1)], [(0, 1), (2, 3), (3, 2)],
                      [(1, 0)], [(0, 1), (1, 0)], [(0, 1), (0, 2), (1, 3), (2, 3)], [(2, 3), (1, 2), (0, 1)], [(0, 2), (1, 2), (0, 1)],
                      [(3, 2), (2, 1), (1, 0)], [(1, 1)], [(0, 1), (1, 2), (2, 3), (3, 1)],
                      # indices that are not Python ints (ValueError since ab2e39a) / bools (ints: accepted)
                      [(0, 1.0)], [(0, 0.5)], [(1.0, 0)], [(0, 1), (0.0, 1.0)], [(False, True)], [(0, True)]])
  if pairs and max(max(p) for p in pairs) >= nb:
    pairs = [(0, 1)]
  return dict(num_buckets=nb, units=rng.choice([1, 2]), output_min=b[0], output_max=b[1], monotonicities=pairs,
              kernel_initializer=rng.choice(["uniform", "constant", "zeros"]), default_input_value=rng.choice([None, -1]),
              split_outputs=rng.choice([False, True]), dtype=rng.choice(["float32", "float64"]))


def _valid_kfl(rng):
  b = rng.choice([(None, None), (0.0, 1.0), (-1.0, 2.0), (None, 1.0), (0.0, None)])
  return dict(lattice_sizes=rng.choice([2, 3]), units=rng.choice([1, 2]), num_terms=rng.choice([1, 2, 3]),
              monotonicities=rng.choice([None, [0, 0], [1, 0], ["increasing", 1], (1, 1), [1, 1, 0]]),
              output_min=b[0], output_max=b[1], clip_inputs=rng.choice([True, False]), dtype="float32")


def _valid_rtl(rng):
  b = rng.choice([(None, None), (0.0, 1.0), (-1.0, 2.0)])
  par = rng.choice(["all_vertices", "all_vertices", "kronecker_factored"])
  return dict(num_lattices=rng.choice([2, 3]), lattice_rank=2, lattice_size=rng.choice([2, 3]), output_min=b[0], output_max=b[1],
              separate_outputs=rng.choice([False, True]), random_seed=rng.choice([42, 7]),
              interpolation=rng.choice(["hypercube", "simplex"]), parameterization=par,
              kernel_initializer="random_monotonic_initializer",
              kernel_regularizer=None if par != "all_vertices" else rng.choice([None, ("torsion", 0.1, 0.2), [("laplacian", 0.1, 0.0)],
                                                                                ["torsion", 0.1, 0.2]]),
              avoid_intragroup_interaction=rng.choice([True, False]), average_outputs=rng.choice([False, True]), dtype="float32")


def _valid_cdf(rng):
  return dict(num_keypoints=rng.choice([2, 4]), units=rng.choice([1, 2]), activation=rng.choice(["relu6", "sigmoid"]),
              reduction=rng.choice(["mean", "geometric_mean", "none"]), input_scaling_init=rng.choice([None, 2.0]),
              input_scaling_type=rng.choice(["fixed", "learned_shared", "learned_per_input"]),
              input_scaling_monotonicity=rng.choice(["increasing", "none", 1]), sparsity_factor=rng.choice([1, 1, 3]),
              dtype="float32")


VALID.update({"PWLCalibration": _valid_pwl, "Linear": _valid_linear, "CategoricalCalibration": _valid_cat,
              "KroneckerFactoredLattice": _valid_kfl, "RTL": _valid_rtl, "CDF": _valid_cdf})


def gen_cfg(layer, rng):
  """a valid configuration with each argument replaced, with probability 0.12, by an arbitrary
  (mostly hostile) value of its domain; `Lattice` draws from the hostile domain directly and
  `LatticeValid` only from valid ones."""
  if layer not in VALID:
    return GENS[layer](rng)
  c = VALID[layer](rng)
  h = GENS[layer](rng)
  for k in sorted(c):
    if k in h and rng.random() < 0.12:
      c[k] = h[k]
  return c


def make_layer(layer, cfg):
  import tensorflow as tf
  from tensorflow_lattice.python import (lattice_layer as ll, pwl_calibration_layer as pl, linear_layer as lin,
                                         categorical_calibration_layer as cl, kronecker_factored_lattice_layer as kl,
                                         rtl_layer, cdf_layer)
  kw = copy.deepcopy(dict(cfg))   # Keras wraps (and mutates) list-valued attributes in place
  kw["dtype"] = getattr(tf, kw.get("dtype", "float32"))
  if layer in ("Lattice", "LatticeValid"):
    return ll.Lattice(**kw)
  if layer == "PWLCalibration":
    if isinstance(kw["input_keypoints"], str):
      kw["input_keypoints"] = np.array([0.0, 1.0, 2.5])
    return pl.PWLCalibration(**kw)
  if layer == "Linear":
    if kw.get("normalization_order") in ("inf", "-inf"):
      kw["normalization_order"] = np.inf if kw["normalization_order"] == "inf" else -np.inf
    return lin.Linear(**kw)
  if layer == "CategoricalCalibration":
    return cl.CategoricalCalibration(**kw)
  if layer == "KroneckerFactoredLattice":
    return kl.KroneckerFactoredLattice(**kw)
  if layer == "RTL":
    return rtl_layer.RTL(**kw)
  if layer == "CDF":
    return cdf_layer.CDF(**kw)
  raise KeyError(layer)


def layer_inputs(layer, cfg, rs, dtype):
  import tensorflow as tf
  units = cfg.get("units", 1)
  if _bad_units(cfg):
    units = 1       # a layer whose `units` is not a positive int is fed the single-unit shape
  def _int(v, least):
    return max(least, v) if isinstance(v, int) else least
  def shp(n):
    return (4, n) if units == 1 else (4, units, n)
  if layer in ("Lattice", "LatticeValid"):
    sizes = list(cfg["lattice_sizes"])
    x = rs.uniform(-0.25, 1.25, size=shp(len(sizes))) * (np.array(sizes) - 1)
    return tf.constant(x, dtype=dtype)
  if layer == "PWLCalibration":
    x = rs.uniform(-1.0, 4.5, size=(4, 1) if units == 1 or rs.rand() < 0.3 else (4, units))
    if cfg.get("impute_missing") and cfg.get("missing_input_value") is not None:
      x.flat[0] = cfg["missing_input_value"]
    return tf.constant(x, dtype=dtype)
  if layer == "Linear":
    return tf.constant(rs.uniform(-0.5, 1.5, size=shp(cfg["num_input_dims"])), dtype=dtype)
  if layer == "CategoricalCalibration":
    nb = max(1, cfg["num_buckets"])
    x = rs.randint(0, nb, size=(4, 1) if units == 1 else (4, units))
    if cfg.get("default_input_value") is not None:
      x.flat[0] = cfg["default_input_value"]
    return tf.constant(x)
  if layer == "KroneckerFactoredLattice":
    dims = len(cfg["monotonicities"]) if cfg.get("monotonicities") else 2
    return tf.constant(rs.uniform(-0.25, 1.25, size=shp(dims)) * (_int(cfg["lattice_sizes"], 2) - 1), dtype=dtype)
  if layer == "RTL":
    s = max(2, cfg["lattice_size"]) - 1
    return {"unconstrained": tf.constant(rs.uniform(0, s, size=(4, 2)), dtype=dtype),
            "increasing": tf.constant(rs.uniform(0, s, size=(4, 2)), dtype=dtype)}
  if layer == "CDF":
    return tf.constant(rs.uniform(-0.5, 1.5, size=shp(3)), dtype=dtype)
  raise KeyError(layer)


def _finite(ts):
  return all(np.isfinite(np.asarray(t)).all() for t in ts)


def exercise(layer, cfg, seed):
  """Runs ctor -> build/first call -> hostile weights -> projection / finalisation -> regularisers ->
  evaluation on the REAL layer. Returns (stage, exception or None, detail dict)."""
  import tensorflow as tf
  rs = np.random.RandomState(seed)
  dt = getattr(tf, cfg.get("dtype", "float32"))
  info = {}
  try:
    L = make_layer(layer, cfg)
  except Exception as e:  # pylint: disable=broad-except
    return "ctor", e, info
  info["layer_obj"] = L
  try:
    x = layer_inputs(layer, cfg, rs, dt)
    y0 = L(x)
  except Exception as e:  # pylint: disable=broad-except
    return "build", e, info
  info["built"] = True
  outs = list(tf.nest.flatten(y0))
  moved = False
  try:
    for w in L.trainable_weights:
      hostile = rs.uniform(-6.0, 6.0, size=w.shape)
      if rs.rand() < 0.3:
        hostile = np.round(hostile)
      w.assign(tf.constant(hostile, dtype=w.dtype))
    for w in L.trainable_weights:
      if getattr(w, "constraint", None) is not None:
        before = w.numpy()
        w.assign(w.constraint(w))
        moved = moved or bool(np.any(w.numpy() != before))
    if hasattr(L, "finalize_constraints"):
      L.finalize_constraints()
  except Exception as e:  # pylint: disable=broad-except
    return "project", e, info
  info["moved"] = moved
  try:
    regs = []
    kr = getattr(L, "kernel_regularizer", None)
    if isinstance(kr, (list, tuple)) and hasattr(L, "kernel"):
      regs = [r(L.kernel) for r in kr if callable(r)]
  except Exception as e:  # pylint: disable=broad-except
    return "regularizer", e, info
  try:
    y1 = L(x)
    outs += list(tf.nest.flatten(y1))
    info["post"] = [o.numpy() for o in tf.nest.flatten(y1)] + [w.numpy() for w in L.weights]
  except Exception as e:  # pylint: disable=broad-except
    return "eval", e, info
  vals = [o.numpy() for o in outs] + [w.numpy() for w in L.weights] + [np.asarray(r) for r in regs]
  info["outputs"] = vals
  if not _finite(vals):
    return "nonfinite", None, info
  return "ok", None, info


def check_layer(ctx, layer, cfg, seed, lines=None, pend=None):
  import tensorflow as tf
  stage, e, info = exercise(layer, cfg, seed)
  name = "Lattice" if layer == "LatticeValid" else layer
  exc = type(e).__name__ if e is not None else ""
  msg = exc_msg(e)
  is_ve = isinstance(e, ValueError) and not isinstance(e, tf.errors.OpError)
  cls = "%s:%s:%s" % (name, stage, exc or "-")
  ctx.count("layer:" + cls)
  sig = (name, stage, exc, cfg.get("dtype"), cfg.get("units"), str(cfg.get("interpolation", cfg.get("convexity", ""))),
         bool(info.get("moved")))
  ctx.case(sig=sig, nontrivial=stage != "ok" or bool(info.get("moved")),
           sample=dict(layer=name, cfg=repr(cfg), stage=stage, exc=exc))
  if stage in ("ctor", "build"):
    if not is_ve:
      fail(ctx, name, stage, exc, cfg, msg)
  elif stage == "nonfinite":
    fail(ctx, name, stage, "nonfinite", cfg, "non-finite weights / outputs / regulariser value")
  elif stage != "ok":
    fail(ctx, name, stage, exc, cfg, msg)
  # composition cross-check: build outcome vs the model of the constraints class built from the stored attributes
  L = info.get("layer_obj")
  if lines is not None and L is not None and stage != "ctor":
    real = "accept" if stage not in ("build",) else TA.classify(e)
    line = None
    if name == "Lattice":
      c = dict(lattice_sizes=list(L.lattice_sizes), monotonicities=L.monotonicities, unimodalities=L.unimodalities,
               edgeworth_trusts=L.edgeworth_trusts, trapezoid_trusts=L.trapezoid_trusts,
               monotonic_dominances=L.monotonic_dominances, range_dominances=L.range_dominances,
               joint_monotonicities=L.joint_monotonicities, joint_unimodalities=None,
               output_min=L.output_min, output_max=L.output_max, num_projection_iterations=L.num_projection_iterations)
      ju = L.joint_unimodalities
      if ju is None or _ju_typed(ju) is not None:
        c["joint_unimodalities"] = _ju_typed(ju) if ju is not None else None
        spec = [s for s in TA.specs() if s.name == "LatticeConstraints"][0]
        try:
          line = "vfy.LatticeConstraints " + " ".join(spec.enc(c, "wire"))
        except TypeError:
          line = None
    elif name == "CategoricalCalibration":
      if L.output_min is not None or L.output_max is not None or L.monotonicities:
        spec = [s for s in TA.specs() if s.name == "CategoricalCalibrationConstraints"][0]
        c = dict(output_min=L.output_min, output_max=L.output_max, monotonicities=L.monotonicities)
        try:
          line = "vfy.CategoricalCalibrationConstraints " + " ".join(spec.enc(c, "wire"))
        except TypeError:
          line = None
    if line is not None:
      lines.append(line)
      pend.append((name, cfg, real, exc, msg))
  # composition `Lattice.__init__` + `build` = constructor model, then LatticeConstraints of the WRAPPED arguments
  # (Tfl.Verify.latticeBuild, from the RAW constructor arguments — not from the attributes of the real object)
  if lines is not None and name == "Lattice":
    bl = lattice_build_line(cfg)
    if bl is not None:
      lines.append(bl)
      pend.append(("LatticeBuild", cfg, "accept" if stage not in ("ctor", "build") else TA.classify(e), exc, msg))
  return stage, info


_KINIT_TOK = {"random_uniform_or_linear_initializer": "other", "linear_initializer": "linear_initializer",
              "random_monotonic_initializer": "random_monotonic_initializer", "zeros": "uniform"}


def lattice_build_line(cfg):
  """`vfy.LatticeBuild` op of a generated Lattice configuration, or None when the configuration uses something the
  model `latticeBuild` does not describe (custom regularisers; a `units` that is not a positive int: F-C16-af)."""
  if cfg.get("kernel_regularizer") is not None or _bad_units(cfg):
    return None
  ju = cfg.get("joint_unimodalities")
  if ju is None:
    jt = None
  elif isinstance(ju, list):
    jt = ("list", [(list(p[0]), p[1]) for p in ju])
  elif isinstance(ju, tuple) and len(ju) == 2:
    jt = ("single", list(ju[0]), ju[1])
  else:
    return None
  c = dict(lattice_sizes=cfg["lattice_sizes"], monotonicities=cfg["monotonicities"], unimodalities=cfg["unimodalities"],
           joint_unimodalities=jt, output_min=cfg["output_min"], output_max=cfg["output_max"],
           interpolation=cfg["interpolation"], kernel_initializer=_KINIT_TOK[cfg["kernel_initializer"]],
           units=cfg["units"], num_projection_iterations=cfg["num_projection_iterations"],
           edgeworth_trusts=cfg["edgeworth_trusts"], trapezoid_trusts=cfg["trapezoid_trusts"],
           monotonic_dominances=cfg["monotonic_dominances"], range_dominances=cfg["range_dominances"],
           joint_monotonicities=cfg["joint_monotonicities"])
  spec = [s for s in TA.specs() if s.name == "Lattice"][0]
  try:
    return "vfy.LatticeBuild " + " ".join(spec.enc(c, "wire"))
  except TypeError:
    return None


def _ju_typed(ju):
  try:
    if isinstance(ju, list):
      return ("list", [(list(p[0]), p[1]) for p in ju])
  except Exception:  # pylint: disable=broad-except
    return None
  return None


def run_layers(ctx):
  lines, pend = [], []
  budget = {"Lattice": (150, 1500), "LatticeValid": (120, 1200), "PWLCalibration": (250, 2500), "Linear": (250, 2500),
            "CategoricalCalibration": (200, 2000), "KroneckerFactoredLattice": (100, 1000), "RTL": (40, 300), "CDF": (40, 300)}
  for layer in sorted(GENS):
    for _ in range(ctx.n(*budget[layer])):
      cfg = gen_cfg(layer, ctx.rng)
      check_layer(ctx, layer, cfg, ctx.rng.randrange(10 ** 6), lines, pend)
  replies = run_driver(lines)
  for (name, cfg, real, exc, msg), rep, line in zip(pend, replies, lines):
    case = dict(stream="build", layer=name, cfg=repr(cfg))
    if rep == str(TA.OUTCOMES.index(real)):
      ctx.agree("build." + name)
    else:
      # a build that fails for a reason outside the constraints class (shapes, initialisers) is not a disagreement
      # (the constructor + build model `LatticeBuild` is compared strictly)
      if real != "accept" and rep == "0" and name != "LatticeBuild":
        ctx.count("build:%s:rejected_outside_constraints" % name)
        ctx.agree("build." + name)
      else:
        ctx.disagree("build." + name, case, "%s (%s: %s)" % (real, exc, msg), rep, line)


# ------------------------------------------------------------------ stream C1b: the first projection's use of normalization_order
def run_norm_late(ctx):
  """REAL `LinearConstraints(normalization_order=n)(w)` (constructor, then the first projection) vs the model
  `Tfl.Verify.normLate` (the guard of `tf.norm`); oracle: an ACCEPTED order whose projection raises (F-C16-ah)."""
  import tensorflow as tf
  from tensorflow_lattice.python import linear_layer as lin
  orders = list(TA.NORM) + [("val", 0.5), ("val", 7), ("val", -2.5), ("val", "inf"), ("val", (2,)), ("val", True)]
  lines, pend = [], []
  for n in orders:
    mono = ctx.rng.choice([[1, 0], [1, 1, -1], [0, 0]])
    w = tf.constant(np.asarray([[ctx.rng.randint(-8, 8) / 4.0] for _ in mono]), dtype=tf.float64)
    cfg = dict(monotonicities=mono, normalization_order=n)
    try:
      c = lin.LinearConstraints(monotonicities=mono, normalization_order=TA.no_py(n))
    except Exception as e:  # pylint: disable=broad-except
      ctx.count("norm_late:ctor:" + type(e).__name__)
      if not (isinstance(e, ValueError) and not isinstance(e, tf.errors.OpError)):
        fail(ctx, "LinearConstraints", "ctor", type(e).__name__, cfg, exc_msg(e), extra="norm_late")
      continue
    try:
      out = c(w).numpy()
      real, exc, msg = "accept", "", ""
    except Exception as e:  # pylint: disable=broad-except
      real, exc, msg = TA.classify(e), type(e).__name__, exc_msg(e)
      out = None
    ctx.count("norm_late:%s:%s" % (n[0] if n[0] != "val" else type(n[1]).__name__, real))
    ctx.case(sig=("norm_late", repr(n), real), nontrivial=real != "accept" or bool(TA.no_py(n)),
             sample=dict(stream="norm_late", layer="LinearConstraints", cfg=repr(cfg), outcome=real))
    lines.append("vfy.norm_late " + TA.no_wire(n))
    pend.append((cfg, real, exc, msg))
    if real != "accept":
      fail(ctx, "LinearConstraints", "project", exc, cfg, msg, extra="norm_late")
    elif not np.all(np.isfinite(out)):
      fail(ctx, "LinearConstraints", "nonfinite", "nonfinite", cfg, "non-finite projected weights", extra="norm_late")
  for (cfg, real, exc, msg), rep, line in zip(pend, run_driver(lines), lines):
    if rep == str(TA.OUTCOMES.index(real)):
      ctx.agree("late.normalization_order")
    else:
      ctx.disagree("late.normalization_order", dict(stream="norm_late", layer="LinearConstraints", cfg=repr(cfg)),
                   "%s (%s: %s)" % (real, exc, msg), rep, line)


# ------------------------------------------------------------------ stream C2: lattice regularisers called directly
def run_regularizers(ctx):
  import tensorflow as tf
  from tensorflow_lattice.python import lattice_layer as ll
  rs = np.random.RandomState(ctx.seed)
  for sizes in ([2, 2], [3, 2], (2, 2), [2, 3, 2]):
    n = len(sizes)
    amounts = [0.1, [0.1] * n, tuple([0.2] * n), [0.1] * (n - 1), [0.1] * (n + 1), 0.0, None, [0.0] * n]
    for units in (1, 2):
      for name in ("TorsionRegularizer", "LaplacianRegularizer"):
        for l1 in amounts:
          for l2 in (0.0, 0.3, [0.1] * n, [0.1] * (n - 1)):
            cfg = dict(lattice_sizes=sizes, l1=l1, l2=l2, units=units)
            ctx.case(sig=("reg", name, n, units, repr(l1), repr(l2)), sample=dict(layer=name, cfg=repr(cfg)))
            check_regularizer(ctx, name, cfg, rs)


def check_regularizer(ctx, name, cfg, rs):
  import tensorflow as tf
  from tensorflow_lattice.python import lattice_layer as ll
  kw = copy.deepcopy({k: v for k, v in cfg.items() if k != "units"})
  try:
    r = getattr(ll, name)(**kw)
  except Exception as e:  # pylint: disable=broad-except
    ctx.count("reg:%s:ctor:%s" % (name, type(e).__name__))
    if not isinstance(e, ValueError):
      fail(ctx, name, "ctor", type(e).__name__, cfg, exc_msg(e), extra="regularizer")
    return
  w = tf.constant(rs.uniform(-3, 3, size=(int(np.prod(cfg["lattice_sizes"])), cfg["units"])))
  try:
    v = float(r(w))
  except Exception as e:  # pylint: disable=broad-except
    ctx.count("reg:%s:call:%s" % (name, type(e).__name__))
    fail(ctx, name, "regularizer", type(e).__name__, cfg, exc_msg(e), extra="regularizer")
    return
  ctx.count("reg:%s:ok" % name)
  if not np.isfinite(v):
    fail(ctx, name, "nonfinite", "nonfinite", cfg, "non-finite regulariser value", extra="regularizer")


# ------------------------------------------------------------------ stream D: synonyms on the real layers
def syn_pairs(rng):
  """(layer, cfg spelled with strings / single tuples, cfg spelled with ints / lists)"""
  out = []
  base = dict(lattice_sizes=[3, 2, 3], units=rng.choice([1, 2]), output_min=0.0, output_max=1.0,
              interpolation=rng.choice(["hypercube", "simplex"]), kernel_initializer="linear_initializer", dtype="float64")
  out.append(("Lattice", dict(base, monotonicities=["increasing", "increasing", "none"], edgeworth_trusts=(0, 1, "positive")),
              dict(base, monotonicities=[1, 1, 0], edgeworth_trusts=[(0, 1, 1)])))
  out.append(("Lattice", dict(base, monotonicities=("increasing", 1, 0), trapezoid_trusts=(0, 1, "negative")),
              dict(base, monotonicities=[1, 1, 0], trapezoid_trusts=[(0, 1, -1)])))
  out.append(("Lattice", dict(base, monotonicities=["increasing", "increasing", "none"], monotonic_dominances=(0, 1)),
              dict(base, monotonicities=[1, 1, 0], monotonic_dominances=[(0, 1)])))
  out.append(("Lattice", dict(base, monotonicities=[0, "none", 0], unimodalities=["valley", "none", "peak"]),
              dict(base, monotonicities=None, unimodalities=[1, 0, -1])))
  pb = dict(input_keypoints=[0.0, 1.0, 3.0], units=rng.choice([1, 2]), output_min=0.0, output_max=2.0, dtype="float64")
  out.append(("PWLCalibration", dict(pb, monotonicity="increasing", convexity="convex"), dict(pb, monotonicity=1, convexity=1)))
  out.append(("PWLCalibration", dict(pb, monotonicity="decreasing", convexity="concave"), dict(pb, monotonicity=-1, convexity=-1)))
  out.append(("PWLCalibration", dict(pb, monotonicity="none", convexity="none"), dict(pb, monotonicity=0, convexity=0)))
  lb = dict(num_input_dims=3, units=rng.choice([1, 2]), normalization_order=1, dtype="float64")
  out.append(("Linear", dict(lb, monotonicities="increasing"), dict(lb, monotonicities=[1, 1, 1])))
  out.append(("Linear", dict(lb, monotonicities=["increasing", "none", "decreasing"]), dict(lb, monotonicities=[1, 0, -1])))
  out.append(("Linear", dict(lb, monotonicities=("decreasing",) * 3, input_min=[0.0, "none", None]),
              dict(lb, monotonicities=[-1, -1, -1], input_min=[0.0, None, None])))
  kb = dict(lattice_sizes=3, units=1, num_terms=2, dtype="float32")
  out.append(("KroneckerFactoredLattice", dict(kb, monotonicities=["increasing", "none"]), dict(kb, monotonicities=[1, 0])))
  out.append(("KroneckerFactoredLattice", dict(kb, monotonicities=("none", "increasing", "increasing"), output_min=0.0, output_max=1.0),
              dict(kb, monotonicities=[0, 1, 1], output_min=0.0, output_max=1.0)))
  # categorical pairs: tuples / lists (verifyCategorical_syn), bools are the ints they equal
  cb = dict(num_buckets=4, units=rng.choice([1, 2]), output_min=0.0, output_max=1.0, kernel_initializer="zeros", dtype="float64")
  out.append(("CategoricalCalibration", dict(cb, monotonicities=[(0, 1), (1, 3), (0, 2)]), dict(cb, monotonicities=[[0, 1], [1, 3], [0, 2]])))
  out.append(("CategoricalCalibration", dict(cb, monotonicities=[(False, True), (1, 2)]), dict(cb, monotonicities=[[0, 1], (1, 2)])))
  # RTL: one custom regulariser as a flat list / a list holding the tuple / a list holding the list (rtlLayer_syn)
  rb = dict(num_lattices=2, lattice_rank=2, lattice_size=2, random_seed=rng.choice([3, 42]), kernel_initializer="linear_initializer",
            dtype="float32")
  out.append(("RTL", dict(rb, kernel_regularizer=["torsion", 0.1, 0.2]), dict(rb, kernel_regularizer=[("torsion", 0.1, 0.2)])))
  out.append(("RTL", dict(rb, kernel_regularizer=[["laplacian", 0.1, 0.0]]), dict(rb, kernel_regularizer=[("laplacian", 0.1, 0.0)])))
  return out


def syn_pairs_invalid(rng):
  """INVALID configurations spelled with strings / tuples and with ints / lists: synonymous spellings must meet the
  same fate (rejected at the same stage) - a spelling-dependent acceptance is a violation of the synonym clause."""
  out = []
  lb = dict(lattice_sizes=[rng.choice([2, 3]), 3], units=rng.choice([1, 2]), dtype="float64")
  out.append(("Lattice", dict(lb, monotonicities=["decreasing", "none"]), dict(lb, monotonicities=[-1, 0])))
  out.append(("Lattice", dict(lb, monotonicities=("decreasing", "decreasing")), dict(lb, monotonicities=(-1, -1))))
  out.append(("Lattice", dict(lb, monotonicities=["decreasing", "increasing"]), dict(lb, monotonicities=[-1, 1])))
  l3 = dict(lattice_sizes=[3, 3], units=1, dtype="float64")
  out.append(("Lattice", dict(l3, monotonicities=["increasing", "none"], unimodalities=["valley", "none"]),
              dict(l3, monotonicities=[1, 0], unimodalities=[1, 0])))
  out.append(("Lattice", dict(l3, monotonicities=["none", "increasing"], edgeworth_trusts=(0, 1, "positive")),
              dict(l3, monotonicities=[0, 1], edgeworth_trusts=[(0, 1, 1)])))
  kb = dict(lattice_sizes=3, units=1, num_terms=2, dtype="float32")
  out.append(("KroneckerFactoredLattice", dict(kb, monotonicities=["decreasing", "none"]), dict(kb, monotonicities=[-1, 0])))
  out.append(("KroneckerFactoredLattice", dict(kb, monotonicities=("decreasing", "increasing")),
              dict(kb, monotonicities=(-1, 1))))
  pb = dict(input_keypoints=[0.0, 1.0, 3.0], is_cyclic=True, dtype="float64")
  out.append(("PWLCalibration", dict(pb, monotonicity="increasing"), dict(pb, monotonicity=1)))
  out.append(("PWLCalibration", dict(pb, convexity="concave"), dict(pb, convexity=-1)))
  return out


def check_synonym(ctx, layer, ca, cb, seed, invalid=False):
  sa, ea, ia = exercise(layer, ca, seed)
  sb, eb, ib = exercise(layer, cb, seed)
  if invalid:
    ctx.case(sig=("syn-invalid", layer, repr(ca)), sample=dict(layer=layer, a=repr(ca), b=repr(cb), stage=sa))
    ctx.count("synonym-invalid:%s:%s" % (layer, sa))
    if sa != sb or sa == "ok":
      ctx.fail("synonyms", dict(layer=layer, stage="synonym", exc="", pred="synonym_invalid_spelling"),
               dict(stream="synonym_invalid", layer=layer, cfg=repr(ca), cfg_b=repr(cb), seed=seed),
               dict(stage_a=sa, stage_b=sb), "an invalid configuration is treated differently depending on its spelling")
    return
  ctx.case(sig=("syn", layer, repr(ca)), sample=dict(layer=layer, a=repr(ca), b=repr(cb)))
  ctx.count("synonym:%s:%s" % (layer, sa))
  key = dict(layer=layer, stage="synonym", exc="", pred="synonym")
  case = dict(stream="synonym", layer=layer, cfg=repr(ca), cfg_b=repr(cb), seed=seed)
  if sa != sb:
    ctx.fail("synonyms", key, case, dict(stage_a=sa, stage_b=sb))
    return
  if sa != "ok":
    ctx.fail("synonyms", dict(key, pred="synonym_pair_not_accepted"), case, dict(stage_a=sa, exc=exc_msg(ea)))
    return
  for u, v in zip(ia["post"], ib["post"]):
    if u.shape != v.shape or not np.array_equal(u, v):
      ctx.fail("synonyms", key, case, dict(a=u, b=v), "outputs / weights differ between synonymous spellings")
      return


def run_must_reject(ctx):
  """The invalid combinations the property NAMES must be rejected with ValueError at construction /
  build: lattice size < 2, a dimension both monotone and unimodal, trust on a non-monotone main
  feature, a feature used as main and conditional (also within ONE trust), dominance between
  non-monotone features, output_min > output_max, unsorted keypoints, cyclic together with
  monotonicity, categorical bucket indices that are not integers (fix ab2e39a), circular categorical
  monotonicity pairs (cycle detection in the categorical partial
  order is an anchored mechanism of the property: a 2-cycle, a self pair, a k-cycle in any rotation, a
  cycle behind a root or in front of a tail, with repeated pairs), and the configurations whose late
  failure was repaired by f7753e0 / f995047 / 4a8f232 / 18dd711 (a dominance or joint monotonicity naming one dimension twice): a joint unimodality with a dimension outside the
  lattice or with repeated dimensions, Linear input bounds of the wrong length or crossed on a layer
  without any constraint; by 2ef7ec2 / 1f0b06a / 93797fc / 76984f9 / e215d06 / b6fcc7a: circular Linear dominance sets,
  a range dominance on features with monotonicity None, empty lattice_sizes, num_buckets < 1, non-positive list
  lengths of PWLCalibrationConstraints, and premade configs with an empty feature list / an empty lattice in an
  explicit ensemble / an empty output_initialization. Acceptance (or another exception class) is an oracle failure."""
  import tensorflow_lattice as tfl
  from tensorflow_lattice.python import lattice_layer, pwl_calibration_layer, linear_layer
  from tensorflow_lattice.python import categorical_calibration_layer as ccl
  rng = ctx.rng
  cases = []
  for _ in range(ctx.n(6, 60)):
    rank = rng.randint(2, 4)
    sizes = [rng.randint(2, 4) for _ in range(rank)]
    d = rng.randrange(rank)
    e = (d + 1 + rng.randrange(rank - 1)) % rank
    mono = [1] * rank
    direction = rng.choice([1, -1, "positive", "negative"])
    trust_kind = rng.choice(["edgeworth_trusts", "trapezoid_trusts"])
    def lat(**kw):
      base = dict(lattice_sizes=list(sizes), monotonicities=list(mono))
      base.update(kw)
      return base
    bad_sizes = list(sizes); bad_sizes[d] = rng.choice([0, 1])
    uni = [0] * rank; uni[d] = rng.choice([1, -1, "valley", "peak"])
    sizes3 = [max(3, x) for x in sizes]
    mono_free = list(mono); mono_free[d] = 0
    other = [(e, (e + 1) % rank if (e + 1) % rank != d else (e + 2) % rank, 1)] if rank >= 3 else []
    other = [t for t in other if t[0] != t[1]]
    cases += [
        ("Lattice", "size<2", lat(lattice_sizes=bad_sizes)),
        ("Lattice", "monotone+unimodal", lat(lattice_sizes=sizes3, unimodalities=uni)),
        ("Lattice", "trust-on-free-main", lat(monotonicities=mono_free, **{trust_kind: [(d, e, direction)]})),
        ("Lattice", "self-trust", lat(**{trust_kind: [(d, d, direction)]})),
        ("Lattice", "self-trust-after-other", lat(**{trust_kind: other + [(d, d, direction)]})),
        ("Lattice", "main-and-conditional", lat(**{trust_kind: [(d, e, direction), (e, d, direction)]})),
        ("Lattice", "dominance-free-feature", lat(monotonicities=mono_free, monotonic_dominances=[(d, e)])),
        ("Lattice", "range-dominance-free-feature", lat(monotonicities=mono_free, range_dominances=[(e, d)])),
        ("Lattice", "min>max", lat(output_min=1.0, output_max=rng.choice([0.0, 0.5]))),
        # fix 18dd711: a dominance / joint monotonicity naming one dimension twice
        ("Lattice", "dominance-same-dimension", lat(**{rng.choice(["monotonic_dominances", "range_dominances",
                                                                   "joint_monotonicities"]): [(d, d)]})),
        ("LatticeConstraints", "dominance-same-dimension",
         lat(**{rng.choice(["monotonic_dominances", "range_dominances", "joint_monotonicities"]): [(d, e), (e, e)]})),
        ("LatticeConstraints", "self-trust", lat(**{trust_kind: [(d, d, direction)]})),
        ("LatticeConstraints", "monotone+unimodal", lat(lattice_sizes=sizes3, unimodalities=uni)),
    ]
    kps = sorted({rng.randint(-5, 5) + 0.5 * rng.randint(0, 1) for _ in range(rng.randint(3, 6))})
    if len(kps) >= 3:
      unsorted = list(kps); unsorted[0], unsorted[-1] = unsorted[-1], unsorted[0]
      dup = list(kps); dup[1] = dup[0]
      cases += [
          ("PWLCalibration", "unsorted-keypoints", dict(input_keypoints=unsorted)),
          ("PWLCalibration", "repeated-keypoint", dict(input_keypoints=dup)),
          ("PWLCalibration", "repeated-keypoint-learned", dict(input_keypoints=dup, input_keypoints_type="learned_interior")),
          ("PWLCalibration", "unsorted-keypoints-learned", dict(input_keypoints=unsorted, input_keypoints_type="learned_interior")),
          ("PWLCalibration", "cyclic+monotone", dict(input_keypoints=list(kps), is_cyclic=True,
                                                     monotonicity=rng.choice([1, -1, "increasing", "decreasing"]))),
          ("PWLCalibration", "min>max", dict(input_keypoints=list(kps), output_min=2.0, output_max=1.0)),
      ]
    n = rng.randint(2, 4)
    short = rng.choice([n - 1, n + 1, n + 2])
    cases += [
        ("Linear", "dominance-free-feature", dict(num_input_dims=n, monotonicities=[0] * n, monotonic_dominances=[(0, 1)])),
        ("CategoricalCalibration", "min>max", dict(num_buckets=3, output_min=1.0, output_max=0.0)),
        ("Linear", "unconstrained-bounds-wrong-length",
         dict(num_input_dims=n, **{rng.choice(["input_min", "input_max"]): [0.5] * short})),
        ("Linear", "unconstrained-bounds-crossed", dict(num_input_dims=n, input_min=[1.0] * n, input_max=[1.0] * (n - 1) + [0.0])),
    ]
    # circular categorical monotonicity pairs
    nb = rng.randint(2, 6)
    k = rng.randint(1, nb)                       # cycle length (1 = a self pair)
    verts = rng.sample(range(nb), k)
    cyc = [(verts[i], verts[(i + 1) % k]) for i in range(k)]
    rest = [v for v in range(nb) if v not in verts]
    extra = []
    for v in rest:                               # roots in front of the cycle / tails behind it / unrelated chains
      kind = rng.randrange(3)
      if kind == 0:
        extra.append((v, rng.choice(verts)))
      elif kind == 1:
        extra.append((rng.choice(verts), v))
    pairs = cyc + extra
    if rng.random() < 0.3:
      pairs = pairs + [rng.choice(pairs)]        # a repeated pair
    rng.shuffle(pairs)
    if rng.random() < 0.3:
      pairs = [list(p) for p in pairs]
    bounds = rng.choice([{}, dict(output_min=0.0, output_max=1.0), dict(output_min=-1.0)])
    cases += [
        ("CategoricalCalibration", "circular-pairs", dict(num_buckets=nb, monotonicities=pairs, **bounds)),
        ("CategoricalCalibrationConstraints", "circular-pairs", dict(monotonicities=list(pairs), **bounds)),
        ("CategoricalCalibration", "circular-pairs-behind-root", dict(num_buckets=4, monotonicities=[(0, 1), (1, 2), (2, 1)])),
        ("CategoricalCalibration", "self-pair", dict(num_buckets=nb, monotonicities=[(0, 1)] * rng.randint(0, 1) + [(nb - 1, nb - 1)])),
    ]
    # bucket indices that are not integers (fix ab2e39a): integral and non-integral floats, in either position,
    # after valid pairs, None
    bad = rng.choice([float(rng.randrange(nb)), rng.randrange(nb) + 0.5, rng.randrange(nb) / 4.0 + 0.25, None])
    other = rng.randrange(nb)
    if isinstance(bad, float) and bad == other:
      other = (other + 1) % nb
    badpair = (bad, other) if rng.random() < 0.5 else (other, bad)
    chain = [(i, i + 1) for i in range(rng.randint(0, nb - 2))]
    cases += [
        ("CategoricalCalibration", "non-integer-bucket-index", dict(num_buckets=nb + 1, monotonicities=chain + [badpair])),
        ("CategoricalCalibrationConstraints", "non-integer-bucket-index", dict(monotonicities=[badpair] + chain)),
    ]
    # joint unimodalities whose late failure was repaired
    ju_rank = rng.randint(1, 3)
    ju_sizes = [3] * ju_rank
    bad_dim = rng.choice([ju_rank, ju_rank + 5, -1])
    good = [([d], "peak") for d in range(ju_rank - 1)]
    rep = rng.randrange(ju_rank)
    cases += [
        ("Lattice", "joint-unimodality-dim-out-of-range",
         dict(lattice_sizes=ju_sizes, joint_unimodalities=good + [([bad_dim], rng.choice(["peak", "valley"]))],
              kernel_initializer=rng.choice(["random_uniform_or_linear_initializer", "linear_initializer", "zeros"]))),
        ("LatticeConstraints", "joint-unimodality-dim-out-of-range",
         dict(lattice_sizes=ju_sizes, joint_unimodalities=[([bad_dim], "valley")])),
        ("Lattice", "joint-unimodality-repeated-dims", dict(lattice_sizes=ju_sizes, joint_unimodalities=[([rep, rep], "peak")])),
        ("LatticeConstraints", "joint-unimodality-repeated-dims",
         dict(lattice_sizes=ju_sizes, joint_unimodalities=good + [(list(range(ju_rank)) + [rep], "valley")])),
    ]
    # ---- configurations whose late failure was repaired by 2ef7ec2 / 1f0b06a / 93797fc / 76984f9 / e215d06 / b6fcc7a
    ln = rng.randint(3, 5)
    lk = rng.randint(3, ln)
    lverts = rng.sample(range(ln), lk)
    lcyc = [(lverts[i], lverts[(i + 1) % lk]) for i in range(lk)]
    if rng.random() < 0.4:
      rest = [v for v in range(ln) if v not in lverts]
      lcyc += [(v, rng.choice(lverts)) for v in rest]          # roots in front of the cycle
    rng.shuffle(lcyc)
    lself = [(i, i + 1) for i in range(rng.randint(0, ln - 2))] + [(ln - 1, ln - 1)]
    lsign = rng.choice([1, -1])
    lb = dict(input_min=[0.0] * ln, input_max=[float(rng.randint(1, 4))] * ln)
    nonemono = [None] * ln if rng.random() < 0.5 else [None, None] + [rng.choice([0, 1])] * (ln - 2)
    nk = rng.randint(2, 5)
    badlen = [rng.choice([0.5, 1.0, 2.0]) for _ in range(nk)]
    for i in rng.sample(range(nk), rng.randint(1, nk)):
      badlen[i] = rng.choice([0.0, 0.0, -1.0])
    cases += [
        ("LinearConstraints", "circular-linear-dominances", dict(monotonicities=[1] * ln, monotonic_dominances=lcyc)),
        ("LinearConstraints", "circular-linear-dominances", dict(monotonicities=[lsign] * ln, range_dominances=lcyc, **lb)),
        ("Linear", "circular-linear-dominances", dict(num_input_dims=ln, monotonicities=[1] * ln,
                                                      **{rng.choice(["monotonic_dominances", "range_dominances"]): lself}, **lb)),
        ("LinearConstraints", "range-dominance-on-None-monotonicity",
         dict(monotonicities=nonemono, range_dominances=[(0, 1)], **lb)),
        ("Linear", "range-dominance-on-None-monotonicity",
         dict(num_input_dims=ln, monotonicities=[None] * ln, range_dominances=[(1, 0)], **lb)),
        ("Lattice", "empty-lattice-sizes", dict(lattice_sizes=rng.choice([[], ()]),
                                                kernel_initializer=rng.choice(["zeros", "random_uniform_or_linear_initializer"]))),
        ("LatticeConstraints", "empty-lattice-sizes", dict(lattice_sizes=[])),
        ("LinearInitializer", "empty-lattice-sizes", dict(lattice_sizes=[], monotonicities=None, output_min=0.0, output_max=1.0)),
        ("TorsionRegularizer", "empty-lattice-sizes", dict(lattice_sizes=(), l1=0.1)),
        ("CategoricalCalibration", "zero-buckets", dict(num_buckets=rng.choice([0, 0, -1]),
                                                       **rng.choice([{}, dict(output_min=1.0, output_max=2.0)]))),
        ("PWLCalibrationConstraints", "non-positive-lengths",
         dict(monotonicity=rng.choice([0, 1, -1]), convexity=rng.choice([1, -1, 0]), lengths=badlen)),
        ("Premade", "empty-feature-configs", dict(kind=rng.choice(["lattice", "linear", "ensemble"]), features=0)),
        ("Premade", "empty-lattice-in-ensemble", dict(kind="ensemble", features=2,
                                                      lattices=rng.choice([[["f0", "f1"], []], [[], ["f0", "f1"], ["f1", "f0"]]]))),
        ("Premade", "empty-output-initialization", dict(kind=rng.choice(["lattice", "linear", "ensemble"]), features=2,
                                                        output_initialization=[])),
    ]

  def premade(kind, features, lattices="random", output_initialization=(0.0, 1.0)):
    fcs = [tfl.configs.FeatureConfig("f%d" % i, pwl_calibration_input_keypoints=[0.0, 0.5, 1.0]) for i in range(features)]
    oi = list(output_initialization)
    if kind == "lattice":
      return tfl.premade.CalibratedLattice(tfl.configs.CalibratedLatticeConfig(feature_configs=fcs, output_initialization=oi))
    if kind == "linear":
      return tfl.premade.CalibratedLinear(tfl.configs.CalibratedLinearConfig(feature_configs=fcs, output_initialization=oi))
    return tfl.premade.CalibratedLatticeEnsemble(tfl.configs.CalibratedLatticeEnsembleConfig(
        feature_configs=fcs, lattices=lattices if lattices != "random" else [["f0", "f1"], ["f1", "f0"]],
        output_initialization=oi))
  ctors = {"Lattice": lattice_layer.Lattice, "LatticeConstraints": lattice_layer.LatticeConstraints,
           "PWLCalibration": pwl_calibration_layer.PWLCalibration, "Linear": linear_layer.Linear,
           "CategoricalCalibration": ccl.CategoricalCalibration,
           "CategoricalCalibrationConstraints": ccl.CategoricalCalibrationConstraints,
           "LinearConstraints": linear_layer.LinearConstraints, "LinearInitializer": lattice_layer.LinearInitializer,
           "TorsionRegularizer": lattice_layer.TorsionRegularizer,
           "PWLCalibrationConstraints": pwl_calibration_layer.PWLCalibrationConstraints, "Premade": premade}
  for layer, what, cfg in cases:
    ctx.count("must_reject:" + what)
    outcome, msg = "accepted", ""
    try:
      obj = ctors[layer](**cfg)
      if hasattr(obj, "build") and layer in ("Lattice", "PWLCalibration", "Linear", "CategoricalCalibration"):
        if layer == "Lattice":
          obj.build((None, len(cfg["lattice_sizes"])))
        elif layer == "Linear":
          obj.build((None, cfg["num_input_dims"]))
        else:
          obj.build((None, 1))
    except ValueError as ex:
      if not isinstance(ex, tf_errors()):
        outcome = "ValueError"
      else:
        outcome, msg = type(ex).__name__, str(ex)[:200]
    except Exception as ex:  # pylint: disable=broad-except
      outcome, msg = type(ex).__name__, str(ex)[:200]
    ctx.case(sig=("must_reject", layer, what), nontrivial=True,
             sample=dict(stream="must_reject", layer=layer, what=what, cfg=repr(cfg), outcome=outcome))
    if outcome != "ValueError":
      ctx.fail("must_reject", dict(layer=layer, stage="ctor", exc=outcome, pred=what),
               dict(stream="must_reject", layer=layer, what=what, cfg=repr(cfg)), dict(outcome=outcome, msg=msg),
               "a configuration the property names as invalid was not rejected with ValueError")


def tf_errors():
  import tensorflow as tf
  return tf.errors.OpError


# ------------------------------------------------------------------ streams of the two pinned findings F-C16-v / F-C16-w
def _f32_same(a, b):
  return bool(np.float32(a) == np.float32(b))


def collapse_case(rng, which=None, dtype="float32"):
  """One ACCEPTED configuration whose verified Python-float quantities (distinct keypoints, input_min < input_max,
  output_min < output_max) coincide or vanish in float32. Returns dict(kind, args, dtype, witness)."""
  which = which or rng.choice(["pwl_tiny_piece", "pwl_big_keypoints", "linear_tiny_range", "lattice_big_bounds",
                               "lattice_tiny_bounds", "pwl_fn_tiny_range"])
  tiny = rng.choice([1e-50, 1e-46, 2.0 ** -160, 3e-60])
  big = rng.choice([1e8, 2.0 ** 27, 1e9, 3e10])
  if which == "pwl_tiny_piece":
    kp = rng.choice([[0.0, tiny, 1.0], [-1.0, 0.0, tiny], [-tiny, 0.0, 1.0]])
    return dict(kind=which, dtype=dtype, args=dict(input_keypoints=kp, units=rng.choice([1, 2])),
                witness=_f32_same(kp[0], kp[1]) or _f32_same(kp[1], kp[2]))
  if which == "pwl_big_keypoints":
    kp = [big, big + 1.0, big + 2.0]
    return dict(kind=which, dtype=dtype, args=dict(input_keypoints=kp, kernel_initializer="equal_slopes", output_min=0.0,
                                                   output_max=1.0),
                witness=_f32_same(kp[0], kp[1]) or _f32_same(kp[1], kp[2]))
  if which == "linear_tiny_range":
    sign = rng.choice([1, -1])
    return dict(kind=which, dtype=dtype, args=dict(num_input_dims=2, monotonicities=[sign, sign], range_dominances=[(0, 1)],
                                                   input_min=[0.0, 0.0], input_max=[tiny, 1.0]),
                witness=_f32_same(tiny, 0.0))
  if which == "lattice_big_bounds":
    return dict(kind=which, dtype=dtype, args=dict(lattice_sizes=[2, 2], output_min=big, output_max=big + 1.0,
                                                   monotonicities=[1, 1], edgeworth_trusts=[(0, 1, "positive")]),
                witness=_f32_same(big, big + 1.0))
  if which == "lattice_tiny_bounds":
    return dict(kind=which, dtype=dtype, args=dict(lattice_sizes=[2, 2], output_min=0.0, output_max=tiny, monotonicities=[1, 1],
                                                   edgeworth_trusts=[(0, 1, "positive")], kernel_initializer="zeros"),
                witness=_f32_same(tiny, 0.0))
  return dict(kind=which, dtype=dtype, args=dict(keypoint_input_min=0.0, keypoint_input_max=tiny), witness=_f32_same(tiny, 0.0))


def run_collapse_case(case):
  """-> (stage, exception or None, values) ; stage in ctor / build / ok"""
  import tensorflow as tf
  import tensorflow_lattice as tfl
  from tensorflow_lattice.python import conditional_pwl_calibration as cpc
  kind, a, dt = case["kind"], dict(case["args"]), getattr(tf, case["dtype"])
  try:
    if kind.startswith("pwl_fn"):
      v = cpc.pwl_calibration_fn(tf.constant([[0.0]], dtype=dt), keypoint_input_parameters=tf.zeros((1, 1, 2), dtype=dt),
                                 keypoint_output_parameters=tf.zeros((1, 1, 4), dtype=dt), **a)
      return "ok", None, [v.numpy()]
    if kind.startswith("pwl"):
      L = tfl.layers.PWLCalibration(dtype=dt, **a)
    elif kind.startswith("linear"):
      L = tfl.layers.Linear(dtype=dt, **a)
    else:
      L = tfl.layers.Lattice(dtype=dt, **a)
  except Exception as e:  # pylint: disable=broad-except
    return "ctor", e, []
  try:
    if kind.startswith("pwl"):
      kp = a["input_keypoints"]
      x = np.array([[kp[0]], [kp[1]], [(kp[1] + kp[2]) / 2]])
      if a.get("units", 1) == 2:
        x = np.concatenate([x, x], axis=1)
      y = L(tf.constant(x, dtype=dt))
      return "ok", None, [y.numpy(), L.kernel.numpy()]
    if kind.startswith("linear"):
      L.build((None, 2))
      L.kernel.assign(tf.constant([[1.0], [2.0]], dtype=dt))
      w = L.kernel.constraint(L.kernel)
      return "ok", None, [w.numpy()]
    L.build((None, 2))
    if kind == "lattice_big_bounds":
      L.kernel.assign(tf.constant([[a["output_min"]]] * 4, dtype=dt))
    w = L.kernel.constraint(L.kernel)
    return "ok", None, [w.numpy()]
  except Exception as e:  # pylint: disable=broad-except
    return "build", e, []


def check_collapse(ctx, case):
  import tensorflow as tf
  stage, e, vals = run_collapse_case(case)
  layer = {"pwl": "PWLCalibration", "lin": "Linear", "lat": "Lattice"}[case["kind"][:3]] if not case["kind"].startswith("pwl_fn") \
      else "pwl_calibration_fn"
  ctx.count("collapse:%s:%s:%s" % (case["kind"], case["dtype"], stage if e is None else stage + ":" + type(e).__name__))
  ctx.case(sig=("collapse", case["kind"], case["dtype"]), nontrivial=True, sample=dict(stream="collapse", **case))
  rec = dict(stream="collapse", layer=layer, cfg=repr(case))
  # pinned: only a float32 run whose collapse witness holds can be the known finding
  pred = "float32_collapse" if (case["dtype"] == "float32" and case["witness"]) else "other:collapse_control"
  if e is not None:
    if isinstance(e, ValueError) and not isinstance(e, tf.errors.OpError):
      return     # rejected up front: fine for the property
    ctx.fail("rejected_or_total", dict(layer=layer, stage=stage, exc=type(e).__name__, pred=pred), rec,
             dict(exc=type(e).__name__, msg=exc_msg(e)))
    return
  if not _finite(vals):
    ctx.fail("rejected_or_total", dict(layer=layer, stage="nonfinite", exc="nonfinite", pred=pred), rec,
             dict(exc="nonfinite", msg="accepted configuration, non-finite output / kernel: %r" % [np.asarray(v).ravel()[:6].tolist() for v in vals]))


def run_float32_collapse(ctx):
  """F-C16-v: every template once in float32 (known finding) and once in float64 (control: must be finite wherever the
  values are representable), then random magnitudes."""
  kinds = ["pwl_tiny_piece", "pwl_big_keypoints", "linear_tiny_range", "lattice_big_bounds", "lattice_tiny_bounds",
           "pwl_fn_tiny_range"]
  import random as _r
  det = _r.Random(0)
  for k in kinds:
    for dt in ("float32", "float64"):
      if k == "pwl_fn_tiny_range" and dt == "float64":
        continue      # pwl_calibration_fn builds float32 constants internally: no float64 form
      check_collapse(ctx, collapse_case(det, k, dt))
  for _ in range(ctx.n(12, 200)):
    dt = ctx.rng.choice(["float32", "float32", "float64"])
    c = collapse_case(ctx.rng, None, dt)
    if c["kind"] == "pwl_fn_tiny_range":
      c["dtype"] = "float32"
    check_collapse(ctx, c)


def tensor_keypoints_case(rng, kind=None):
  kind = kind or rng.choice(["equal", "equal", "decreasing", "increasing"])
  n = rng.randint(2, 5)
  ks = sorted({rng.randint(-8, 8) / 2.0 for _ in range(n + 3)})[:max(2, n)]
  if len(ks) < 2:
    ks = [0.0, 1.0]
  if kind == "equal":
    i = rng.randrange(len(ks) - 1)
    ks = ks[:i + 1] + [ks[i]] + ks[i + 1:]
  elif kind == "decreasing":
    ks = ks[::-1]
  return dict(kind=kind, keypoints=[float(k) for k in ks], dtype=rng.choice(["float32", "float64"]), units=rng.choice([1, 2]))


def check_tensor_keypoints(ctx, case):
  """F-C16-w: PWLCalibration(input_keypoints=<tf.Tensor>): the tensor branch of verify_hyperparameters checks rank and
  size only. Accepted ⇒ finite outputs at and between the keypoints."""
  import tensorflow as tf
  import tensorflow_lattice as tfl
  ks = case["keypoints"]
  dt = getattr(tf, case["dtype"])
  ctx.case(sig=("tensor_kp", case["kind"], case["dtype"], len(ks)), nontrivial=True, sample=dict(stream="tensor_keypoints", **case))
  rec = dict(stream="tensor_keypoints", layer="PWLCalibration", cfg=repr(case))
  strictly = all(a < b for a, b in zip(ks, ks[1:]))
  pred = "tensor_keypoints_unverified" if not strictly else "other:tensor_keypoints_control"
  try:
    L = tfl.layers.PWLCalibration(input_keypoints=tf.constant(ks, dtype=dt), units=case["units"], dtype=dt)
    xs = sorted(set(ks + [(a + b) / 2 for a, b in zip(ks, ks[1:])]))
    x = np.array([[v] * case["units"] for v in xs])
    y = L(tf.constant(x, dtype=dt)).numpy()
  except Exception as e:  # pylint: disable=broad-except
    ctx.count("tensor_kp:%s:%s" % (case["kind"], type(e).__name__))
    if isinstance(e, ValueError) and not isinstance(e, tf.errors.OpError):
      if strictly:
        ctx.fail("rejected_or_total", dict(layer="PWLCalibration", stage="ctor", exc="ValueError", pred="other:valid_tensor_keypoints_rejected"),
                 rec, dict(exc="ValueError", msg=exc_msg(e)))
      return
    ctx.fail("rejected_or_total", dict(layer="PWLCalibration", stage="build", exc=type(e).__name__, pred=pred), rec,
             dict(exc=type(e).__name__, msg=exc_msg(e)))
    return
  ctx.count("tensor_kp:%s:%s" % (case["kind"], "finite" if np.all(np.isfinite(y)) else "nonfinite"))
  if not np.all(np.isfinite(y)):
    ctx.fail("rejected_or_total", dict(layer="PWLCalibration", stage="nonfinite", exc="nonfinite", pred=pred), rec,
             dict(exc="nonfinite", msg="tensor keypoints %r accepted, output %r" % (ks, y.ravel()[:6].tolist())))


def run_tensor_keypoints(ctx):
  import random as _r
  det = _r.Random(1)
  check_tensor_keypoints(ctx, dict(kind="equal", keypoints=[0.0, 0.0, 1.0], dtype="float32", units=1))
  check_tensor_keypoints(ctx, dict(kind="decreasing", keypoints=[1.0, 0.0], dtype="float32", units=1))
  check_tensor_keypoints(ctx, dict(kind="increasing", keypoints=[0.0, 0.5, 1.0], dtype="float64", units=2))
  for _ in range(ctx.n(12, 200)):
    check_tensor_keypoints(ctx, tensor_keypoints_case(ctx.rng))


def run(ctx):
  import tensorflow as tf
  tf.keras.utils.set_random_seed(ctx.seed + 17) if hasattr(tf.keras.utils, "set_random_seed") else None
  run_must_reject(ctx)
  run_float32_collapse(ctx)
  run_tensor_keypoints(ctx)
  run_tables(ctx)
  run_canon(ctx)
  run_layers(ctx)
  run_norm_late(ctx)
  run_regularizers(ctx)
  for layer, ca, cb in syn_pairs(ctx.rng):
    for _ in range(ctx.n(2, 20)):
      check_synonym(ctx, layer, ca, cb, ctx.rng.randrange(10 ** 6))
  for layer, ca, cb in syn_pairs_invalid(ctx.rng):
    check_synonym(ctx, layer, ca, cb, ctx.rng.randrange(10 ** 6), invalid=True)
  s = regenerate()
  for name, c in sorted(s["classes"].items()):
    ctx.notes.append("table %s: %d rows (%s of product %d), outcomes %s" % (
        name, c["rows"], "exhaustive" if c["product"] <= TA.FULL_LIMIT else "sample", c["product"], c["outcomes"]))


def replay(ctx, failure):
  case = failure["case"]
  stream = case.get("stream")
  if stream == "canon":
    run_canon(ctx)
    return
  if stream == "norm_late":
    run_norm_late(ctx)
    return
  if stream == "must_reject":
    run_must_reject(ctx)
    return
  if stream == "collapse":
    c = ast.literal_eval(case["cfg"])
    check_collapse(ctx, c)
    return
  if stream == "tensor_keypoints":
    check_tensor_keypoints(ctx, ast.literal_eval(case["cfg"]))
    return
  cfg = ast.literal_eval(case["cfg"])
  if stream == "table":
    spec = [s for s in TA.specs() if s.name == case["layer"]][0]
    for a, _ in spec.args:      # recorded before the table gained an argument: that argument at its baseline value
      cfg.setdefault(a, spec.baselines[0][a])
    outc, exc, msg = TA.evaluate(spec, cfg)
    rep = run_driver(["vfy.%s %s" % (spec.name, " ".join(spec.enc(cfg, "wire")))])[0]
    check_table_row(ctx, spec, cfg, outc, exc, msg, rep, "")
  elif stream == "regularizer":
    check_regularizer(ctx, case["layer"], cfg, np.random.RandomState(0))
  elif stream == "synonym_invalid":
    check_synonym(ctx, case["layer"], cfg, ast.literal_eval(case["cfg_b"]), case.get("seed", 0), invalid=True)
  elif stream == "synonym":
    check_synonym(ctx, case["layer"], cfg, ast.literal_eval(case["cfg_b"]), case.get("seed", 0))
  else:
    for seed in range(3):
      check_layer(ctx, case["layer"], cfg, seed)
