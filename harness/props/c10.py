"""C10: freshly built layers already satisfy their monotonicity and bound constraints.

Tie (model vs code, ops `init.*`): lattice_lib.default_init_params / _linspace / linear_initializer /
random_monotonic_initializer (the post-shuffle vertex list of every level and the uniform sample are
RECORDED by monkeypatching np.random.shuffle / tf.random.uniform inside this process and handed to
the model), lattice_layer.create_kernel_initializer, pwl_calibration_lib.linear_initializer (+ the init
bounds PWLCalibration derives), kfl_random_monotonic_initializer / scale_initializer / bias_initializer,
and the kernels of freshly BUILT layers (Lattice with every initializer id, PWLCalibration, KFL).
Oracle (real initial weights): every clause of the property statement + layer.assert_constraints() +
constraint(init) == init for monotonicity+bounds-only configurations."""
import itertools, logging
import numpy as np
from fractions import Fraction
from common import *

RULE = ("Lattice: rank 1-3, sizes 2-4, units 1-3, kernel_initializer in {linear, random_monotonic, "
        "random_uniform_or_linear}, monotonicities x unimodalities x joint unimodalities (partial and covering all "
        "features), optional trusts / dominances, bounds none/min/max/both incl. one-sided and negative ranges, "
        "float32/float64, fresh numpy/TF seeds, EXPLICIT initialiser objects (LinearInitializer / RandomMonotonicInitializer / "
        "UniformOutputInitializer / KFLRandomMonotonicInitializer / RTL init_min,init_max) with ranges equal to, inside, touching "
        "and reaching outside the output bounds (KFL: inside / negative / beyond 1); RTL ensembles (all_vertices and "
        "kronecker_factored); PWLCalibration: equal_heights/equal_slopes x monotonicity{none,inc,dec} "
        "x bounds x clamps x convexity x uniform/non-uniform keypoints x units; KFL: default initialisers, monotonicity "
        "subsets, bounds none/min/max/both, 1-3 terms and units; CategoricalCalibration and Linear (default "
        "initialisers) as side checks with their own finding keys. Non-trivial = the initial kernel is not constant.")
ASSUMPTIONS = ["layers are float32 unless the constructor is given float64; oracle tolerance 2e-6 x magnitude",
               "Lattice(output_min >= 1, no output_max) and Lattice(output_max <= 0, no output_min) are rejected at "
               "construction (init_min == init_max): counted as expected rejections, not as failures",
               "with no constrained dimension the linear initialiser is (documentedly) linear along ALL dimensions"]


def fl(x):
  return None if x is None else float(x)


def cfail(ctx, clause, key, case, observed, detail=""):
  """ctx.fail, but at most 6 recorded cases per (key, clause): the failure list is capped, and a frequent known
  finding class must not crowd out a new one; every occurrence is still counted in the distribution."""
  k = "fail:%s:%s:%s" % (key.get("layer"), key.get("cls"), clause)
  ctx.count(k)
  if ctx.dist[k] <= 6:
    ctx.fail(clause, key, case, observed, detail)


def quiet():
  logging.getLogger("absl").setLevel(logging.ERROR)
  try:
    from absl import logging as absl_logging
    absl_logging.set_verbosity(absl_logging.ERROR)
  except Exception:
    pass


# ------------------------------------------------------------------ recording the random draws
class Recorder:
  """Records what np.random.shuffle left in its argument and what tf.random.uniform returned."""

  def __enter__(self):
    import tensorflow as tf
    self.tf = tf
    self.shuffles, self.uniforms = [], []
    self._shuffle, self._uniform = np.random.shuffle, tf.random.uniform

    def shuffle(x):
      self._shuffle(x)
      self.shuffles.append([int(v) for v in x])

    def uniform(*a, **kw):
      r = self._uniform(*a, **kw)
      self.uniforms.append(np.asarray(r.numpy(), dtype=np.float64))
      return r
    np.random.shuffle = shuffle
    tf.random.uniform = uniform
    return self

  def __exit__(self, *exc):
    np.random.shuffle = self._shuffle
    self.tf.random.uniform = self._uniform
    return False


# ------------------------------------------------------------------ generators
def gen_bounds(rng):
  mode = rng.choice(["none", "none", "min", "max", "both", "both", "both"])
  a = Fraction(rng.randint(-12, 8), 4)
  lo = a if mode in ("min", "both") else None
  hi = (a + Fraction(rng.randint(1, 16), 4)) if mode in ("max", "both") else None
  if mode == "max" and rng.random() < 0.7:
    hi = Fraction(rng.randint(1, 16), 4)          # positive: accepted (init range [0, hi])
  if mode == "min" and rng.random() < 0.7:
    lo = Fraction(rng.randint(-12, 3), 4)         # < 1: accepted (init range [lo, 1])
  return mode, lo, hi


def range_class(imin, imax, lo, hi):
  """class of an EXPLICIT initialisation range relative to the layer's output bounds (independent reading:
  'starts from weights that satisfy the layer's bound constraints' can only hold for a range inside them)"""
  if imin is None:
    return "default"
  if (lo is not None and imin < lo) or (hi is not None and imax > hi):
    return "explicit:outside"
  return "explicit:inside"


def gen_init_range(rng, lo, hi, p=0.4):
  """None (the layer derives the range) or an explicit `init_min < init_max`: inside the output bounds
  (equal to them, strictly inside, touching one end; any range incl. negative ones when unbounded) or
  reaching outside a bound that is set."""
  if rng.random() >= p:
    return None
  a = lo if lo is not None else ((hi - Fraction(rng.randint(2, 16), 4)) if hi is not None else Fraction(rng.randint(-16, 8), 4))
  b = hi if hi is not None else a + Fraction(rng.randint(2, 16), 4)
  w = b - a
  mode = rng.choice(["equal", "inner", "inner", "touch_lo", "touch_hi", "outside", "outside"])
  if mode == "equal":
    imin, imax = a, b
  elif mode == "inner":
    imin = a + w * Fraction(rng.randint(0, 3), 8)
    imax = b - w * Fraction(rng.randint(0, 3), 8)
  elif mode == "touch_lo":
    imin, imax = a, a + w * Fraction(rng.randint(1, 7), 8)
  elif mode == "touch_hi":
    imin, imax = b - w * Fraction(rng.randint(1, 7), 8), b
  else:
    side = rng.choice(["lo", "hi", "both"])
    imin = a - (Fraction(rng.randint(1, 8), 4) if side in ("lo", "both") else 0)
    imax = b + (Fraction(rng.randint(1, 8), 4) if side in ("hi", "both") else 0)
  return (imin, imax)


def gen_lattice_cfg(rng):
  rank = rng.choice([1, 2, 2, 3])
  sizes = [rng.randint(2, 4) for _ in range(rank)]
  mono = [1 if rng.random() < 0.5 else 0 for _ in range(rank)]
  uni = [0] * rank
  for d in range(rank):
    if not mono[d] and sizes[d] >= 3 and rng.random() < 0.35:
      uni[d] = rng.choice([1, -1])
  ju = None
  free = [d for d in range(rank) if not mono[d] and not uni[d] and sizes[d] >= 3]
  r = rng.random()
  if free and r < 0.2:
    k = rng.randint(1, min(2, len(free)))
    ju = [(tuple(sorted(rng.sample(free, k))), rng.choice(["valley", "peak"]))]
  elif r < 0.3 and all(s >= 3 for s in sizes):
    mono, uni = [0] * rank, [0] * rank
    ju = [(tuple(range(rank)), rng.choice(["valley", "peak"]))]        # covers all features
  ew, tz, md, rd, jm = [], [], [], [], []
  mains = [d for d in range(rank) if mono[d]]
  others = [d for d in range(rank) if not mono[d] and not uni[d] and not (ju and d in ju[0][0])]
  if mains and rank >= 2 and rng.random() < 0.25:
    m = rng.choice(mains)
    cands = [d for d in range(rank) if d != m and not uni[d] and not (ju and d in ju[0][0])]
    if cands:
      c = rng.choice(cands)
      (ew if rng.random() < 0.5 else tz).append((m, c, rng.choice([1, -1])))
  if len(mains) >= 2 and rng.random() < 0.2:
    a, b = rng.sample(mains, 2)
    if not any(a in t[:2] or b in t[:2] for t in ew + tz):
      (md if rng.random() < 0.5 else rd).append((a, b))
  bmode, lo, hi = gen_bounds(rng)
  init_id = rng.choice(["linear_initializer", "random_monotonic_initializer", "random_uniform_or_linear_initializer"])
  # explicit initialiser OBJECTS (LinearInitializer / RandomMonotonicInitializer) with their own range
  irange = gen_init_range(rng, lo, hi, 0.35) if init_id != "random_uniform_or_linear_initializer" else None
  return dict(sizes=sizes, mono=mono, uni=uni, ju=ju, ew=ew, tz=tz, md=md, rd=rd, jm=jm, lo=lo, hi=hi, init=init_id,
              irange=irange, units=rng.choice([1, 1, 2, 3]), dtype=rng.choice(["float32", "float32", "float64"]))


def lattice_cls(cfg):
  extra = bool(cfg["ew"] or cfg["tz"] or cfg["md"] or cfg["rd"] or cfg["jm"])
  return "%s:m%d:u%d:ju%s:x%d:b%s%s" % (
      cfg["init"].split("_")[0] if cfg["init"] != "random_uniform_or_linear_initializer" else "ruol",
      int(any(cfg["mono"])), int(any(cfg["uni"])),
      "N" if not cfg["ju"] else ("A" if len(cfg["ju"][0][0]) == len(cfg["sizes"]) else "P"), int(extra),
      "L" if cfg["lo"] is not None else "", "H" if cfg["hi"] is not None else "")


def py_default_init_params(lo, hi):
  """independent reading of the property statement: 'the initialization range derived from the output bounds'"""
  a = lo if lo is not None else (min(Fraction(0), hi) if hi is not None else Fraction(0))
  b = hi if hi is not None else (max(Fraction(1), lo) if lo is not None else Fraction(1))
  return a, b


# ------------------------------------------------------------------ library-function ties
def tie_library(ctx, lines, pend):
  import tensorflow as tf
  from tensorflow_lattice.python import lattice_lib, lattice_layer, pwl_calibration_lib as plib
  from tensorflow_lattice.python import kronecker_factored_lattice_lib as kfl_lib
  rng = ctx.rng
  # default_init_params on a grid incl. the boundary values 0 and 1
  vals = [None, Fraction(-2), Fraction(-1, 2), Fraction(0), Fraction(1, 2), Fraction(1), Fraction(3, 2), Fraction(5)]
  for lo, hi in itertools.product(vals, vals):
    r = lattice_lib.default_init_params(fl(lo), fl(hi))
    lines.append("init.defaults %s %s" % (opt(lo), opt(hi)))
    pend.append(("defaults", dict(op="defaults", lo=lo, hi=hi), [float(r[0]), float(r[1])], None))
    r = plib.convert_all_constraints(fl(lo), fl(hi), False, False)
    lines.append("init.pwlbounds %s %s" % (opt(lo), opt(hi)))
    pend.append(("pwlbounds", dict(op="pwlbounds", lo=lo, hi=hi), [float(r[0]), float(r[1])], None))
    for T in (1, 2, 3):
      if lo is not None and hi is not None and lo >= hi:
        continue
      sc = kfl_lib.scale_initializer(1, T, fl(lo), fl(hi))
      bi = kfl_lib.bias_initializer(1, fl(lo), fl(hi), dtype=tf.float64).numpy()
      dp = kfl_lib.default_init_params(fl(lo), fl(hi))
      lines.append("init.kflscale %d %s %s" % (T, opt(lo), opt(hi)))
      pend.append(("kflscale", dict(op="kflscale", T=T, lo=lo, hi=hi),
                   [float(v) for v in np.asarray(sc).reshape(-1)] + [float(bi[0]), float(dp[0]), float(dp[1])], None))
  for _ in range(ctx.n(30, 400)):
    a, b = Fraction(rng.randint(-16, 16), 8), Fraction(rng.randint(-16, 16), 8)
    num = rng.randint(1, 7)
    r = lattice_lib._linspace(float(a), float(b), num)
    lines.append("init.linspace %s %s %d" % (fr(a), fr(b), num))
    pend.append(("linspace", dict(op="linspace", a=a, b=b, num=num), [float(v) for v in r], None))
  # linear_initializer
  for _ in range(ctx.n(80, 2000)):
    rank = rng.choice([1, 2, 2, 3, 4])
    sizes = [rng.randint(2, 5) for _ in range(rank)]
    mono = [rng.choice([0, 1]) for _ in range(rank)]
    uni = [0 if mono[d] or sizes[d] < 3 or rng.random() < 0.5 else rng.choice([1, -1]) for d in range(rank)]
    lo = Fraction(rng.randint(-16, 8), 4)
    hi = lo + Fraction(rng.randint(1, 24), 4)
    units = rng.choice([1, 2, 3])
    # `None` stands for all zeros
    w = lattice_lib.linear_initializer(sizes, float(lo), float(hi), monotonicities=mono if any(mono) or rng.random() < 0.5 else None,
                                       unimodalities=uni if any(uni) or rng.random() < 0.5 else None, units=units,
                                       dtype=tf.float64).numpy()
    case = dict(op="linear", sizes=sizes, mono=mono, uni=uni, lo=lo, hi=hi, units=units)
    if units > 1 and np.abs(w - w[:, :1]).max() > 0:
      cfail(ctx, "units_identical", dict(layer="lattice", cls="lib.linear"), case, w)
    lines.append("init.linear %s %s %s %s %s" % (il(sizes), il(case["mono"]), il(case["uni"]), fr(lo), fr(hi)))
    pend.append(("linear", case, None, (sizes, mono, uni, lo, hi, units)))
  # random_monotonic_initializer with recorded draws
  for _ in range(ctx.n(60, 1500)):
    rank = rng.choice([1, 2, 2, 3, 3, 4])
    sizes = [rng.randint(2, 4) for _ in range(rank)]
    lo = Fraction(rng.randint(-16, 8), 4)
    hi = lo + Fraction(rng.randint(1, 24), 4)
    units = rng.choice([1, 2])
    seed = rng.randrange(2 ** 31)
    np.random.seed(seed)
    tf.random.set_seed(seed)
    with Recorder() as rec:
      w = lattice_lib.random_monotonic_initializer(sizes, float(lo), float(hi), units=units, dtype=tf.float64).numpy()
    perms = [p for p in rec.shuffles if p]
    sample = rec.uniforms[-1].reshape(-1)
    case = dict(op="rm", sizes=sizes, lo=lo, hi=hi, units=units, seed=seed, perms=perms, sample=[Fraction(float(v)) for v in sample])
    lines.append("init.rm %s %s %s" % (il(sizes), il2(perms), frl(case["sample"])))
    pend.append(("rm", case, w[:, 0], None))
    oracle_rm(ctx, dict(layer="lattice", cls="lib.random_monotonic"), case, w.reshape(sizes + [units]), lo, hi, 1e-12)
    # a few wrong permutations must be REJECTED by the model (the order really is level by level)
    if rng.random() < 0.25 and len(perms) >= 2 and set(perms[0]) != set(perms[1]):
      bad = [perms[1], perms[0]] + perms[2:]
      lines.append("init.rm %s %s %s" % (il(sizes), il2(bad), frl(case["sample"])))
      pend.append(("rm.reject", dict(case, perms=bad), None, None))
  # create_kernel_initializer
  for _ in range(ctx.n(80, 1500)):
    cfg = gen_lattice_cfg(rng)
    n = len(cfg["sizes"])
    iid = rng.choice(["linear_initializer", "LinearInitializer", "random_monotonic_initializer",
                      "RandomMonotonicInitializer", "random_uniform_or_linear_initializer",
                      "RandomUniformOrLinearInitializer", "random_uniform", "zeros"])
    imode = rng.choice(["none", "none", "both", "min", "max"])
    imin = Fraction(rng.randint(-8, 0), 4) if imode in ("both", "min") else None
    imax = Fraction(rng.randint(1, 8), 4) if imode in ("both", "max") else None
    uni_arg = cfg["uni"] if any(cfg["uni"]) or rng.random() < 0.5 else None
    case = dict(op="create", id=iid, cfg=cfg, imin=imin, imax=imax)
    try:
      obj = lattice_layer.create_kernel_initializer(iid, cfg["sizes"], cfg["mono"], fl(cfg["lo"]), fl(cfg["hi"]),
                                                    uni_arg, cfg["ju"], fl(imin), fl(imax))
      real = describe_initializer(obj)
    except ValueError as e:
      # bounds rejected by the initialiser's own verify_hyperparameters are outside the factory's logic
      real = "ERR ValueError" if "init_{min/max}" in str(e) else "REJECTED-BY-INITIALIZER"
    mid = {"linear_initializer": "linear", "LinearInitializer": "linear", "random_monotonic_initializer": "rm",
           "RandomMonotonicInitializer": "rm", "random_uniform_or_linear_initializer": "ruol",
           "RandomUniformOrLinearInitializer": "ruol"}.get(iid, "keras")
    joint = ";".join(",".join(str(d) for d in g[0]) + "," + ("1" if g[1] == "valley" else "-1") for g in (cfg["ju"] or [])) or "_"
    lines.append("init.create %s %d %s %s %s %s %s %s %s" % (mid, n, il(cfg["mono"]), opt(cfg["lo"]), opt(cfg["hi"]),
                                                          il(uni_arg or []), joint, opt(imin), opt(imax)))
    pend.append(("create", case, real, None))
  # pwl linear_initializer
  for _ in range(ctx.n(80, 1500)):
    k = rng.randint(2, 7)
    units = rng.choice([1, 2, 3])
    lo = Fraction(rng.randint(-16, 8), 4)
    hi = lo + Fraction(rng.randint(0, 24), 4)
    mono = rng.choice([-1, 0, 1])
    kp = None
    if rng.random() < 0.6:
      kp = [Fraction(rng.randint(-8, 8), 4)]
      for _ in range(k - 1):
        kp.append(kp[-1] + Fraction(rng.randint(1, 8), 4))
    w = plib.linear_initializer([k, units], float(lo), float(hi), mono, None if kp is None else [float(v) for v in kp],
                                dtype=tf.float64).numpy()
    case = dict(op="pwl", k=k, units=units, lo=lo, hi=hi, mono=mono, kp=kp)
    if units > 1 and np.abs(w - w[:, :1]).max() > 0:
      cfail(ctx, "units_identical", dict(layer="pwl", cls="lib.linear_initializer"), case, w)
    lines.append("init.pwl %d %s %s %d %s" % (k, fr(lo), fr(hi), mono, "none" if kp is None else frl(kp)))
    pend.append(("pwl", case, w[:, 0], None))
    oracle_pwl(ctx, dict(layer="pwl", cls="lib.linear_initializer"), case, w, lo, hi, mono,
               None if kp is None else [float(v) for v in kp], 1e-12)
  # kfl_random_monotonic_initializer with the recorded uniform sample
  for _ in range(ctx.n(60, 1200)):
    L, dims, T, U = rng.randint(2, 4), rng.randint(1, 3), rng.randint(1, 3), rng.choice([1, 2])
    monos = [rng.choice([0, 1]) for _ in range(dims)]
    scale = np.array([[rng.choice([-2.0, -1.0, -0.5, 0.0, 0.5, 1.0, 3.0]) for _ in range(T)] for _ in range(U)])
    imin = Fraction(rng.randint(0, 4), 4)
    imax = imin + Fraction(rng.randint(1, 8), 4)
    with Recorder() as rec:
      w = kfl_lib.kfl_random_monotonic_initializer([1, L, U * dims, T], tf.constant(scale, dtype=tf.float64), monos,
                                                   init_min=float(imin), init_max=float(imax), dtype=tf.float64,
                                                   seed=rng.randrange(2 ** 31)).numpy()
    smp = rec.uniforms[-1].reshape(L, U, dims, T)
    out = w.reshape(L, U, dims, T)
    for u in range(U):
      rows = [[Fraction(float(smp[i, u, d, t])) for i in range(L)] for t in range(T) for d in range(dims)]
      lines.append("init.kfl %s %s %d %s" % (il(monos), frl([Fraction(float(s)) for s in scale[u]]), dims, frl2(rows)))
      real = [float(out[i, u, d, t]) for t in range(T) for d in range(dims) for i in range(L)]
      pend.append(("kfl", dict(op="kfl", L=L, dims=dims, T=T, monos=monos, scale=scale[u], sample=rows), real, None))


def describe_initializer(obj):
  from tensorflow_lattice.python import lattice_layer, utils
  if isinstance(obj, lattice_layer.LinearInitializer):
    m = utils.canonicalize_monotonicities(obj.monotonicities, allow_decreasing=False) or [0] * len(obj.lattice_sizes)
    u = utils.canonicalize_unimodalities(obj.unimodalities) or [0] * len(obj.lattice_sizes)
    return "linear %s %s %s %s" % (il(m), fr(Fraction(float(obj.output_min))), fr(Fraction(float(obj.output_max))), il(u))
  if isinstance(obj, lattice_layer.RandomMonotonicInitializer):
    return "rm %s %s" % (fr(Fraction(float(obj.output_min))), fr(Fraction(float(obj.output_max))))
  if type(obj).__name__ == "RandomUniform":
    return "random_uniform"
  return "keras"


def check_library(ctx, pend, replies):
  import tensorflow as tf
  from tensorflow_lattice.python import lattice_lib
  for (kind, case, real, extra), rep in zip(pend, replies):
    suite = "init." + kind
    ctx.count("tie:" + kind)
    ctx.case(sig=(suite, hash(json_key(case)) % 99991), nontrivial=kind not in ("defaults", "pwlbounds", "kflscale"),
             sample=case)
    if kind == "rm.reject":
      (ctx.agree if rep.startswith("ERR") else lambda s: ctx.disagree(s, case, "rejected", rep, "level order not enforced"))(suite)
      continue
    if kind == "create":
      if real == "REJECTED-BY-INITIALIZER":
        ctx.count("create:rejected-by-initializer")
        continue
      if rep == real or (rep == "keras" and real in ("keras", "random_uniform")):
        ctx.agree(suite)
      else:
        ctx.disagree(suite, case, real, rep)
      continue
    if rep == "bad-op" or rep.startswith("ERR"):
      ctx.disagree(suite, case, real, rep, "model rejects")
      continue
    if kind == "linear":
      sizes, mono, uni, lo, hi, units = extra
      w = lattice_lib.linear_initializer(sizes, float(lo), float(hi), monotonicities=mono, unimodalities=uni, units=1,
                                         dtype=tf.float64).numpy()[:, 0]
      mv = parse_rats(rep)
      ctx.compare(suite, case, w, mv, max(1.0, float(abs(lo)), float(abs(hi))), rtol=1e-12)
      oracle_linear(ctx, dict(layer="lattice", cls="lib.linear"), case, w.reshape(sizes), sizes, mono, uni, [], lo, hi, 1e-12)
      continue
    toks = rep.split(" ")
    if kind in ("defaults", "pwlbounds"):
      ctx.compare(suite, case, real, [Fraction(t) for t in toks], 8.0, rtol=1e-12)
    elif kind == "kflscale":
      ctx.compare(suite, case, real, parse_rats(toks[0]) + [Fraction(t) for t in toks[1:]], 8.0, rtol=1e-12)
    elif kind in ("linspace", "rm", "pwl"):
      ctx.compare(suite, case, real, parse_rats(toks[0]), 8.0, rtol=1e-12)
    elif kind == "kfl":
      ctx.compare(suite, case, real, [v for row in parse_rats2(toks[0]) for v in row], 8.0, rtol=1e-12)


def json_key(case):
  import json
  return json.dumps(jsonable(case), sort_keys=True)


# ------------------------------------------------------------------ oracles (numpy readings of the statement)
def oracle_linear(ctx, key, case, t, sizes, mono, uni, ju, init_min, init_max, rtol):
  """t: one unit's tensor. Linear along monotone dims, valley/peak along unimodal ones, constant along the others;
  min == init_min, max == init_max."""
  rank = len(sizes)
  scale = max(1.0, float(abs(init_min)), float(abs(init_max)))
  tol = rtol * scale * 8
  alluni = list(uni)
  for dims_, direction in ju or []:
    for d in dims_:
      alluni[d] = 1 if direction == "valley" else -1
  constrained = [d for d in range(rank) if mono[d] or alluni[d]]
  eff_mono = list(mono) if constrained else [1] * rank
  if not constrained:
    ctx.count("oracle:linear:unconstrained=all-dims-linear")
  num = len(constrained) if constrained else rank
  dim_range = float(init_max - init_min) / num
  for d in range(rank):
    df = np.diff(t, axis=d)
    if eff_mono[d]:
      want = dim_range / (sizes[d] - 1)
      if np.abs(df - want).max() > tol:
        cfail(ctx, "linear_along_monotone", key, case, t, "axis %d increments %s, expected %g" % (d, np.unique(np.round(df, 9))[:4], want))
    elif alluni[d]:
      prof = np.moveaxis(t, d, 0)
      prof = prof - prof.min(axis=0, keepdims=True)
      n = sizes[d]
      h = (n + 1) // 2
      up = np.linspace(0.0, dim_range, h)
      dn = up[::-1]
      want = np.concatenate([dn, up[n % 2:]]) if alluni[d] == 1 else np.concatenate([up, dn[n % 2:]])
      want = want.reshape((n,) + (1,) * (rank - 1))
      if np.abs(prof - want).max() > tol:
        cfail(ctx, "valley_peak_along_unimodal", key, case, t, "axis %d profile %s expected %s" % (d, prof.reshape(n, -1)[:, 0], want.reshape(-1)))
    else:
      if df.size and np.abs(df).max() > tol:
        cfail(ctx, "constant_along_others", key, case, t, "axis %d varies by %g" % (d, np.abs(df).max()))
  if abs(float(t.min()) - float(init_min)) > tol:
    cfail(ctx, "init_min", key, case, t, "min %g != init_min %g" % (t.min(), float(init_min)))
  if abs(float(t.max()) - float(init_max)) > tol:
    cfail(ctx, "init_max", key, case, t, "max %g != init_max %g" % (t.max(), float(init_max)))


def oracle_rm(ctx, key, case, tu, init_min, init_max, rtol):
  """tu: tensor sizes + [units]; non-decreasing along EVERY lattice dimension and within the range."""
  tol = rtol * max(1.0, float(abs(init_min)), float(abs(init_max)))
  for d in range(tu.ndim - 1):
    df = np.diff(tu, axis=d)
    if df.size and df.min() < -tol:
      cfail(ctx, "random_monotonic_nondecreasing", key, case, tu, "axis %d min diff %g" % (d, df.min()))
  if tu.min() < float(init_min) - tol or tu.max() > float(init_max) + tol:
    cfail(ctx, "random_monotonic_range", key, case, tu, "range [%g, %g] outside [%g, %g]" % (tu.min(), tu.max(), float(init_min), float(init_max)))


def oracle_pwl(ctx, key, case, w, init_min, init_max, mono, kp, rtol):
  """w: (k, units). Runs monotonically between the init bounds (decreasing when configured) with equal heights
  (kp is None) or equal slopes."""
  scale = max(1.0, float(abs(init_min)), float(abs(init_max)))
  tol = rtol * scale * 8
  y = np.cumsum(w, axis=0)
  first, last = (float(init_max), float(init_min)) if mono == -1 else (float(init_min), float(init_max))
  if np.abs(y[0] - first).max() > tol or np.abs(y[-1] - last).max() > tol:
    cfail(ctx, "pwl_between_init_bounds", key, case, w, "outputs run %s -> %s, expected %g -> %g" % (y[0], y[-1], first, last))
  h = w[1:]
  sgn = -1.0 if mono == -1 else 1.0
  if h.size and (sgn * h).min() < -tol:
    cfail(ctx, "pwl_monotone", key, case, w, "heights of the wrong sign: %s" % h[:, 0])
  if h.shape[0] >= 2:
    if kp is None:
      if np.abs(h - h[:1]).max() > tol:
        cfail(ctx, "pwl_equal_heights", key, case, w, "heights %s" % h[:, 0])
    else:
      slopes = h / np.diff(np.asarray(kp)).reshape(-1, 1)
      if np.abs(slopes - slopes[:1]).max() > tol:
        cfail(ctx, "pwl_equal_slopes", key, case, w, "slopes %s" % slopes[:, 0])


# ------------------------------------------------------------------ freshly built layers
def build_lattice(cfg):
  import tensorflow_lattice as tfl
  from tensorflow_lattice.python import lattice_layer
  init = cfg["init"]
  if cfg.get("irange"):
    imin, imax = cfg["irange"]
    uni = all_unimodalities(cfg)
    if cfg["init"] == "linear_initializer":
      init = lattice_layer.LinearInitializer(list(cfg["sizes"]), list(cfg["mono"]), float(imin), float(imax),
                                             unimodalities=uni if any(uni) else None)
    else:
      init = lattice_layer.RandomMonotonicInitializer(list(cfg["sizes"]), float(imin), float(imax),
                                                      unimodalities=uni if any(uni) else None)
  kw = dict(lattice_sizes=list(cfg["sizes"]), units=cfg["units"], monotonicities=list(cfg["mono"]),
            unimodalities=list(cfg["uni"]) if any(cfg["uni"]) else None,
            joint_unimodalities=cfg["ju"], edgeworth_trusts=[tuple(t) for t in cfg["ew"]] or None,
            trapezoid_trusts=[tuple(t) for t in cfg["tz"]] or None,
            monotonic_dominances=[tuple(t) for t in cfg["md"]] or None,
            range_dominances=[tuple(t) for t in cfg["rd"]] or None,
            output_min=fl(cfg["lo"]), output_max=fl(cfg["hi"]), kernel_initializer=init, dtype=cfg["dtype"])
  layer = tfl.layers.Lattice(**kw)
  rank = len(cfg["sizes"])
  layer.build((None, cfg["units"], rank) if cfg["units"] > 1 else (None, rank))
  return layer


def run_lattice_layers(ctx, count, lines, pend):
  import tensorflow as tf
  rng = ctx.rng
  for _ in range(count):
    cfg = gen_lattice_cfg(rng)
    cls = lattice_cls(cfg)
    case = dict(layer="lattice", cfg=cfg, cls=cls)
    ctx.count("lattice:" + cls)
    seed = rng.randrange(2 ** 31)
    np.random.seed(seed)
    tf.random.set_seed(seed)
    case["seed"] = seed
    init_min, init_max = cfg["irange"] if cfg.get("irange") else py_default_init_params(cfg["lo"], cfg["hi"])
    rcls = range_class(*(cfg["irange"] or (None, None)), cfg["lo"], cfg["hi"])
    ctx.count("lattice:init_range:" + rcls)
    covers_all = bool(cfg["ju"]) and len(cfg["ju"][0][0]) == len(cfg["sizes"])
    try:
      with Recorder() as rec:
        layer = build_lattice(cfg)
        K = layer.kernel.numpy().astype(np.float64)
    except ValueError as e:
      if init_min >= init_max and not (cfg["init"] == "random_uniform_or_linear_initializer" and covers_all):
        ctx.count("lattice:expected-rejection(init_min>=init_max)")
        ctx.case(sig=("lattice", "rejected", cls), nontrivial=False)
      else:
        cfail(ctx, "build_raises", dict(layer="lattice", cls="build"), case, classify_exc(e) + ": " + str(e)[:200])
      continue
    sizes, U = cfg["sizes"], cfg["units"]
    key = dict(layer="lattice", cls=cls.split(":")[0], init_range=rcls)
    ctx.case(sig=("lattice", cls, rcls, U, cfg["dtype"], hash(K.tobytes()) % 9973), nontrivial=bool(np.ptp(K) > 0),
             sample=dict(case, kernel=K))
    rtol = 2e-6 if cfg["dtype"] == "float32" else 1e-12
    linear = cfg["init"] == "linear_initializer" or (cfg["init"] == "random_uniform_or_linear_initializer" and not covers_all)
    if U > 1 and (linear or cfg["init"] == "random_monotonic_initializer") and np.abs(K - K[:, :1]).max() > 0:
      cfail(ctx, "units_identical", key, case, K)
    bound_key = key
    if linear:
      oracle_linear(ctx, key, case, K[:, 0].reshape(sizes), sizes, cfg["mono"], cfg["uni"], cfg["ju"], init_min, init_max, rtol)
      lines.append("init.linear %s %s %s %s %s" % (il(sizes), il(cfg["mono"]), il(all_unimodalities(cfg)), fr(init_min), fr(init_max)))
      pend.append(("layer.linear", case, K[:, 0], rtol))
    elif cfg["init"] == "random_monotonic_initializer":
      oracle_rm(ctx, key, case, K.reshape(sizes + [U]), init_min, init_max, rtol)
      if any(all_unimodalities(cfg)):
        # observation only: the statement asks random-monotonic kernels to be non-decreasing along EVERY dimension,
        # which contradicts a configured unimodality (lattice assert_constraints does not check unimodalities)
        ctx.count("lattice:observation:random_monotonic init ignores (joint) unimodalities")
      perms = [p for p in rec.shuffles if p]
      sample = [Fraction(float(v)) for v in rec.uniforms[-1].reshape(-1)]
      lines.append("init.rm %s %s %s" % (il(sizes), il2(perms), frl(sample)))
      pend.append(("layer.rm", dict(case, perms=perms, sample=sample), K[:, 0], rtol))
    else:
      bound_key = dict(layer="lattice", cls="joint_all_random_uniform", init_range=rcls)
      ctx.count("lattice:joint-all -> keras random_uniform")
    # bounds of the LAYER
    tol = rtol * max(1.0, mag_(cfg["lo"]), mag_(cfg["hi"]))
    if (cfg["lo"] is not None and K.min() < float(cfg["lo"]) - tol) or (cfg["hi"] is not None and K.max() > float(cfg["hi"]) + tol):
      cfail(ctx, "bounds", bound_key, case, K, "initial kernel range [%g, %g] outside the output bounds" % (K.min(), K.max()))
    # monotonicity of the LAYER
    for u in range(U):
      t = K[:, u].reshape(sizes)
      for d in range(len(sizes)):
        if cfg["mono"][d] and np.diff(t, axis=d).min() < -tol:
          cfail(ctx, "monotonicity", bound_key, case, K, "unit %d axis %d decreases" % (u, d))
    # assert_constraints
    extra = bool(cfg["ew"] or cfg["tz"] or cfg["md"] or cfg["rd"] or cfg["jm"])
    akey = dict(layer="lattice", cls=("joint_all_random_uniform" if bound_key is not key else
                                     ("trusts_or_dominances:" + key["cls"] if extra else
                                      ("joint_unimodality:" + key["cls"] if cfg["ju"] else key["cls"]))), init_range=rcls)
    try:
      layer.assert_constraints(eps=1e-5)
    except Exception as e:
      cfail(ctx, "assert_constraints", akey, case, K, classify_exc(e) + ": " + str(e)[:200])
    # constraint(init) == init for monotonicity + bounds only
    # (Tfl.C10.linear_init_is_fixpoint_of_constraint covers unimodal dimensions too; the random-monotonic kernel is
    # non-decreasing along EVERY dimension, which contradicts a configured valley / peak)
    if (not any(cfg["uni"]) or linear) and not cfg["ju"] and not extra:
      ctx.count("lattice:fixpoint-checked" + (":unimodal" if any(cfg["uni"]) else ""))
      from tensorflow_lattice.python import lattice_layer as _ll
      nonstrict = _ll.LatticeConstraints(
          lattice_sizes=list(cfg["sizes"]), monotonicities=list(cfg["mono"]),
          unimodalities=list(cfg["uni"]) if any(cfg["uni"]) else None, output_min=fl(cfg["lo"]), output_max=fl(cfg["hi"]),
          num_projection_iterations=rng.choice([1, 3, 10]), enforce_strict_monotonicity=False)
      for cons in (layer.kernel.constraint, layer._final_constraints, nonstrict):
        out = cons(layer.kernel).numpy().astype(np.float64)
        if np.abs(out - K).max() > tol:
          cfail(ctx, "constraint_fixpoint", key, case, dict(init=K, projected=out),
                   "constraint moves the initial kernel by %g" % np.abs(out - K).max())


def mag_(x):
  return 0.0 if x is None else abs(float(x))


def all_unimodalities(cfg):
  u = list(cfg["uni"])
  for dims_, direction in cfg["ju"] or []:
    for d in dims_:
      u[d] = 1 if direction == "valley" else -1
  return u


def gen_pwl_layer_cfg(rng):
  k = rng.randint(2, 7)
  uniform = rng.random() < 0.4
  kp = [Fraction(rng.randint(-8, 8), 4)]
  step = Fraction(rng.randint(1, 8), 4)
  for _ in range(k - 1):
    kp.append(kp[-1] + (step if uniform else Fraction(rng.randint(1, 8), 4)))
  mono = rng.choice(["none", "increasing", "decreasing", 0, 1, -1])
  mono_i = {"none": 0, "increasing": 1, "decreasing": -1}.get(mono, mono)
  conv = rng.choice(["none", "none", "none", "convex", "concave"])
  bmode, lo, hi = gen_bounds(rng)
  cmin = mono_i != 0 and lo is not None and rng.random() < 0.3
  cmax = mono_i != 0 and hi is not None and rng.random() < 0.3
  return dict(kp=kp, uniform=uniform, mono=mono, mono_i=mono_i, conv=conv, lo=lo, hi=hi, cmin=cmin, cmax=cmax,
              irange=gen_init_range(rng, lo, hi, 0.3),   # explicit UniformOutputInitializer(output_min, output_max, …)
              init=rng.choice(["equal_heights", "equal_slopes"]), units=rng.choice([1, 1, 2, 3]),
              dtype=rng.choice(["float32", "float64"]), iters=rng.choice([1, 8]))


def run_pwl_layers(ctx, count, lines, pend):
  import tensorflow_lattice as tfl
  rng = ctx.rng
  for _ in range(count):
    cfg = gen_pwl_layer_cfg(rng)
    cls = "%s:m%d:c%s:b%s%s:cl%d%d:%s" % (cfg["init"], cfg["mono_i"], cfg["conv"][:4], "L" if cfg["lo"] is not None else "",
                                        "H" if cfg["hi"] is not None else "", cfg["cmin"], cfg["cmax"], "uni" if cfg["uniform"] else "nonuni")
    case = dict(layer="pwl", cfg=cfg, cls=cls)
    ctx.count("pwl:" + cls.rsplit(":", 3)[0])
    kpf = [float(v) for v in cfg["kp"]]
    rcls = range_class(*(cfg["irange"] or (None, None)), cfg["lo"], cfg["hi"])
    if rcls != "default" and (cfg["cmin"] or cfg["cmax"]):
      # a clamped end pins the first / last output to the bound: an explicit range not ending there contradicts
      # the clamp itself, not the bounds — kept out of the explicit-range classes
      cfg["irange"], rcls = None, "default"
    ctx.count("pwl:init_range:" + rcls)
    try:
      kinit = cfg["init"]
      if cfg["irange"]:
        from tensorflow_lattice.python import pwl_calibration_layer
        kinit = pwl_calibration_layer.UniformOutputInitializer(
            output_min=float(cfg["irange"][0]), output_max=float(cfg["irange"][1]), monotonicity=cfg["mono"],
            keypoints=kpf if cfg["init"] == "equal_slopes" else None)
      layer = tfl.layers.PWLCalibration(input_keypoints=kpf, units=cfg["units"], output_min=fl(cfg["lo"]), output_max=fl(cfg["hi"]),
                                        clamp_min=cfg["cmin"], clamp_max=cfg["cmax"], monotonicity=cfg["mono"],
                                        convexity=cfg["conv"], kernel_initializer=kinit, dtype=cfg["dtype"],
                                        num_projection_iterations=cfg["iters"])
      layer.build((None, cfg["units"]))
    except ValueError as e:
      cfail(ctx, "build_raises", dict(layer="pwl", cls="build"), case, classify_exc(e) + ": " + str(e)[:200])
      continue
    K = layer.kernel.numpy().astype(np.float64)
    key = dict(layer="pwl", cls=cfg["init"], init_range=rcls)
    ctx.case(sig=("pwl", cls, rcls, cfg["units"], cfg["dtype"], len(kpf)), nontrivial=bool(np.abs(K[1:]).max() > 0), sample=dict(case, kernel=K))
    rtol = 2e-6 if cfg["dtype"] == "float32" else 1e-12
    # init bounds as the statement reads them: the output bounds, a missing one replaced by the other, (0, 0) if none
    lo, hi = cfg["lo"], cfg["hi"]
    imin = lo if lo is not None else (hi if hi is not None else Fraction(0))
    imax = hi if hi is not None else (lo if lo is not None else Fraction(0))
    if cfg["irange"]:
      imin, imax = cfg["irange"]
    if cfg["units"] > 1 and np.abs(K - K[:, :1]).max() > 0:
      cfail(ctx, "units_identical", key, case, K)
    oracle_pwl(ctx, key, case, K, imin, imax, cfg["mono_i"], kpf if cfg["init"] == "equal_slopes" else None, rtol)
    lines.append("init.pwl %d %s %s %d %s" % (len(kpf), fr(imin), fr(imax), cfg["mono_i"],
                                              frl(cfg["kp"]) if cfg["init"] == "equal_slopes" else "none"))
    pend.append(("layer.pwl", case, K[:, 0], rtol))
    y = np.cumsum(K, axis=0)
    tol = rtol * max(1.0, mag_(lo), mag_(hi)) * 8
    if (lo is not None and y.min() < float(lo) - tol) or (hi is not None and y.max() > float(hi) + tol):
      cfail(ctx, "bounds", key, case, K, "initial outputs [%g, %g] outside the bounds" % (y.min(), y.max()))
    if cfg["conv"] != "none" and K.shape[0] >= 3:
      # observation only (convexity is neither a monotonicity nor a bound constraint and PWL assert_constraints
      # does not look at it): equal heights over non-uniform keypoints start from a non-convex function
      sl = K[1:, 0] / np.diff(np.asarray(kpf))
      d2 = np.diff(sl) * (1.0 if cfg["conv"] == "convex" else -1.0)
      if d2.min() < -1e-6 * max(1.0, np.abs(sl).max()):
        ctx.count("pwl:observation:convexity violated at init (%s, %s keypoints)" % (cfg["init"], "uniform" if cfg["uniform"] else "non-uniform"))
    akey = dict(layer="pwl", cls=(cfg["init"] + (":convexity" if cfg["conv"] != "none" else "")), init_range=rcls)
    try:
      layer.assert_constraints(eps=1e-5)
    except Exception as e:
      cfail(ctx, "assert_constraints", akey, case, K, classify_exc(e) + ": " + str(e)[:200])
    if cfg["conv"] == "none":
      ctx.count("pwl:fixpoint-checked")
      out = layer.kernel.constraint(layer.kernel).numpy().astype(np.float64)
      if np.abs(out - K).max() > tol:
        cfail(ctx, "constraint_fixpoint", key, case, dict(init=K, projected=out),
                 "constraint moves the initial kernel by %g" % np.abs(out - K).max())


def run_kfl_layers(ctx, count, lines, pend):
  import tensorflow as tf
  import tensorflow_lattice as tfl
  rng = ctx.rng
  for _ in range(count):
    L, dims, T, U = rng.randint(2, 4), rng.randint(1, 3), rng.randint(1, 3), rng.choice([1, 1, 2, 3])
    monos = [rng.choice([0, 1]) for _ in range(dims)]
    bmode, lo, hi = gen_bounds(rng)
    dtype = rng.choice(["float32", "float64"])
    cls = "m%d:b%s%s" % (int(any(monos)), "L" if lo is not None else "", "H" if hi is not None else "")
    # explicit KFLRandomMonotonicInitializer(init_min, init_max): the KERNEL range. With output bounds the layer's
    # own choice is [0, 1] (scale carries the range), without [0.5, 1.5]; monotonicity of the product form needs
    # non-negative factors. Classes: inside (non-negative, and within [0, 1] when bounded) / negative / outside.
    irange, rcls = None, "default"
    if rng.random() < 0.4:
      mode = rng.choice(["inside", "inside", "negative", "outside"])
      if mode == "inside":
        a = Fraction(rng.randint(0, 4), 8)
        b = a + Fraction(rng.randint(1, 8), 8)
        if lo is not None or hi is not None:
          b = min(b, Fraction(1))
      elif mode == "negative":
        a = -Fraction(rng.randint(1, 12), 8)
        b = a + Fraction(rng.randint(1, 16), 8)
      else:
        a = Fraction(rng.randint(0, 16), 8)
        b = max(a, Fraction(1)) + Fraction(rng.randint(1, 16), 8)
      irange = (a, b)
      rcls = ("explicit:negative" if a < 0 else
              ("explicit:outside" if (lo is not None or hi is not None) and b > 1 else "explicit:inside"))
    ctx.count("kfl:init_range:" + rcls)
    case = dict(layer="kfl", L=L, dims=dims, T=T, units=U, monos=monos, lo=lo, hi=hi, dtype=dtype, cls=cls, irange=irange)
    ctx.count("kfl:" + cls)
    seed = rng.randrange(2 ** 31)
    tf.random.set_seed(seed)
    case["seed"] = seed
    try:
      with Recorder() as rec:
        kw = {}
        if irange:
          from tensorflow_lattice.python import kronecker_factored_lattice_layer as kfl_layer
          kw["kernel_initializer"] = kfl_layer.KFLRandomMonotonicInitializer(
              monotonicities=monos, init_min=float(irange[0]), init_max=float(irange[1]), seed=seed)
        layer = tfl.layers.KroneckerFactoredLattice(lattice_sizes=L, units=U, num_terms=T, monotonicities=monos if any(monos) or rng.random() < 0.5 else None,
                                                    output_min=fl(lo), output_max=fl(hi), dtype=dtype, **kw)
        layer.build(tf.TensorShape([None, dims] if U == 1 else [None, U, dims]))
    except ValueError as e:
      cfail(ctx, "build_raises", dict(layer="kfl", cls="build"), case, classify_exc(e) + ": " + str(e)[:200])
      continue
    K = layer.kernel.numpy().astype(np.float64).reshape(L, U, dims, T)
    S = layer.scale.numpy().astype(np.float64)
    Bv = layer.bias.numpy().astype(np.float64)
    key = dict(layer="kfl", cls=cls, init_range=rcls)
    ctx.case(sig=("kfl", cls, rcls, L, dims, T, U, dtype), nontrivial=True, sample=dict(case, kernel=K, scale=S, bias=Bv))
    rtol = 2e-6 if dtype == "float32" else 1e-12
    imin, imax = (0.5, 1.5) if lo is None and hi is None else (0.0, 1.0)
    if irange:
      imin, imax = float(irange[0]), float(irange[1])
    if K.min() < imin - rtol * max(1.0, abs(imin)) or K.max() > imax + rtol * max(1.0, abs(imax)):
      cfail(ctx, "kfl_init_range", key, case, K, "kernel range [%g, %g] outside [%g, %g]" % (K.min(), K.max(), imin, imax))
    sg = np.sign(S)                                  # (U, T)
    for d in range(dims):
      if monos[d]:
        df = np.diff(K[:, :, d, :] * sg[None, :, :], axis=0)
        if df.size and df.min() < -rtol:
          cfail(ctx, "kfl_monotone_kernel", key, case, K, "dim %d: sign(scale)*kernel decreases by %g" % (d, -df.min()))
    # model tie through the layer (unit by unit)
    smp = rec.uniforms[-1].reshape(L, U, dims, T) if rec.uniforms else None
    if smp is not None:
      for u in range(U):
        rows = [[Fraction(float(smp[i, u, d, t])) for i in range(L)] for t in range(T) for d in range(dims)]
        lines.append("init.kfl %s %s %d %s" % (il(monos), frl([Fraction(float(s)) for s in S[u]]), dims, frl2(rows)))
        pend.append(("layer.kfl", dict(case, unit=u), [float(K[i, u, d, t]) for t in range(T) for d in range(dims) for i in range(L)], rtol))
    lines.append("init.kflscale %d %s %s" % (T, opt(lo), opt(hi)))
    pend.append(("layer.kflscale", case, [float(v) for v in S[0]] + [float(Bv[0])], rtol))
    # the function: bounded and monotone on a sample of inputs
    B = 40
    x = np.array([[[rng.uniform(-0.5, L - 0.5) for _ in range(dims)] for _ in range(U)] for _ in range(B)])
    xin = x if U > 1 else x[:, 0, :]
    y = layer(tf.constant(xin, dtype=dtype)).numpy().astype(np.float64)
    tol = 4e-6 * max(1.0, mag_(lo), mag_(hi)) if dtype == "float32" else 1e-9
    if (lo is not None and y.min() < float(lo) - tol) or (hi is not None and y.max() > float(hi) + tol):
      cfail(ctx, "bounds", key, case, dict(x=xin, y=y), "initial outputs [%g, %g] outside the bounds" % (y.min(), y.max()))
    for d in range(dims):
      if monos[d]:
        x2 = x.copy()
        x2[:, :, d] = np.clip(x2[:, :, d], 0, L - 1) + np.array([[rng.uniform(0, 1.5) for _ in range(U)] for _ in range(B)])
        y2 = layer(tf.constant(x2 if U > 1 else x2[:, 0, :], dtype=dtype)).numpy().astype(np.float64)
        x1 = x.copy()
        x1[:, :, d] = np.clip(x1[:, :, d], 0, L - 1)
        y1 = layer(tf.constant(x1 if U > 1 else x1[:, 0, :], dtype=dtype)).numpy().astype(np.float64)
        if (y2 - y1).min() < -tol:
          cfail(ctx, "monotonicity", key, case, dict(x=x1, x2=x2, y=y1, y2=y2), "output decreases by %g along dim %d" % (-(y2 - y1).min(), d))
    try:
      layer.assert_constraints(eps=1e-5)
    except Exception as e:
      cfail(ctx, "assert_constraints", key, case, K, classify_exc(e) + ": " + str(e)[:200])
    ctx.count("kfl:fixpoint-checked")
    k0, s0 = layer.kernel.numpy().astype(np.float64), S
    k1 = (layer.kernel.constraint(layer.kernel).numpy() if layer.kernel.constraint is not None else layer.kernel.numpy()).astype(np.float64)
    s1 = (layer.scale.constraint(layer.scale).numpy() if layer.scale.constraint is not None else layer.scale.numpy()).astype(np.float64)
    if np.abs(k1 - k0).max() > rtol * 2 or np.abs(s1 - s0).max() > rtol * max(1.0, np.abs(s0).max()):
      cfail(ctx, "constraint_fixpoint", key, case, dict(init=k0, projected=k1, scale=s0, scale_projected=s1),
               "constraints move the initial kernel/scale by %g / %g" % (np.abs(k1 - k0).max(), np.abs(s1 - s0).max()))


def run_rtl_layers(ctx, count):
  """tfl.layers.RTL: the ensemble builds Lattice (all_vertices) or KroneckerFactoredLattice layers with
  `create_kernel_initializer(..., init_min, init_max)`; default AND explicit initialisation ranges."""
  import tensorflow as tf
  import tensorflow_lattice as tfl
  rng = ctx.rng
  for _ in range(count):
    rank = rng.randint(1, 3)
    n_unc, n_inc = rng.randint(0, 3), rng.randint(0, 3)
    while n_unc + n_inc < rank:
      n_inc += 1
    param = rng.choice(["all_vertices", "all_vertices", "kronecker_factored"])
    kinit = (rng.choice(["linear_initializer", "random_monotonic_initializer"]) if param == "all_vertices"
             else "kfl_random_monotonic_initializer")
    bmode, lo, hi = gen_bounds(rng)
    size = rng.randint(2, 3)
    if param == "all_vertices":
      irange = gen_init_range(rng, lo, hi, 0.5)
      rcls = range_class(*(irange or (None, None)), lo, hi)
    else:
      irange, rcls = None, "default"
      if rng.random() < 0.5:
        mode = rng.choice(["inside", "negative", "outside"])
        a = Fraction(rng.randint(0, 4), 8) if mode != "negative" else -Fraction(rng.randint(1, 12), 8)
        b = a + Fraction(rng.randint(1, 8), 8)
        if mode == "inside" and (lo is not None or hi is not None):
          b = min(b, Fraction(1))
        if mode == "outside":
          b = max(a, Fraction(1)) + Fraction(rng.randint(1, 16), 8)
        irange = (a, b)
        rcls = ("explicit:negative" if a < 0 else
                ("explicit:outside" if (lo is not None or hi is not None) and b > 1 else "explicit:inside"))
    cls = "%s:%s" % (param, kinit.split("_")[0])
    key = dict(layer="rtl", cls=cls, init_range=rcls)
    ctx.count("rtl:%s:%s" % (cls, rcls))
    seed = rng.randrange(2 ** 31)
    nl_min = -(-(n_unc + n_inc) // rank)            # every input feature must be used: num_lattices * rank >= #features
    case = dict(layer="rtl", num_lattices=rng.randint(nl_min, nl_min + 2), rank=rank, size=size, n_unc=n_unc, n_inc=n_inc, lo=lo, hi=hi,
                irange=irange, param=param, init=kinit, seed=seed, cls=cls)
    np.random.seed(seed)
    tf.random.set_seed(seed)
    B = 24
    xs = {}
    if n_unc:
      xs["unconstrained"] = np.array([[rng.uniform(0, size - 1) for _ in range(n_unc)] for _ in range(B)])
    if n_inc:
      xs["increasing"] = np.array([[rng.uniform(0, size - 1) for _ in range(n_inc)] for _ in range(B)])
    try:
      layer = tfl.layers.RTL(num_lattices=case["num_lattices"], lattice_rank=rank, lattice_size=size, output_min=fl(lo),
                             output_max=fl(hi), init_min=None if irange is None else float(irange[0]),
                             init_max=None if irange is None else float(irange[1]), kernel_initializer=kinit,
                             parameterization=param, random_seed=seed % 1000, num_terms=rng.randint(1, 3))
      y = layer({k: tf.constant(v, dtype=tf.float32) for k, v in xs.items()}).numpy().astype(np.float64)
    except ValueError as e:
      dmin, dmax = py_default_init_params(lo, hi)
      if irange is None and param == "all_vertices" and dmin >= dmax:
        ctx.count("rtl:expected-rejection(init_min>=init_max)")
        ctx.case(sig=("rtl", "rejected", cls), nontrivial=False)
      else:
        cfail(ctx, "build_raises", dict(layer="rtl", cls="build"), case, classify_exc(e) + ": " + str(e)[:200])
      continue
    ws = [w.numpy().astype(np.float64) for w in layer.weights]
    ctx.case(sig=("rtl", cls, rcls, rank, size, n_unc, n_inc, bmode), nontrivial=True, sample=dict(case, weights=ws))
    tol = 4e-6 * max(1.0, mag_(lo), mag_(hi), *(abs(float(v)) for v in (irange or (0, 0))))
    if param == "all_vertices":
      imin, imax = irange if irange else py_default_init_params(lo, hi)
      for inner in layer._lattice_layers.values():
        K = inner.kernel.numpy().astype(np.float64)
        if K.min() < float(imin) - tol or K.max() > float(imax) + tol:
          cfail(ctx, "init_range", key, case, K, "kernel range [%g, %g] outside [%g, %g]" % (K.min(), K.max(), float(imin), float(imax)))
        if (lo is not None and K.min() < float(lo) - tol) or (hi is not None and K.max() > float(hi) + tol):
          cfail(ctx, "bounds", key, case, K, "initial kernel range [%g, %g] outside the output bounds" % (K.min(), K.max()))
        sizes = [size] * rank
        for u in range(K.shape[1]):
          t = K[:, u].reshape(sizes)
          for d, m in enumerate(inner.monotonicities):
            if m and np.diff(t, axis=d).min() < -tol:
              cfail(ctx, "monotonicity", key, case, K, "unit %d axis %d decreases" % (u, d))
        out = inner.kernel.constraint(inner.kernel).numpy().astype(np.float64)
        if np.abs(out - K).max() > tol:
          cfail(ctx, "constraint_fixpoint", key, case, dict(init=K, projected=out),
                "constraint moves the initial kernel by %g" % np.abs(out - K).max())
    # the function: bounded, and non-decreasing in every 'increasing' input
    if (lo is not None and y.min() < float(lo) - tol) or (hi is not None and y.max() > float(hi) + tol):
      cfail(ctx, "bounds", key, case, dict(x=xs, y=y), "initial outputs [%g, %g] outside the bounds" % (y.min(), y.max()))
    for j in range(n_inc):
      x2 = {k: v.copy() for k, v in xs.items()}
      x2["increasing"][:, j] = np.minimum(size - 1, x2["increasing"][:, j] + np.array([rng.uniform(0, 1.5) for _ in range(B)]))
      y2 = layer({k: tf.constant(v, dtype=tf.float32) for k, v in x2.items()}).numpy().astype(np.float64)
      if (y2 - y).min() < -tol:
        cfail(ctx, "monotonicity", key, case, dict(x=xs, x2=x2, y=y, y2=y2),
              "output decreases by %g in increasing input %d" % (-(y2 - y).min(), j))
    try:
      layer.assert_constraints(eps=1e-5)
    except Exception as e:
      cfail(ctx, "assert_constraints", key, case, ws, classify_exc(e) + ": " + str(e)[:200])



def run_side_layers(ctx, count):
  """CategoricalCalibration and Linear with their default initialisers: not in the list of the statement's
  sentences on initialisers but covered by its first sentence; every failure class has its own key."""
  import tensorflow_lattice as tfl
  rng = ctx.rng
  for _ in range(count):
    nb = rng.randint(2, 6)
    pairs = None
    if rng.random() < 0.4:
      order = list(range(nb))
      rng.shuffle(order)
      pairs = sorted({tuple(order[i] for i in sorted(rng.sample(range(nb), 2))) for _ in range(rng.randint(1, 4))})
    bmode, lo, hi = gen_bounds(rng)
    init = rng.choice(["uniform", "uniform", "constant"])
    case = dict(layer="categorical", buckets=nb, pairs=pairs, lo=lo, hi=hi, init=init)
    layer = tfl.layers.CategoricalCalibration(num_buckets=nb, units=rng.choice([1, 2]), output_min=fl(lo), output_max=fl(hi),
                                              monotonicities=pairs, kernel_initializer=init)
    layer.build((None, 1))
    K = layer.kernel.numpy().astype(np.float64)
    cls = ("pairs_random_init" if pairs else
           ("one_sided_bound_default_init" if (lo is None) != (hi is None) else "plain"))
    ctx.count("categorical:" + cls + ":" + init)
    ctx.case(sig=("categorical", cls, init, nb), nontrivial=True, sample=dict(case, kernel=K))
    key = dict(layer="categorical", cls=cls)
    tol = 2e-6 * max(1.0, mag_(lo), mag_(hi))
    if (lo is not None and K.min() < float(lo) - tol) or (hi is not None and K.max() > float(hi) + tol):
      cfail(ctx, "bounds", key, case, K, "initial kernel [%g, %g] outside the bounds" % (K.min(), K.max()))
    if pairs and any((K[a] - K[b]).max() > tol for a, b in pairs):
      cfail(ctx, "monotonicity", key, case, K, "ordering pairs violated by the initial kernel")
    try:
      layer.assert_constraints(eps=1e-5)
    except Exception as e:
      cfail(ctx, "assert_constraints", key, case, K, classify_exc(e) + ": " + str(e)[:160])
  for _ in range(count // 2):
    n = rng.randint(1, 4)
    monos = [rng.choice([0, 1, -1]) for _ in range(n)]
    norm = rng.choice([None, None, 1, 2])
    case = dict(layer="linear", n=n, monos=monos, norm=norm)
    layer = tfl.layers.Linear(num_input_dims=n, monotonicities=monos, normalization_order=norm)
    layer.build((None, n))
    K = layer.kernel.numpy().astype(np.float64)
    cls = "default_random_uniform_init" + (":monotone" if any(monos) else "") + (":normalized" if norm else "")
    ctx.count("linear:" + cls)
    ctx.case(sig=("linear", cls, n), nontrivial=True, sample=dict(case, kernel=K))
    key = dict(layer="linear", cls=cls)
    if any((m == 1 and K[i].min() < 0) or (m == -1 and K[i].max() > 0) for i, m in enumerate(monos)):
      cfail(ctx, "monotonicity", key, case, K, "initial weights of the wrong sign")
    try:
      layer.assert_constraints(eps=1e-4)
    except Exception as e:
      cfail(ctx, "assert_constraints", key, case, K, classify_exc(e) + ": " + str(e)[:160])


def check_layers(ctx, pend, replies):
  for (kind, case, real, rtol), rep in zip(pend, replies):
    suite = "init." + kind
    ctx.count("tie:" + kind)
    if rep == "bad-op" or rep.startswith("ERR"):
      ctx.disagree(suite, case, real, rep, "model rejects")
      continue
    toks = rep.split(" ")
    if kind == "layer.kfl":
      mv = [v for row in parse_rats2(toks[0]) for v in row]
    elif kind == "layer.kflscale":
      mv = parse_rats(toks[0]) + [Fraction(toks[1])]
    else:
      mv = parse_rats(toks[0])
    ctx.compare(suite, case, real, mv, max(1.0, max(abs(float(v)) for v in mv) if mv else 1.0), rtol=rtol)


# ------------------------------------------------------------------ entry points
def run(ctx):
  quiet()
  lines, pend = [], []
  tie_library(ctx, lines, pend)
  check_library(ctx, pend, run_driver(lines, timeout=1200))
  lines, pend = [], []
  run_lattice_layers(ctx, ctx.n(140, 4000), lines, pend)
  run_pwl_layers(ctx, ctx.n(100, 3000), lines, pend)
  run_kfl_layers(ctx, ctx.n(50, 1200), lines, pend)
  check_layers(ctx, pend, run_driver(lines, timeout=1200))
  run_rtl_layers(ctx, ctx.n(45, 900))
  run_side_layers(ctx, ctx.n(40, 600))


def replay(ctx, failure):
  """Freshly built layers are functions of (config, seed): rebuild and re-run the oracle of that family."""
  layer = failure["key"].get("layer")
  sub = Ctx(ctx.prop, ctx.tier, ctx.seed)
  quiet()
  lines, pend = [], []
  if layer == "lattice":
    run_lattice_layers(sub, 200, lines, pend)
  elif layer == "pwl":
    run_pwl_layers(sub, 150, lines, pend)
  elif layer == "kfl":
    run_kfl_layers(sub, 80, lines, pend)
  elif layer == "rtl":
    run_rtl_layers(sub, 120)
  else:
    run_side_layers(sub, 60)
  if failure["key"].get("cls", "").startswith("lib."):
    tie_library(sub, lines, pend)
  for f in sub.failures:
    if f["key"] == failure["key"]:
      ctx.failures.append(f)
      break
