"""C06: Linear / CategoricalCalibration weight constraints.
Tie: LinearConstraints(...)(w), CategoricalCalibrationConstraints(...)(w) vs Tfl.Linear.project /
Tfl.Categorical.project -- `Tfl.Linear.project` is the function of the composite theorem
Tfl.C06.accepted_project (sign clip -> monotonic dominance -> range dominance -> normalisation); orders 1 and inf
are normalised by the model in Q and compared exactly; order 2 (and a general p) is irrational: the model returns
the pre-normalised column, its squared norm and the guard decision `l2Skips` (norm < 1e-8 decided in Q), the
harness divides by the float root (real arithmetic) and additionally checks the root-free form of the claim
(out_i^2 * normSq == pre_i^2, equal signs).
Oracle: signs, dominance, range dominance, norm, idempotence (project(project w) == project w), pairs, bounds,
fixpoint."""
import math
import numpy as np
from fractions import Fraction
from common import *

RULE = ("hostile Linear dominance sets (circular: k-cycles in any rotation, (d, d), cycles behind roots / with tails, "
        "repeated pairs; range dominances on monotonicity None; acyclic chains as accepted control) which must be "
        "rejected at construction or else project without raising; configs drawn from one PRNG: Linear (1-7 dims, 1-3 units, monotonicities in {-1,0,1}, acyclic "
        "monotonic/range dominance graphs, input ranges — positive on the range-dominance dimensions, and on the "
        "dimensions OUTSIDE every range dominance positive / zero (input_min == input_max) / one-sided / absent in "
        "any mixture —, monotonic AND range dominances together on disjoint dimensions, norm order in {None,1,2,inf}, "
        "their aliases (0, False = none; True, 1.0 = 1; 2.0, 'euclidean' = 2) and general p-norms (0.5, 1.5, 2.5, 3); "
        "hostile: a dimension used by both kinds of dominance, and normalization orders tf.norm rejects "
        "(-1, -2, -inf, 'fro', '1', 'inf', [1], nan) — rejected at construction or else projecting; "
        "LinearConstraints without monotonicities (None / []): unconstrained weights only normalised; "
        "kernels below / at the normalisation guard (1-norm around 1e-8) and all <= 0 on all-increasing layers) and Categorical "
        "(2-8 buckets, acyclic pair graphs: chains, diamonds, forests, shared parents, duplicate pairs; bounds "
        "none/min/max/both); kernels dyadic/int(ties)/wide/tiny/huge/feasible. Non-trivial = the projection "
        "moved the kernel or the kernel was feasible by construction; distinct = distinct (layer, config "
        "class, kernel kind, moved) signature + case hash.")
ASSUMPTIONS = ["float64 kernels; rounding tolerance 1e-9*scale",
               "order 2 / general p: the model's pre-normalised column is divided by the float root / p-norm in Python "
               "(the quotient is irrational); the guard norm < 1e-8 of order 2 is the model's rational test normSq < 1e-16",
               "theorems take validity of the order returned by the model of _topological_sort as a decidable "
               "hypothesis; the driver evaluates it on every case (reported as order_ok)"]


def rand_dag_pairs(rng, nodes, max_pairs):
  """acyclic pair set over `nodes`: pairs (a, b) with a before b in a random order."""
  nodes = list(nodes)
  if len(nodes) < 2:
    return []
  order = nodes[:]
  rng.shuffle(order)
  shape = rng.choice(["chain", "random", "random", "diamond", "star", "dup", "dense", "dense", "shortcut", "shortcut"])
  pairs = []
  if shape == "shortcut" and len(order) < 4:
    shape = "dense"
  if shape == "dense":
    # every forward pair with probability ~0.6, listed in random order (transitive shortcuts included)
    prob = rng.choice([0.4, 0.6, 0.8])
    pairs = [(order[i], order[j]) for i in range(len(order)) for j in range(i + 1, len(order)) if rng.random() < prob]
    if not pairs:
      pairs = [(order[0], order[1])]
    rng.shuffle(pairs)
    return pairs
  if shape == "shortcut":
    # a long path u -> c1 -> ... -> b plus redundant shortcut edges, the shortcuts listed FIRST
    k = rng.randint(4, len(order))
    path = [(order[i], order[i + 1]) for i in range(k - 1)]
    shortcuts = [(order[0], order[k - 1])]
    for _ in range(rng.randint(0, 2)):
      i = rng.randint(0, k - 3)
      j = rng.randint(i + 2, k - 1)
      if (order[i], order[j]) not in shortcuts:
        shortcuts.append((order[i], order[j]))
    extra = [(order[i], order[1 + rng.randint(0, k - 2)]) for i in range(k, len(order))]
    if rng.random() < 0.5:
      rng.shuffle(path)
    return shortcuts + path + extra
  if shape == "chain":
    k = rng.randint(2, len(order))
    pairs = [(order[i], order[i + 1]) for i in range(k - 1)]
  elif shape == "diamond" and len(order) >= 4:
    a, b, c, d = order[:4]
    pairs = [(a, b), (a, c), (b, d), (c, d)]
  elif shape == "star":
    root = order[0]
    pairs = [(root, x) for x in order[1:1 + rng.randint(1, len(order) - 1)]]
    if rng.random() < 0.5:
      pairs = [(b, a) for a, b in pairs]
  else:
    for _ in range(rng.randint(1, max_pairs)):
      i, j = sorted(rng.sample(range(len(order)), 2))
      p = (order[i], order[j])
      if shape == "dup" or p not in pairs:
        pairs.append(p)
  rng.shuffle(pairs)
  return pairs


P_ORDERS = [0.5, 1.5, 2.5, 3]
ALIASES = [0, False, True, 1.0, 2.0, "euclidean"]
BAD_ORDERS = [-1, -2, "-inf", "fro", "1", "str:inf", [1], "nan"]


def order_class(o):
  """none / 1 / 2 / inf / p : what tf.norm(ord=o) computes (`if normalization_order:` skips falsy values)"""
  if isinstance(o, str):
    return {"inf": "inf", "euclidean": "2"}[o]
  if not o:
    return "none"
  if o == 1:
    return "1"
  if o == 2:
    return "2"
  return "p"


def real_order(o):
  """the value handed to the real code"""
  if o == "inf":
    return np.inf
  if o == "-inf":
    return -np.inf
  if o == "nan":
    return float("nan")
  if o == "str:inf":
    return "inf"
  return o


def pnorm(col, o):
  cls = order_class(o)
  a = np.abs(np.asarray(col, dtype=np.float64))
  if cls == "1":
    return float(np.sum(a))
  if cls == "2":
    return float(np.sqrt(np.sum(a * a)))
  if cls == "inf":
    return float(np.max(a)) if len(a) else 0.0
  return float(np.sum(a ** float(o)) ** (1.0 / float(o)))


def gen_kernel(rng, n, units):
  kind = rng.choice(VALUE_KINDS + ["zero"])
  if kind == "zero":
    return kind, [[Fraction(0)] * units for _ in range(n)]
  return kind, [[gen_value(rng, kind) for _ in range(units)] for _ in range(n)]


def run_linear(ctx, ncases):
  import tensorflow as tf
  from tensorflow_lattice.python import linear_layer
  rng = ctx.rng
  cases, lines = [], []
  for _ in range(ncases):
    n = rng.randint(1, 7)
    units = rng.randint(1, 3)
    monos = [rng.choice([-1, 0, 1, 1]) for _ in range(n)]
    inc = [i for i in range(n) if monos[i] == 1]
    md = []
    if len(inc) >= 2 and rng.random() < 0.6:
      # (dominant, weak): dominant weight >= weak weight
      md = rand_dag_pairs(rng, inc, 4)
    used = {i for p in md for i in p}
    rd = []
    lo = [None] * n
    hi = [None] * n
    for i in range(n):
      if rng.random() < 0.4:
        a = Fraction(rng.randint(-8, 8), 2)
        lo[i] = a
        hi[i] = a + Fraction(rng.randint(1, 12), 4)
      elif rng.random() < 0.2:
        if rng.random() < 0.5:
          lo[i] = Fraction(rng.randint(-4, 4))
        else:
          hi[i] = Fraction(rng.randint(-4, 4))
    for sign in (1, -1):
      cand = [i for i in range(n) if monos[i] == sign and i not in used]
      if len(cand) >= 2 and rng.random() < 0.6:
        ps = rand_dag_pairs(rng, cand, 3)
        for p in ps:
          for i in p:
            if lo[i] is None or hi[i] is None:
              a = Fraction(rng.randint(-8, 8), 2)
              lo[i], hi[i] = a, a + Fraction(rng.randint(1, 12), 4)
        rd += ps
    # dimensions OUTSIDE every range dominance: any accepted bound combination, in particular an EMPTY input
    # range input_min == input_max (the scaling `upper - lower` of such a dimension is 0: F-C06-a), one-sided
    # and absent bounds, mixed freely (input_min > input_max is rejected at construction: C16)
    rdims = {i for p in rd for i in p}
    zero_outside = 0
    for i in range(n):
      if i in rdims:
        continue
      r = rng.random()
      if r < 0.3:
        a = Fraction(rng.randint(-8, 8), 2)
        lo[i], hi[i] = a, a
        zero_outside += 1
      elif r < 0.4:
        lo[i], hi[i] = rng.choice([(None, None), (Fraction(rng.randint(-4, 4)), None), (None, Fraction(rng.randint(-4, 4)))])
    ord_ = rng.choice([None, None, 1, 2, "inf", 1, 2, "inf", rng.choice(P_ORDERS), rng.choice(ALIASES)])
    kind, w = gen_kernel(rng, n, units)
    r = rng.random()
    if r < 0.06:
      # around the normalisation guard _NORMALIZATION_EPS = 1e-8: entries k * 2^-30 (~1e-9 each)
      kind = "guard"
      w = [[Fraction(rng.randint(-6, 6), 2 ** 30) for _ in range(units)] for _ in range(n)]
    elif r < 0.10:
      # nothing survives the sign clip: every weight on the wrong side (zero column after the clip: the degenerate
      # case of the normalisation, F-C03-a)
      kind = "wrong-side"
      w = [[(-abs(gen_value(rng, "dyadic")) if monos[i] >= 0 else abs(gen_value(rng, "dyadic"))) if monos[i] != 0
            else Fraction(0) for _ in range(units)] for i in range(n)]
    if rng.random() < 0.15:
      # feasible by construction: project once, feed the result back
      kind = "feasible"
    cfg = dict(monotonicities=monos, monotonic_dominances=md or None, range_dominances=rd or None,
               input_min=lo if any(v is not None for v in lo) else None,
               input_max=hi if any(v is not None for v in hi) else None,
               normalization_order=ord_)
    if rd:
      ctx.count("lin:rd:outside_dims_zero_range:%d" % min(zero_outside, 2))
      ctx.count("lin:rd:outside_dims:%d" % min(n - len(rdims), 2))
    cases.append((cfg, kind, w, units, n))
  for cfg, kind, w, units, n in cases:
    kw = dict(cfg)
    kw["input_min"] = None if cfg["input_min"] is None else [None if v is None else float(v) for v in cfg["input_min"]]
    kw["input_max"] = None if cfg["input_max"] is None else [None if v is None else float(v) for v in cfg["input_max"]]
    kw["normalization_order"] = real_order(kw["normalization_order"])
    cons = linear_layer.LinearConstraints(**kw)
    wf = np.array([[float(v) for v in row] for row in w], dtype=np.float64)
    if kind == "feasible":
      wf2 = cons(tf.constant(cons(tf.constant(wf)).numpy())).numpy()
      if np.all(np.isfinite(wf2)):
        wf = wf2
        w = [[Fraction(float(v)) for v in row] for row in wf]
      else:
        kind = "nonfinite-projection"   # the projection below returns it again: oracle clause `finite`
    try:
      out = cons(tf.constant(wf, dtype=tf.float64)).numpy()
      err = None
    except Exception as e:  # the real code rejects / crashes
      out, err = None, classify_exc(e)
    out2 = None
    if err is None and np.all(np.isfinite(out)):
      try:
        out2 = cons(tf.constant(out, dtype=tf.float64)).numpy()     # idempotence: the result is a fixpoint
      except Exception as e:
        out2 = classify_exc(e)
    lo = cfg["input_min"] or [None] * n
    hi = cfg["input_max"] or [None] * n
    case = dict(layer="linear", cfg=cfg, kind=kind, w=w)
    for u in range(units):
      col = [w[i][u] for i in range(n)]
      lines.append("lin.project %s %s %s %s %s %s %s" % (
          il(cfg["monotonicities"]), il2(cfg["monotonic_dominances"] or []), il2(cfg["range_dominances"] or []),
          ",".join(opt(v) for v in lo), ",".join(opt(v) for v in hi),
          ORD_TOKEN[order_class(cfg["normalization_order"])], frl(col)))
    ctx.pending.append((case, wf, out, err, units, n, out2))
  return lines


# what the model is asked for: orders 1 / inf are normalised in Q; for order 2 the model's `project` IS the
# pre-normalised column (Tfl.C06.project_l2_eq_pre); a general p is asked as `none` (= the pre-normalised column)
ORD_TOKEN = {"none": "none", "1": "1", "inf": "inf", "2": "2", "p": "none"}


def check_linear(ctx, item, replies):
  case, wf, out, err, units, n, out2 = item
  cfg = case["cfg"]
  scale = max_abs(wf.ravel())
  ocls = order_class(cfg["normalization_order"])
  cls = "lin:m%d%d%d:md%d:rd%d:ord%s" % (int(1 in cfg["monotonicities"]), int(-1 in cfg["monotonicities"]),
                                          int(0 in cfg["monotonicities"]), bool(cfg["monotonic_dominances"]),
                                          bool(cfg["range_dominances"]), ocls)
  ctx.count(cls)
  ctx.count("order:%r" % (cfg["normalization_order"],))
  if cfg["monotonic_dominances"] and cfg["range_dominances"]:
    ctx.count("lin:both-dominance-kinds")
  ctx.count("kind:" + case["kind"])
  key = dict(layer="linear", cls=cls, kind=case["kind"])
  if err is not None:
    ctx.fail("raises", key, case, err)
    ctx.case(sig=(cls, "err"), sample=case)
    return
  moved = bool(np.any(out != wf))
  ctx.case(sig=(cls, case["kind"], moved, hash(wf.tobytes()) % 997), nontrivial=moved or case["kind"] == "feasible",
           sample=dict(case=case, out=out))
  # ---- correspondence, column by column
  for u in range(units):
    toks = replies[u].split(" ")
    ctx.count("order_ok:" + toks[-1])
    if toks[0] == "ERR":
      ctx.disagree("linear.project", case, out[:, u], replies[u], "model rejects, code accepts")
      continue
    model = parse_rats(toks[0])
    if ocls in ("2", "p"):
      # the model returned the PRE-normalised column; the quotient by the root / p-norm is irrational: real arithmetic
      nsq = Fraction(toks[1])
      if ocls == "2":
        skip = toks[2] == "1"                       # the guard norm < 1e-8, decided by the model in Q
        norm = 1.0 if skip else math.sqrt(float(nsq))
        ctx.count("l2:skips:%d" % skip)
      else:
        norm = pnorm([float(m) for m in model], cfg["normalization_order"])
        if not (norm >= 1e-8):
          norm = 1.0
      near_guard = abs(norm - 1e-8) < 1e-14 or (ocls == "2" and abs(float(nsq) - 1e-16) < 1e-24)
      if near_guard:
        ctx.count("guard:undecidable-in-floats")   # the float norm may fall on either side: no comparison
        continue
      scaled = [Fraction(float(m) / norm) for m in model]
      ctx.compare("linear.project", case, out[:, u], scaled, max(scale, scale / norm), rtol=1e-7)
      if ocls == "2" and not skip:
        # root-free form of the claim out = pre / sqrt(normSq pre): out_i^2 * normSq == pre_i^2 and equal signs
        ok = True
        for o_, m_ in zip(out[:, u], model):
          lhs = Fraction(float(o_)) ** 2 * nsq
          rhs = m_ * m_
          if abs(lhs - rhs) > Fraction(1, 10 ** 7) * max(rhs, nsq * Fraction(1, 10 ** 14)) or (m_ != 0 and (float(o_) > 0) != (m_ > 0) and lhs > nsq * Fraction(1, 10 ** 14)):
            ok = False
        if ok:
          ctx.agree("linear.project.l2_rootfree")
        else:
          ctx.disagree("linear.project.l2_rootfree", case, [float(v) for v in out[:, u]], [fr(m_) for m_ in model],
                       "out_i^2 * normSq != pre_i^2 (normSq=%s)" % fr(nsq))
    else:
      ctx.compare("linear.project", case, out[:, u], model, scale, rtol=1e-9)
  # ---- oracle on the real result
  tol = 1e-7 * max(1.0, float(np.max(np.abs(out))) if np.all(np.isfinite(out)) else 1.0)
  if not np.all(np.isfinite(out)):
    ctx.fail("finite", key, case, out)
    return
  for i, m in enumerate(cfg["monotonicities"]):
    if m == 1 and np.min(out[i]) < -tol:
      ctx.fail("sign", key, case, out, "increasing dim %d negative" % i)
    if m == -1 and np.max(out[i]) > tol:
      ctx.fail("sign", key, case, out, "decreasing dim %d positive" % i)
  for d, k in cfg["monotonic_dominances"] or []:
    if np.min(out[d] - out[k]) < -tol:
      ctx.fail("monotonic_dominance", key, case, out, "dominant %d weak %d" % (d, k))
  if cfg["range_dominances"]:
    sc = [(-1.0 if m == -1 else 1.0) for m in cfg["monotonicities"]]
    for i in {i for p in cfg["range_dominances"] for i in p}:
      sc[i] *= float(cfg["input_max"][i] - cfg["input_min"][i])
    # inputs outside the range dominances (and the monotonic dominances) are only sign-clipped and normalised
    if ocls == "none":
      touched = {i for p in (cfg["range_dominances"] or []) + (cfg["monotonic_dominances"] or []) for i in p}
      for i in range(n):
        if i not in touched:
          m = cfg["monotonicities"][i]
          want = np.maximum(wf[i], 0.0) if m == 1 else (np.minimum(wf[i], 0.0) if m == -1 else wf[i])
          if np.any(out[i] != want):
            ctx.fail("untouched", key, case, out, "dim %d outside every dominance changed: %r -> %r" % (i, wf[i], out[i]))
    rtol_ = tol * max(1.0, max(abs(s) for s in sc))
    for d, k in cfg["range_dominances"]:
      if np.min(sc[d] * out[d] - sc[k] * out[k]) < -rtol_:
        ctx.fail("range_dominance", key, case, out, "dominant %d weak %d" % (d, k))
  o = cfg["normalization_order"]
  if ocls != "none":
    # unit norm of the requested order unless numerically zero: the code's own notion is norm < 1e-8
    # (_NORMALIZATION_EPS); a column returned with a norm in [1e-8, 1) was NOT normalised
    for u in range(units):
      nm = pnorm(out[:, u], o)
      if abs(nm - 1.0) > 1e-6 and nm >= 1e-8 * (1 + 1e-6):
        ctx.fail("norm", key, case, out, "unit %d norm %r" % (u, nm))
      ctx.count("norm:unit" if abs(nm - 1.0) <= 1e-6 else "norm:below-guard")
  # the result is a fixpoint of the WHOLE projection, normalisation included (Tfl.C06.accepted_project, last clause)
  if isinstance(out2, str):
    ctx.fail("raises", key, case, out2, "the projection raises on its own result")
  elif out2 is not None:
    d = float(np.max(np.abs(out2 - out))) if out.size else 0.0
    if not np.all(np.isfinite(out2)) or d > 1e-7 * max(1.0, float(np.max(np.abs(out))) if out.size else 1.0):
      ctx.fail("idempotent", key, case, out, "project(project(w)) differs from project(w) by %g" % d)
  if case["kind"] == "feasible":
    if float(np.max(np.abs(out - wf))) > 1e-7 * scale:
      ctx.fail("fixpoint", key, case, out, "feasible kernel moved by %g" % float(np.max(np.abs(out - wf))))


def run_categorical(ctx, ncases):
  import tensorflow as tf
  from tensorflow_lattice.python import categorical_calibration_layer as ccl
  rng = ctx.rng
  lines = []
  for _ in range(ncases):
    n = rng.randint(2, 8)
    units = rng.randint(1, 3)
    pairs = rand_dag_pairs(rng, range(n), 6) if rng.random() < 0.85 else []
    bmode = rng.choice(["none", "min", "max", "both"])
    a = Fraction(rng.randint(-8, 8), 4)
    lo = a if bmode in ("min", "both") else None
    hi = a + Fraction(rng.randint(0, 12), 4) if bmode in ("max", "both") else None
    kind, w = gen_kernel(rng, n, units)
    cfg = dict(output_min=lo, output_max=hi, monotonicities=[list(p) for p in pairs] or None)
    cons = ccl.CategoricalCalibrationConstraints(
        output_min=None if lo is None else float(lo), output_max=None if hi is None else float(hi),
        monotonicities=[tuple(p) for p in pairs] or None)
    wf = np.array([[float(v) for v in row] for row in w], dtype=np.float64)
    if rng.random() < 0.15:
      wf2 = cons(tf.constant(cons(tf.constant(wf)).numpy())).numpy()
      if np.all(np.isfinite(wf2)):
        kind = "feasible"
        wf = wf2
        w = [[Fraction(float(v)) for v in row] for row in wf]
    try:
      out = cons(tf.constant(wf, dtype=tf.float64)).numpy()
      err = None
    except Exception as e:
      out, err = None, classify_exc(e)
    case = dict(layer="categorical", cfg=cfg, kind=kind, w=w)
    for u in range(units):
      lines.append("cat.project %s %s %s %s" % (opt(lo), opt(hi), il2(pairs), frl([w[i][u] for i in range(n)])))
    ctx.pending.append((case, wf, out, err, units, n))
  return lines


def check_categorical(ctx, item, replies):
  case, wf, out, err, units, n = item
  cfg = case["cfg"]
  scale = max_abs(wf.ravel())
  pairs = cfg["monotonicities"] or []
  cls = "cat:p%d:lo%d:hi%d" % (min(len(pairs), 3), cfg["output_min"] is not None, cfg["output_max"] is not None)
  ctx.count(cls)
  key = dict(layer="categorical", cls=cls, kind=case["kind"])
  if err is not None:
    ctx.fail("raises", key, case, err)
    ctx.case(sig=(cls, "err"), sample=case)
    return
  moved = bool(np.any(out != wf))
  ctx.case(sig=(cls, case["kind"], moved, hash(wf.tobytes()) % 997), nontrivial=moved or case["kind"] == "feasible",
           sample=dict(case=case, out=out))
  for u in range(units):
    toks = replies[u].split(" ")
    ctx.count("order_ok:" + toks[-1])
    if toks[0] == "ERR":
      ctx.disagree("categorical.project", case, out[:, u], replies[u], "model rejects, code accepts")
      continue
    ctx.compare("categorical.project", case, out[:, u], parse_rats(toks[0]), scale, rtol=1e-9)
  tol = 1e-9 * scale
  if not np.all(np.isfinite(out)):
    ctx.fail("finite", key, case, out)
    return
  for i, j in pairs:
    if np.max(out[i] - out[j]) > tol:
      ctx.fail("pair", key, case, out, "pair (%d,%d)" % (i, j))
  if cfg["output_min"] is not None and np.min(out) < float(cfg["output_min"]) - tol:
    ctx.fail("bounds", key, case, out)
  if cfg["output_max"] is not None and np.max(out) > float(cfg["output_max"]) + tol:
    ctx.fail("bounds", key, case, out)
  if case["kind"] == "feasible" and float(np.max(np.abs(out - wf))) > 1e-9 * scale:
    ctx.fail("fixpoint", key, case, out)


# ---------------------------------------------------------------- dominance sets the validation must reject
def gen_hostile_linear(rng):
  """LinearConstraints arguments whose dominance set is circular (k-cycle in any rotation, a pair (d, d), a cycle
  behind a root / in front of a tail, with repeated pairs) or whose range-dominance dimensions carry the
  monotonicity None — or, as the accepted control, a chain through the same dimensions."""
  n = rng.randint(2, 6)
  kind = rng.choice(["cycle", "cycle", "self", "none_mono", "chain", "shared", "shared", "bad_order", "no_monos"])
  if kind == "no_monos":
    # LinearConstraints without monotonicities (None / empty list): no sign constraint, dominances impossible
    cfg = dict(monotonicities=rng.choice([None, []]), monotonic_dominances=None, range_dominances=None, input_min=None,
               input_max=None, normalization_order=rng.choice([None, 1, 2, "inf"]))
    return dict(layer="linear_hostile", hostile=kind, cfg=cfg, w=[[gen_value(rng, "dyadic")] for _ in range(n)])
  if kind == "shared":
    # a dimension used by BOTH kinds of dominance: the range-dominance stage runs second and may undo the
    # monotonic dominance on it (the composite theorem needs the two node sets disjoint: verifyLinear_disjoint)
    n = rng.randint(3, 6)
    monos = [1] * n
    order = list(range(n))
    rng.shuffle(order)
    s_, a_, b_ = order[0], order[1], order[2]
    wadv = None
    r = rng.random()
    if r < 0.35:
      # s dominates a monotonically, b dominates s by range: a small weight on b pulls w_s below w_a
      md, rd, wadv = [(s_, a_)], [(b_, s_)], {s_: Fraction(2), a_: Fraction(2), b_: Fraction(0)}
    elif r < 0.7:
      # a dominates s monotonically, s dominates b by range: a large weight on b lifts w_s above w_a
      md, rd, wadv = [(a_, s_)], [(s_, b_)], {s_: Fraction(1), a_: Fraction(1), b_: Fraction(10)}
    else:
      md = [(s_, a_) if rng.random() < 0.5 else (a_, s_)]
      rd = [(s_, b_) if rng.random() < 0.5 else (b_, s_)]
    if n >= 5 and rng.random() < 0.5:
      md.append((order[3], order[1]))
    lo = [Fraction(rng.randint(-4, 4), 2) for _ in range(n)]
    cfg = dict(monotonicities=monos, monotonic_dominances=md, range_dominances=rd, input_min=lo,
               input_max=[a + Fraction(rng.randint(1, 16), 4) for a in lo], normalization_order=rng.choice([None, 1]))
    w = [[wadv[i] if wadv is not None and i in wadv else gen_value(rng, "dyadic")] for i in range(n)]
    return dict(layer="linear_hostile", hostile=kind, cfg=cfg, w=w)
  if kind == "bad_order":
    # a normalization_order tf.norm does not support as a vector norm
    monos = [rng.choice([-1, 0, 1]) for _ in range(n)]
    cfg = dict(monotonicities=monos, monotonic_dominances=None, range_dominances=None, input_min=None, input_max=None,
               normalization_order=rng.choice(BAD_ORDERS))
    return dict(layer="linear_hostile", hostile=kind, cfg=cfg, w=[[gen_value(rng, "dyadic")] for _ in range(n)])
  which = rng.choice(["monotonic_dominances", "range_dominances"])
  sign = 1 if which == "monotonic_dominances" else rng.choice([1, -1])
  monos = [sign] * n
  k = rng.randint(2, n) if kind != "self" else 1
  verts = rng.sample(range(n), k)
  if kind in ("cycle", "self"):
    pairs = [(verts[i], verts[(i + 1) % k]) for i in range(k)]
    if k == 2 and kind == "cycle" and n >= 3:        # a bare 2-cycle was always rejected: make it a 3-cycle
      extra = [v for v in range(n) if v not in verts][0]
      pairs = [(verts[0], verts[1]), (verts[1], extra), (extra, verts[0])]
    for v in range(n):
      if v not in {i for p in pairs for i in p} and rng.random() < 0.5:
        pairs.append((v, rng.choice(verts)) if rng.random() < 0.5 else (rng.choice(verts), v))
    if rng.random() < 0.3:
      pairs.append(rng.choice(pairs))
    rng.shuffle(pairs)
  else:
    pairs = [(verts[i], verts[i + 1]) for i in range(k - 1)] or [(0, 1)]
  if kind == "none_mono":
    which = "range_dominances"
    monos = [None] * n if rng.random() < 0.5 else [None if i in {j for p in pairs for j in p} else rng.choice([0, 1]) for i in range(n)]
  cfg = dict(monotonicities=monos, monotonic_dominances=None, range_dominances=None, input_min=None, input_max=None,
             normalization_order=rng.choice([None, 1]))
  cfg[which] = pairs
  if which == "range_dominances":
    cfg["input_min"] = [Fraction(rng.randint(-4, 4), 2) for _ in range(n)]
    cfg["input_max"] = [a + Fraction(rng.randint(1, 8), 4) for a in cfg["input_min"]]
  w = [[gen_value(rng, "dyadic")] for _ in range(n)]
  return dict(layer="linear_hostile", hostile=kind, cfg=cfg, w=w)


def fail_limited(ctx, tag, limit, clause, key, case, observed, detail=""):
  """failures of a PINNED hostile class are listed `limit` times per run and counted beyond that: the failure list
  of a run is capped, and a flood of one known finding must not crowd out other failures."""
  seen = ctx.__dict__.setdefault("_limited", {})
  seen[tag] = seen.get(tag, 0) + 1
  if seen[tag] <= limit:
    ctx.fail(clause, key, case, observed, detail)
  else:
    ctx.count("not-listed:" + tag)


def check_hostile_linear(ctx, case):
  """property: such a configuration is rejected with ValueError at construction, or (the chain control, and
  whatever else is accepted) the projection does not raise and returns finite weights meeting the dominances."""
  import tensorflow as tf
  from tensorflow_lattice.python import linear_layer
  cfg = case["cfg"]
  kw = dict(cfg)
  for k in ("input_min", "input_max"):
    kw[k] = None if cfg[k] is None else [float(Fraction(v)) for v in cfg[k]]
  for k in ("monotonic_dominances", "range_dominances"):
    kw[k] = None if cfg[k] is None else [tuple(p) for p in cfg[k]]
  kw["normalization_order"] = real_order(cfg["normalization_order"])
  key = dict(layer="linear", cls="hostile:" + case["hostile"], kind="dyadic")
  ctx.case(sig=("hostile", case["hostile"], len(cfg["monotonicities"] or []), bool(cfg["range_dominances"]),
                repr(cfg["normalization_order"]) if case["hostile"] == "bad_order" else ""), nontrivial=True, sample=case)
  try:
    cons = linear_layer.LinearConstraints(**kw)
  except ValueError as e:
    if isinstance(e, tf.errors.OpError):
      ctx.fail("raises", key, case, classify_exc(e), "constructor")
    ctx.count("hostile:%s:rejected" % case["hostile"])
    if case["hostile"] == "chain":
      ctx.fail("raises", key, case, "ERR ValueError", "an acyclic dominance chain was rejected")
    return
  except Exception as e:  # pylint: disable=broad-except
    ctx.fail("raises", key, case, classify_exc(e), "constructor raised something else than ValueError")
    return
  ctx.count("hostile:%s:accepted" % case["hostile"])
  wf = np.array([[float(Fraction(v)) for v in row] for row in case["w"]], dtype=np.float64)
  try:
    out = cons(tf.constant(wf)).numpy()
  except Exception as e:  # pylint: disable=broad-except
    detail = "accepted at construction, the projection raises: %s" % str(e)[:120]
    if case["hostile"] in ("bad_order", "no_monos"):
      fail_limited(ctx, case["hostile"] + ":raises", 8, "raises", key, case, classify_exc(e), detail)
    else:
      ctx.fail("raises", key, case, classify_exc(e), detail)
    return
  if not np.all(np.isfinite(out)):
    if case["hostile"] == "bad_order":
      fail_limited(ctx, "bad_order:finite", 4, "finite", key, case, out)
    else:
      ctx.fail("finite", key, case, out)
    return
  tol = 1e-7 * max(1.0, float(np.max(np.abs(wf))))
  if case["hostile"] == "no_monos":
    # no constraint at all: the weights are returned unchanged, or normalised
    o = cfg["normalization_order"]
    for u in range(out.shape[1]):
      nm0 = pnorm(wf[:, u], o) if order_class(o) != "none" else 1.0
      want = wf[:, u] / (nm0 if nm0 >= 1e-8 else 1.0)
      if out.shape != wf.shape or float(np.max(np.abs(out[:, u] - want))) > 1e-9 * max(1.0, float(np.max(np.abs(want)))):
        ctx.fail("fixpoint", key, case, out, "unconstrained weights changed otherwise than by the normalisation")
    return
  for d, k in kw["monotonic_dominances"] or []:
    if np.min(out[d] - out[k]) < -tol:
      ctx.fail("monotonic_dominance", key, case, out, "dominant %d weak %d" % (d, k))
  if kw["range_dominances"] and kw["input_min"] is not None and all(m in (1, -1) for m in cfg["monotonicities"]):
    sc = [(-1.0 if m == -1 else 1.0) * (kw["input_max"][i] - kw["input_min"][i]) for i, m in enumerate(cfg["monotonicities"])]
    for d, k in kw["range_dominances"]:
      if np.min(sc[d] * out[d] - sc[k] * out[k]) < -tol * max(abs(v) for v in sc):
        ctx.fail("range_dominance", key, case, out, "dominant %d weak %d" % (d, k))
  if case["hostile"] == "none_mono":
    ctx.fail("raises", key, case, "accepted", "a range dominance between features without monotonicity was accepted")


def run(ctx):
  ctx.pending = []
  for _ in range(ctx.n(60, 1500)):
    check_hostile_linear(ctx, gen_hostile_linear(ctx.rng))
  nl = ctx.n(250, 6000)
  lines = run_linear(ctx, nl)
  n_lin = len(ctx.pending)
  lines += run_categorical(ctx, ctx.n(250, 6000))
  replies = run_driver(lines)
  pos = 0
  for k, item in enumerate(ctx.pending):
    units = item[4]
    (check_linear if k < n_lin else check_categorical)(ctx, item, replies[pos:pos + units])
    pos += units
  if ctx.dist.get("order_ok:0"):
    ctx.disagree("poset.order_valid", {}, None, None, "model topological order invalid on %d columns" % ctx.dist["order_ok:0"])


def replay(ctx, failure):
  """Re-executes one recorded failing case on the current tree."""
  import tensorflow as tf
  case = failure["case"]
  if case.get("layer") == "linear_hostile":
    check_hostile_linear(ctx, case)
    return
  ctx.pending = []
  cfg = case["cfg"]
  w = [[Fraction(v) for v in row] for row in case["w"]]
  wf = np.array([[float(v) for v in row] for row in w], dtype=np.float64)
  n, units = wf.shape
  if case["layer"] == "linear":
    from tensorflow_lattice.python import linear_layer
    kw = dict(cfg)
    for k in ("input_min", "input_max"):
      cfg[k] = None if cfg[k] is None else [None if v is None else Fraction(v) for v in cfg[k]]
      kw[k] = None if cfg[k] is None else [None if v is None else float(v) for v in cfg[k]]
    for k in ("monotonic_dominances", "range_dominances"):
      kw[k] = None if cfg[k] is None else [tuple(p) for p in cfg[k]]
    kw["normalization_order"] = real_order(kw["normalization_order"])
    out2 = None
    try:
      cons = linear_layer.LinearConstraints(**kw)
      out, err = cons(tf.constant(wf)).numpy(), None
      if np.all(np.isfinite(out)):
        try:
          out2 = cons(tf.constant(out)).numpy()
        except Exception as e:
          out2 = classify_exc(e)
    except Exception as e:
      out, err = None, classify_exc(e)
    lines = ["lin.project %s %s %s %s %s %s %s" % (
        il(cfg["monotonicities"]), il2(cfg["monotonic_dominances"] or []), il2(cfg["range_dominances"] or []),
        ",".join(opt(v) for v in (cfg["input_min"] or [None] * n)), ",".join(opt(v) for v in (cfg["input_max"] or [None] * n)),
        ORD_TOKEN[order_class(cfg["normalization_order"])],
        frl([w[i][u] for i in range(n)])) for u in range(units)]
    check_linear(ctx, (case, wf, out, err, units, n, out2), run_driver(lines))
  else:
    from tensorflow_lattice.python import categorical_calibration_layer as ccl
    lo = None if cfg["output_min"] is None else Fraction(cfg["output_min"])
    hi = None if cfg["output_max"] is None else Fraction(cfg["output_max"])
    cfg["output_min"], cfg["output_max"] = lo, hi
    pairs = cfg["monotonicities"] or []
    try:
      out, err = ccl.CategoricalCalibrationConstraints(
          output_min=None if lo is None else float(lo), output_max=None if hi is None else float(hi),
          monotonicities=[tuple(p) for p in pairs] or None)(tf.constant(wf)).numpy(), None
    except Exception as e:
      out, err = None, classify_exc(e)
    lines = ["cat.project %s %s %s %s" % (opt(lo), opt(hi), il2(pairs), frl([w[i][u] for i in range(n)]))
             for u in range(units)]
    check_categorical(ctx, (case, wf, out, err, units, n), run_driver(lines))
