"""C06: Linear / CategoricalCalibration weight constraints.
Tie: LinearConstraints(...)(w), CategoricalCalibrationConstraints(...)(w) vs Tfl.Linear.project /
Tfl.Categorical.project.  Oracle: signs, dominance, range dominance, norm, pairs, bounds, fixpoint."""
import math
import numpy as np
from fractions import Fraction
from common import *

RULE = ("hostile Linear dominance sets (circular: k-cycles in any rotation, (d, d), cycles behind roots / with tails, "
        "repeated pairs; range dominances on monotonicity None; acyclic chains as accepted control) which must be "
        "rejected at construction or else project without raising; configs drawn from one PRNG: Linear (1-7 dims, 1-3 units, monotonicities in {-1,0,1}, acyclic "
        "monotonic/range dominance graphs, input ranges — positive on the range-dominance dimensions, and on the "
        "dimensions OUTSIDE every range dominance positive / zero (input_min == input_max) / one-sided / absent in "
        "any mixture —, norm order in {None,1,2,inf}) and Categorical "
        "(2-8 buckets, acyclic pair graphs: chains, diamonds, forests, shared parents, duplicate pairs; bounds "
        "none/min/max/both); kernels dyadic/int(ties)/wide/tiny/huge/feasible. Non-trivial = the projection "
        "moved the kernel or the kernel was feasible by construction; distinct = distinct (layer, config "
        "class, kernel kind, moved) signature + case hash.")
ASSUMPTIONS = ["float64 kernels; rounding tolerance 1e-9*scale",
               "theorems take validity of the order returned by the model of _topological_sort as a decidable "
               "hypothesis; the driver evaluates it on every case (reported as order_ok)"]


def rand_dag_pairs(rng, nodes, max_pairs):
  """acyclic pair set over `nodes`: pairs (a, b) with a before b in a random order."""
  nodes = list(nodes)
  if len(nodes) < 2:
    return []
  order = nodes[:]
  rng.shuffle(order)
  shape = rng.choice(["chain", "random", "random", "diamond", "star", "dup", "dense", "dense", "shortcut", "shortcut"])
  pairs = []
  if shape == "shortcut" and len(order) < 4:
    shape = "dense"
  if shape == "dense":
    # every forward pair with probability ~0.6, listed in random order (transitive shortcuts included)
    prob = rng.choice([0.4, 0.6, 0.8])
    pairs = [(order[i], order[j]) for i in range(len(order)) for j in range(i + 1, len(order)) if rng.random() < prob]
    if not pairs:
      pairs = [(order[0], order[1])]
    rng.shuffle(pairs)
    return pairs
  if shape == "shortcut":
    # a long path u -> c1 -> ... -> b plus redundant shortcut edges, the shortcuts listed FIRST
    k = rng.randint(4, len(order))
    path = [(order[i], order[i + 1]) for i in range(k - 1)]
    shortcuts = [(order[0], order[k - 1])]
    for _ in range(rng.randint(0, 2)):
      i = rng.randint(0, k - 3)
      j = rng.randint(i + 2, k - 1)
      if (order[i], order[j]) not in shortcuts:
        shortcuts.append((order[i], order[j]))
    extra = [(order[i], order[1 + rng.randint(0, k - 2)]) for i in range(k, len(order))]
    if rng.random() < 0.5:
      rng.shuffle(path)
    return shortcuts + path + extra
  if shape == "chain":
    k = rng.randint(2, len(order))
    pairs = [(order[i], order[i + 1]) for i in range(k - 1)]
  elif shape == "diamond" and len(order) >= 4:
    a, b, c, d = order[:4]
    pairs = [(a, b), (a, c), (b, d), (c, d)]
  elif shape == "star":
    root = order[0]
    pairs = [(root, x) for x in order[1:1 + rng.randint(1, len(order) - 1)]]
    if rng.random() < 0.5:
      pairs = [(b, a) for a, b in pairs]
  else:
    for _ in range(rng.randint(1, max_pairs)):
      i, j = sorted(rng.sample(range(len(order)), 2))
      p = (order[i], order[j])
      if shape == "dup" or p not in pairs:
        pairs.append(p)
  rng.shuffle(pairs)
  return pairs


def gen_kernel(rng, n, units):
  kind = rng.choice(VALUE_KINDS + ["zero"])
  if kind == "zero":
    return kind, [[Fraction(0)] * units for _ in range(n)]
  return kind, [[gen_value(rng, kind) for _ in range(units)] for _ in range(n)]


def run_linear(ctx, ncases):
  import tensorflow as tf
  from tensorflow_lattice.python import linear_layer
  rng = ctx.rng
  cases, lines = [], []
  for _ in range(ncases):
    n = rng.randint(1, 7)
    units = rng.randint(1, 3)
    monos = [rng.choice([-1, 0, 1, 1]) for _ in range(n)]
    inc = [i for i in range(n) if monos[i] == 1]
    md = []
    if len(inc) >= 2 and rng.random() < 0.6:
      # (dominant, weak): dominant weight >= weak weight
      md = rand_dag_pairs(rng, inc, 4)
    used = {i for p in md for i in p}
    rd = []
    lo = [None] * n
    hi = [None] * n
    for i in range(n):
      if rng.random() < 0.4:
        a = Fraction(rng.randint(-8, 8), 2)
        lo[i] = a
        hi[i] = a + Fraction(rng.randint(1, 12), 4)
      elif rng.random() < 0.2:
        if rng.random() < 0.5:
          lo[i] = Fraction(rng.randint(-4, 4))
        else:
          hi[i] = Fraction(rng.randint(-4, 4))
    for sign in (1, -1):
      cand = [i for i in range(n) if monos[i] == sign and i not in used]
      if len(cand) >= 2 and rng.random() < 0.6:
        ps = rand_dag_pairs(rng, cand, 3)
        for p in ps:
          for i in p:
            if lo[i] is None or hi[i] is None:
              a = Fraction(rng.randint(-8, 8), 2)
              lo[i], hi[i] = a, a + Fraction(rng.randint(1, 12), 4)
        rd += ps
    # dimensions OUTSIDE every range dominance: any accepted bound combination, in particular an EMPTY input
    # range input_min == input_max (the scaling `upper - lower` of such a dimension is 0: F-C06-a), one-sided
    # and absent bounds, mixed freely (input_min > input_max is rejected at construction: C16)
    rdims = {i for p in rd for i in p}
    zero_outside = 0
    for i in range(n):
      if i in rdims:
        continue
      r = rng.random()
      if r < 0.3:
        a = Fraction(rng.randint(-8, 8), 2)
        lo[i], hi[i] = a, a
        zero_outside += 1
      elif r < 0.4:
        lo[i], hi[i] = rng.choice([(None, None), (Fraction(rng.randint(-4, 4)), None), (None, Fraction(rng.randint(-4, 4)))])
    ord_ = rng.choice([None, None, 1, 2, "inf"])
    kind, w = gen_kernel(rng, n, units)
    if rng.random() < 0.15:
      # feasible by construction: project once, feed the result back
      kind = "feasible"
    cfg = dict(monotonicities=monos, monotonic_dominances=md or None, range_dominances=rd or None,
               input_min=lo if any(v is not None for v in lo) else None,
               input_max=hi if any(v is not None for v in hi) else None,
               normalization_order=ord_)
    if rd:
      ctx.count("lin:rd:outside_dims_zero_range:%d" % min(zero_outside, 2))
      ctx.count("lin:rd:outside_dims:%d" % min(n - len(rdims), 2))
    cases.append((cfg, kind, w, units, n))
  for cfg, kind, w, units, n in cases:
    kw = dict(cfg)
    kw["input_min"] = None if cfg["input_min"] is None else [None if v is None else float(v) for v in cfg["input_min"]]
    kw["input_max"] = None if cfg["input_max"] is None else [None if v is None else float(v) for v in cfg["input_max"]]
    if kw["normalization_order"] == "inf":
      kw["normalization_order"] = np.inf
    cons = linear_layer.LinearConstraints(**kw)
    wf = np.array([[float(v) for v in row] for row in w], dtype=np.float64)
    if kind == "feasible":
      wf2 = cons(tf.constant(cons(tf.constant(wf)).numpy())).numpy()
      if np.all(np.isfinite(wf2)):
        wf = wf2
        w = [[Fraction(float(v)) for v in row] for row in wf]
      else:
        kind = "nonfinite-projection"   # the projection below returns it again: oracle clause `finite`
    try:
      out = cons(tf.constant(wf, dtype=tf.float64)).numpy()
      err = None
    except Exception as e:  # the real code rejects / crashes
      out, err = None, classify_exc(e)
    lo = cfg["input_min"] or [None] * n
    hi = cfg["input_max"] or [None] * n
    case = dict(layer="linear", cfg=cfg, kind=kind, w=w)
    for u in range(units):
      col = [w[i][u] for i in range(n)]
      lines.append("lin.project %s %s %s %s %s %s %s" % (
          il(cfg["monotonicities"]), il2(cfg["monotonic_dominances"] or []), il2(cfg["range_dominances"] or []),
          ",".join(opt(v) for v in lo), ",".join(opt(v) for v in hi),
          "none" if cfg["normalization_order"] is None else str(cfg["normalization_order"]), frl(col)))
    ctx.pending.append((case, wf, out, err, units, n))
  return lines


def check_linear(ctx, item, replies):
  case, wf, out, err, units, n = item
  cfg = case["cfg"]
  scale = max_abs(wf.ravel())
  cls = "lin:m%d%d%d:md%d:rd%d:ord%s" % (int(1 in cfg["monotonicities"]), int(-1 in cfg["monotonicities"]),
                                          int(0 in cfg["monotonicities"]), bool(cfg["monotonic_dominances"]),
                                          bool(cfg["range_dominances"]), cfg["normalization_order"])
  ctx.count(cls)
  ctx.count("kind:" + case["kind"])
  key = dict(layer="linear", cls=cls, kind=case["kind"])
  if err is not None:
    ctx.fail("raises", key, case, err)
    ctx.case(sig=(cls, "err"), sample=case)
    return
  moved = bool(np.any(out != wf))
  ctx.case(sig=(cls, case["kind"], moved, hash(wf.tobytes()) % 997), nontrivial=moved or case["kind"] == "feasible",
           sample=dict(case=case, out=out))
  # ---- correspondence, column by column
  for u in range(units):
    toks = replies[u].split(" ")
    ctx.count("order_ok:" + toks[-1])
    if toks[0] == "ERR":
      ctx.disagree("linear.project", case, out[:, u], replies[u], "model rejects, code accepts")
      continue
    model = parse_rats(toks[0])
    if cfg["normalization_order"] == 2:
      nsq = float(Fraction(toks[1]))
      norm = math.sqrt(nsq)
      if norm < 1e-8:
        norm = 1.0
      model = [Fraction(float(m) / norm) for m in model]
      ctx.compare("linear.project", case, out[:, u], model, max(scale, scale / norm), rtol=1e-7)
    else:
      nrm = 1.0
      ctx.compare("linear.project", case, out[:, u], model, scale, rtol=1e-9)
  # ---- oracle on the real result
  tol = 1e-7 * max(1.0, float(np.max(np.abs(out))) if np.all(np.isfinite(out)) else 1.0)
  if not np.all(np.isfinite(out)):
    ctx.fail("finite", key, case, out)
    return
  for i, m in enumerate(cfg["monotonicities"]):
    if m == 1 and np.min(out[i]) < -tol:
      ctx.fail("sign", key, case, out, "increasing dim %d negative" % i)
    if m == -1 and np.max(out[i]) > tol:
      ctx.fail("sign", key, case, out, "decreasing dim %d positive" % i)
  for d, k in cfg["monotonic_dominances"] or []:
    if np.min(out[d] - out[k]) < -tol:
      ctx.fail("monotonic_dominance", key, case, out, "dominant %d weak %d" % (d, k))
  if cfg["range_dominances"]:
    sc = [(-1.0 if m == -1 else 1.0) for m in cfg["monotonicities"]]
    for i in {i for p in cfg["range_dominances"] for i in p}:
      sc[i] *= float(cfg["input_max"][i] - cfg["input_min"][i])
    # inputs outside the range dominances (and the monotonic dominances) are only sign-clipped and normalised
    if cfg["normalization_order"] is None:
      touched = {i for p in (cfg["range_dominances"] or []) + (cfg["monotonic_dominances"] or []) for i in p}
      for i in range(n):
        if i not in touched:
          m = cfg["monotonicities"][i]
          want = np.maximum(wf[i], 0.0) if m == 1 else (np.minimum(wf[i], 0.0) if m == -1 else wf[i])
          if np.any(out[i] != want):
            ctx.fail("untouched", key, case, out, "dim %d outside every dominance changed: %r -> %r" % (i, wf[i], out[i]))
    rtol_ = tol * max(1.0, max(abs(s) for s in sc))
    for d, k in cfg["range_dominances"]:
      if np.min(sc[d] * out[d] - sc[k] * out[k]) < -rtol_:
        ctx.fail("range_dominance", key, case, out, "dominant %d weak %d" % (d, k))
  o = cfg["normalization_order"]
  if o is not None:
    nm = np.linalg.norm(out, ord=np.inf if o == "inf" else o, axis=0)
    for u in range(units):
      if abs(nm[u] - 1.0) > 1e-6 and abs(nm[u]) > 1e-6:
        ctx.fail("norm", key, case, out, "unit %d norm %r" % (u, nm[u]))
  if case["kind"] == "feasible":
    if float(np.max(np.abs(out - wf))) > 1e-7 * scale:
      ctx.fail("fixpoint", key, case, out, "feasible kernel moved by %g" % float(np.max(np.abs(out - wf))))


def run_categorical(ctx, ncases):
  import tensorflow as tf
  from tensorflow_lattice.python import categorical_calibration_layer as ccl
  rng = ctx.rng
  lines = []
  for _ in range(ncases):
    n = rng.randint(2, 8)
    units = rng.randint(1, 3)
    pairs = rand_dag_pairs(rng, range(n), 6) if rng.random() < 0.85 else []
    bmode = rng.choice(["none", "min", "max", "both"])
    a = Fraction(rng.randint(-8, 8), 4)
    lo = a if bmode in ("min", "both") else None
    hi = a + Fraction(rng.randint(0, 12), 4) if bmode in ("max", "both") else None
    kind, w = gen_kernel(rng, n, units)
    cfg = dict(output_min=lo, output_max=hi, monotonicities=[list(p) for p in pairs] or None)
    cons = ccl.CategoricalCalibrationConstraints(
        output_min=None if lo is None else float(lo), output_max=None if hi is None else float(hi),
        monotonicities=[tuple(p) for p in pairs] or None)
    wf = np.array([[float(v) for v in row] for row in w], dtype=np.float64)
    if rng.random() < 0.15:
      wf2 = cons(tf.constant(cons(tf.constant(wf)).numpy())).numpy()
      if np.all(np.isfinite(wf2)):
        kind = "feasible"
        wf = wf2
        w = [[Fraction(float(v)) for v in row] for row in wf]
    try:
      out = cons(tf.constant(wf, dtype=tf.float64)).numpy()
      err = None
    except Exception as e:
      out, err = None, classify_exc(e)
    case = dict(layer="categorical", cfg=cfg, kind=kind, w=w)
    for u in range(units):
      lines.append("cat.project %s %s %s %s" % (opt(lo), opt(hi), il2(pairs), frl([w[i][u] for i in range(n)])))
    ctx.pending.append((case, wf, out, err, units, n))
  return lines


def check_categorical(ctx, item, replies):
  case, wf, out, err, units, n = item
  cfg = case["cfg"]
  scale = max_abs(wf.ravel())
  pairs = cfg["monotonicities"] or []
  cls = "cat:p%d:lo%d:hi%d" % (min(len(pairs), 3), cfg["output_min"] is not None, cfg["output_max"] is not None)
  ctx.count(cls)
  key = dict(layer="categorical", cls=cls, kind=case["kind"])
  if err is not None:
    ctx.fail("raises", key, case, err)
    ctx.case(sig=(cls, "err"), sample=case)
    return
  moved = bool(np.any(out != wf))
  ctx.case(sig=(cls, case["kind"], moved, hash(wf.tobytes()) % 997), nontrivial=moved or case["kind"] == "feasible",
           sample=dict(case=case, out=out))
  for u in range(units):
    toks = replies[u].split(" ")
    ctx.count("order_ok:" + toks[-1])
    if toks[0] == "ERR":
      ctx.disagree("categorical.project", case, out[:, u], replies[u], "model rejects, code accepts")
      continue
    ctx.compare("categorical.project", case, out[:, u], parse_rats(toks[0]), scale, rtol=1e-9)
  tol = 1e-9 * scale
  if not np.all(np.isfinite(out)):
    ctx.fail("finite", key, case, out)
    return
  for i, j in pairs:
    if np.max(out[i] - out[j]) > tol:
      ctx.fail("pair", key, case, out, "pair (%d,%d)" % (i, j))
  if cfg["output_min"] is not None and np.min(out) < float(cfg["output_min"]) - tol:
    ctx.fail("bounds", key, case, out)
  if cfg["output_max"] is not None and np.max(out) > float(cfg["output_max"]) + tol:
    ctx.fail("bounds", key, case, out)
  if case["kind"] == "feasible" and float(np.max(np.abs(out - wf))) > 1e-9 * scale:
    ctx.fail("fixpoint", key, case, out)


# ---------------------------------------------------------------- dominance sets the validation must reject
def gen_hostile_linear(rng):
  """LinearConstraints arguments whose dominance set is circular (k-cycle in any rotation, a pair (d, d), a cycle
  behind a root / in front of a tail, with repeated pairs) or whose range-dominance dimensions carry the
  monotonicity None — or, as the accepted control, a chain through the same dimensions."""
  n = rng.randint(2, 6)
  kind = rng.choice(["cycle", "cycle", "self", "none_mono", "chain"])
  which = rng.choice(["monotonic_dominances", "range_dominances"])
  sign = 1 if which == "monotonic_dominances" else rng.choice([1, -1])
  monos = [sign] * n
  k = rng.randint(2, n) if kind != "self" else 1
  verts = rng.sample(range(n), k)
  if kind in ("cycle", "self"):
    pairs = [(verts[i], verts[(i + 1) % k]) for i in range(k)]
    if k == 2 and kind == "cycle" and n >= 3:        # a bare 2-cycle was always rejected: make it a 3-cycle
      extra = [v for v in range(n) if v not in verts][0]
      pairs = [(verts[0], verts[1]), (verts[1], extra), (extra, verts[0])]
    for v in range(n):
      if v not in {i for p in pairs for i in p} and rng.random() < 0.5:
        pairs.append((v, rng.choice(verts)) if rng.random() < 0.5 else (rng.choice(verts), v))
    if rng.random() < 0.3:
      pairs.append(rng.choice(pairs))
    rng.shuffle(pairs)
  else:
    pairs = [(verts[i], verts[i + 1]) for i in range(k - 1)] or [(0, 1)]
  if kind == "none_mono":
    which = "range_dominances"
    monos = [None] * n if rng.random() < 0.5 else [None if i in {j for p in pairs for j in p} else rng.choice([0, 1]) for i in range(n)]
  cfg = dict(monotonicities=monos, monotonic_dominances=None, range_dominances=None, input_min=None, input_max=None,
             normalization_order=rng.choice([None, 1]))
  cfg[which] = pairs
  if which == "range_dominances":
    cfg["input_min"] = [Fraction(rng.randint(-4, 4), 2) for _ in range(n)]
    cfg["input_max"] = [a + Fraction(rng.randint(1, 8), 4) for a in cfg["input_min"]]
  w = [[gen_value(rng, "dyadic")] for _ in range(n)]
  return dict(layer="linear_hostile", hostile=kind, cfg=cfg, w=w)


def check_hostile_linear(ctx, case):
  """property: such a configuration is rejected with ValueError at construction, or (the chain control, and
  whatever else is accepted) the projection does not raise and returns finite weights meeting the dominances."""
  import tensorflow as tf
  from tensorflow_lattice.python import linear_layer
  cfg = case["cfg"]
  kw = dict(cfg)
  for k in ("input_min", "input_max"):
    kw[k] = None if cfg[k] is None else [float(Fraction(v)) for v in cfg[k]]
  for k in ("monotonic_dominances", "range_dominances"):
    kw[k] = None if cfg[k] is None else [tuple(p) for p in cfg[k]]
  key = dict(layer="linear", cls="hostile:" + case["hostile"], kind="dyadic")
  ctx.case(sig=("hostile", case["hostile"], len(cfg["monotonicities"]), bool(cfg["range_dominances"])), nontrivial=True, sample=case)
  try:
    cons = linear_layer.LinearConstraints(**kw)
  except ValueError as e:
    if isinstance(e, tf.errors.OpError):
      ctx.fail("raises", key, case, classify_exc(e), "constructor")
    ctx.count("hostile:%s:rejected" % case["hostile"])
    if case["hostile"] == "chain":
      ctx.fail("raises", key, case, "ERR ValueError", "an acyclic dominance chain was rejected")
    return
  except Exception as e:  # pylint: disable=broad-except
    ctx.fail("raises", key, case, classify_exc(e), "constructor raised something else than ValueError")
    return
  ctx.count("hostile:%s:accepted" % case["hostile"])
  wf = np.array([[float(Fraction(v)) for v in row] for row in case["w"]], dtype=np.float64)
  try:
    out = cons(tf.constant(wf)).numpy()
  except Exception as e:  # pylint: disable=broad-except
    ctx.fail("raises", key, case, classify_exc(e), "accepted at construction, the projection raises: %s" % str(e)[:120])
    return
  if not np.all(np.isfinite(out)):
    ctx.fail("finite", key, case, out)
    return
  tol = 1e-7 * max(1.0, float(np.max(np.abs(wf))))
  if cfg["normalization_order"] is None:
    for d, k in kw["monotonic_dominances"] or []:
      if np.min(out[d] - out[k]) < -tol:
        ctx.fail("monotonic_dominance", key, case, out, "dominant %d weak %d" % (d, k))
  if case["hostile"] == "none_mono":
    ctx.fail("raises", key, case, "accepted", "a range dominance between features without monotonicity was accepted")


def run(ctx):
  ctx.pending = []
  for _ in range(ctx.n(60, 1500)):
    check_hostile_linear(ctx, gen_hostile_linear(ctx.rng))
  nl = ctx.n(250, 6000)
  lines = run_linear(ctx, nl)
  n_lin = len(ctx.pending)
  lines += run_categorical(ctx, ctx.n(250, 6000))
  replies = run_driver(lines)
  pos = 0
  for k, item in enumerate(ctx.pending):
    units = item[4]
    (check_linear if k < n_lin else check_categorical)(ctx, item, replies[pos:pos + units])
    pos += units
  if ctx.dist.get("order_ok:0"):
    ctx.disagree("poset.order_valid", {}, None, None, "model topological order invalid on %d columns" % ctx.dist["order_ok:0"])


def replay(ctx, failure):
  """Re-executes one recorded failing case on the current tree."""
  import tensorflow as tf
  case = failure["case"]
  if case.get("layer") == "linear_hostile":
    check_hostile_linear(ctx, case)
    return
  ctx.pending = []
  cfg = case["cfg"]
  w = [[Fraction(v) for v in row] for row in case["w"]]
  wf = np.array([[float(v) for v in row] for row in w], dtype=np.float64)
  n, units = wf.shape
  if case["layer"] == "linear":
    from tensorflow_lattice.python import linear_layer
    kw = dict(cfg)
    for k in ("input_min", "input_max"):
      cfg[k] = None if cfg[k] is None else [None if v is None else Fraction(v) for v in cfg[k]]
      kw[k] = None if cfg[k] is None else [None if v is None else float(v) for v in cfg[k]]
    for k in ("monotonic_dominances", "range_dominances"):
      kw[k] = None if cfg[k] is None else [tuple(p) for p in cfg[k]]
    if kw["normalization_order"] == "inf":
      kw["normalization_order"] = np.inf
    try:
      out, err = linear_layer.LinearConstraints(**kw)(tf.constant(wf)).numpy(), None
    except Exception as e:
      out, err = None, classify_exc(e)
    lines = ["lin.project %s %s %s %s %s %s %s" % (
        il(cfg["monotonicities"]), il2(cfg["monotonic_dominances"] or []), il2(cfg["range_dominances"] or []),
        ",".join(opt(v) for v in (cfg["input_min"] or [None] * n)), ",".join(opt(v) for v in (cfg["input_max"] or [None] * n)),
        "none" if cfg["normalization_order"] is None else str(cfg["normalization_order"]),
        frl([w[i][u] for i in range(n)])) for u in range(units)]
    check_linear(ctx, (case, wf, out, err, units, n), run_driver(lines))
  else:
    from tensorflow_lattice.python import categorical_calibration_layer as ccl
    lo = None if cfg["output_min"] is None else Fraction(cfg["output_min"])
    hi = None if cfg["output_max"] is None else Fraction(cfg["output_max"])
    cfg["output_min"], cfg["output_max"] = lo, hi
    pairs = cfg["monotonicities"] or []
    try:
      out, err = ccl.CategoricalCalibrationConstraints(
          output_min=None if lo is None else float(lo), output_max=None if hi is None else float(hi),
          monotonicities=[tuple(p) for p in pairs] or None)(tf.constant(wf)).numpy(), None
    except Exception as e:
      out, err = None, classify_exc(e)
    lines = ["cat.project %s %s %s %s" % (opt(lo), opt(hi), il2(pairs), frl([w[i][u] for i in range(n)]))
             for u in range(units)]
    check_categorical(ctx, (case, wf, out, err, units, n), run_driver(lines))
