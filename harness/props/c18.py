"""C18: computed calibration keypoints are valid for every data sample.

Tie: real `premade_lib.compute_keypoints(...)` vs `Tfl.Keypoints.computeKeypoints` (op `kp.compute`);
real `compute_feature_keypoints` + `set_feature_keypoints` vs `Tfl.Keypoints.computeFeatureKeypoints` /
`setFeatureKeypoints` (op `kp.features`); real `compute_label_keypoints` + `set_label_keypoints` vs
`Tfl.Keypoints.computeLabelKeypoints` / `setLabelKeypoints` (op `kp.label`).
Oracle: strictly increasing (>= 2 distinct clipped values), inside the clipped range, ends = clip
bounds / extremes, count, accepted by PWLCalibration - for compute_keypoints and for what the helpers
return and store (judged on the compute_keypoints call their documentation prescribes: per-feature
config fields, string labels = arange(n_classes) without weights, logits = [-2, 2])."""
import itertools, warnings
import numpy as np
from fractions import Fraction
from common import *

RULE = ("one PRNG drives: value arrays of 1-60 dyadic (k/8) numbers: heavy duplicates, 1-3 distinct values, skewed "
        "(powers of two), ranges, constant after clipping, all-default; weights none / ones / small ints with zeros "
        "/ dyadic / zero-weight runs at both ends (regression inputs of the fixed F-C18-b/e); clip_min, clip_max none / inside / outside the data; default_value "
        "none / present / absent; num_keypoints 2-10; 'quantiles' and 'uniform'; 'mean' and 'sum'; values and weights "
        "handed over as float64 arrays or plain Python lists. Feature helper: 1-3 features (arrays, lists, int "
        "lists / arrays) with shuffled configs (quantiles / uniform / given keypoints / categorical / no config), one "
        "shared weight vector, add_missing on/off. Label helper: numeric labels (arrays, lists, ints), string / "
        "bytes / object / boolean labels (1-7 classes) with or without weights, output_initialization a mode string "
        "or a given list / tuple, logits on/off, output_min / output_max. Non-trivial = >= 2 distinct clipped values; distinct = (mode, "
        "weight kind, clip kind, k, #distinct bucket, result hash).")
ASSUMPTIONS = [
    "values, weights and bounds are dyadic so float arithmetic on them is exact; np.linspace / np.interp / the "
    "weight normalisation are not: where the virtual index of a quantile is an exact tie m+1/2 in exact arithmetic "
    "the float code may land on either side; the model takes the direction at each exact tie as an argument, the "
    "theorems hold for every direction, and a case counts as agreeing if some direction reproduces the real output "
    "(counted as tie_resolved)",
    "a quantile that hits a plateau of the weighted grid (consecutive zero weights) is float-fragile in np.interp; "
    "a mismatch on such a case is counted (plateau_fragile), not reported",
    "acceptance by PWLCalibration and strict increase are demanded only when the clipped data has >= 2 distinct values",
]


def shash(x):
  import hashlib, json
  return hashlib.md5(json.dumps(jsonable(x), sort_keys=True).encode()).hexdigest()[:8]


def gen_case(rng):
  kind = rng.choice(["heavy_dup", "heavy_dup", "few_distinct", "skewed", "range", "random", "const_after_clip",
                     "heavy_dup", "random", "range", "skewed", "all_default"])
  m = rng.randint(1, 60)
  if kind == "heavy_dup":
    pool = [Fraction(rng.randint(-40, 40), 8) for _ in range(rng.randint(2, 7))]
    vals = [rng.choice(pool) for _ in range(m)]
  elif kind == "few_distinct":
    pool = [Fraction(rng.randint(-16, 16), 8) for _ in range(rng.randint(1, 3))]
    vals = [rng.choice(pool) for _ in range(m)]
  elif kind == "skewed":
    vals = [Fraction(2 ** rng.choice([0, 0, 0, 1, 1, 2, 3, 5, 8, 12]), 8) * rng.choice([1, 1, 1, 3]) for _ in range(m)]
  elif kind == "range":
    a = rng.randint(-8, 8)
    vals = [Fraction(a + i, rng.choice([1, 2, 8])) for i in range(m)]
    rng.shuffle(vals)
  elif kind == "all_default":
    vals = [Fraction(3, 2)] * m
  else:
    vals = [Fraction(rng.randint(-80, 80), 8) for _ in range(m)]
  lo, hi = min(vals), max(vals)
  cmin = cmax = None
  ck = rng.choice(["none", "none", "min", "max", "both", "both"])
  if kind == "const_after_clip":
    ck = rng.choice(["min_above", "max_below", "equal"])
    if ck == "min_above":
      cmin = hi + Fraction(rng.randint(0, 8), 8)
    elif ck == "max_below":
      cmax = lo - Fraction(rng.randint(0, 8), 8)
    else:
      cmin = cmax = Fraction(rng.randint(-16, 16), 8)
  else:
    if ck in ("min", "both"):
      cmin = lo + Fraction(rng.randint(-8, 12), 8)
    if ck in ("max", "both"):
      cmax = hi - Fraction(rng.randint(-8, 12), 8)
    if cmin is not None and cmax is not None and cmin > cmax:
      cmin, cmax = cmax, cmin
  dk = rng.choice(["none", "none", "present", "absent"])
  if kind == "all_default":
    dk = "present"
    if rng.random() < 0.5:
      cmin = cmax = None
      ck = "none"
  dflt = None if dk == "none" else (rng.choice(vals) if dk == "present" else Fraction(977, 8))
  wk = rng.choice(["none", "none", "ones", "ints", "ints", "dyadic", "zero_ends", "ones", "ints", "dyadic",
                   "none", "zero_ends", "all_zero"])
  if wk == "none":
    ws = None
  elif wk == "ones":
    ws = [Fraction(1)] * m
  elif wk == "ints":
    ws = [Fraction(rng.choice([0, 0, 1, 1, 2, 3, 4])) for _ in range(m)]
  elif wk == "dyadic":
    ws = [Fraction(rng.randint(0, 16), 8) for _ in range(m)]
  elif wk == "all_zero":
    ws = [Fraction(0)] * m
  else:
    cut_lo = sorted(set(vals))[min(len(set(vals)) - 1, rng.randint(0, 2))]
    cut_hi = sorted(set(vals))[max(0, len(set(vals)) - 1 - rng.randint(0, 2))]
    top = rng.random() < 0.6
    ws = [Fraction(0) if (v <= cut_lo or (v >= cut_hi and top)) else Fraction(rng.choice([1, 1, 2, 3, 4]))
          for v in vals]
  return dict(kind=kind, vals=[fr(v) for v in vals], k=rng.randint(2, 10),
              mode=rng.choice(["quantiles", "quantiles", "uniform"]), cmin=opt(cmin), cmax=opt(cmax),
              dflt=opt(dflt), ws=None if ws is None else [fr(w) for w in ws], wk=wk, ck=ck,
              red=rng.choice(["mean", "sum"]), vform=rng.choice(["array", "array", "list"]),
              wform=rng.choice(["array", "array", "list"]))


def unopt(s):
  return None if s in (None, "none") else Fraction(s)


def real_compute(case):
  from tensorflow_lattice.python import premade_lib
  # values / weights as a float64 array or as a plain Python list (fixed F-C18-g)
  vals = as_input(case["vals"], case.get("vform", "array"))
  ws = None if case["ws"] is None else as_input(case["ws"], case.get("wform", "array"))
  f = lambda s: None if unopt(s) is None else float(unopt(s))
  try:
    with warnings.catch_warnings():
      warnings.simplefilter("ignore")
      out = premade_lib.compute_keypoints(vals, case["k"], keypoints=case["mode"], clip_min=f(case["cmin"]),
                                          clip_max=f(case["cmax"]), default_value=f(case["dflt"]), weights=ws,
                                          weight_reduction=case["red"])
    return [float(v) for v in out], None
  except Exception as e:
    return None, classify_exc(e)


def line(case, dirs=()):
  return "kp.compute %s %d %s %s %s %s %s %s %s" % (
      frl([Fraction(v) for v in case["vals"]]), case["k"], case["mode"], case["cmin"] or "none",
      case["cmax"] or "none", case["dflt"] or "none",
      "none" if case["ws"] is None else frl([Fraction(w) for w in case["ws"]]), case["red"], il(dirs))


def prepared(case):
  """direct reading of the property: the clipped data (with the clip bounds) and the reduced weights"""
  vals = [Fraction(v) for v in case["vals"]]
  ws = [Fraction(1)] * len(vals) if case["ws"] is None else [Fraction(w) for w in case["ws"]]
  d, cmin, cmax = unopt(case["dflt"]), unopt(case["cmin"]), unopt(case["cmax"])
  vw = [(v, w) for v, w in zip(vals, ws) if d is None or v != d]
  if cmin is not None:
    vw = [(max(v, cmin), w) for v, w in vw] + [(cmin, Fraction(0))]
  if cmax is not None:
    vw = [(min(v, cmax), w) for v, w in vw] + [(cmax, Fraction(0))]
  dist = sorted(set(v for v, _ in vw))
  red = []
  for x in dist:
    g = [w for v, w in vw if v == x]
    red.append(sum(g) / len(g) if case["red"] == "mean" else sum(g))
  return dist, red


def case_class(case, dist, red):
  """class of a case for the failure key. Only classes of recorded findings are special; zero-weight runs at
  the ends (fixed F-C18-b/e) are ordinary inputs checked by the normal oracle (see `regression_class`)."""
  if not dist:
    return "empty_after_default"
  if case["ws"] is not None and case["mode"] == "quantiles" and len(dist) >= case["k"]:
    if sum(red) == 0 and case["k"] > 2:
      return "all_zero_weights"
  if len(dist) < 2:
    return "lt2_distinct"
  return "generic"


def regression_class(case, dist, red):
  """input classes of fixed findings: counted in the distribution so that the evidence shows they are exercised"""
  if case["ws"] is not None and case["mode"] == "quantiles" and len(dist) >= case["k"] and sum(red) != 0:
    out = []
    if len(red) >= 2 and red[0] == 0 and red[1] == 0:
      out.append("leading_zero_weight_run")
    if len(red) >= 2 and red[-1] == 0 and red[-2] == 0:
      out.append("trailing_zero_weight_run")
    return out
  return []


def grid_exact(red):
  """is the float weighted-quantile grid of the real code exactly the rational one?"""
  w = np.array([float(x) for x in red], dtype=np.float64)
  if any(Fraction(float(x)) != x for x in red) or not np.sum(w) > 0:
    return False
  wq = (np.cumsum(w) - 0.5 * w) / np.sum(w)
  acc, s, ok = Fraction(0), sum(red), True
  for x, f in zip(red, wq):
    acc += x
    ok = ok and Fraction(float(f)) == (acc - x / 2) / s
  return ok


def parse_reply(reply):
  toks = reply.split(" ")
  if toks[0] == "ERR":
    return None, "ERR " + toks[1], parse_ints(toks[2]), toks[3]
  return parse_rats(toks[0]), None, parse_ints(toks[1]), toks[2]


def same(real, model, mode):
  if len(real) != len(model):
    return False
  scale = max_abs(real)
  return all(close(r, m, scale, 1e-12 if mode == "uniform" else 0.0, 0.0) for r, m in zip(real, model))


def oracle(ctx, case, out, err, dist, red, cls, fn="compute_keypoints", record=None):
  """`case` = the compute_keypoints case judged; `record` = the (helper) case to store for the replay"""
  import tensorflow_lattice as tfl
  key = dict(fn=fn, mode=case["mode"], weighted=case["ws"] is not None, cls=cls)
  judged, case = case, (case if record is None else record)
  k = judged["k"]
  if err is not None:
    ctx.fail("raises", key, case, err)
    return
  kp = [Fraction(v) for v in out]
  if any(v != v or v in (float("inf"), float("-inf")) for v in out):
    ctx.fail("finite", key, case, out)
    return
  if len(dist) >= 2 and any(b <= a for a, b in zip(kp, kp[1:])):
    ctx.fail("strictly_increasing", key, case, out)
  if kp and dist and (min(kp) < dist[0] or max(kp) > dist[-1]):
    ctx.fail("within_range", key, case, out, "range [%s, %s]" % (dist[0], dist[-1]))
  if kp and dist and (kp[0] != dist[0] or kp[-1] != dist[-1]):
    ctx.fail("ends", key, case, out, "expected ends %s, %s" % (dist[0], dist[-1]))
  if len(dist) >= k or judged["mode"] == "uniform":
    if len(kp) != k:
      ctx.fail("count", key, case, out, "expected %d keypoints" % k)
  elif kp != dist:
    ctx.fail("count", key, case, out, "expected the %d distinct values" % len(dist))
  if judged["mode"] == "quantiles" and any(v not in dist for v in kp):
    ctx.fail("quantile_is_data_value", key, case, out)
  if len(dist) >= 2:
    try:
      tfl.layers.PWLCalibration(input_keypoints=out)
    except Exception as e:
      ctx.fail("pwl_accepts", key, case, out, classify_exc(e) + ": " + str(e)[:80])


def run_compute(ctx, cases):
  reals = [real_compute(c) for c in cases]
  replies = run_driver([line(c) for c in cases])
  retry = []
  for idx, (case, (out, err), reply) in enumerate(zip(cases, reals, replies)):
    dist, red = prepared(case)
    cls = case_class(case, dist, red)
    model, merr, ties, plateau = parse_reply(reply)
    ctx.count("%s:%s:w=%s:clip=%s" % (case["mode"], case["kind"], case["wk"], case["ck"]))
    ctx.count("cls:" + cls)
    for rc in regression_class(case, dist, red):
      ctx.count("regress:" + rc)
    ctx.count("distinct:%s" % ("<k" if len(dist) < case["k"] else ">=k"))
    ctx.count("values_as:%s" % case.get("vform", "array"))
    if ties:
      ctx.count("model:exact_tie")
    if plateau == "1":
      ctx.count("model:plateau_hit")
    ctx.case(sig=(case["mode"], case["wk"], case["ck"], case["k"], min(len(dist), 12), shash(out)),
             nontrivial=len(dist) >= 2, sample=dict(case=case, out=out, err=err))
    if err is not None or merr is not None:
      if err is not None and merr is not None and (err == merr or (err.startswith("ERR Other") and merr == "ERR Other")):
        ctx.agree("compute_keypoints")
      else:
        ctx.disagree("compute_keypoints", case, err or out, reply, "error class")
    elif same(out, model, case["mode"]):
      ctx.agree("compute_keypoints")
    elif ties and len(ties) <= 8:
      retry.append((idx, case, out, ties, plateau, red))
    elif plateau == "1" and not grid_exact(red):
      ctx.count("plateau_fragile")
    else:
      ctx.disagree("compute_keypoints", case, out, reply)
    oracle(ctx, case, out, err, dist, red, cls)
  # second pass: exact ties may have been resolved either way by float rounding
  lines, owners = [], []
  for idx, case, out, ties, plateau, red in retry:
    for bits in itertools.product([-1, 1], repeat=len(ties)):
      dirs = [0] * case["k"]
      for p, b in zip(ties, bits):
        dirs[p] = b
      lines.append(line(case, dirs))
      owners.append(idx)
  replies = run_driver(lines)
  ok = set()
  for idx, reply in zip(owners, replies):
    model, merr, _, _ = parse_reply(reply)
    case, out = cases[idx], reals[idx][0]
    if merr is None and same(out, model, case["mode"]):
      ok.add(idx)
  for idx, case, out, ties, plateau, red in retry:
    if idx in ok:
      ctx.count("tie_resolved")
      ctx.agree("compute_keypoints")
    elif plateau == "1" and not grid_exact(red):
      ctx.count("plateau_fragile")
    else:
      ctx.disagree("compute_keypoints", case, out, None, "no tie direction reproduces the real output (ties at %r)" % ties)


# ------------------------------------------------------------------ the feature / label helpers
FINDING_CLASSES = ("all_zero_weights", "empty_after_default")


def as_input(xs, form):
  """a numeric sequence the way a caller may hand it over: float64 array, Python list of floats, list of ints /
  int64 array (only when every entry is an integer)"""
  xs = [Fraction(x) for x in xs]
  if form == "list":
    return [float(x) for x in xs]
  if form == "intlist":
    return [int(x) for x in xs]
  if form == "intarray":
    return np.array([int(x) for x in xs], dtype=np.int64)
  return np.array([float(x) for x in xs], dtype=np.float64)


def pick_form(rng, xs):
  forms = ["array", "array", "list", "list"]
  if all(Fraction(x).denominator == 1 for x in xs):
    forms += ["intlist", "intarray"]
  return rng.choice(forms)


def spec_tok(spec):
  return spec if isinstance(spec, str) else "given:" + frl([Fraction(v) for v in spec])


def compute_case(vals, ws, red, k, mode, cmin, cmax, dflt, kind):
  """the `compute_keypoints` case a helper call must reduce to (read off the helper's documentation)"""
  return dict(kind=kind, vals=list(vals), ws=None if ws is None else list(ws), red=red, wk="filler", ck="filler",
              k=k, mode=mode, cmin=cmin, cmax=cmax, dflt=dflt)


def gen_weights(rng, m):
  wk = rng.choice(["none", "none", "ints", "ints", "dyadic", "ones"])
  if wk == "none":
    return None
  if wk == "ones":
    return [fr(1)] * m
  ws = [Fraction(rng.choice([0, 0, 1, 1, 2, 3, 4])) if wk == "ints" else Fraction(rng.randint(0, 16), 8)
        for _ in range(m)]
  return [fr(w) for w in ws]


def gen_feature_case(rng):
  m = rng.randint(1, 30)
  ws = gen_weights(rng, m)
  cfgs, feats = [], []
  for j in range(rng.randint(1, 3)):
    pool = [Fraction(rng.randint(-24, 24), rng.choice([1, 1, 8]))
            for _ in range(rng.choice([1, 2, 3, 5, 8, 30]))]
    vals = [rng.choice(pool) for _ in range(m)]
    style = rng.choice(["quantiles", "quantiles", "uniform", "given", "categorical", "missing_config"])
    feats.append(dict(name=j, vals=[fr(v) for v in vals], form=pick_form(rng, vals)))
    if style == "missing_config":
      continue
    cmin = Fraction(rng.randint(-24, 8), 8) if rng.random() < 0.4 else None
    cmax = Fraction(rng.randint(-8, 24), 8) if rng.random() < 0.4 else None
    if cmin is not None and cmax is not None and cmin > cmax:
      cmin, cmax = cmax, cmin
    dflt = rng.choice(vals) if rng.random() < 0.3 else (Fraction(-977, 8) if rng.random() < 0.2 else None)
    cfgs.append(dict(name=j, nb=rng.choice([3, 3, 1]) if style == "categorical" else rng.choice([0, 0, None]),
                     spec=["-3", "0", "3"] if style == "given" else (rng.choice(["quantiles", "uniform"])
                                                                     if style == "categorical" else style),
                     k=rng.randint(2, 7), cmin=opt(cmin), cmax=opt(cmax), dflt=opt(dflt)))
  rng.shuffle(cfgs)
  return dict(kind="features", cfgs=cfgs, feats=feats, ws=ws,
              wform=None if ws is None else pick_form(rng, ws), red=rng.choice(["mean", "sum"]),
              add=rng.random() < 0.5)


def feature_cfg_of(case, name):
  """`_feature_config_by_name` as documented: the config of that name, else the default FeatureConfig"""
  for c in case["cfgs"]:
    if c["name"] == name:
      return c
  return dict(name=name, nb=0, spec="quantiles", k=10, cmin="none", cmax="none", dflt="none")


def real_features(case):
  from tensorflow_lattice.python import premade_lib, configs
  f = lambda s: None if unopt(s) is None else float(unopt(s))
  fcs = [configs.FeatureConfig(
      name="x%d" % c["name"], num_buckets=c["nb"], pwl_calibration_num_keypoints=c["k"],
      pwl_calibration_input_keypoints=c["spec"] if isinstance(c["spec"], str) else [float(Fraction(v)) for v in c["spec"]],
      pwl_calibration_clip_min=f(c["cmin"]), pwl_calibration_clip_max=f(c["cmax"]), default_value=f(c["dflt"]))
         for c in case["cfgs"]]
  feats = {"x%d" % ft["name"]: as_input(ft["vals"], ft["form"]) for ft in case["feats"]}
  ws = None if case["ws"] is None else as_input(case["ws"], case["wform"])
  try:
    with warnings.catch_warnings():
      warnings.simplefilter("ignore")
      got = premade_lib.compute_feature_keypoints(fcs, feats, weights=ws, weight_reduction=case["red"])
      premade_lib.set_feature_keypoints(fcs, got, add_missing_feature_configs=case["add"])
    out = {int(n[1:]): [float(v) for v in kp] for n, kp in got.items()}
    stored = [(int(fc.name[1:]), fc.pwl_calibration_input_keypoints if isinstance(fc.pwl_calibration_input_keypoints, str)
               else [float(v) for v in fc.pwl_calibration_input_keypoints]) for fc in fcs]
    return out, stored, None
  except Exception as e:
    return None, None, classify_exc(e)


def features_line(case, dirs=None):
  toks = ["kp.features", "none" if case["ws"] is None else frl([Fraction(w) for w in case["ws"]]), case["red"],
          "1" if case["add"] else "0", str(len(case["cfgs"])), str(len(case["feats"]))]
  for c in case["cfgs"]:
    toks += [str(c["name"]), str(c["nb"] or 0), spec_tok(c["spec"]), str(c["k"]), c["cmin"], c["cmax"], c["dflt"]]
  for i, ft in enumerate(case["feats"]):
    toks += [str(ft["name"]), frl([Fraction(v) for v in ft["vals"]]), il((dirs or {}).get(i, ()))]
  return " ".join(toks)


def parse_features_reply(reply, nfeat):
  toks = reply.split(" ")
  if toks[0] == "ERR":
    return dict(err="ERR " + toks[1])
  per = [None if t == "skip" else parse_rats(t) for t in toks[1:1 + nfeat]]
  ties = [parse_ints(t) for t in toks[1 + nfeat].split(";")] if nfeat else []
  plateau = parse_ints(toks[2 + nfeat])
  stored = []
  if toks[3 + nfeat] != "_":
    for ent in toks[3 + nfeat].split(";"):
      n, sp = ent.split("=")
      stored.append((int(n), parse_rats(sp[6:]) if sp.startswith("given:") else sp))
  return dict(err=None, per=per, ties=ties, plateau=plateau, stored=stored)


def same_spec(real, model, mode="uniform"):
  if isinstance(real, str) or isinstance(model, str):
    return real == model
  return same(real, model, mode)


def err_same(err, merr):
  return err == merr or (err.startswith("ERR Other") and merr == "ERR Other")


def run_features(ctx, cases):
  reals = [real_features(c) for c in cases]
  replies = run_driver([features_line(c) for c in cases])
  retry = []
  for ci, (case, (out, stored, err), reply) in enumerate(zip(cases, reals, replies)):
    nfeat = len(case["feats"])
    mr = parse_features_reply(reply, nfeat)
    ctx.case(sig=("features", shash(out), shash(case["cfgs"])), nontrivial=bool(out), sample=None)
    ctx.count("features:w=%s" % ("none" if case["ws"] is None else case["wform"]))
    # per feature: the compute_keypoints call the helper is documented to make
    comps = []
    for ft in case["feats"]:
      c = feature_cfg_of(case, ft["name"])
      ctx.count("feature:form=%s" % ft["form"])
      if c["nb"]:
        comps.append(("skip", None))
        ctx.count("feature:categorical")
      elif not isinstance(c["spec"], str):
        comps.append(("given", [float(Fraction(v)) for v in c["spec"]]))
        ctx.count("feature:given")
      else:
        comps.append(("compute", compute_case(ft["vals"], case["ws"], case["red"], c["k"], c["spec"], c["cmin"],
                                              c["cmax"], c["dflt"], "filler_feature")))
        ctx.count("feature:%s%s" % (c["spec"], "" if any(x["name"] == ft["name"] for x in case["cfgs"]) else ":no_config"))
    if err is not None or mr["err"] is not None:
      if err is not None and mr["err"] is not None and err_same(err, mr["err"]):
        ctx.agree("fillers")
      else:
        ctx.disagree("fillers", case, err or out, reply, "error class")
      if err is not None:
        # which feature's computation is of a recorded finding class?
        key = dict(fn="compute_feature_keypoints", cls="generic", mode="any", weighted=case["ws"] is not None)
        for how, c in comps:
          if how == "compute":
            dist, red_ = prepared(c)
            cls = case_class(c, dist, red_)
            if cls in FINDING_CLASSES and (cls != "empty_after_default" or c["mode"] == "uniform"):
              key.update(cls=cls, mode=c["mode"])
              break
        ctx.fail("raises", key, case, err)
      continue
    bad, tie_feats = [], []
    for i, (ft, (how, c)) in enumerate(zip(case["feats"], comps)):
      real = out.get(ft["name"])
      model = mr["per"][i]
      if how == "skip":
        if real is not None or model is not None:
          bad.append("categorical feature %d got keypoints" % ft["name"])
      elif how == "given":
        if real != c or model is None or not same(real, model, "uniform"):
          bad.append("given keypoints of feature %d changed" % ft["name"])
      else:
        if real is None or model is None:
          bad.append("feature %d missing" % ft["name"])
        elif not same(real, model, c["mode"]):
          if mr["ties"][i] and len(mr["ties"][i]) <= 8:
            tie_feats.append(i)
          elif mr["plateau"][i] and not grid_exact(prepared(c)[1]):
            ctx.count("plateau_fragile")
          else:
            bad.append("feature %d keypoints differ" % ft["name"])
        if real is not None:
          dist, red_ = prepared(c)
          oracle(ctx, c, real, None, dist, red_, case_class(c, dist, red_), fn="compute_feature_keypoints", record=case)
    # `set_feature_keypoints`: names in order and what each config now holds
    if not tie_feats:
      ok = len(stored) == len(mr["stored"]) and all(
          a[0] == b[0] and same_spec(a[1], b[1]) for a, b in zip(stored, mr["stored"]))
      if not ok:
        bad.append("stored configs differ")
    # oracle of the filling step, read off the documentation: every computed feature's config holds its keypoints
    byname = {}
    for n, sp in stored:
      byname.setdefault(n, sp)
    for n, kp in out.items():
      if n in byname and byname[n] != kp:
        ctx.fail("config_filled", dict(fn="set_feature_keypoints", cls="filler"), case, stored)
      if n not in byname and case["add"]:
        ctx.fail("config_added", dict(fn="set_feature_keypoints", cls="filler"), case, stored)
    if bad:
      ctx.disagree("fillers", case, dict(out=out, stored=stored), reply, "; ".join(bad))
    elif tie_feats:
      retry.append((ci, tie_feats, mr))
    else:
      ctx.agree("fillers")
  # exact ties: some direction must reproduce the real output (one feature at a time)
  lines, owners = [], []
  for ci, tie_feats, mr in retry:
    for i in tie_feats:
      k = feature_cfg_of(cases[ci], cases[ci]["feats"][i]["name"])["k"]
      for bits in itertools.product([-1, 1], repeat=len(mr["ties"][i])):
        dirs = [0] * k
        for pos, b in zip(mr["ties"][i], bits):
          dirs[pos] = b
        lines.append(features_line(cases[ci], {i: dirs}))
        owners.append((ci, i))
  ok = set()
  for (ci, i), reply in zip(owners, run_driver(lines) if lines else []):
    m2 = parse_features_reply(reply, len(cases[ci]["feats"]))
    real = reals[ci][0].get(cases[ci]["feats"][i]["name"])
    if m2["err"] is None and m2["per"][i] is not None and same(real, m2["per"][i], "quantiles"):
      ok.add((ci, i))
  for ci, tie_feats, mr in retry:
    if all((ci, i) in ok for i in tie_feats):
      ctx.count("tie_resolved")
      ctx.agree("fillers")
    else:
      ctx.disagree("fillers", cases[ci], reals[ci][0], None, "no tie direction reproduces feature(s) %r" % tie_feats)


LABEL_KINDS = ["num", "num", "num", "str", "str", "strlist", "obj", "bytes", "bool"]


def gen_label_case(rng):
  m = rng.randint(1, 30)
  lkind = rng.choice(LABEL_KINDS)
  if lkind == "num":
    pool = [Fraction(rng.randint(0, 12), rng.choice([1, 1, 4])) for _ in range(rng.choice([1, 2, 3, 5, 12]))]
    labels = [fr(rng.choice(pool)) for _ in range(m)]
    lform = pick_form(rng, labels)
  else:
    ncls = 2 if lkind == "bool" else rng.choice([1, 2, 2, 3, 4, 7])
    labels = [rng.randrange(ncls) for _ in range(m)]
    lform = lkind
  init = rng.choice(["quantiles", "quantiles", "quantiles", "uniform", "uniform", "given", "given_tuple"])
  omin = Fraction(rng.randint(-4, 8), 4) if rng.random() < 0.4 else None
  omax = Fraction(rng.randint(0, 16), 4) if rng.random() < 0.4 else None
  if omin is not None and omax is not None and omin > omax:
    omin, omax = omax, omin
  ws = gen_weights(rng, m)
  return dict(kind="label", lkind="num" if lkind == "num" else "cls", labels=labels, lform=lform,
              spec=["0", "1"] if init.startswith("given") else init, tuple=init == "given_tuple",
              k=rng.randint(2, 7), omin=opt(omin), omax=opt(omax), logits=rng.random() < 0.25, ws=ws,
              wform=None if ws is None else pick_form(rng, ws), red=rng.choice(["mean", "sum"]))


def label_input(case):
  lb, form = case["labels"], case["lform"]
  if case["lkind"] == "num":
    return as_input(lb, form)
  if form == "str":
    return np.array(["class_%d" % c for c in lb])
  if form == "strlist":
    return ["class_%d" % c for c in lb]
  if form == "obj":
    return np.array(["class_%d" % c for c in lb], dtype=object)
  if form == "bytes":
    return np.array([b"c%d" % c for c in lb])
  return np.array([bool(c) for c in lb])


def real_label(case):
  from tensorflow_lattice.python import premade_lib, configs
  f = lambda s: None if unopt(s) is None else float(unopt(s))
  init = case["spec"]
  if not isinstance(init, str):
    init = [float(Fraction(v)) for v in init]
    init = tuple(init) if case.get("tuple") else init
  mc = configs.CalibratedLatticeConfig(
      feature_configs=[configs.FeatureConfig(name="x0")], output_calibration=True,
      output_calibration_num_keypoints=case["k"], output_initialization=init, output_min=f(case["omin"]),
      output_max=f(case["omax"]))
  ws = None if case["ws"] is None else as_input(case["ws"], case["wform"])
  try:
    with warnings.catch_warnings():
      warnings.simplefilter("ignore")
      lk = premade_lib.compute_label_keypoints(mc, label_input(case), logits_output=case["logits"], weights=ws,
                                               weight_reduction=case["red"])
      premade_lib.set_label_keypoints(mc, lk)
    return [float(v) for v in lk], [float(v) for v in mc.output_initialization], None
  except Exception as e:
    return None, None, classify_exc(e)


def label_line(case, dirs=()):
  return "kp.label %s %s %s %d %s %s %s %s %s %s" % (
      case["lkind"], frl([Fraction(v) for v in case["labels"]]) if case["lkind"] == "num" else il(case["labels"]),
      spec_tok(case["spec"]), case["k"], case["omin"], case["omax"], "1" if case["logits"] else "0",
      "none" if case["ws"] is None else frl([Fraction(w) for w in case["ws"]]), case["red"], il(dirs))


def parse_label_reply(reply):
  toks = reply.split(" ")
  if toks[0] == "ERR":
    return None, "ERR " + toks[1], parse_ints(toks[2]), toks[3], None
  sp = toks[3]
  return parse_rats(toks[0]), None, parse_ints(toks[1]), toks[2], parse_rats(sp[6:]) if sp.startswith("given:") else sp


def label_compute_case(case):
  """documented behaviour: non-numeric labels count as `arange(n_classes)` WITHOUT weights"""
  if case["lkind"] == "num":
    vals, ws = case["labels"], case["ws"]
  else:
    vals, ws = [fr(i) for i in range(len(set(case["labels"])))], None
  return compute_case(vals, ws, case["red"], case["k"], case["spec"], case["omin"], case["omax"], "none", "filler_label")


def run_labels(ctx, cases):
  reals = [real_label(c) for c in cases]
  replies = run_driver([label_line(c) for c in cases])
  retry = []
  for ci, (case, (lk, stored, err), reply) in enumerate(zip(cases, reals, replies)):
    model, merr, ties, plateau, mstored = parse_label_reply(reply)
    how = "given" if not isinstance(case["spec"], str) else ("logits" if case["logits"] else "compute")
    ctx.case(sig=("label", how, case["lform"], shash(lk)), nontrivial=how != "given", sample=None)
    ctx.count("label:%s" % how)
    ctx.count("label:labels=%s" % case["lform"])
    ctx.count("label:w=%s" % ("none" if case["ws"] is None else case["wform"]))
    key = dict(fn="compute_label_keypoints", cls="generic", mode=case["spec"] if how == "compute" else how,
               weighted=case["ws"] is not None and case["lkind"] == "num", labels=case["lform"])
    c = label_compute_case(case) if how == "compute" else None
    if c is not None:
      dist, red_ = prepared(c)
      key["cls"] = case_class(c, dist, red_)
    if err is not None or merr is not None:
      if err is not None and merr is not None and err_same(err, merr):
        ctx.agree("fillers")
      else:
        ctx.disagree("fillers", case, err or lk, reply, "error class")
      if err is not None:
        ctx.fail("raises", key, case, err)
      continue
    if stored != lk:
      ctx.fail("config_filled", dict(fn="set_label_keypoints", cls="filler"), case, stored)
    okm = same(lk, model, "uniform" if how != "compute" else c["mode"]) and same_spec(stored, mstored)
    if how == "given":
      if lk != [float(Fraction(v)) for v in case["spec"]]:
        ctx.fail("given_passed_through", key, case, lk)
      (ctx.agree("fillers") if okm else ctx.disagree("fillers", case, lk, reply))
      continue
    if okm:
      ctx.agree("fillers")
    elif how == "compute" and ties and len(ties) <= 8:
      retry.append((ci, ties))
    elif how == "compute" and plateau == "1" and not grid_exact(red_):
      ctx.count("plateau_fragile")
    else:
      ctx.disagree("fillers", case, lk, reply)
    if how == "logits":
      # the same rules on the documented range [-2, 2]
      lc = compute_case(["-2", "2"], None, case["red"], case["k"], "uniform", "none", "none", "none", "filler_logits")
      oracle(ctx, lc, lk, None, [Fraction(-2), Fraction(2)], [1, 1], "generic", fn="compute_label_keypoints", record=case)
    else:
      oracle(ctx, c, lk, None, dist, red_, key["cls"], fn="compute_label_keypoints", record=case)
  lines, owners = [], []
  for ci, ties in retry:
    for bits in itertools.product([-1, 1], repeat=len(ties)):
      dirs = [0] * cases[ci]["k"]
      for pos, b in zip(ties, bits):
        dirs[pos] = b
      lines.append(label_line(cases[ci], dirs))
      owners.append(ci)
  ok = set()
  for ci, reply in zip(owners, run_driver(lines) if lines else []):
    model, merr, _, _, _ = parse_label_reply(reply)
    if merr is None and same(reals[ci][0], model, "quantiles"):
      ok.add(ci)
  for ci, ties in retry:
    if ci in ok:
      ctx.count("tie_resolved")
      ctx.agree("fillers")
    else:
      ctx.disagree("fillers", cases[ci], reals[ci][0], None, "no tie direction reproduces the labels' keypoints")


def run(ctx):
  cases = [gen_case(ctx.rng) for _ in range(ctx.n(700, 15000))]
  run_compute(ctx, cases)
  run_features(ctx, [gen_feature_case(ctx.rng) for _ in range(ctx.n(300, 2000))])
  run_labels(ctx, [gen_label_case(ctx.rng) for _ in range(ctx.n(400, 3000))])


def replay(ctx, failure):
  case = failure["case"]
  if case.get("kind") == "features":
    return run_features(ctx, [case])
  if case.get("kind") == "label":
    return run_labels(ctx, [case])
  if "vals" not in case:
    return
  case.setdefault("kind", "replay")
  case.setdefault("wk", "replay")
  case.setdefault("ck", "replay")
  run_compute(ctx, [case])
