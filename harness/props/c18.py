"""C18: computed calibration keypoints are valid for every data sample.

Tie: real `premade_lib.compute_keypoints(...)` (+ compute_feature_keypoints / compute_label_keypoints /
set_*_keypoints on small configs) vs `Tfl.Keypoints.computeKeypoints`.
Oracle: strictly increasing (>= 2 distinct clipped values), inside the clipped range, ends = clip
bounds / extremes, count, accepted by PWLCalibration."""
import itertools, warnings
import numpy as np
from fractions import Fraction
from common import *

RULE = ("one PRNG drives: value arrays of 1-60 dyadic (k/8) numbers: heavy duplicates, 1-3 distinct values, skewed "
        "(powers of two), ranges, constant after clipping, all-default; weights none / ones / small ints with zeros "
        "/ dyadic / zero-weight runs at both ends (regression inputs of the fixed F-C18-b/e); clip_min, clip_max none / inside / outside the data; default_value "
        "none / present / absent; num_keypoints 2-10; 'quantiles' and 'uniform'; 'mean' and 'sum'. Fillers on "
        "1-3 feature configs and a label config. Non-trivial = >= 2 distinct clipped values; distinct = (mode, "
        "weight kind, clip kind, k, #distinct bucket, result hash).")
ASSUMPTIONS = [
    "values, weights and bounds are dyadic so float arithmetic on them is exact; np.linspace / np.interp / the "
    "weight normalisation are not: where the virtual index of a quantile is an exact tie m+1/2 in exact arithmetic "
    "the float code may land on either side; the model takes the direction at each exact tie as an argument, the "
    "theorems hold for every direction, and a case counts as agreeing if some direction reproduces the real output "
    "(counted as tie_resolved)",
    "a quantile that hits a plateau of the weighted grid (consecutive zero weights) is float-fragile in np.interp; "
    "a mismatch on such a case is counted (plateau_fragile), not reported",
    "acceptance by PWLCalibration and strict increase are demanded only when the clipped data has >= 2 distinct values",
]


def shash(x):
  import hashlib, json
  return hashlib.md5(json.dumps(jsonable(x), sort_keys=True).encode()).hexdigest()[:8]


def gen_case(rng):
  kind = rng.choice(["heavy_dup", "heavy_dup", "few_distinct", "skewed", "range", "random", "const_after_clip",
                     "heavy_dup", "random", "range", "skewed", "all_default"])
  m = rng.randint(1, 60)
  if kind == "heavy_dup":
    pool = [Fraction(rng.randint(-40, 40), 8) for _ in range(rng.randint(2, 7))]
    vals = [rng.choice(pool) for _ in range(m)]
  elif kind == "few_distinct":
    pool = [Fraction(rng.randint(-16, 16), 8) for _ in range(rng.randint(1, 3))]
    vals = [rng.choice(pool) for _ in range(m)]
  elif kind == "skewed":
    vals = [Fraction(2 ** rng.choice([0, 0, 0, 1, 1, 2, 3, 5, 8, 12]), 8) * rng.choice([1, 1, 1, 3]) for _ in range(m)]
  elif kind == "range":
    a = rng.randint(-8, 8)
    vals = [Fraction(a + i, rng.choice([1, 2, 8])) for i in range(m)]
    rng.shuffle(vals)
  elif kind == "all_default":
    vals = [Fraction(3, 2)] * m
  else:
    vals = [Fraction(rng.randint(-80, 80), 8) for _ in range(m)]
  lo, hi = min(vals), max(vals)
  cmin = cmax = None
  ck = rng.choice(["none", "none", "min", "max", "both", "both"])
  if kind == "const_after_clip":
    ck = rng.choice(["min_above", "max_below", "equal"])
    if ck == "min_above":
      cmin = hi + Fraction(rng.randint(0, 8), 8)
    elif ck == "max_below":
      cmax = lo - Fraction(rng.randint(0, 8), 8)
    else:
      cmin = cmax = Fraction(rng.randint(-16, 16), 8)
  else:
    if ck in ("min", "both"):
      cmin = lo + Fraction(rng.randint(-8, 12), 8)
    if ck in ("max", "both"):
      cmax = hi - Fraction(rng.randint(-8, 12), 8)
    if cmin is not None and cmax is not None and cmin > cmax:
      cmin, cmax = cmax, cmin
  dk = rng.choice(["none", "none", "present", "absent"])
  if kind == "all_default":
    dk = "present"
    if rng.random() < 0.5:
      cmin = cmax = None
      ck = "none"
  dflt = None if dk == "none" else (rng.choice(vals) if dk == "present" else Fraction(977, 8))
  wk = rng.choice(["none", "none", "ones", "ints", "ints", "dyadic", "zero_ends", "ones", "ints", "dyadic",
                   "none", "zero_ends", "all_zero"])
  if wk == "none":
    ws = None
  elif wk == "ones":
    ws = [Fraction(1)] * m
  elif wk == "ints":
    ws = [Fraction(rng.choice([0, 0, 1, 1, 2, 3, 4])) for _ in range(m)]
  elif wk == "dyadic":
    ws = [Fraction(rng.randint(0, 16), 8) for _ in range(m)]
  elif wk == "all_zero":
    ws = [Fraction(0)] * m
  else:
    cut_lo = sorted(set(vals))[min(len(set(vals)) - 1, rng.randint(0, 2))]
    cut_hi = sorted(set(vals))[max(0, len(set(vals)) - 1 - rng.randint(0, 2))]
    top = rng.random() < 0.6
    ws = [Fraction(0) if (v <= cut_lo or (v >= cut_hi and top)) else Fraction(rng.choice([1, 1, 2, 3, 4]))
          for v in vals]
  return dict(kind=kind, vals=[fr(v) for v in vals], k=rng.randint(2, 10),
              mode=rng.choice(["quantiles", "quantiles", "uniform"]), cmin=opt(cmin), cmax=opt(cmax),
              dflt=opt(dflt), ws=None if ws is None else [fr(w) for w in ws], wk=wk, ck=ck,
              red=rng.choice(["mean", "sum"]))


def unopt(s):
  return None if s in (None, "none") else Fraction(s)


def real_compute(case):
  from tensorflow_lattice.python import premade_lib
  vals = np.array([float(Fraction(v)) for v in case["vals"]], dtype=np.float64)
  ws = None if case["ws"] is None else np.array([float(Fraction(w)) for w in case["ws"]], dtype=np.float64)
  f = lambda s: None if unopt(s) is None else float(unopt(s))
  try:
    with warnings.catch_warnings():
      warnings.simplefilter("ignore")
      out = premade_lib.compute_keypoints(vals, case["k"], keypoints=case["mode"], clip_min=f(case["cmin"]),
                                          clip_max=f(case["cmax"]), default_value=f(case["dflt"]), weights=ws,
                                          weight_reduction=case["red"])
    return [float(v) for v in out], None
  except Exception as e:
    return None, classify_exc(e)


def line(case, dirs=()):
  return "kp.compute %s %d %s %s %s %s %s %s %s" % (
      frl([Fraction(v) for v in case["vals"]]), case["k"], case["mode"], case["cmin"] or "none",
      case["cmax"] or "none", case["dflt"] or "none",
      "none" if case["ws"] is None else frl([Fraction(w) for w in case["ws"]]), case["red"], il(dirs))


def prepared(case):
  """direct reading of the property: the clipped data (with the clip bounds) and the reduced weights"""
  vals = [Fraction(v) for v in case["vals"]]
  ws = [Fraction(1)] * len(vals) if case["ws"] is None else [Fraction(w) for w in case["ws"]]
  d, cmin, cmax = unopt(case["dflt"]), unopt(case["cmin"]), unopt(case["cmax"])
  vw = [(v, w) for v, w in zip(vals, ws) if d is None or v != d]
  if cmin is not None:
    vw = [(max(v, cmin), w) for v, w in vw] + [(cmin, Fraction(0))]
  if cmax is not None:
    vw = [(min(v, cmax), w) for v, w in vw] + [(cmax, Fraction(0))]
  dist = sorted(set(v for v, _ in vw))
  red = []
  for x in dist:
    g = [w for v, w in vw if v == x]
    red.append(sum(g) / len(g) if case["red"] == "mean" else sum(g))
  return dist, red


def case_class(case, dist, red):
  """class of a case for the failure key. Only classes of recorded findings are special; zero-weight runs at
  the ends (fixed F-C18-b/e) are ordinary inputs checked by the normal oracle (see `regression_class`)."""
  if not dist:
    return "empty_after_default"
  if case["ws"] is not None and case["mode"] == "quantiles" and len(dist) >= case["k"]:
    if sum(red) == 0 and case["k"] > 2:
      return "all_zero_weights"
  if len(dist) < 2:
    return "lt2_distinct"
  return "generic"


def regression_class(case, dist, red):
  """input classes of fixed findings: counted in the distribution so that the evidence shows they are exercised"""
  if case["ws"] is not None and case["mode"] == "quantiles" and len(dist) >= case["k"] and sum(red) != 0:
    out = []
    if len(red) >= 2 and red[0] == 0 and red[1] == 0:
      out.append("leading_zero_weight_run")
    if len(red) >= 2 and red[-1] == 0 and red[-2] == 0:
      out.append("trailing_zero_weight_run")
    return out
  return []


def grid_exact(red):
  """is the float weighted-quantile grid of the real code exactly the rational one?"""
  w = np.array([float(x) for x in red], dtype=np.float64)
  if any(Fraction(float(x)) != x for x in red) or not np.sum(w) > 0:
    return False
  wq = (np.cumsum(w) - 0.5 * w) / np.sum(w)
  acc, s, ok = Fraction(0), sum(red), True
  for x, f in zip(red, wq):
    acc += x
    ok = ok and Fraction(float(f)) == (acc - x / 2) / s
  return ok


def parse_reply(reply):
  toks = reply.split(" ")
  if toks[0] == "ERR":
    return None, "ERR " + toks[1], parse_ints(toks[2]), toks[3]
  return parse_rats(toks[0]), None, parse_ints(toks[1]), toks[2]


def same(real, model, mode):
  if len(real) != len(model):
    return False
  scale = max_abs(real)
  return all(close(r, m, scale, 1e-12 if mode == "uniform" else 0.0, 0.0) for r, m in zip(real, model))


def oracle(ctx, case, out, err, dist, red, cls, fn="compute_keypoints"):
  import tensorflow_lattice as tfl
  key = dict(fn=fn, mode=case["mode"], weighted=case["ws"] is not None, cls=cls)
  if err is not None:
    ctx.fail("raises", key, case, err)
    return
  k = case["k"]
  kp = [Fraction(v) for v in out]
  if any(v != v or v in (float("inf"), float("-inf")) for v in out):
    ctx.fail("finite", key, case, out)
    return
  if len(dist) >= 2 and any(b <= a for a, b in zip(kp, kp[1:])):
    ctx.fail("strictly_increasing", key, case, out)
  if kp and dist and (min(kp) < dist[0] or max(kp) > dist[-1]):
    ctx.fail("within_range", key, case, out, "range [%s, %s]" % (dist[0], dist[-1]))
  if kp and dist and (kp[0] != dist[0] or kp[-1] != dist[-1]):
    ctx.fail("ends", key, case, out, "expected ends %s, %s" % (dist[0], dist[-1]))
  if len(dist) >= k or case["mode"] == "uniform":
    if len(kp) != k:
      ctx.fail("count", key, case, out, "expected %d keypoints" % k)
  elif kp != dist:
    ctx.fail("count", key, case, out, "expected the %d distinct values" % len(dist))
  if case["mode"] == "quantiles" and any(v not in dist for v in kp):
    ctx.fail("quantile_is_data_value", key, case, out)
  if len(dist) >= 2:
    try:
      tfl.layers.PWLCalibration(input_keypoints=out)
    except Exception as e:
      ctx.fail("pwl_accepts", key, case, out, classify_exc(e) + ": " + str(e)[:80])


def run_compute(ctx, cases):
  reals = [real_compute(c) for c in cases]
  replies = run_driver([line(c) for c in cases])
  retry = []
  for idx, (case, (out, err), reply) in enumerate(zip(cases, reals, replies)):
    dist, red = prepared(case)
    cls = case_class(case, dist, red)
    model, merr, ties, plateau = parse_reply(reply)
    ctx.count("%s:%s:w=%s:clip=%s" % (case["mode"], case["kind"], case["wk"], case["ck"]))
    ctx.count("cls:" + cls)
    for rc in regression_class(case, dist, red):
      ctx.count("regress:" + rc)
    ctx.count("distinct:%s" % ("<k" if len(dist) < case["k"] else ">=k"))
    if ties:
      ctx.count("model:exact_tie")
    if plateau == "1":
      ctx.count("model:plateau_hit")
    ctx.case(sig=(case["mode"], case["wk"], case["ck"], case["k"], min(len(dist), 12), shash(out)),
             nontrivial=len(dist) >= 2, sample=dict(case=case, out=out, err=err))
    if err is not None or merr is not None:
      if err is not None and merr is not None and (err == merr or (err.startswith("ERR Other") and merr == "ERR Other")):
        ctx.agree("compute_keypoints")
      else:
        ctx.disagree("compute_keypoints", case, err or out, reply, "error class")
    elif same(out, model, case["mode"]):
      ctx.agree("compute_keypoints")
    elif ties and len(ties) <= 8:
      retry.append((idx, case, out, ties, plateau, red))
    elif plateau == "1" and not grid_exact(red):
      ctx.count("plateau_fragile")
    else:
      ctx.disagree("compute_keypoints", case, out, reply)
    oracle(ctx, case, out, err, dist, red, cls)
  # second pass: exact ties may have been resolved either way by float rounding
  lines, owners = [], []
  for idx, case, out, ties, plateau, red in retry:
    for bits in itertools.product([-1, 1], repeat=len(ties)):
      dirs = [0] * case["k"]
      for p, b in zip(ties, bits):
        dirs[p] = b
      lines.append(line(case, dirs))
      owners.append(idx)
  replies = run_driver(lines)
  ok = set()
  for idx, reply in zip(owners, replies):
    model, merr, _, _ = parse_reply(reply)
    case, out = cases[idx], reals[idx][0]
    if merr is None and same(out, model, case["mode"]):
      ok.add(idx)
  for idx, case, out, ties, plateau, red in retry:
    if idx in ok:
      ctx.count("tie_resolved")
      ctx.agree("compute_keypoints")
    elif plateau == "1" and not grid_exact(red):
      ctx.count("plateau_fragile")
    else:
      ctx.disagree("compute_keypoints", case, out, None, "no tie direction reproduces the real output (ties at %r)" % ties)


# ------------------------------------------------------------------ fillers
def run_fillers(ctx, ncases):
  from tensorflow_lattice.python import premade_lib, configs
  rng = ctx.rng
  pending, lines = [], []
  for _ in range(ncases):
    m = rng.randint(4, 30)
    nfeat = rng.randint(1, 3)
    fcs, feats, expect = [], {}, {}
    ws = None if rng.random() < 0.5 else [Fraction(rng.randint(0, 4)) for _ in range(m)]
    if ws is not None and sum(ws) == 0:
      ws[0] = Fraction(1)
    red = rng.choice(["mean", "sum"])
    for j in range(nfeat):
      name = "x%d" % j
      vals = [Fraction(rng.randint(-24, 24), 8) for _ in range(m)]
      style = rng.choice(["quantiles", "uniform", "given", "categorical", "missing_config"])
      k = rng.randint(2, 6)
      cmin = Fraction(rng.randint(-24, 0), 8) if rng.random() < 0.4 else None
      cmax = Fraction(rng.randint(1, 24), 8) if rng.random() < 0.4 else None
      dflt = rng.choice(vals) if rng.random() < 0.3 else None
      feats[name] = np.array([float(v) for v in vals])
      c = dict(kind="filler", vals=[fr(v) for v in vals], ws=None if ws is None else [fr(w) for w in ws], red=red,
               wk="filler", ck="filler")
      if style == "categorical":
        fcs.append(configs.FeatureConfig(name=name, num_buckets=3))
        expect[name] = ("absent", None)
      elif style == "given":
        given = [-3.0, 0.0, 3.0]
        fcs.append(configs.FeatureConfig(name=name, pwl_calibration_input_keypoints=given))
        expect[name] = ("given", given)
      elif style == "missing_config":
        c.update(k=10, mode="quantiles", cmin="none", cmax="none", dflt="none")
        expect[name] = ("model", c)
      else:
        fcs.append(configs.FeatureConfig(
            name=name, pwl_calibration_num_keypoints=k, pwl_calibration_input_keypoints=style,
            pwl_calibration_clip_min=None if cmin is None else float(cmin),
            pwl_calibration_clip_max=None if cmax is None else float(cmax),
            default_value=None if dflt is None else float(dflt)))
        c.update(k=k, mode=style, cmin=opt(cmin), cmax=opt(cmax), dflt=opt(dflt))
        expect[name] = ("model", c)
    wsf = None if ws is None else np.array([float(w) for w in ws])
    try:
      with warnings.catch_warnings():
        warnings.simplefilter("ignore")
        got = premade_lib.compute_feature_keypoints(fcs, feats, weights=wsf, weight_reduction=red)
        premade_lib.set_feature_keypoints(fcs, got, add_missing_feature_configs=True)
      err = None
    except Exception as e:
      got, err = None, classify_exc(e)
    for name, (how, c) in expect.items():
      if how == "model":
        lines.append(line(c))
    pending.append(("feature", fcs, expect, got, err))
    # labels
    labels = [Fraction(rng.randint(0, 12), 4) for _ in range(m)]
    init = rng.choice(["quantiles", "uniform", "given"])
    logits = rng.random() < 0.3
    k = rng.randint(2, 6)
    omin = Fraction(0) if rng.random() < 0.4 else None
    omax = Fraction(3) if rng.random() < 0.4 else None
    mc = configs.CalibratedLatticeConfig(
        feature_configs=fcs, output_calibration=True, output_calibration_num_keypoints=k,
        output_initialization=[0.0, 1.0] if init == "given" else init,
        output_min=None if omin is None else float(omin), output_max=None if omax is None else float(omax))
    c = dict(kind="filler_label", vals=[fr(v) for v in labels], ws=None if ws is None else [fr(w) for w in ws],
             red=red, wk="filler", ck="filler", k=k, mode=init, cmin=opt(omin), cmax=opt(omax), dflt="none")
    try:
      with warnings.catch_warnings():
        warnings.simplefilter("ignore")
        lk = premade_lib.compute_label_keypoints(mc, np.array([float(v) for v in labels]), logits_output=logits,
                                                 weights=wsf, weight_reduction=red)
        premade_lib.set_label_keypoints(mc, lk)
      lerr = None
    except Exception as e:
      lk, lerr = None, classify_exc(e)
    if init == "given":
      how = "given"
    elif logits:
      how = "linspace"
      lines.append("kp.linspace -2 2 %d" % k)
    else:
      how = "model"
      lines.append(line(c))
    pending.append(("label", mc, (how, c), lk, lerr))
  replies = run_driver(lines)
  pos = 0
  for item in pending:
    if item[0] == "feature":
      _, fcs, expect, got, err = item
      key = dict(fn="compute_feature_keypoints", cls="filler")
      ctx.case(sig=("filler", shash(jsonable(got))), sample=None)
      byname = {fc.name: fc for fc in fcs}
      for name, (how, c) in expect.items():
        if how == "model":
          reply = replies[pos]
          pos += 1
        if err is not None:
          continue
        if how == "absent":
          if name in got:
            ctx.disagree("fillers", name, got.get(name), None, "categorical feature got keypoints")
          else:
            ctx.agree("fillers")
        elif how == "given":
          ok = list(got[name]) == c and list(byname[name].pwl_calibration_input_keypoints) == c
          (ctx.agree("fillers") if ok else ctx.disagree("fillers", name, got[name], c, "given keypoints changed"))
        else:
          model, merr, ties, plateau = parse_reply(reply)
          real = [float(v) for v in got[name]]
          stored = name in byname and [float(v) for v in byname[name].pwl_calibration_input_keypoints] == real
          if merr is None and same(real, model, c["mode"]) and stored:
            ctx.agree("fillers")
          elif ties or plateau == "1":
            ctx.count("filler_tie_skipped")
          else:
            ctx.disagree("fillers", c, real, reply, "stored=%r" % stored)
          dist, red_ = prepared(c)
          oracle(ctx, dict(c), real, None, dist, red_, case_class(c, dist, red_), fn="compute_feature_keypoints")
      if err is not None:
        ctx.fail("raises", key, dict(kind="filler"), err)
    else:
      _, mc, (how, c), lk, lerr = item
      key = dict(fn="compute_label_keypoints", cls="filler")
      ctx.case(sig=("filler_label", how, shash(jsonable(lk))), sample=None)
      reply = None
      if how in ("model", "linspace"):
        reply = replies[pos]
        pos += 1
      if lerr is not None:
        ctx.fail("raises", key, c, lerr)
        continue
      real = [float(v) for v in lk]
      stored = [float(v) for v in mc.output_initialization] == real
      if how == "given":
        (ctx.agree("fillers") if real == [0.0, 1.0] and stored else ctx.disagree("fillers", c, real, None))
      elif how == "linspace":
        model = parse_rats(reply)
        (ctx.agree("fillers") if same(real, model, "uniform") and stored else ctx.disagree("fillers", c, real, reply))
      else:
        model, merr, ties, plateau = parse_reply(reply)
        if merr is None and same(real, model, c["mode"]) and stored:
          ctx.agree("fillers")
        elif ties or plateau == "1":
          ctx.count("filler_tie_skipped")
        else:
          ctx.disagree("fillers", c, real, reply)
        dist, red_ = prepared(c)
        oracle(ctx, dict(c), real, None, dist, red_, case_class(c, dist, red_), fn="compute_label_keypoints")


def run(ctx):
  cases = [gen_case(ctx.rng) for _ in range(ctx.n(700, 15000))]
  run_compute(ctx, cases)
  run_fillers(ctx, ctx.n(60, 1000))


def replay(ctx, failure):
  case = failure["case"]
  if "vals" not in case:
    return
  case.setdefault("kind", "replay")
  case.setdefault("wk", "replay")
  case.setdefault("ck", "replay")
  run_compute(ctx, [case])
