"""C08: iterative (Dykstra) projection keeps feasible weights, converges to the L2-nearest point.
Tie: lattice_lib.project_by_dykstra vs Tfl.Lat.projectByDykstraT (per family and combined, joint
unimodality included: every (vertex, offsets) hyperplane group of the real loop is a group of the model).
The `last_change` dict of the real loop is keyed by (family, constraint, group): constraint tuples listed
twice share their slots; the model does the same (Tfl.Lat.slots) and is compared at small iteration counts.
Oracle: feasible => unchanged; violation -> 0 as iterations grow; re-projection of a converged
result does not move it; for the exactly projected families the limit equals the QP optimum
(scipy SLSQP on the REAL outputs; the model-side convergence theorems are in Props/C08*.lean); PWL
iterative projection: feasible unchanged, monotonicity+bounds = QP optimum."""
import itertools
import numpy as np
from fractions import Fraction
from common import *
from props import c01

RULE_MULTI = (" Constraint LISTS (the `last_change` dict of project_by_dykstra is keyed by (family, constraint, group)): every "
              "family's constraint listed twice / three times (shared slots), two DIFFERENT constraints of one family "
              "(separate slots), two joint unimodalities on the same dims with equal / opposite directions and with "
              "permuted dims; model vs real at 1,2,3,5 iterations and the convergence oracle on each class. (d,d) "
              "dominance / joint-monotonicity pairs must be REJECTED with ValueError by verify_hyperparameters, "
              "LatticeConstraints and Lattice.build (fix 18dd711). Joint unimodality directions in every accepted spelling "
              "('valley', 'Valley', 'PEAK', ...: the projection lower-cases them since cdf6c9e), in the correspondence, "
              "the convergence oracle and mixed inside one list ('valley' + 'Valley' = one constraint listed twice).")
RULE = ("lattice configs (rank 1-3, sizes 2-4, <= 36 vertices, units 1-2) with single and combined constraint "
        "families {monotonicity, unimodality, Edgeworth, trapezoid, monotonic dominance, range dominance, joint "
        "monotonicity, joint unimodality (1-3 jointly unimodal dims of size >= 3, valley / peak; alone and combined "
        "with the other families wherever verify_hyperparameters accepts the combination)}; iterations {0,1,2,5,50}; kernels dyadic/int/wide/feasible. Non-trivial = the projection "
        "moved the kernel, or the kernel was feasible; distinct = (family set, iterations, kind, moved, hash). "
        "Convergence / nearest-point cases: 2000 iterations vs scipy SLSQP on <= 16 vertices." + RULE_MULTI)
ASSUMPTIONS = ["float64; model comparison rtol 1e-9*scale",
               "convergence is PROVED on the model for configurations without range dominance: Props/C08.lean when no "
               "last_change key repeats, Props/C08Shared.lean also for constraint tuples listed twice (shared slots: "
               "Hundal-Deutsch's variant); on the REAL code, and for range dominance, the nearest-point and "
               "violation->0 clauses are tested against a QP solver with tolerance 2e-4*scale",
               "(d,d) dominance / joint-monotonicity pairs are rejected at construction (fix 18dd711, formerly F-C08-c): "
               "must-reject oracle; the model side is Tfl.C08.selfPair_rejected / verifyLattice_cfgShape",
               "joint unimodality direction: any capitalisation of 'valley' is a valley, of 'peak' a peak (fix cdf6c9e, "
               "formerly F-C08-d); the wire flag and the independent violation functions lower-case the string",
               "joint_unimodalities: modelled (Tfl.Lat.hyperplaneGroup); combined configurations are generated only where "
               "lattice_lib.verify_hyperparameters accepts them; LatticeConstraints with joint unimodalities is compared "
               "non-strict and strict (the strict finalisation ignores joint unimodality in code and model alike)"]

FAMS = ["mono", "uni", "ew", "tz", "md", "rd", "jm", "ju"]


def gen_cfg(rng, fams, max_vertices=36):
  while True:
    rank = rng.choice([1, 2, 2, 3])
    if any(f in fams for f in ("ew", "tz", "md", "rd", "jm", "ju")):
      rank = max(rank, 2)
    if "ju" in fams and len(fams) > 1 and rng.random() < 0.6:
      rank = 3   # room for jointly unimodal dims next to the monotone ones
    sizes = [rng.randint(2, 4) for _ in range(rank)]
    if int(np.prod(sizes)) <= max_vertices:
      break
  cfg = dict(sizes=sizes, mono=[0] * rank, ew=[], tz=[], uni=[0] * rank, md=[], rd=[], jm=[], ju=[], lo=None,
             hi=None)
  dims = list(range(rank))
  rng.shuffle(dims)
  need_two_mono = "md" in fams or "rd" in fams
  if any(f in fams for f in ("mono", "ew", "tz", "md", "rd")):
    k = 2 if need_two_mono else 1
    for d in dims[:max(k, rng.randint(1, rank))]:
      cfg["mono"][d] = 1
    if any(f in fams for f in ("ew", "tz")) and all(cfg["mono"]) and rank >= 2 and rng.random() < 0.5:
      cfg["mono"][dims[-1]] = 0
  if "uni" in fams:
    for d in range(rank):
      if not cfg["mono"][d] and sizes[d] >= 3 and rng.random() < 0.7:
        cfg["uni"][d] = rng.choice([1, -1])
    if not any(cfg["uni"]):
      cands = [d for d in range(rank) if sizes[d] >= 3]
      if cands:
        d = rng.choice(cands)
        cfg["mono"][d] = 0
        cfg["uni"][d] = rng.choice([1, -1])
  ms = [d for d in range(rank) if cfg["mono"][d]]
  if ms and rank >= 2:
    m = rng.choice(ms)
    cs = [d for d in range(rank) if d != m]
    if "ew" in fams:
      cfg["ew"].append((m, rng.choice(cs), rng.choice([1, -1])))
    if "tz" in fams:
      c = cfg["ew"][0][1] if cfg["ew"] and rng.random() < 0.5 else rng.choice(cs)
      d = cfg["ew"][0][2] if cfg["ew"] and cfg["ew"][0][1] == c else rng.choice([1, -1])
      cfg["tz"].append((m, c, d))
    # a main feature must not be a conditional feature of another trust: single main here
  if len(ms) >= 2:
    a, b = rng.sample(ms, 2)
    if "md" in fams:
      cfg["md"].append((a, b))
    if "rd" in fams:
      cfg["rd"].append((b, a) if "md" in fams and rng.random() < 0.5 else (a, b))
  if "jm" in fams and rank >= 2:
    a, b = rng.sample(range(rank), 2)
    cfg["jm"].append((a, b))
  if "ju" in fams:
    add_joint_unimodality(rng, cfg)
  return cfg


def spell(rng, direction, p=0.25):
  """The direction in another spelling verify_hyperparameters accepts (it lower-cases; so does the projection
  since cdf6c9e)."""
  if rng.random() >= p:
    return direction
  return rng.choice([direction.capitalize(), direction.upper(), direction[0] + direction[1:].upper()])


def add_joint_unimodality(rng, cfg):
  """Adds one (sometimes two) joint unimodality constraints on non-monotone dims; dims of size >= 3 are
  grown where needed (verify_hyperparameters wants size >= 3 and no monotonicity on these dims)."""
  sizes, rank = cfg["sizes"], len(cfg["sizes"])
  free = [d for d in range(rank) if not cfg["mono"][d]]
  if not free:
    d = rng.randrange(rank)
    cfg["mono"][d] = 0
    free = [d]
  k = min(len(free), rng.choice([1, 2, 2, 2, 2, 3]))
  dims = rng.sample(free, k)
  for d in dims:
    if sizes[d] < 3:
      sizes[d] = 3
  while int(np.prod(sizes)) > 36:
    big = [d for d in range(rank) if sizes[d] > (3 if d in dims else 2)]
    if not big:
      break
    sizes[rng.choice(big)] -= 1
  cfg["ju"].append((tuple(dims), spell(rng, rng.choice(["valley", "peak"]))))
  rest = [d for d in free if d not in dims and sizes[d] >= 3]
  if rest and rng.random() < 0.2:
    cfg["ju"].append(((rng.choice(rest),), rng.choice(["valley", "peak"])))


MULTI_MODES = ["dup:ew", "dup:tz", "dup:md", "dup:rd", "dup:jm", "dup:ju", "two:ew", "two:tz", "two:md", "two:rd",
               "two:jm", "two:ju", "ju_same", "ju_opp", "ju_perm"]


def gen_multi(rng, mode, max_vertices=27, max_ju_dims=3):
  """Configurations whose constraint LISTS matter for the `last_change` dict of project_by_dykstra:
  dup:<fam>  one constraint of the family listed twice (sometimes three times): identical dict keys, shared slots;
  two:<fam>  two different constraints of the family: different keys, separate slots;
  ju_same / ju_opp / ju_perm  two joint unimodalities on the same dims with equal / opposite direction / the dims
  permuted (keys differ by direction since /repo 4b9511c, and by the order of the dims).
  Returns (cfg, fams) or None when the shape cannot host the mode."""
  kind, _, fam = mode.partition(":")
  for _ in range(50):
    rank = rng.choice([2, 2, 3])
    lo_size = 3 if (fam == "ju" or kind.startswith("ju")) else 2
    sizes = [rng.randint(lo_size, 3 if rank == 3 else 4) for _ in range(rank)]
    if int(np.prod(sizes)) > max_vertices:
      continue
    cfg = dict(sizes=sizes, mono=[0] * rank, ew=[], tz=[], uni=[0] * rank, md=[], rd=[], jm=[], ju=[], lo=None, hi=None)
    dims = list(range(rank))
    rng.shuffle(dims)
    reps = 3 if rng.random() < 0.2 else 2
    dr = lambda: rng.choice([1, -1])
    vp = lambda: rng.choice(["valley", "peak"])
    opp = lambda d: "peak" if d.lower() == "valley" else "valley"
    if kind.startswith("ju") or fam == "ju":
      k = rng.choice([1, 2, 2]) if rank == 2 else rng.choice([1, 2, 2, 3])
      k = min(k, max_ju_dims)
      if kind == "ju_perm":
        k = max(k, 2)
      if int(np.prod(sizes)) > 18 and k >= 2:
        continue      # hundreds of hyperplane groups per pass
      jd = tuple(dims[:k])
      d0 = vp()
      if kind == "ju_same" or kind == "dup":
        # the same constraint twice, sometimes in two spellings: one dict key (lower-cased direction)
        cfg["ju"] = [(jd, spell(rng, d0, 0.4)) for _ in range(reps if kind == "dup" else 2)]
      elif kind == "ju_opp":
        cfg["ju"] = [(jd, spell(rng, d0)), (jd, spell(rng, opp(d0)))]
      elif kind == "ju_perm":
        pd = list(jd)
        while tuple(pd) == jd:
          rng.shuffle(pd)
        cfg["ju"] = [(jd, d0), (tuple(pd), d0 if rng.random() < 0.6 else vp())]
      else:           # two different constraints: overlapping or disjoint dims
        other = tuple(rng.sample(dims, rng.choice([1, 2]) if rank >= 2 else 1))
        if set(other) == set(jd) and len(other) == len(jd):
          continue
        cfg["ju"] = [(jd, d0), (other, vp())]
      free = [d for d in range(rank) if not any(d in c[0] for c in cfg["ju"])]
      for d in free:
        if rng.random() < 0.5:
          cfg["mono"][d] = 1
      return cfg, ([kind] if kind.startswith("ju") else [kind, "ju"])
    if fam in ("ew", "tz"):
      m = dims[0]
      cfg["mono"][m] = 1
      if kind == "dup":
        cons = [(m, dims[1], dr())] * reps
      elif rank >= 3 and rng.random() < 0.5:
        cons = [(m, dims[1], dr()), (m, dims[2], dr())]          # one main, two conditional features
      elif rank >= 3:
        cfg["mono"][dims[1]] = 1
        cons = [(m, dims[2], dr()), (dims[1], dims[2], dr())]    # two mains, one conditional feature
      else:
        continue
      cfg[fam] = cons
      if rng.random() < 0.4:
        other = "tz" if fam == "ew" else "ew"
        cfg[other] = [cons[0]]
      return cfg, [kind, fam] + (["tz" if fam == "ew" else "ew"] if cfg["tz" if fam == "ew" else "ew"] else [])
    if fam in ("md", "rd"):
      a, b = dims[0], dims[1]
      cfg["mono"][a] = cfg["mono"][b] = 1
      if kind == "dup":
        cons = [(a, b)] * reps
      elif rank >= 3:
        c = dims[2]
        cfg["mono"][c] = 1
        cons = rng.choice([[(a, b), (a, c)], [(a, b), (c, b)], [(a, b), (b, c)]])
      else:
        continue
      cfg[fam] = cons
      return cfg, [kind, fam]
    if fam == "jm":
      a, b = dims[0], dims[1]
      if kind == "dup":
        cons = [(a, b)] * reps
      elif rank >= 3 and rng.random() < 0.6:
        cons = rng.choice([[(a, b), (a, dims[2])], [(a, b), (dims[2], b)]])
      else:
        cons = [(a, b), (b, a)]        # the same constraint set under two different dict keys
      cfg["jm"] = cons
      if rng.random() < 0.3:
        cfg["mono"][rng.choice(dims)] = 1
      return cfg, [kind, "jm"]
  return None


def accepted(cfg):
  """Does the real verify_hyperparameters accept the configuration?"""
  from tensorflow_lattice.python import lattice_lib
  try:
    lattice_lib.verify_hyperparameters(
        lattice_sizes=list(cfg["sizes"]), monotonicities=list(cfg["mono"]),
        unimodalities=list(cfg["uni"]) if any(cfg["uni"]) else None,
        edgeworth_trusts=[tuple(t) for t in cfg["ew"]] or None, trapezoid_trusts=[tuple(t) for t in cfg["tz"]] or None,
        monotonic_dominances=[tuple(t) for t in cfg["md"]] or None,
        range_dominances=[tuple(t) for t in cfg["rd"]] or None,
        joint_monotonicities=[tuple(t) for t in cfg["jm"]] or None, joint_unimodalities=jus_of(cfg))
    return True
  except ValueError:
    return False


def jus_of(cfg):
  return [(tuple(d), dr) for d, dr in cfg.get("ju", [])] or None


def ju_hyperplanes(cfg):
  """Independent reading of the joint unimodality definition: for every constrained vertex v != centre and
  every adjacent hypercube (offsets o in {-1,1}^k whose neighbours along the dims with v_d != c_d exist),
  sum_d (v_d - c_d) * o_d * (L[v + o_d e_d] - L[v]) is >= 0 (valley) / <= 0 (peak), in every slice of the
  other dimensions. Yields (sign, [(coef, full index)...]) with sign*sum >= 0."""
  sizes = cfg["sizes"]
  rank = len(sizes)
  for dims, direction in cfg.get("ju", []):
    dims = list(dims)
    others = [d for d in range(rank) if d not in dims]
    centre = [sizes[d] // 2 for d in dims]
    sign = 1 if direction.lower() == "valley" else -1
    for v in itertools.product(*[range(sizes[d]) for d in dims]):
      for o in itertools.product([-1, 1], repeat=len(dims)):
        terms, ok = [], True
        for t in range(len(dims)):
          wgt = v[t] - centre[t]
          if wgt == 0:
            continue
          nb = v[t] + o[t]
          if nb < 0 or nb >= sizes[dims[t]]:
            ok = False
            break
          terms.append((wgt * o[t], t, nb))
        if not ok or not terms:
          continue
        for rest in itertools.product(*[range(sizes[d]) for d in others]):
          base = [0] * rank
          for d, x in zip(others, rest):
            base[d] = x
          for t, d in enumerate(dims):
            base[d] = v[t]
          row = []
          for coef, t, nb in terms:
            j = list(base)
            j[dims[t]] = nb
            row.append((coef, tuple(j)))
          row.append((-sum(c for c, _, _ in terms), tuple(base)))
          yield sign, row


def ju_violation(cfg, t):
  v = 0.0
  for sign, row in ju_hyperplanes(cfg):
    v = max(v, -sign * sum(c * t[j] for c, j in row))
  return float(v)


def full_violation(cfg, t):
  return max(c01.max_violation(cfg, t), ju_violation(cfg, t))


def feasible_with_ju(rng, cfg, units):
  """Feasible kernel: the c01 construction plus a cone around the centre of every jointly unimodal group
  (checked with the independent violation functions; falls back to the c01 kernel, then to constants)."""
  w = c01.feasible_kernel(rng, cfg, units)
  if not cfg.get("ju"):
    return w
  sizes = cfg["sizes"]
  cols = []
  for u in range(units):
    col = [row[u] for row in w]
    k = Fraction(rng.randint(0, 6), 4)
    cone = []
    for idx in itertools.product(*[range(s) for s in sizes]):
      c = Fraction(0)
      for dims, direction in cfg["ju"]:
        c += (1 if direction.lower() == "valley" else -1) * k * sum(abs(idx[d] - sizes[d] // 2) for d in dims)
      cone.append(c)
    cand = [a + b for a, b in zip(col, cone)]
    t = np.array([float(x) for x in cand]).reshape(sizes)
    if full_violation(cfg, t) > 0:
      cand = col
      t = np.array([float(x) for x in cand]).reshape(sizes)
      if full_violation(cfg, t) > 0:
        cand = [col[0]] * len(col)
    cols.append(cand)
  return [[cols[u][i] for u in range(units)] for i in range(len(cols[0]))]


def real_dykstra(cfg, wf, iters, jus=None, graph=False):
  import tensorflow as tf
  from tensorflow_lattice.python import lattice_lib
  if graph:
    # many iterations: run the same public function as a tf.function (tf.while_loop in graph mode)
    fn = tf.function(lambda w: _dykstra_call(lattice_lib, cfg, w, iters, jus))
    return fn(tf.constant(wf, dtype=tf.float64)).numpy()
  return _dykstra_call(lattice_lib, cfg, tf.constant(wf, dtype=tf.float64), iters, jus).numpy()


def _dykstra_call(lattice_lib, cfg, w, iters, jus):
  return lattice_lib.project_by_dykstra(
      w, lattice_sizes=list(cfg["sizes"]), monotonicities=list(cfg["mono"]),
      unimodalities=list(cfg["uni"]) if any(cfg["uni"]) else None,
      edgeworth_trusts=[tuple(t) for t in cfg["ew"]] or None, trapezoid_trusts=[tuple(t) for t in cfg["tz"]] or None,
      monotonic_dominances=[tuple(t) for t in cfg["md"]] or None, range_dominances=[tuple(t) for t in cfg["rd"]] or None,
      joint_monotonicities=[tuple(t) for t in cfg["jm"]] or None,
      joint_unimodalities=jus if jus is not None else jus_of(cfg),
      num_iterations=iters)


def ju_tok(cfg):
  """joint unimodalities on the wire: `d1,d2,...,flag;...` with flag 1 = valley, 0 = peak"""
  return il2([list(d) + [1 if dr.lower() == "valley" else 0] for d, dr in cfg.get("ju", [])])


def model_line(cfg, col, iters):
  if cfg.get("ju"):
    return "lat.dykstra %s %s %s %s %s %s %s %s %s %d %s" % (
        il(cfg["sizes"]), il(cfg["mono"]), il(cfg["uni"]), il2(cfg["ew"]), il2(cfg["tz"]), il2(cfg["md"]),
        il2(cfg["rd"]), il2(cfg["jm"]), ju_tok(cfg), iters, frl(col))
  return "lat.dykstra %s %s %s %s %s %s %s %s %d %s" % (
      il(cfg["sizes"]), il(cfg["mono"]), il(cfg["uni"]), il2(cfg["ew"]), il2(cfg["tz"]), il2(cfg["md"]),
      il2(cfg["rd"]), il2(cfg["jm"]), iters, frl(col))


def constraint_line(cfg, col, iters, strict):
  return "lat.constraint %s %s %s %s %s %s %s %s %s %s %s %d %d %s" % (
      il(cfg["sizes"]), il(cfg["mono"]), il(cfg["uni"]), il2(cfg["ew"]), il2(cfg["tz"]), il2(cfg["md"]),
      il2(cfg["rd"]), il2(cfg["jm"]), ju_tok(cfg), opt(cfg["lo"]), opt(cfg["hi"]), iters, int(strict), frl(col))


def constraint_rows(cfg):
  """All inequalities `row . x >= 0` (x = row-major flattened unit tensor) of the configured families."""
  sizes = cfg["sizes"]
  rank = len(sizes)
  strides = [int(np.prod(sizes[d + 1:])) for d in range(rank)]
  n = int(np.prod(sizes))

  def fl(idx):
    return sum(i * s for i, s in zip(idx, strides))
  rows = []

  def add(terms):
    r = np.zeros(n)
    for coef, idx in terms:
      r[fl(idx)] += coef
    rows.append(r)

  def st(idx, d, v):
    j = list(idx)
    j[d] = v
    return tuple(j)
  for idx in itertools.product(*[range(s) for s in sizes]):
    for d in range(rank):
      if idx[d] + 1 < sizes[d]:
        nxt = st(idx, d, idx[d] + 1)
        if cfg["mono"][d]:
          add([(1, nxt), (-1, idx)])
        if cfg["uni"][d]:
          first = idx[d] < sizes[d] // 2
          incr = (cfg["uni"][d] == -1 and first) or (cfg["uni"][d] == 1 and not first)
          add([(1, nxt), (-1, idx)] if incr else [(-1, nxt), (1, idx)])
    for (m, c, dr) in cfg["ew"]:
      if idx[m] + 1 < sizes[m] and idx[c] + 1 < sizes[c]:
        a, b = st(idx, m, idx[m] + 1), st(idx, c, idx[c] + 1)
        ab = st(a, c, idx[c] + 1)
        add([(dr, ab), (-dr, b), (-dr, a), (dr, idx)])
    for (m, c, dr) in cfg["tz"]:
      if idx[c] + 1 < sizes[c]:
        nxt = st(idx, c, idx[c] + 1)
        if idx[m] == 0:
          add([(-dr, nxt), (dr, idx)])
        if idx[m] == sizes[m] - 1:
          add([(dr, nxt), (-dr, idx)])
    for (a, b) in cfg["md"]:
      if idx[a] + 1 < sizes[a] and idx[b] + 1 < sizes[b]:
        pa, pb = st(idx, a, idx[a] + 1), st(idx, b, idx[b] + 1)
        pab = st(pa, b, idx[b] + 1)
        add([(2, pa), (-1, idx), (-1, pab)])      # L[i+1][j] >= mid
        add([(-2, pb), (1, idx), (1, pab)])       # L[i][j+1] <= mid
    for (a, b) in cfg["jm"]:
      if idx[a] + 1 < sizes[a] and idx[b] + 1 < sizes[b]:
        pa, pb = st(idx, a, idx[a] + 1), st(idx, b, idx[b] + 1)
        pab = st(pa, b, idx[b] + 1)
        add([(2, pab), (-1, pa), (-1, pb)])
        add([(-2, idx), (1, pa), (1, pb)])
    for (a, b) in cfg["rd"]:
      add([(1, st(idx, a, sizes[a] - 1)), (-1, st(idx, a, 0)), (-1, st(idx, b, sizes[b] - 1)), (1, st(idx, b, 0))])
  for sign, row in ju_hyperplanes(cfg):
    add([(sign * c, j) for c, j in row])
  return np.array(rows) if rows else np.zeros((0, n))


def qp_nearest(A, w0):
  from scipy.optimize import minimize
  if A.shape[0] == 0:
    return w0.copy()
  res = minimize(lambda x: 0.5 * np.sum((x - w0) ** 2), w0.copy(), jac=lambda x: x - w0,
                 constraints=[{"type": "ineq", "fun": lambda x: A @ x, "jac": lambda x: A}],
                 method="SLSQP", options={"maxiter": 500, "ftol": 1e-14})
  return res.x


def run(ctx):
  rng = ctx.rng
  lines, pending = [], []
  # ---- (1) correspondence per family and combined
  combos = [[f] for f in FAMS] + [["mono", "ew"], ["mono", "tz"], ["mono", "ew", "tz"], ["mono", "md"], ["mono", "rd"],
                                   ["mono", "uni"], ["mono", "jm"], ["uni", "jm"], ["mono", "ew", "tz", "md", "jm"],
                                   ["ju"], ["ju"], ["mono", "ju"], ["uni", "ju"], ["jm", "ju"], ["mono", "ew", "ju"],
                                   ["mono", "tz", "ju"], ["mono", "md", "ju"], ["mono", "ew", "tz", "md", "jm", "ju"]]
  for _ in range(ctx.n(190, 5000)):
    fams = rng.choice(combos)
    cfg = gen_cfg(rng, fams)
    if "ju" in fams:
      for _try in range(30):
        if accepted(cfg):
          break
        ctx.count("ju_rejected_by_verify")
        cfg = gen_cfg(rng, fams)
      else:
        continue
      ctx.count("ju_dims:%d" % len(cfg["ju"][0][0]))
    n = int(np.prod(cfg["sizes"]))
    units = rng.choice([1, 1, 2])
    r = rng.random()
    if r < 0.2:
      kind, w = "feasible", feasible_with_ju(rng, cfg, units)
    else:
      kind, w = c01.gen_kernel(rng, n, units)
    iters = rng.choice([0, 1, 2, 5, 50])
    if cfg["ju"] and iters == 50 and (n > 18 or len(cfg["ju"][0][0]) > 2):
      iters = 5   # hundreds of hyperplane groups per pass: keep the exact-rational model run short
    wf = np.array([[float(v) for v in row] for row in w])
    try:
      out, err = real_dykstra(cfg, wf, iters), None
    except Exception as e:
      out, err = None, classify_exc(e) + ": " + str(e)[:200]
    for u in range(units):
      lines.append(model_line(cfg, [w[i][u] for i in range(n)], iters))
    pending.append((dict(cfg=cfg, kind=kind, iters=iters, w=w, fams=fams), wf, out, err, units))
  finish(ctx, lines, pending)
  # ---- (2) convergence, re-projection, nearest point (oracle only)
  exact = ["mono", "uni", "ew", "tz", "md", "jm", "ju"]
  for it in range(ctx.n(14, 170)):
    # stratified: every exactly-projected family leads at least twice per quick run
    fams = [exact[it % len(exact)]] + rng.sample([f for f in exact if f != exact[it % len(exact)]], rng.choice([0, 0, 1, 2]))
    if "rd" not in fams and rng.random() < 0.15:
      fams = fams + ["rd"]
    cfg = gen_cfg(rng, fams, max_vertices=16)
    if "ju" in fams:
      for _try in range(40):
        if accepted(cfg) and int(np.prod(cfg["sizes"])) <= 18:
          break
        cfg = gen_cfg(rng, fams, max_vertices=16)
      else:
        continue
    for _try in range(20):
      # trusts: prefer shapes where main and conditional sizes differ (size-2 main with a longer conditional axis)
      if not (cfg["tz"] or cfg["ew"]) or it % 2 == 0:
        break
      m_, c_ = (cfg["tz"] or cfg["ew"])[0][:2]
      if cfg["sizes"][m_] == 2 and cfg["sizes"][c_] >= 3:
        break
      cfg = gen_cfg(rng, fams, max_vertices=16)
    n = int(np.prod(cfg["sizes"]))
    kind, w = c01.gen_kernel(rng, n, 1)
    if kind in ("huge", "tiny"):
      kind, w = "dyadic", [[gen_value(rng, "dyadic")] for _ in range(n)]
    wf = np.array([[float(v) for v in row] for row in w])
    convergence_case(ctx, cfg, fams, kind, w, wf)
  # ---- (3) joint unimodality: cone fixpoint / re-projection oracle, LatticeConstraints correspondence
  for i in range(ctx.n(6, 60)):
    joint_unimodality_case(ctx, rng, spelled=(i % 3 == 2))
  layer_cases(ctx, rng)
  # ---- (3b) constraint lists: repeated / several constraints of one family (the last_change dict keys)
  multi_cases(ctx, rng)
  multi_convergence(ctx, rng)
  self_pair_cases(ctx, rng)
  # ---- (4) PWL iterative projection
  for _ in range(ctx.n(40, 600)):
    pwl_case(ctx, rng)


def finish(ctx, lines, pending):
  replies = run_driver(lines, timeout=1500)
  pos = 0
  for case, wf, out, err, units in pending:
    cfg, kind, iters = case["cfg"], case["kind"], case["iters"]
    cls = "+".join(case["fams"])
    key = dict(suite="dykstra", fams=cls, kind=kind)
    ctx.count("fam:" + cls)
    if any(dr != dr.lower() for _, dr in cfg.get("ju", [])):
      ctx.count("ju_direction_capitalised")
    ctx.count("iters:%d" % iters)
    rs = replies[pos:pos + units]
    pos += units
    if err is not None:
      ctx.fail("raises", key, case, err)
      ctx.case(sig=("dyk", cls, "err"), sample=case)
      continue
    moved = bool(np.any(out != wf))
    ctx.case(sig=("dyk", cls, iters, kind, moved, hash(wf.tobytes()) % 9973), nontrivial=moved or kind == "feasible",
             sample=dict(case=case, out=out))
    scale = max_abs(wf.ravel())
    for u in range(units):
      if rs[u].startswith("ERR") or rs[u] == "bad-op":
        ctx.disagree("project_by_dykstra", case, out[:, u], rs[u], "model rejects")
        continue
      ctx.compare("project_by_dykstra", case, out[:, u], parse_rats(rs[u]), scale, rtol=1e-9)
    if not np.all(np.isfinite(out)):
      ctx.fail("finite", key, case, out)
      continue
    feas = all(full_violation(cfg, wf[:, u].reshape(cfg["sizes"])) <= 0 for u in range(units))
    if feas:
      ctx.count("feasible_inputs")
      mv = float(np.max(np.abs(out - wf)))
      if mv > 1e-9 * scale:
        ctx.fail("fixpoint", key, case, out, "feasible kernel moved by %g" % mv)


def convergence_case(ctx, cfg, fams, kind, w, wf):
  cls = "+".join(fams)
  case = dict(cfg=cfg, kind=kind, w=w, fams=fams, iters=2000)
  key = dict(suite="convergence", fams=cls, kind=kind)
  scale = max_abs(wf.ravel())
  sizes = cfg["sizes"]
  try:
    viol = []
    for it in (1, 10, 100):
      o = real_dykstra(cfg, wf, it, graph=it > 10)
      viol.append(full_violation(cfg, o[:, 0].reshape(sizes)))
    out = real_dykstra(cfg, wf, 2000, graph=True)
    viol.append(full_violation(cfg, out[:, 0].reshape(sizes)))
    again = real_dykstra(cfg, out, 2000, graph=True)
  except Exception as e:
    ctx.fail("raises", key, case, classify_exc(e) + ": " + str(e)[:200])
    return
  ctx.case(sig=("conv", cls, kind, hash(wf.tobytes()) % 9973), sample=dict(case=case, violations=viol))
  ctx.count("conv:" + cls)
  if viol[-1] > 2e-4 * scale:
    ctx.fail("violation_to_zero", key, case, viol, "violation after 2000 iterations %g" % viol[-1])
  if viol[-1] > viol[0] + 1e-9 * scale:
    ctx.fail("violation_to_zero", key, case, viol, "violation grew from %g to %g" % (viol[0], viol[-1]))
  mv = float(np.max(np.abs(again - out)))
  if mv > 2e-4 * scale:
    ctx.fail("reprojection", key, case, mv, "converged result moved by %g when projected again" % mv)
  if "rd" not in fams:
    A = constraint_rows(cfg)
    qp = qp_nearest(A, wf[:, 0])
    if A.shape[0] and (A @ qp).min() < -1e-6 * scale:
      ctx.notes.append("QP solver did not reach feasibility for %s; case skipped" % cls)
      return
    d = float(np.max(np.abs(out[:, 0] - qp)))
    ctx.count("qp_compared")
    if d > 2e-4 * scale:
      # decide who is closer to the input: a real defect only if Dykstra's limit is feasible-ish but farther
      d_dyk = float(np.sum((out[:, 0] - wf[:, 0]) ** 2))
      d_qp = float(np.sum((qp - wf[:, 0]) ** 2))
      if d_dyk > d_qp + 1e-6 * scale * scale:
        ctx.fail("nearest_point", key, case, dict(dykstra=out[:, 0], qp=qp), "distance to QP optimum %g" % d)
      else:
        ctx.notes.append("QP solver inaccurate (farther than Dykstra) for %s" % cls)
    # the strict layer constraint with many iterations stays close to the nearest point
    # (not asked of joint unimodality: the strict finalisation does not know that family)
    if cfg.get("ju"):
      return
    try:
      import tensorflow as tf
      strict = tf.function(lambda: tf.constant(0.0))  # placeholder to keep tf imported
      strict = strict_call(cfg, wf, 2000)
      ds = float(np.max(np.abs(strict[:, 0] - qp)))
      if ds > 5e-3 * scale:
        ctx.fail("strict_close_to_nearest", key, case, dict(strict=strict[:, 0], qp=qp), "distance %g" % ds)
    except Exception as e:
      ctx.fail("raises", key, case, classify_exc(e) + ": " + str(e)[:200])


def strict_call(cfg, wf, iters):
  """LatticeConstraints (strict) with many iterations, run as a tf.function."""
  import tensorflow as tf
  from tensorflow_lattice.python import lattice_layer
  kw = dict(lattice_sizes=list(cfg["sizes"]), monotonicities=list(cfg["mono"]),
            unimodalities=list(cfg["uni"]) if any(cfg["uni"]) else None,
            edgeworth_trusts=[tuple(t) for t in cfg["ew"]] or None,
            trapezoid_trusts=[tuple(t) for t in cfg["tz"]] or None,
            monotonic_dominances=[tuple(t) for t in cfg["md"]] or None,
            range_dominances=[tuple(t) for t in cfg["rd"]] or None,
            joint_monotonicities=[tuple(t) for t in cfg["jm"]] or None)
  cons = lattice_layer.LatticeConstraints(num_projection_iterations=iters, enforce_strict_monotonicity=True, **kw)
  return tf.function(lambda w: cons(w))(tf.constant(wf, dtype=tf.float64)).numpy()


def joint_unimodality_case(ctx, rng, spelled=False, fixed=None):
  """`spelled`: the direction in another spelling verify_hyperparameters accepts (it lower-cases the string:
  'Valley', 'PEAK', ...); the constraint meant is the lower-cased one (the projection compared the string as given
  before fix cdf6c9e and enforced a PEAK for 'Valley': fixed finding F-C08-d)."""
  if fixed is not None:
    sizes, dims, spelling = fixed
    rank = len(sizes)
  else:
    rank = rng.choice([2, 2, 3])
    sizes = [rng.choice([3, 3, 4]) for _ in range(rank)]
    dims = rng.sample(range(rank), 2)
    spelling = rng.choice(["Valley", "VALLEY", "Peak", "PEAK", "vAlley"]) if spelled else rng.choice(["valley", "peak"])
  direction = spelling.lower()
  jus = [(tuple(dims), spelling)]
  cfg = dict(sizes=sizes, mono=[0] * rank, ew=[], tz=[], uni=[0] * rank, md=[], rd=[], jm=[], lo=None, hi=None)
  n = int(np.prod(sizes))
  key = dict(suite="joint_unimodality", fams="ju", kind="dyadic", spelling="lower" if spelling == direction else "other")
  w = [[gen_value(rng, "dyadic")] for _ in range(n)]
  wf = np.array([[float(v) for v in row] for row in w])
  case = dict(cfg=cfg, jus=[[list(dims), spelling]], w=w, iters=1000, fams=["ju"], kind="dyadic")
  if not accepted(dict(cfg, ju=jus)):
    ctx.count("ju_spelling_rejected")
    return
  ctx.count("ju_spelling:" + key["spelling"])
  try:
    out = real_dykstra(cfg, wf, 1000, jus, graph=True)
    again = real_dykstra(cfg, out, 1000, jus, graph=True)
    # a kernel that is exactly feasible: cone around the centre
    centre = [s // 2 for s in sizes]
    sign = 1.0 if direction == "valley" else -1.0
    cone = np.array([[sign * sum(abs(i[d] - centre[d]) for d in dims)]
                     for i in itertools.product(*[range(s) for s in sizes])], dtype=np.float64)
    fixed_out = real_dykstra(cfg, cone, 7, jus)
  except Exception as e:
    ctx.fail("raises", key, case, classify_exc(e) + ": " + str(e)[:200])
    return
  ctx.case(sig=("ju", tuple(sizes), tuple(dims), spelling, hash(wf.tobytes()) % 9973), sample=case)
  ctx.count("conv:ju")
  scale = max_abs(wf.ravel())
  if float(np.max(np.abs(again - out))) > 2e-4 * scale:
    ctx.fail("reprojection", key, case, float(np.max(np.abs(again - out))))
  if float(np.max(np.abs(fixed_out - cone))) > 1e-9:
    ctx.fail("fixpoint", key, case, fixed_out, "feasible cone kernel (a %s) moved" % direction)
  viol = full_violation(dict(cfg, ju=[(tuple(dims), direction)]), out[:, 0].reshape(sizes))
  if viol > 2e-4 * scale:
    ctx.fail("violation_to_zero", key, case, viol, "violation of the %s constraint after 1000 iterations" % direction)


def multi_cases(ctx, rng):
  """Correspondence at small iteration counts on configurations with repeated / several constraints of one
  family: the real `last_change` dict vs the model's slots (`Tfl.Lat.slots`)."""
  lines, pending = [], []
  for i in range(ctx.n(45, 600)):
    mode = MULTI_MODES[i % len(MULTI_MODES)]
    g = gen_multi(rng, mode)
    if g is None:
      continue
    cfg, fams = g
    if not accepted(cfg):
      ctx.count("multi_rejected:" + mode)
      continue
    n = int(np.prod(cfg["sizes"]))
    units = rng.choice([1, 1, 1, 2])
    kind = rng.choice(["dyadic", "dyadic", "int"])
    w = [[gen_value(rng, kind) for _ in range(units)] for _ in range(n)]
    iters = rng.choice([1, 2, 3, 5])
    wf = np.array([[float(v) for v in row] for row in w])
    try:
      out, err = real_dykstra(cfg, wf, iters), None
    except Exception as e:
      out, err = None, classify_exc(e) + ": " + str(e)[:200]
    for u in range(units):
      lines.append(model_line(cfg, [w[i][u] for i in range(n)], iters))
    ctx.count("multi:" + mode)
    pending.append((dict(cfg=cfg, kind=kind, iters=iters, w=w, fams=fams), wf, out, err, units))
  finish(ctx, lines, pending)


def multi_convergence(ctx, rng):
  """The convergence / re-projection / nearest-point oracle on the same classes (a repeated constraint shares
  its roll-back tensor between its visits: Hundal-Deutsch's loop; proved for the model in Props/C08Shared.lean,
  tested here on the real code; a key that wrongly merges DIFFERENT constraints does not converge: 4b9511c)."""
  quick = ctx.tier == "quick"
  plain = [m for m in MULTI_MODES if "ju" not in m]
  start = rng.randrange(len(plain))
  for i in range(ctx.n(6, 24)):
    # the 4b9511c class (valley + peak on the same dims) leads every run, a repeated joint unimodality follows;
    # quick tier: one jointly unimodal dim (few hyperplane groups, the tf.while_loop graph stays small)
    if i == 0:
      mode = "ju_opp"
    elif i == 1:
      mode = rng.choice(["dup:ju", "ju_same"])
    elif quick or i % 3:
      mode = plain[(start + i) % len(plain)]
    else:
      mode = rng.choice(["two:ju", "ju_perm", "ju_opp", "dup:ju"])
    for _try in range(30):
      g = gen_multi(rng, mode, max_vertices=16 if "ju" not in mode else 12, max_ju_dims=1 if quick else 2)
      if g is not None and accepted(g[0]):
        break
    else:
      continue
    cfg, fams = g
    n = int(np.prod(cfg["sizes"]))
    kind = "dyadic"
    w = [[gen_value(rng, kind)] for _ in range(n)]
    wf = np.array([[float(v) for v in row] for row in w])
    ctx.count("multi_conv:" + mode)
    convergence_case(ctx, cfg, fams, kind, w, wf)


def self_pair_cases(ctx, rng, fixed=None):
  """(d, d) pairs: `monotonic_dominances=[(d, d)]`, `range_dominances=[(d, d)]`, `joint_monotonicities=[(d, d)]`,
  alone and after a valid pair. Since fix 18dd711 verify_hyperparameters, LatticeConstraints and Lattice (at build,
  where the layer verifies these arguments) must reject them with ValueError (before, the projection unstacked axis d twice: it raised inside project_by_dykstra
  or silently constrained the pair (d, d+1))."""
  from tensorflow_lattice.python import lattice_lib, lattice_layer
  import tensorflow_lattice as tfl
  arg = dict(md="monotonic_dominances", rd="range_dominances", jm="joint_monotonicities")
  todo = [fixed] if fixed is not None else [None] * ctx.n(9, 45)
  for i, fx in enumerate(todo):
    if fx is not None:
      fam, sizes, d = fx
      first = []
    else:
      fam = ["md", "rd", "jm"][i % 3]
      rank = rng.choice([2, 2, 3])
      sizes = [rng.randint(2, 4) for _ in range(rank)]
      d = rng.randrange(rank)
      first = [tuple(rng.sample(range(rank), 2))] if rng.random() < 0.3 else []
    rank = len(sizes)
    mono = [1] * rank if fam != "jm" else [0] * rank
    pairs = first + [(d, d)]
    key = dict(suite="self_pair", fams=fam, kind="must_reject")
    case = dict(cfg=dict(sizes=sizes, mono=mono), fam=fam, d=d, pairs=pairs, fams=["self", fam], kind="must_reject")
    ctx.case(sig=("self_pair", fam, tuple(sizes), d, bool(first)), sample=case)
    builders = [
        ("verify_hyperparameters", lambda: lattice_lib.verify_hyperparameters(
            lattice_sizes=list(sizes), monotonicities=list(mono), **{arg[fam]: list(pairs)})),
        ("LatticeConstraints", lambda: lattice_layer.LatticeConstraints(
            lattice_sizes=list(sizes), monotonicities=list(mono), **{arg[fam]: list(pairs)})),
        # the layer verifies its dominances / joint monotonicities when it is built
        ("Lattice.build", lambda: tfl.layers.Lattice(
            lattice_sizes=list(sizes), monotonicities=list(mono), **{arg[fam]: list(pairs)}).build((None, rank)))]
    for name, build in builders:
      try:
        build()
      except ValueError:
        ctx.count("self_pair_rejected:%s:%s" % (fam, name))
        continue
      except Exception as e:
        ctx.fail("wrong_exception", key, case, classify_exc(e) + ": " + str(e)[:200],
                 "%s must reject the (%d, %d) pair with ValueError" % (name, d, d))
        continue
      ctx.fail("must_reject", key, case, name + " accepted",
               "%s accepts the %s pair (%d, %d)" % (name, arg[fam], d, d))


def layer_cases(ctx, rng):
  """LatticeConstraints.__call__ with joint unimodalities (alone: the `or joint_unimodalities` clause of the
  activity test; and combined) against the model's `lat.constraint`."""
  import tensorflow as tf
  from tensorflow_lattice.python import lattice_layer
  lines, pend = [], []
  for _ in range(ctx.n(16, 200)):
    fams = rng.choice([["ju"], ["ju"], ["mono", "ju"], ["uni", "ju"], ["mono", "ew", "ju"]])
    for _try in range(30):
      cfg = gen_cfg(rng, fams, max_vertices=27)
      if accepted(cfg):
        break
    else:
      continue
    n = int(np.prod(cfg["sizes"]))
    kind, w = c01.gen_kernel(rng, n, 1)
    if kind in ("huge", "tiny"):
      kind, w = "dyadic", [[gen_value(rng, "dyadic")] for _ in range(n)]
    wf = np.array([[float(v) for v in row] for row in w])
    iters = rng.choice([1, 2, 5])
    strict = rng.random() < 0.4
    if rng.random() < 0.4:
      cfg["lo"], cfg["hi"] = Fraction(-1), Fraction(2)
    case = dict(cfg=cfg, kind=kind, iters=iters, w=w, fams=fams, strict=strict)
    key = dict(suite="layer_ju", fams="+".join(fams), kind=kind)
    try:
      cons = lattice_layer.LatticeConstraints(
          lattice_sizes=list(cfg["sizes"]), monotonicities=list(cfg["mono"]),
          unimodalities=list(cfg["uni"]) if any(cfg["uni"]) else None,
          edgeworth_trusts=[tuple(t) for t in cfg["ew"]] or None, trapezoid_trusts=[tuple(t) for t in cfg["tz"]] or None,
          joint_unimodalities=jus_of(cfg), output_min=c01.fl(cfg["lo"]), output_max=c01.fl(cfg["hi"]),
          num_projection_iterations=iters, enforce_strict_monotonicity=strict)
      out = cons(tf.constant(wf, dtype=tf.float64)).numpy()
    except Exception as e:
      ctx.fail("raises", key, case, classify_exc(e) + ": " + str(e)[:200])
      continue
    lines.append(constraint_line(cfg, [r[0] for r in w], iters, strict))
    pend.append((case, key, wf, out))
  replies = run_driver(lines, timeout=900)
  for (case, key, wf, out), r in zip(pend, replies):
    ctx.count("layer_ju:" + key["fams"])
    ctx.case(sig=("layer_ju", key["fams"], case["iters"], case["strict"], hash(wf.tobytes()) % 9973),
             nontrivial=bool(np.any(out != wf)), sample=dict(case=case, out=out))
    if r.startswith("ERR") or r == "bad-op":
      ctx.disagree("LatticeConstraints(joint_unimodalities)", case, out[:, 0], r, "model rejects")
      continue
    ctx.compare("LatticeConstraints(joint_unimodalities)", case, out[:, 0], parse_rats(r), max_abs(wf.ravel()),
                rtol=1e-9)


def pwl_case(ctx, rng):
  import tensorflow as tf
  from tensorflow_lattice.python import pwl_calibration_lib as pl
  n = rng.randint(2, 7)
  units = rng.choice([1, 2])
  mono = rng.choice([1, 1, -1])
  lo = Fraction(rng.randint(-8, 4), 4)
  hi = lo + Fraction(rng.randint(1, 12), 4)
  bmode = rng.choice(["both", "both", "min", "max"])
  omin = lo if bmode in ("both", "min") else None
  omax = hi if bmode in ("both", "max") else None
  w = [[gen_value(rng, rng.choice(["dyadic", "int", "wide"])) for _ in range(units)] for _ in range(n)]
  wf = np.array([[float(v) for v in row] for row in w])
  iters = rng.choice([1, 8, 50, 400, 400])
  key = dict(suite="pwl", fams="mono+bounds", kind="pwl")
  case = dict(n=n, mono=mono, omin=omin, omax=omax, iters=iters, w=w)
  bt = pl.BoundConstraintsType
  try:
    out = pl.project_all_constraints(
        tf.constant(wf, dtype=tf.float64), monotonicity=mono, output_min=None if omin is None else float(omin),
        output_max=None if omax is None else float(omax),
        output_min_constraints=bt.BOUND if omin is not None else bt.NONE,
        output_max_constraints=bt.BOUND if omax is not None else bt.NONE, convexity=0,
        lengths=tf.constant([1.0] * (n - 1), dtype=tf.float64), num_projection_iterations=iters).numpy()
  except Exception as e:
    ctx.fail("raises", key, case, classify_exc(e) + ": " + str(e)[:200])
    return
  ctx.case(sig=("pwl", n, mono, bmode, iters, hash(wf.tobytes()) % 9973), sample=dict(case=case, out=out))
  ctx.count("pwl:" + bmode)
  scale = max_abs(wf.ravel())
  for u in range(units):
    # variables (bias, heights); constraints: mono*h >= 0, lo <= every cumulative output <= hi
    rows, rhs = [], []
    for i in range(1, n):
      r = np.zeros(n)
      r[i] = mono
      rows.append(r)
      rhs.append(0.0)
    for k in ([0, n - 1]):
      r = np.zeros(n)
      r[:k + 1] = 1
      if omin is not None:
        rows.append(r.copy())
        rhs.append(float(omin))
      if omax is not None:
        rows.append(-r)
        rhs.append(-float(omax))
    A, b = np.array(rows), np.array(rhs)
    from scipy.optimize import minimize
    x0 = wf[:, u]
    res = minimize(lambda x: 0.5 * np.sum((x - x0) ** 2), out[:, u].copy(), jac=lambda x: x - x0,
                   constraints=[{"type": "ineq", "fun": lambda x: A @ x - b, "jac": lambda x: A}], method="SLSQP",
                   options={"maxiter": 500, "ftol": 1e-14})
    feasible_in = (A @ x0 - b).min() >= 0
    if feasible_in and float(np.max(np.abs(out[:, u] - x0))) > 1e-9 * scale:
      ctx.fail("fixpoint", key, case, out, "feasible PWL kernel moved")
    if (A @ res.x - b).min() < -1e-7 * scale:
      ctx.notes.append("PWL QP infeasible result; skipped")
      continue
    d_out = float(np.sum((out[:, u] - x0) ** 2))
    d_qp = float(np.sum((res.x - x0) ** 2))
    if iters >= 400 and d_out > d_qp + 1e-6 * scale * scale and float(np.max(np.abs(out[:, u] - res.x))) > 2e-4 * scale:
      ctx.fail("nearest_point", key, case, dict(out=out[:, u], qp=res.x), "PWL mono+bounds not nearest: %g vs %g" % (d_out, d_qp))


def replay(ctx, failure):
  case = failure["case"]
  key = failure["key"]
  if key.get("suite") in ("dykstra", "convergence"):
    cfg = case["cfg"]
    for k in ("ew", "tz", "md", "rd", "jm"):
      cfg[k] = [tuple(t) for t in cfg[k]]
    cfg["ju"] = [(tuple(d), dr) for d, dr in cfg.get("ju", [])]
    w = [[Fraction(v) for v in row] for row in case["w"]]
    wf = np.array([[float(v) for v in row] for row in w])
    if key["suite"] == "convergence":
      convergence_case(ctx, cfg, case["fams"], case["kind"], w, wf)
      return
    try:
      out, err = real_dykstra(cfg, wf, case["iters"]), None
    except Exception as e:
      out, err = None, classify_exc(e)
    n, units = wf.shape
    lines = [model_line(cfg, [w[i][u] for i in range(n)], case["iters"]) for u in range(units)]
    case["cfg"] = cfg
    finish(ctx, lines, [(case, wf, out, err, units)])
  elif key.get("suite") == "self_pair":
    self_pair_cases(ctx, ctx.rng, fixed=(case["fam"], list(case["cfg"]["sizes"]), case["d"]))
  elif key.get("suite") == "joint_unimodality":
    dims, spelling = case["jus"][0]
    joint_unimodality_case(ctx, ctx.rng, fixed=(list(case["cfg"]["sizes"]), list(dims), spelling))
  else:
    ctx.notes.append("replay of suite %s: rerun the check with the recorded seed" % key.get("suite"))
