"""C02: Lattice output = hypercube / simplex interpolation, inheriting kernel shape.
Tie: tfl.layers.Lattice(...)(x), lattice_lib.evaluate_with_{hypercube,simplex}_interpolation and
lattice_lib.compute_interpolation_weights vs Tfl.LatticeEval.{evalHypercube, evalSimplex, hypercubeWeights}.
Oracle (on the REAL outputs): independent numpy multilinear / sorted-simplex references, vertex
reproduction, range, pairwise monotonicity on cumulative-max kernels, Edgeworth mixed differences
(hypercube), hypercube/simplex agreement on vertices and axis-parallel edges."""
import itertools, math
import numpy as np
from fractions import Fraction
from common import *

RULE = ("cases drawn from one PRNG: lattice shape class (all-2 rank 1-6, mixed sizes 2-4, runs of equal sizes, "
        "rank 8/9 all-2 = matmul path), units 1-3, entry (Lattice layer / lattice_lib functions), input form "
        "(tensor / list of tensors), clip_inputs, extra batch dimension, kernel kind (dyadic/int/wide/tiny/huge, "
        "monotone by cumulative max along one axis, Edgeworth between two RANDOM distinct axes by double cumulative sum of "
        "non-negative increments, negated for the 'negative' trust direction), point kinds (interior, face, vertex, axis-parallel edge, tied fractions, outside, "
        "outermost edge, arbitrary doubles, doubles next to integers); BOTH interpolations are evaluated on "
        "every point. One evaluation = one (point, unit, interpolation). Non-trivial = the point is not a "
        "vertex (a genuine interpolation) or lies outside the range; distinct = distinct (shape class, entry, "
        "form, clip, interpolation, point kind, tie pattern of the fractional parts, in-range flag, unit).")
ASSUMPTIONS = ["float64 layers (dtype='float64'); rounding tolerance 1e-9*scale against the model, 1e-7*scale in the oracle",
               "EXPLICIT EXCLUSION, class `outside:clip_off_out_of_range`: inputs with clip_inputs=False and a coordinate "
               "outside [0, size-1] are outside property C02 (it interpolates 'the cell containing the point, with "
               "out-of-range coordinates clipped onto the lattice when clip_inputs is on' and bounds 'in-range or clipped "
               "inputs'; an unclipped out-of-range point has no containing cell). They ARE generated (~8% of the "
               "evaluations) and compared with the model (including the InvalidArgument of an out-of-bounds gather "
               "in the simplex code); the reference / vertex / range / monotonicity / Edgeworth / convex-weights / "
               "schemes-agree clauses are evaluated on EVERY in-range or clipped point and on no other "
               "(counters `scope:*`, `clause:*`; `outside:…:would-violate-*` counts how often the excluded points "
               "actually break a clause: the exclusion is necessary, Props/C02Outside.lean). Groups (monotone pairs, "
               "Edgeworth quads) with at least one excluded member are counted as `outside:…:group-*`",
               "|inputs| < 2^20 (tf.cast(float64 -> int32) is only defined inside the int32 range)"]

KERNEL_KINDS = ["dyadic", "dyadic", "int", "int", "wide", "tiny", "huge", "mono", "mono", "mono", "edge"]
POINT_KINDS = ["interior", "interior", "face", "vertex", "axisedge", "tied", "outside", "outer", "double", "nearint"]


# ------------------------------------------------------------------ generators
def gen_sizes(rng, big):
  if big:
    return "all2big", [2] * rng.choice([8, 9])
  cls = rng.choice(["all2", "all2", "mixed", "mixed", "runs", "runs", "rank1"])
  if cls == "all2":
    return cls, [2] * rng.randint(1, 6)
  if cls == "rank1":
    return cls, [rng.randint(2, 5)]
  if cls == "mixed":
    while True:
      s = [rng.randint(2, 4) for _ in range(rng.randint(2, 4))]
      if not all(v == 2 for v in s):
        return cls, s
  while True:  # runs of equal sizes, e.g. [3,3,2,2,2,4]
    s = []
    for _ in range(rng.randint(1, 3)):
      s += [rng.randint(2, 4)] * rng.randint(1, 3)
    if 2 <= len(s) <= 5 and int(np.prod(s)) <= 600 and not all(v == 2 for v in s) and \
        any(s[i] == s[i + 1] for i in range(len(s) - 1)):
      return cls, s


def gen_coord(rng, n, kind):
  """one coordinate for a dimension of size n (Fraction)."""
  top = n - 1
  if kind == "interior":
    return Fraction(rng.randint(0, 8 * top), 8)
  if kind == "int":
    return Fraction(rng.randint(0, top))
  if kind == "outside":
    c = rng.random()
    if c < 0.4:
      return Fraction(-rng.randint(1, 24), 8)
    if c < 0.8:
      return top + Fraction(rng.randint(1, 24), 8)
    return Fraction(rng.choice([-1, 1]) * rng.randint(100, 100000) * 2 + 1, 2)
  if kind == "outer":
    return Fraction(top)
  if kind == "double":
    return Fraction(rng.uniform(-0.25, top + 0.25))
  if kind == "nearint":
    j = rng.randint(0, top)
    return Fraction(float(j) + rng.choice([-1, 1]) * rng.choice([1e-12, 1e-9, 2.0 ** -30]))
  raise ValueError(kind)


def gen_point(rng, sizes, kind):
  r = len(sizes)
  if kind == "interior":
    return [gen_coord(rng, n, "interior") for n in sizes]
  if kind == "vertex":
    return [gen_coord(rng, n, "int") for n in sizes]
  if kind == "face":
    x = [gen_coord(rng, n, "interior") for n in sizes]
    for d in rng.sample(range(r), rng.randint(1, r)):
      x[d] = gen_coord(rng, sizes[d], "int")
    return x
  if kind == "axisedge":
    x = [gen_coord(rng, n, "int") for n in sizes]
    d = rng.randrange(r)
    x[d] = gen_coord(rng, sizes[d], rng.choice(["interior", "interior", "double"]))
    return x
  if kind == "tied":
    fr_ = [Fraction(rng.randint(0, 8), 8) for _ in range(rng.randint(1, 2))]
    x = []
    for n in sizes:
      f = rng.choice(fr_)
      j = rng.randint(0, n - 2)
      x.append(j + f)
    return x
  if kind == "outside":
    x = [gen_coord(rng, n, rng.choice(["interior", "int", "outside"])) for n in sizes]
    d = rng.randrange(r)
    x[d] = gen_coord(rng, sizes[d], "outside")
    return x
  if kind == "outer":
    x = [gen_coord(rng, n, rng.choice(["interior", "int"])) for n in sizes]
    for d in rng.sample(range(r), rng.randint(1, r)):
      x[d] = Fraction(sizes[d] - 1)
    return x
  if kind == "double":
    return [gen_coord(rng, n, "double") for n in sizes]
  if kind == "nearint":
    x = [gen_coord(rng, n, rng.choice(["interior", "double"])) for n in sizes]
    for d in rng.sample(range(r), rng.randint(1, r)):
      x[d] = gen_coord(rng, sizes[d], "nearint")
    return x
  raise ValueError(kind)


def gen_kernel(rng, sizes, units):
  """returns (kind, aux, K) with K an (n, units) array of Fractions (object dtype)."""
  n = int(np.prod(sizes))
  kind = rng.choice(KERNEL_KINDS)
  if len(sizes) < 2 and kind == "edge":
    kind = "mono"
  base = rng.choice(VALUE_KINDS) if kind in ("mono", "edge") else kind
  if base == "huge" and kind == "edge":
    base = "dyadic"
  K = np.empty((n, units), dtype=object)
  for i in range(n):
    for u in range(units):
      K[i, u] = gen_value(rng, base)
  aux = None
  if kind == "mono":
    d = rng.randrange(len(sizes))
    aux = d
    for u in range(units):
      a = K[:, u].reshape(sizes)
      a = np.maximum.accumulate(a, axis=d)
      K[:, u] = a.reshape(-1)
  elif kind == "edge":
    m, c = rng.sample(range(len(sizes)), 2)
    sign = -1 if rng.random() < 0.35 else 1          # -1: the trust direction "negative" (kernel negated)
    aux = (m, c, sign)
    for u in range(units):
      a = K[:, u].reshape(sizes)
      inc = np.vectorize(lambda v: abs(v), otypes=[object])(a)
      inc = np.cumsum(np.cumsum(inc, axis=m), axis=c)  # mixed second differences = |.| >= 0
      # + arbitrary functions of (m, rest) and of (c, rest): do not change mixed differences
      am = np.take(a, [0], axis=c)
      ac = np.take(a, [0], axis=m)
      K[:, u] = (sign * (inc + am + ac)).reshape(-1)
  return kind, aux, K


# ------------------------------------------------------------------ independent references
def in_range(sizes, x):
  return all(0 <= v <= n - 1 for v, n in zip(x, sizes))


def clip_pt(sizes, x):
  return [min(max(v, Fraction(0)), Fraction(n - 1)) for v, n in zip(x, sizes)]


def ref_multilinear(sizes, Knd, x):
  """Multilinear interpolation over the 2^d corners of the cell containing x (exact Fractions)."""
  lower = [min(int(math.floor(v)), n - 2) for v, n in zip(x, sizes)]
  t = [v - l for v, l in zip(x, lower)]
  out = Fraction(0)
  for corner in itertools.product((0, 1), repeat=len(sizes)):
    w = Fraction(1)
    for c, td in zip(corner, t):
      w *= td if c else 1 - td
      if w == 0:
        break
    if w != 0:
      out += w * Knd[tuple(l + c for l, c in zip(lower, corner))]
  return out


def ref_simplex(sizes, Knd, x):
  """Sorted-simplex interpolation: walk from the lower corner, raising coordinates in the order of
  decreasing fractional part; weights are the gaps between consecutive sorted fractions."""
  lower = [min(int(math.floor(v)), n - 2) for v, n in zip(x, sizes)]
  t = [v - l for v, l in zip(x, lower)]
  order = sorted(range(len(sizes)), key=lambda i: -t[i])
  idx = list(lower)
  out = (1 - t[order[0]]) * Knd[tuple(idx)]
  for k, i in enumerate(order):
    idx[i] += 1
    nxt = t[order[k + 1]] if k + 1 < len(order) else Fraction(0)
    if t[i] - nxt != 0:
      out += (t[i] - nxt) * Knd[tuple(idx)]
  return out


def tie_pattern(sizes, x):
  fr_ = sorted(v - math.floor(v) for v in x)
  return "".join("=" if fr_[i] == fr_[i + 1] else "<" for i in range(len(fr_) - 1))


# ------------------------------------------------------------------ real calls
def to_input(Xf, form, rank):
  import tensorflow as tf
  if form == "list":
    return [tf.constant(Xf[..., d:d + 1]) for d in range(rank)]
  return tf.constant(Xf)


def call_real(entry, interp, sizes, units, clip, form, Kf, Xf):
  """Xf: batch_dims + ([units] if units > 1) + [rank]; returns array batch_dims + [units]."""
  import tensorflow as tf
  import tensorflow_lattice as tfl
  from tensorflow_lattice.python import lattice_lib
  inp = to_input(Xf, form, len(sizes))
  if entry == "layer":
    layer = tfl.layers.Lattice(lattice_sizes=list(sizes), units=units, interpolation=interp,
                               clip_inputs=clip, dtype="float64")
    if form == "list":
      layer.build([t.shape for t in inp])
    else:
      layer.build(inp.shape)
    layer.kernel.assign(Kf)
    return layer(inp).numpy()
  fn = (lattice_lib.evaluate_with_hypercube_interpolation if interp == "hypercube"
        else lattice_lib.evaluate_with_simplex_interpolation)
  return fn(inputs=inp, kernel=tf.constant(Kf), units=units, lattice_sizes=list(sizes),
            clip_inputs=clip).numpy()


def eval_points(cfg, interp, Kf, Xf):
  """Returns (P, units) object array: float or 'ERR ...' per (point, unit). Xf: (P, units, rank)."""
  sizes, units = cfg["sizes"], cfg["units"]
  P = Xf.shape[0]

  def shaped(X):
    X = X if units > 1 else X[:, 0, :]
    if cfg["batch2"]:
      X = X.reshape((2, X.shape[0] // 2) + X.shape[1:])
    return X

  out = np.empty((P, units), dtype=object)
  try:
    y = call_real(cfg["entry"], interp, sizes, units, cfg["clip"], cfg["form"], Kf, shaped(Xf))
    want = ((2, P // 2) if cfg["batch2"] else (P,)) + (units,)
    if tuple(y.shape) != want:
      out[:, :] = "ERR Shape:%s" % (tuple(y.shape),)
      return out
    out[:, :] = y.reshape(P, units)
    return out
  except Exception as e:  # classify per point (one bad gather index kills the whole batch)
    first = classify_exc(e)
  for p in range(P):
    for u in range(units):
      # a batch of one point; for units > 1 the other units get the same point
      X1 = np.repeat(Xf[p:p + 1, u:u + 1, :], units, axis=1)
      X1 = X1 if units > 1 else X1[:, 0, :]
      try:
        y = call_real(cfg["entry"], interp, sizes, units, cfg["clip"], cfg["form"], Kf, X1)
        out[p, u] = float(y.reshape(units)[u])
      except Exception as e:
        out[p, u] = classify_exc(e)
  return out


# ------------------------------------------------------------------ case generation
def gen_case(ctx, big=False):
  rng = ctx.rng
  cls, sizes = gen_sizes(rng, big)
  units = rng.choice([1, 1, 2, 3])
  cfg = dict(cls=cls, sizes=sizes, units=units, entry=rng.choice(["layer", "lib"]),
             form=rng.choice(["tensor", "list"]), clip=rng.random() < 0.6, batch2=rng.random() < 0.3)
  kkind, aux, K = gen_kernel(rng, sizes, units)
  rank = len(sizes)
  P = rng.choice([4, 6, 8]) if not big else 4
  pts = []  # list of (kind, group, [x per unit])
  g = 0
  while len(pts) < P:
    kind = rng.choice(POINT_KINDS)
    if kkind == "mono" and len(pts) + 2 <= P and rng.random() < 0.8:
      # a pair differing in exactly ONE coordinate (the monotone axis), x_d < x_d'
      d = aux
      a, b = [], []
      for u in range(units):
        x = gen_point(rng, sizes, kind)
        y = list(x)
        k2 = rng.choice(["interior", "int", "double", "outside", "outer", "nearint"])
        y[d] = gen_coord(rng, sizes[d], k2)
        if y[d] < x[d]:
          x, y = y, x
        a.append(x)
        b.append(y)
      pts.append((kind, ("mono", g, 0), a))
      pts.append((kind, ("mono", g, 1), b))
      g += 1
    elif kkind == "edge" and len(pts) + 4 <= P and rng.random() < 0.8:
      m, c = aux[0], aux[1]
      quad = [[], [], [], []]
      for u in range(units):
        x = gen_point(rng, sizes, kind)
        xm = sorted([x[m], gen_coord(rng, sizes[m], rng.choice(["interior", "int", "double", "outside"]))])
        xc = sorted([x[c], gen_coord(rng, sizes[c], rng.choice(["interior", "int", "double", "outside"]))])
        for q, (im, ic) in enumerate([(0, 0), (1, 0), (0, 1), (1, 1)]):
          y = list(x)
          y[m], y[c] = xm[im], xc[ic]
          quad[q].append(y)
      for q in range(4):
        pts.append((kind, ("edge", g, q), quad[q]))
      g += 1
    else:
      pts.append((kind, None, [gen_point(rng, sizes, kind) for _ in range(units)]))
  return dict(cfg=cfg, kkind=kkind, aux=aux, K=[[K[i, u] for u in range(units)] for i in range(K.shape[0])],
              pts=[dict(kind=k, group=grp, x=xs) for k, grp, xs in pts])


def lines_for(case):
  cfg = case["cfg"]
  sizes, units = cfg["sizes"], cfg["units"]
  lines = []
  for p in case["pts"]:
    for u in range(units):
      col = frl([row[u] for row in case["K"]])
      xs = frl(p["x"][u])
      lines.append("late.hyper %s %d %s %s %s" % (cfg["form"], int(cfg["clip"]), il(sizes), col, xs))
      lines.append("late.simplex %d %s %s %s" % (int(cfg["clip"]), il(sizes), col, xs))
  # compute_interpolation_weights on the first point of unit 0
  lines.append("late.weights %s %d %s %s" % (cfg["form"], int(cfg["clip"]), il(sizes), frl(case["pts"][0]["x"][0])))
  return lines


def run_real(case):
  import tensorflow as tf
  from tensorflow_lattice.python import lattice_lib
  cfg = case["cfg"]
  sizes, units = cfg["sizes"], cfg["units"]
  Kf = np.array([[float(v) for v in row] for row in case["K"]], dtype=np.float64)
  Xf = np.array([[[float(v) for v in x] for x in p["x"]] for p in case["pts"]], dtype=np.float64)
  real = {interp: eval_points(cfg, interp, Kf, Xf) for interp in ("hypercube", "simplex")}
  x0 = Xf[0:1, 0, :]
  try:
    w = lattice_lib.compute_interpolation_weights(to_input(x0, cfg["form"], len(sizes)), list(sizes),
                                                  clip_inputs=cfg["clip"]).numpy().reshape(-1)
  except Exception as e:
    w = classify_exc(e)
  return Kf, Xf, real, w


# ------------------------------------------------------------------ compare + oracle
def check_case(ctx, case, real_pack, replies):
  cfg = case["cfg"]
  sizes, units, clip = cfg["sizes"], cfg["units"], cfg["clip"]
  Kf, Xf, real, wreal = real_pack
  rank = len(sizes)
  kscale = max_abs(Kf.ravel())
  ccls = "%s:%s:%s:clip%d" % (cfg["cls"], cfg["entry"], cfg["form"], int(clip))
  ctx.count("shape:" + cfg["cls"])
  ctx.count("cfg:%s:%s:clip%d:units%d:batch2=%d" % (cfg["entry"], cfg["form"], int(clip), units, int(cfg["batch2"])))
  ctx.count("kernel:" + case["kkind"])
  fast = all(s == 2 for s in sizes) and cfg["form"] == "tensor"
  ctx.count("hyper-path:" + ("fast-all2" if fast else ("bucketised" if cfg["form"] == "tensor" else "list")) +
            (":matmul" if rank > 7 else ""))
  ctx.count("simplex-path:" + ("all2-nofloor" if all(s == 2 for s in sizes) else "floor"))
  key = dict(cls=cfg["cls"], entry=cfg["entry"], form=cfg["form"], clip=clip, kernel=case["kkind"])
  Knd = [np.array([row[u] for row in case["K"]], dtype=object).reshape(sizes) for u in range(units)]
  pos = 0
  vals = {}
  for pi, p in enumerate(case["pts"]):
    for u in range(units):
      x = p["x"][u]
      inr = in_range(sizes, x)
      defined = clip or inr
      xc = clip_pt(sizes, x) if clip else x
      xmag = 1.0
      if not defined:
        for v in x:
          xmag *= 1.0 + abs(float(v))
      scale = kscale * xmag
      for interp in ("hypercube", "simplex"):
        r = real[interp][pi, u]
        m = replies[pos]
        pos += 1
        ctx.count("point:%s:%s" % (p["kind"], "in" if inr else ("clipped" if clip else "outside-unclipped")))
        ctx.count("scope:" + ("in_range" if inr else ("clipped" if clip else "outside:clip_off_out_of_range")))
        if not defined:
          ctx.count("outside:clip_off_out_of_range")
        sig = (ccls, interp, p["kind"], tie_pattern(sizes, xc), inr, u)
        nontrivial = any(v.denominator != 1 for v in xc) or not inr
        ctx.case(sig=sig, nontrivial=nontrivial,
                 sample=dict(cfg=cfg, interp=interp, x=x, real=r, model=m) if pi == 0 and u == 0 else None)
        sub = dict(case, pts=[p], focus=dict(interp=interp, unit=u))
        suite = "lattice.%s.%s" % (cfg["entry"], interp)
        if isinstance(r, str) or m.startswith("ERR"):
          ctx.count("error:%s:%s" % (interp, m if m.startswith("ERR") else "real-only"))
          if r == m:
            ctx.agree(suite)
          else:
            ctx.disagree(suite, sub, r, m, "error class differs")
          if isinstance(r, str) and defined:
            ctx.fail("raises", dict(key, interp=interp), sub, r, "in-range/clipped input raises")
          if isinstance(r, str) and not defined:
            ctx.count("outside:clip_off_out_of_range:raises:" + r.replace(" ", "_"))
          continue
        ctx.compare(suite, sub, [r], [Fraction(m)], scale, rtol=1e-9)
        vals[(pi, u, interp)] = float(r)
        if not defined:
          # outside the property: model == real was compared above; record (informative) that the excluded
          # point does break the clauses, i.e. that the exclusion is not vacuous
          lo, hi = float(min(Knd[u].reshape(-1))), float(max(Knd[u].reshape(-1)))
          if float(r) < lo - 1e-7 * kscale or float(r) > hi + 1e-7 * kscale:
            ctx.count("outside:clip_off_out_of_range:would-violate-range")
          continue
        ctx.count("clause:evaluated:" + interp)
        k2 = dict(key, interp=interp, point=p["kind"])
        tol = 1e-7 * kscale
        if not math.isfinite(float(r)):
          ctx.fail("finite", k2, sub, r)
          continue
        ref = (ref_multilinear if interp == "hypercube" else ref_simplex)(sizes, Knd[u], xc)
        if abs(float(r) - float(ref)) > tol:
          ctx.fail("reference", k2, sub, r, "independent %s reference gives %r" % (interp, float(ref)))
        if all(v.denominator == 1 for v in xc):
          kv = Knd[u][tuple(int(v) for v in xc)]
          if abs(float(r) - float(kv)) > 1e-9 * kscale:
            ctx.fail("vertex", k2, sub, r, "kernel value at the vertex is %r" % float(kv))
        lo, hi = float(min(Knd[u].reshape(-1))), float(max(Knd[u].reshape(-1)))
        if float(r) < lo - tol or float(r) > hi + tol:
          ctx.fail("range", k2, sub, r, "[min K, max K] = [%r, %r]" % (lo, hi))
      # hypercube / simplex agreement on vertices and axis-parallel edges
      if defined and sum(1 for v in xc if v.denominator != 1) <= 1:
        a, b = vals.get((pi, u, "hypercube")), vals.get((pi, u, "simplex"))
        ctx.count("agree-check")
        if a is not None and b is not None and abs(a - b) > 1e-7 * kscale:
          ctx.fail("schemes-agree", dict(key, point=p["kind"]), dict(case, pts=[p]), [a, b],
                   "hypercube and simplex differ on a vertex / axis-parallel edge")
  # compute_interpolation_weights
  m = replies[pos]
  pos += 1
  if isinstance(wreal, str) or m.startswith("ERR"):
    if wreal == m:
      ctx.agree("lattice.compute_interpolation_weights")
    else:
      ctx.disagree("lattice.compute_interpolation_weights", case, wreal, m)
  else:
    x0 = case["pts"][0]["x"][0]
    sc = 1.0
    if not (clip or in_range(sizes, x0)):
      for v in x0:
        sc *= 1.0 + abs(float(v))
    ctx.compare("lattice.compute_interpolation_weights", dict(case, pts=case["pts"][:1]), wreal, parse_rats(m), sc)
    if not (clip or in_range(sizes, x0)):
      ctx.count("outside:clip_off_out_of_range:weights")
      if float(np.min(wreal)) < -1e-9 or abs(float(np.sum(wreal)) - 1.0) > 1e-9:
        ctx.count("outside:clip_off_out_of_range:would-violate-convex-weights")
    if clip or in_range(sizes, x0):
      ctx.count("clause:evaluated:convex-weights")
      if float(np.min(wreal)) < -1e-9 or abs(float(np.sum(wreal)) - 1.0) > 1e-9:
        ctx.fail("convex-weights", key, dict(case, pts=case["pts"][:1]), wreal,
                 "weights must be >= 0 and sum to 1 (min %r, sum %r)" % (float(np.min(wreal)), float(np.sum(wreal))))
      # "a convex combination of the CELL's corner values": no weight outside the 2^rank corners of the cell that
      # contains the (clipped) point (C02_T2_weights_vanish_off_cell)
      xc0 = clip_pt(sizes, x0) if clip else x0
      lower = [min(int(math.floor(v)), n - 2) for v, n in zip(xc0, sizes)]
      wnd = np.array(wreal, dtype=np.float64).reshape(sizes).copy()
      wnd[tuple(slice(l, l + 2) for l in lower)] = 0.0
      ctx.count("clause:evaluated:cell-support")
      if float(np.max(np.abs(wnd))) > 1e-12:
        ctx.fail("cell-support", key, dict(case, pts=case["pts"][:1]), wreal,
                 "a vertex that is not a corner of the cell with lower corner %r carries weight %g" % (
                     lower, float(np.max(np.abs(wnd)))))
  # grouped clauses: monotone pairs, Edgeworth quads
  groups = {}
  for pi, p in enumerate(case["pts"]):
    if p["group"] is not None:
      groups.setdefault((p["group"][0], p["group"][1]), {})[p["group"][2]] = pi
  for (gk, _), members in groups.items():
    for u in range(units):
      xs = [case["pts"][members[q]]["x"][u] for q in sorted(members)]
      if not all(clip or in_range(sizes, x) for x in xs):
        # outside the property (a member is unclipped and out of range); informative: does it break the clause?
        ctx.count("outside:clip_off_out_of_range:group-" + gk)
        if gk == "mono":
          for interp in ("hypercube", "simplex"):
            v = [vals.get((members[q], u, interp)) for q in sorted(members)]
            if all(t is not None for t in v) and v[0] > v[1] + 1e-7 * kscale:
              ctx.count("outside:clip_off_out_of_range:would-violate-monotonicity:" + interp)
        continue
      ctx.count("clause:group-evaluated:" + gk)
      for interp in ("hypercube", "simplex"):
        v = [vals.get((members[q], u, interp)) for q in sorted(members)]
        if any(t is None for t in v):
          # every member is in range or clipped, so a missing value is a raise / model error already
          # reported as `raises` / disagreement above; never silent
          ctx.count("clause:group-missing-value")
          continue
        tol = 1e-7 * kscale
        sub = dict(case, pts=[case["pts"][members[q]] for q in sorted(members)], focus=dict(interp=interp, unit=u))
        if gk == "mono":
          ctx.count("mono-pair:" + interp)
          if v[0] > v[1] + tol:
            ctx.fail("monotonicity", dict(key, interp=interp), sub, v,
                     "kernel non-decreasing along axis %d, x_d %s < %s but output decreases by %g" % (
                         case["aux"], fr(xs[0][case["aux"]]), fr(xs[1][case["aux"]]), v[0] - v[1]))
        elif gk == "edge" and interp == "hypercube":
          sign = case["aux"][2] if len(case["aux"]) > 2 else 1
          ctx.count("edgeworth-quad:" + ("positive" if sign > 0 else "negative"))
          ctx.count("edgeworth-axes:" + ("leading(0,1)" if tuple(case["aux"][:2]) == (0, 1) else "other"))
          # points: (m,c), (m',c), (m,c'), (m',c'); direction "negative": the effect must not INCREASE
          if sign * ((v[3] - v[2]) - (v[1] - v[0])) < -4 * tol:
            ctx.fail("edgeworth", dict(key, interp=interp), sub, v,
                     "effect of the main feature %s in the conditional feature by %g (trust direction %s)" % (
                         "decreases" if sign > 0 else "increases", abs((v[1] - v[0]) - (v[3] - v[2])),
                         "positive" if sign > 0 else "negative"))
  return pos


def run(ctx):
  ncase = ctx.n(400, 8000)
  nbig = ctx.n(6, 60)
  cases = [gen_case(ctx) for _ in range(ncase)] + [gen_case(ctx, big=True) for _ in range(nbig)]
  lines, packs = [], []
  for case in cases:
    lines += lines_for(case)
    packs.append(run_real(case))
  replies = run_driver(lines)
  pos = 0
  for case, pack in zip(cases, packs):
    pos += check_case(ctx, case, pack, replies[pos:])


def _unjson_case(case):
  case = dict(case)
  case["K"] = [[Fraction(v) for v in row] for row in case["K"]]
  pts = []
  for p in case["pts"]:
    p = dict(p)
    p["x"] = [[Fraction(v) for v in x] for x in p["x"]]
    p["group"] = None if p["group"] is None else tuple(p["group"])
    pts.append(p)
  case["pts"] = pts
  if isinstance(case.get("aux"), list):
    case["aux"] = tuple(case["aux"])
  case.pop("focus", None)
  return case


def replay(ctx, failure):
  """Re-executes one recorded failing case (its points only) on the current tree."""
  case = _unjson_case(failure["case"])
  case["cfg"] = dict(case["cfg"], batch2=False)
  pack = run_real(case)
  check_case(ctx, case, pack, run_driver(lines_for(case)))
