"""C15: conditional calibration and CDF functions are bounded and monotone by construction.
Tie: REAL tfl.conditional_pwl_calibration.pwl_calibration_fn / tfl.conditional_cdf.cdf_fn / tfl.layers.CDF on
free-form parameter tensors vs the Lean model Tfl.Alt (ops alt.pwlfn / alt.pwlderived / alt.cdflayer / alt.cdffn).
Oracle (on the REAL outputs only): every clause of C15 -- bounds, pairwise monotonicity (one input perturbed),
clamp ends, cyclic ends, missing, output_param_size bookkeeping, documented call forms accepted; CDF / cdf_fn in
[0, 1] (geometric mean in [eps, 1+eps]) and non-decreasing in every input for non-negative scaling."""
import math
import numpy as np
from fractions import Fraction
from common import *
from props import c14 as alt

RULE = ("one PRNG. pwl main stream: 2-7 keypoints, units 1-3, none/increasing, all clamp_min/clamp_max/is_cyclic/"
        "missing (none, derived, fixed) combinations, all documented parameter shapes incl. omitted interior keypoints, "
        "parameters zero/small/dyadic/|p|<=12, float32 + float64; inputs on the derived keypoints, between, outside, "
        "far outside, at the missing value; shared-parameter cases carry the pairwise clauses. call-forms stream: the "
        "documented unit-broadcast forms of keypoint_output_parameters with units>1, plus invalid configurations "
        "incl. keypoint_input_min == keypoint_input_max (model and code must reject alike); the (batch, 1, size) form must "
        "be accepted and equal the hand-tiled call. huge stream: |param| 1e3..1e4 (oracle only, F-C15-b). degenerate "
        "stream: num_keypoints = 0 for CDF / cdf_fn (both and the model must reject); sparsity_factor 0 / negative for "
        "CDF / cdf_fn (both and the model must raise ValueError); input_dim = 0 (NaN for mean / geometric_mean: "
        "F-C15-f; model: no numbers). cdf stream: input dims 1-6, "
        "sparsity 1-3, 1-4 keypoints, relu6/sigmoid, mean/none/geometric_mean, fixed/learned_shared/learned_per_input "
        "scaling with raw (possibly negative) values pushed through the layer's constraint; cdf_fn with None / "
        "broadcast / exp-transformed scaling; every base point paired with copies raising ONE input.")
ASSUMPTIONS = ["float32 bounds carry 1e-6*magnitude slack; monotonicity / equality clauses carry the rounding allowance "
               "rtol*magnitude plus the ramp-conditioning term of C14",
               "softmax / sigmoid are TF's floats handed to the model as tables; theorems hold for every positive "
               "softmax-like / monotone [0,1]-valued sigmoid-like function",
               "float32 softmax underflow (|param| >~ 1e2) is outside the rational model: finding F-C15-b",
               "geometric mean: oracle only (exp/log are not rational); its bounds / monotonicity are proved over the reals",
               "rank-2 keypoint_output_parameters with units > 1 are rejected by design (error message + the repo's own "
               "test_suite_raises pin it) although the docstring lists the form: counted as a class whose expected outcome "
               "is that ValueError (theorem C15_T3_accepted_iff states the accepted forms); the rank-3 form "
               "with a unit axis of size 1 is accepted since ab7779b (fixed F-C15-c) and part of the main stream",
               "a FIXED missing_output_value is returned verbatim, also outside [keypoint_output_min, keypoint_output_max] "
               "(by design: upstream's test expects 3.0 with the range [0, 1]): clause missing_fixed_exact (exact equality), "
               "the bounds clause applies to it iff the configured value lies in the range"]

EPS, RTOL = alt.EPS, alt.RTOL
PER_CLASS = 25      # recorded failures per (key, clause): one systematic class must not exhaust the evidence buffer


def fail(ctx, clause, key, case, observed, detail=""):
  seen = ctx.__dict__.setdefault("_c15_seen", {})
  k = (clause,) + tuple(sorted(key.items()))
  seen[k] = seen.get(k, 0) + 1
  ctx.count("oracle-failures:%s:%s:%s" % (key.get("fn"), key.get("cls"), clause))
  if seen[k] <= PER_CLASS:
    ctx.fail(clause, key, case, observed, detail)


# ================================================================================ pwl_calibration_fn
def pwl_key(case):
  cls = {"main": "main", "huge": "softmax_underflow", "forms": "units_broadcast_output_params",
         "invalid": "invalid_configuration"}[case["stream"]]
  return dict(fn="pwl_calibration_fn", cls=cls)


def missing_output(case, real, b, u):
  if case["miss"] == "fixed":
    return float(case["mov"])
  p = alt.out_rows(case, b)[u][-1]
  d = alt.npd(case["dtype"])
  return float(d(d(float(case["omin"])) + d(float(real["sg"][p])) * d(float(case["omax"] - case["omin"]))))


def oracle_pwl(ctx, case, real):
  key = pwl_key(case)
  dtype = case["dtype"]
  eps, rtol = EPS[dtype], RTOL[dtype]
  y = real["y"]
  B, units, n = case["B"], case["units"], case["n"]
  omin, omax = float(case["omin"]), float(case["omax"])
  imin, imax = float(case["imin"]), float(case["imax"])
  mag = max_abs([omin, omax])
  slack = 1e-6 * mag if dtype == "float32" else 1e-12 * mag
  shared = case["in_batch"] == 1 and case["out_batch"] == 1
  # ---- shape / bookkeeping of the derived parameters
  if tuple(y.shape) != (B, units):
    fail(ctx, "shape", key, case, list(y.shape), "expected (%d, %d)" % (B, units))
    return
  if real["kernel"].shape[-1] != n or real["deltas"].shape[-1] != n - 1:
    fail(ctx, "output_param_size", key, case, [list(real["deltas"].shape), list(real["kernel"].shape)],
             "derived kernel must have one entry per keypoint (%d), deltas one per piece" % n)
  if not np.all(np.isfinite(y)):
    bad = np.argwhere(~np.isfinite(y))[0]
    fail(ctx, "finite", key, case, y, "non-finite output at example %d unit %d x=%r" % (
        bad[0], bad[1], float(case["x"][bad[1] if case["cols"] > 1 else 0][bad[0]])))
    return
  for u in range(units):
    xs = [float(v) for v in case["x"][u if case["cols"] > 1 else 0]]
    miss = [case["miv"] is not None and x == float(case["miv"]) for x in xs]
    tols = []
    for b in range(B):
      x, kps, kb = alt.pwl_example_view(case, real, b, u)
      tols.append(8 * rtol * mag + (0.0 if miss[b] else 2 * alt.cond_tol(x, kps, kb[1:], eps)))
    for b in range(B):
      yb = float(y[b, u])
      if miss[b]:
        ctx.count("pwl-x:missing")
        mo = missing_output(case, real, b, u)
        if abs(yb - mo) > 8 * rtol * max_abs([mo, mag]):
          fail(ctx, "missing", key, case, yb, "unit %d: missing input %r must map to the missing output %r" % (u, xs[b], mo))
        if case["miss"] == "fixed":
          # an explicit class, not an exemption: a user-fixed missing_output_value is returned VERBATIM (tf.fill with the
          # Python float; theorem C15_T1_fixed_missing_exact) -- exact equality in the call's dtype, inside the output
          # range or not. Outside the range it is accepted BY DESIGN (upstream's conditional_pwl_calibration_test calls
          # pwl_calibration_fn with the default range [0, 1] and missing_output_value=3.0 and expects 3.0), so the bounds
          # clause below applies iff the configured value lies in the range.
          want = float(alt.npd(dtype)(float(case["mov"])))
          inside = omin <= want <= omax
          ctx.count("pwl-x:missing-fixed:%s" % ("inside-range" if inside else "outside-range"))
          if yb != want:
            fail(ctx, "missing_fixed_exact", key, case, yb,
                 "unit %d: missing input %r must return missing_output_value=%r exactly" % (u, xs[b], want))
          if not inside:
            continue
        else:
          ctx.count("pwl-x:missing-derived")
      if yb < omin - slack or yb > omax + slack:
        fail(ctx, "bounds", key, case, yb, "unit %d x=%r outside [%r, %r] (slack %g)" % (u, xs[b], omin, omax, slack))
      if miss[b]:
        continue
      if case["clamp_min"] and xs[b] <= imin:
        ctx.count("pwl-x:clamp-min-end")
        if abs(yb - omin) > tols[b]:
          fail(ctx, "clamp_min", key, case, yb, "unit %d x=%r <= keypoint_input_min: expected %r" % (u, xs[b], omin))
      if case["clamp_max"] and xs[b] >= imax:
        ctx.count("pwl-x:clamp-max-end")
        if abs(yb - omax) > tols[b]:
          fail(ctx, "clamp_max", key, case, yb, "unit %d x=%r >= keypoint_input_max: expected %r" % (u, xs[b], omax))
    if not shared:
      continue
    pts = sorted((xs[b], float(y[b, u]), tols[b]) for b in range(B) if not miss[b])
    if case["mono"] == "increasing":
      run_max, run_x = -math.inf, None
      for x, v, t in pts:
        if v < run_max - t - slack:
          fail(ctx, "monotone", key, case, [run_max, v], "unit %d: f(%r)=%r > f(%r)=%r" % (u, run_x, run_max, x, v))
        if v > run_max:
          run_max, run_x = v, x
      ctx.count("pwl-pairs:monotone", len(pts) * (len(pts) - 1) // 2)
    if case["cyclic"]:
      lo = [(x, v, t) for x, v, t in pts if x <= imin]
      hi = [(x, v, t) for x, v, t in pts if x >= imax]
      for x0, v0, t0 in lo:
        for x1, v1, t1 in hi:
          ctx.count("pwl-pairs:cyclic")
          if abs(v0 - v1) > t0 + t1:
            fail(ctx, "cyclic", key, case, [v0, v1], "unit %d: f(%r)=%r but f(%r)=%r" % (u, x0, v0, x1, v1))


def check_pwl(ctx, case, real, replies):
  cls = alt.pwl_cls(case)
  key = pwl_key(case)
  ctx.count("pwl:%s:%s:%s" % (case["stream"], case["dtype"], case["mono"]))
  ctx.count("pwl-mode:%s%s%s:miss-%s" % ("cmin" if case["clamp_min"] else "", "cmax" if case["clamp_max"] else "",
                                       "cyc" if case["cyclic"] else "", case["miss"]))
  ctx.count("pwl-forms:in-%s/%s:out-%s/%s:n%d" % (case["in_form"], "B" if case["in_batch"] > 1 else "1",
                                                  case["out_form"], "B" if case["out_batch"] > 1 else "1",
                                                  2 if case["n"] == 2 else 3))
  if real["err"]:
    fail(ctx, "call_forms", key, case, real["err"], "documented call form rejected")
    ctx.case(sig=("pwl", cls, "err"), sample=case)
    return
  if case["stream"] == "main":
    alt.compare_pwlfn_model(ctx, case, real, replies, suite="alt.pwlfn")
  oracle_pwl(ctx, case, real)
  y = real["y"]
  ctx.case(sig=("pwl", cls, case["in_kind"], case["out_kind"], alt.ohash(np.nan_to_num(y))),
           nontrivial=bool(np.all(np.isfinite(y))) and float(np.ptp(y)) > 0, sample=dict(case=case, y=y))


# ---------------------------------------------------------------- call forms / invalid configurations
def gen_forms(rng):
  """documented unit-broadcast forms with units > 1 (clause call_forms), else an invalid configuration"""
  case = alt.gen_pwlfn(rng, shared_only=True)
  case["dtype"] = "float32"
  case["x"] = None
  kind = rng.choice(["unit_bcast", "unit_bcast", "invalid"])
  case["forms_kind"] = kind
  if kind == "unit_bcast":
    case["stream"] = "forms"
    case["units"] = rng.randint(2, 3)
    case["cols"] = rng.choice([1, case["units"]])
    case["out_form"] = rng.choice(["r2", "r3_1"])
    case["out_params"] = [[case["out_params"][0][0]]]
    if case["in_params"] is not None:
      case["in_params"] = [[case["in_params"][0][0]]]
      case["in_form"] = rng.choice(["r2", "r3_1"])
    return case
  case["stream"] = "invalid"
  bad = rng.choice(["none_clamp", "inc_cyclic", "omin_gt_omax", "imin_gt_imax", "zero_input_range",
                    "zero_input_range", "mov_without_miv", "out_size", "input_cols", "units_rows"])
  case["bad"] = bad
  if bad == "none_clamp":
    case["mono"], case["clamp_min"] = "none", True
  elif bad == "inc_cyclic":
    case["mono"], case["cyclic"] = "increasing", True
  elif bad == "omin_gt_omax":
    case["omin"], case["omax"] = case["omax"] + 1, case["omin"]
  elif bad == "imin_gt_imax":
    case["imin"], case["imax"] = case["imax"], case["imin"]
  elif bad == "zero_input_range":
    case["imax"] = case["imin"]
  elif bad == "mov_without_miv":
    case["miv"], case["mov"], case["miss"] = None, Fraction(1, 2), "none"
  elif bad == "out_size":
    d = rng.choice([-1, 1])
    case["out_params"] = [[(r + [Fraction(0)]) if d > 0 else r[:-1] for r in ex] for ex in case["out_params"]]
    if any(len(r) == 0 for ex in case["out_params"] for r in ex):
      case["out_params"] = [[[Fraction(0)] * (alt.pwl_out_size(case) + 1) for _ in ex] for ex in case["out_params"]]
  elif bad == "input_cols":
    case["cols"] = case["units"] + rng.randint(1, 2)
  elif bad == "units_rows":
    case["units"] = case["units"] + 1
    case["cols"] = 1
    case["out_form"] = "r3_u"
    if case["in_form"] == "r3_u":
      case["in_form"] = "r3_1"
      case["in_params"] = [[case["in_params"][0][0]]]
  return case


def run_forms(case, rng):
  tf = alt.quiet_tf()
  from tensorflow_lattice.python import conditional_pwl_calibration as cp
  sm, sg = alt.pwl_tables(tf, case)
  if case["x"] is None:
    lo, hi = case["imin"], case["imax"]
    case["x"] = [[alt.q32(min(lo, hi) + abs(hi - lo) * Fraction(rng.randint(0, 8), 8)) for _ in range(case["B"])]
                 for _ in range(case["cols"])]
  x, kin, kout = alt.pwl_tensors(tf, case)
  real = dict(sm=sm, sg=sg)
  try:
    y = cp.pwl_calibration_fn.python_function(x, kin, kout, **alt.pwl_kwargs(case))
    real.update(y=y.numpy(), err=None)
    if case["forms_kind"] == "unit_bcast" and case["out_form"] == "r3_1":
      # the same call with the parameter row tiled over units by hand
      real["tiled"] = cp.pwl_calibration_fn.python_function(
          x, kin, tf.tile(kout, [1, case["units"], 1]), **alt.pwl_kwargs(case)).numpy()
  except Exception as e:
    real.update(y=None, err=classify_exc(e))
  rows = [[col[b] for col in case["x"]] for b in range(case["B"])]
  line = "alt.pwlfn %s %s %d %s %s %s" % (alt.cfg_tokens(case), alt.in_rows_token(case, 0), case["out_form"] != "r2",
                                         frl2(case["out_params"][0]), frl2(rows), alt.table_tokens(sm, sg))
  return [line], real


def check_forms(ctx, case, real, replies):
  model = replies[0] if replies[0].startswith("ERR") else "ok"
  realr = real["err"] or "ok"
  ctx.count("pwl-forms-stream:%s:%s" % (case["forms_kind"], case.get("bad", case["out_form"])))
  if model != realr:
    ctx.disagree("alt.pwlfn.errors", case, realr, model, "accept / reject")
  else:
    ctx.agree("alt.pwlfn.errors")
  if case["forms_kind"] == "unit_bcast":
    if case["out_form"] == "r3_1":
      if real["err"]:
        fail(ctx, "call_forms", pwl_key(case), case, real["err"],
             "documented form keypoint_output_parameters (batch, 1, size) with units=%d rejected" % case["units"])
      elif real["y"].shape != real["tiled"].shape or not np.array_equal(real["y"], real["tiled"]):
        fail(ctx, "call_forms", pwl_key(case), case, dict(broadcast=real["y"], tiled=real["tiled"]),
             "broadcast over units differs from the hand-tiled parameters")
      else:
        ctx.count("pwl-forms:unit-broadcast-equals-tiling")
    else:
      # rank-2 parameters with units > 1: rejected on purpose -- ValueError("... should be 3 dimensional when units > 1"),
      # pinned by upstream's conditional_pwl_calibration_test.test_suite_raises (units=3 with the rank-2 kernel_4 must
      # raise); the docstring lists (1, P) / (batch, P) without saying "units == 1", its broadcast rule "(1 or batch, 1
      # or units, P)" does. Theorem C15_T3_accepted_iff / C15_T3_documented_output_forms: accepted iff units <= 1.
      # Counted as its own class; anything but that ValueError is reported.
      ctx.count("pwl-forms:rank2-with-units>1:%s" % (real["err"] or "accepted"))
      if real["err"] != "ERR ValueError":
        fail(ctx, "call_forms", dict(fn="pwl_calibration_fn", cls="rank2_output_params_units_gt_1"), case,
             real["err"] or "accepted", "rank-2 keypoint_output_parameters with units=%d: the documented outcome is the "
             "ValueError 'should be 3 dimensional when units > 1'" % case["units"])
  if case["forms_kind"] == "invalid" and not real["err"]:
    if case.get("bad") == "zero_input_range" and not np.all(np.isfinite(real["y"])):
      fail(ctx, "finite", dict(fn="pwl_calibration_fn", cls="zero_input_range"), case, real["y"],
           "keypoint_input_min == keypoint_input_max accepted and NaN returned")
    ctx.notes.append("invalid configuration accepted: %s" % case.get("bad"))
  ctx.case(sig=("pwl-forms", case["forms_kind"], case.get("bad"), case["out_form"], case["units"], realr), sample=case)


# ================================================================================ CDF
def cdf_key(which, case, cls="main"):
  return dict(fn=which, cls=cls)


def raise_one(rng, X, I):
  """for every base row a copy with ONE input raised"""
  out, which = [], []
  for row in X:
    d = rng.randrange(I)
    r2 = list(row)
    r2[d] = r2[d] + Fraction(rng.randint(1, 24), 8)
    out.append(r2)
    which.append(d)
  return out, which


def gen_cdf(rng):
  case = alt.gen_cdf(rng, with_geo=True)
  base = case["X"]
  up, which = raise_one(rng, base, case["I"])
  case["X"] = base + up
  case["raised"] = which
  case["nbase"] = len(base)
  case["B"] = len(case["X"])
  if case["sshape"] is not None and case["sshape"][0] != 1:
    # per-example scaling: base row and its raised copy share their parameters
    per = int(np.prod(case["sshape"][1:]))
    case["sshape"] = (case["B"],) + tuple(case["sshape"][1:])
    case["sc"] = (case["sc"] + case["sc"])[:per * case["nbase"]]
    case["sc"] = case["sc"] + case["sc"]
  if case["loc_batch"] > 1:
    case["loc_batch"] = case["B"]
    extra = case["loc_extra"]                       # nbase - 1 extra examples -> duplicate for the raised copies
    case["loc_extra"] = extra + [case["kernel"]] + extra
  return case


def eff_scaling_nonneg(case, real):
  """does the configuration PROMISE non-negative scaling?"""
  if case["stype"] == "fixed":
    return case["init"] >= 0
  return case["smono"] == "increasing"


def oracle_cdf(ctx, case, which, y, eps, nonneg, key):
  nb = case["nbase"]
  slack = 2e-6
  lo, hi = (eps - slack, 1 + eps + slack) if case["red"] == "geometric_mean" else (-slack, 1 + slack)
  if not np.all(np.isfinite(y)):
    fail(ctx, "finite", key, case, y, "%s returns non-finite values" % which)
    return
  if float(np.min(y)) < lo or float(np.max(y)) > hi:
    fail(ctx, "bounds", key, case, [float(np.min(y)), float(np.max(y))], "%s outputs must lie in [%g, %g]" % (which, lo, hi))
  if nonneg:
    d = y[nb:] - y[:nb]
    ctx.count("cdf-pairs:%s" % which, nb)
    if float(np.min(d)) < -4e-6:
      b = int(np.argwhere(d < -4e-6)[0][0])
      fail(ctx, "monotone", key, case, [y[b].tolist(), y[nb + b].tolist()],
               "%s: raising input %d of example %d lowers an output" % (which, case["raised"][b], b))
  else:
    ctx.count("cdf-pairs-skipped:%s" % which)


def check_cdf(ctx, case, real, replies):
  cls = alt.cdf_cls(case)
  ctx.count("cdf:%s:%s:f%d:%s:%s" % (case["act"], case["red"], case["f"], case["stype"], case["smono"]))
  ctx.count("cdf-fn-scaling:" + case["fmode"])
  if real["err"]:
    fail(ctx, "raises", cdf_key("CDF", case), case, real["err"], "valid CDF / cdf_fn configuration rejected")
    ctx.case(sig=("cdf", cls, "err"), sample=case)
    return
  alt.compare_cdf_model(ctx, case, real, replies)
  oracle_cdf(ctx, case, "CDF", real["layer"], 1e-3, eff_scaling_nonneg(case, real), cdf_key("CDF", case))
  oracle_cdf(ctx, case, "cdf_fn", real["fn_layer"], 1e-8, eff_scaling_nonneg(case, real), cdf_key("cdf_fn", case))
  if "fn_own" in real:
    nonneg = real["fn_scaling"] is None or float(np.min(real["fn_scaling"])) >= 0
    oracle_cdf(ctx, case, "cdf_fn", real["fn_own"], 1e-8, nonneg, cdf_key("cdf_fn", case))
  ctx.case(sig=("cdf", cls, case["fmode"], alt.ohash(real["layer"])), nontrivial=float(np.ptp(real["layer"])) > 0,
           sample=dict(case=case, layer=real["layer"]))


# ---------------------------------------------------------------- degenerate configurations
def gen_zero_keypoints(rng):
  I, U = rng.randint(1, 3), rng.randint(1, 2)
  X = [[Fraction(rng.randint(-8, 8), 8) for _ in range(I)] for _ in range(3)]
  return dict(stream="zero_keypoints", I=I, U=U, X=X)


def run_zero_keypoints(case):
  """CDF(num_keypoints=0) and cdf_fn without basis functions: rejected up front (575725d / 4d4b844), like the model"""
  tf = alt.quiet_tf()
  import tensorflow_lattice as tfl
  from tensorflow_lattice.python import conditional_cdf as cc
  I, U = case["I"], case["U"]
  X = np.array([[float(v) for v in row] for row in case["X"]], dtype=np.float32)
  real = {}
  for which, f in (("CDF", lambda: tfl.layers.CDF(num_keypoints=0, units=U)(tf.constant(X)).numpy()),
                   ("cdf_fn", lambda: cc.cdf_fn.python_function(tf.constant(X), tf.zeros((1, I, 0, U)), units=U).numpy())):
    try:
      real[which] = ("ok", f())
    except Exception as e:
      real[which] = (classify_exc(e), None)
  lines = ["alt.cdflayer relu6 mean 1 %d 0 %d 0 1 _ %s" % (U, U, frl2(case["X"])),
           "alt.cdffn relu6 mean 1 %d 0 %d none none none _ _ %s" % (U, U, frl(case["X"][0]))]
  return lines, real


def check_zero_keypoints(ctx, case, real, replies):
  for which, reply in zip(("CDF", "cdf_fn"), replies):
    status, y = real[which]
    model = reply if reply.startswith("ERR") else "ok"
    if model != status:
      ctx.disagree("alt.cdf.errors", dict(case, which=which), status, model, "accept / reject without keypoints")
    else:
      ctx.agree("alt.cdf.errors")
    if status == "ok" and not np.all(np.isfinite(y)):
      fail(ctx, "finite", dict(fn=which, cls="zero_keypoints"), dict(case, which=which), y,
           "num_keypoints = 0 is accepted and returns NaN")
    ctx.count("zero-keypoints:%s:%s" % (which, status))
  ctx.case(sig=("cdf-zero-keypoints", case["I"], case["U"]), nontrivial=False, sample=case)


# ================================================================================ driver of the run
def do_case(case, rng=None):
  s = case.get("stream")
  if s == "zero_keypoints":
    return run_zero_keypoints(case)
  if s in ("forms", "invalid"):
    return run_forms(case, rng)
  if case.get("pair") == "cdf-degenerate":
    return alt.run_cdf_degenerate(case)
  if case.get("pair") == "cdffn-layer":
    real = alt.run_cdf(case)
    return alt.cdf_lines(case, real), real
  real = alt.run_pwlfn(case, rng)
  lines = alt.pwlfn_lines(case, real) if (not real["err"] and s == "main") else []
  return lines, real


def check_any(ctx, case, real, replies):
  s = case.get("stream")
  if s == "zero_keypoints":
    return check_zero_keypoints(ctx, case, real, replies)
  if s in ("forms", "invalid"):
    return check_forms(ctx, case, real, replies)
  if case.get("pair") == "cdf-degenerate":
    # sparsity_factor < 1: must be a ValueError (fixed F-C14-a); input_dim = 0: NaN breaks "in [0, 1]" (F-C15-f)
    return alt.check_cdf_degenerate(ctx, case, real, replies, keyf=lambda which, cls: dict(fn=which, cls=cls),
                                    fail=lambda *a, **k: fail(ctx, *a, **k), c15=True)
  if case.get("pair") == "cdffn-layer":
    return check_cdf(ctx, case, real, replies)
  return check_pwl(ctx, case, real, replies)


def run(ctx):
  rng = ctx.rng
  cases = []
  for _ in range(ctx.n(420, 8000)):
    c = alt.gen_pwlfn(rng, shared_only=rng.random() < 0.5)
    cases.append(c)
  for _ in range(ctx.n(60, 600)):
    cases.append(gen_forms(rng))
  for _ in range(ctx.n(24, 300)):
    c = alt.gen_pwlfn(rng, stream="huge", shared_only=True)
    c["entry"] = "python"
    cases.append(c)
  for _ in range(ctx.n(3, 12)):
    cases.append(gen_zero_keypoints(rng))
  for _ in range(ctx.n(20, 200)):
    cases.append(alt.gen_cdf_degenerate(rng))
  for _ in range(ctx.n(260, 5000)):
    cases.append(gen_cdf(rng))
  items, lines = [], []
  for case in cases:
    ls, real = do_case(case, rng)
    items.append((case, real, len(ls)))
    lines += ls
  replies = run_driver(lines)
  pos = 0
  for case, real, k in items:
    check_any(ctx, case, real, replies[pos:pos + k])
    pos += k
  bad = [r for r in replies if r == "bad-op"]
  if bad:
    ctx.disagree("driver.bad-op", {}, None, None, "%d malformed op lines" % len(bad))


def replay(ctx, failure):
  case = alt.unjson(failure["case"])
  if case.get("stream") == "zero_range":      # witnesses recorded before ff5f96e: now an invalid configuration
    case.update(stream="invalid", forms_kind="invalid", bad="zero_input_range")
  import random
  ls, real = do_case(case, random.Random(0))
  check_any(ctx, case, real, run_driver(ls) if ls else [])
